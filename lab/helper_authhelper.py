#!/usr/bin/env python3
"""Scripted squid helper for the C46/C47 end-to-end checks (trusted lab stub, not part of the model).

  helper_authhelper.py script <dir>
      url_rewrite_program / external_acl_type helper. The scenario id is taken from the first request line
      (.../h47x<sid>x/...); <dir>/<sid>.json holds the script: a list of steps
         ["wait", k]      block until k request lines have been received in total
         ["w", "<hex>"]   write exactly these bytes to stdout with ONE write(2)
         ["sleep", s]     sleep s seconds
      After the last step the helper exits (squid then starts a fresh process - channel ids restart at 1 - for the
      next scenario). Every received line and every write is appended to <dir>/<sid>.log.

  helper_authhelper.py auth <dir>
      auth_param basic program (concurrent protocol: "<id> <user> <password>"). The verdict and the latency are
      written in the password itself: "ok-<ms>-<anything>" => "<id> OK" after <ms> milliseconds,
      "no-<ms>-<anything>" => "<id> ERR" after <ms> ms; anything else => ERR at once. Log: <dir>/auth.log.
"""
import heapq, json, os, re, select, sys, time


def log(path, msg):
    try:
        with open(path, "a") as f:
            f.write("%.3f %s\n" % (time.time(), msg))
    except OSError:
        pass


class LineReader:
    def __init__(self):
        self.buf = b""
        self.eof = False

    def fill(self, timeout):
        r, _, _ = select.select([0], [], [], timeout)
        if r:
            d = os.read(0, 65536)
            if not d:
                self.eof = True
            self.buf += d

    def pop(self):
        if b"\n" in self.buf:
            l, self.buf = self.buf.split(b"\n", 1)
            return l
        return None


def run_script(d):
    rd = LineReader()
    got = []
    steps = None
    logp = os.path.join(d, "early.log")
    i = 0
    deadline = time.time() + 30
    while time.time() < deadline:
        if steps is not None and i >= len(steps):
            break
        if steps is not None:
            st = steps[i]
            if st[0] == "w":
                data = bytes.fromhex(st[1])
                os.write(1, data)
                log(logp, "write %s" % st[1])
                i += 1
                continue
            if st[0] == "sleep":
                time.sleep(st[1])
                i += 1
                continue
            if st[0] == "wait" and len(got) >= st[1]:
                i += 1
                continue
        # need more input
        l = rd.pop()
        if l is None:
            if rd.eof:
                log(logp, "eof")
                return
            rd.fill(0.5)
            continue
        got.append(l)
        if steps is None:
            m = re.search(rb"h47x(\w+?)x", l)
            if m:
                sid = m.group(1).decode()
                logp = os.path.join(d, sid + ".log")
                try:
                    steps = json.load(open(os.path.join(d, sid + ".json")))
                except Exception as ex:
                    log(logp, "no script: %r" % ex)
                    steps = []
        log(logp, "recv %s" % l.decode("latin1"))
    log(logp, "exit")


def run_auth(d):
    rd = LineReader()
    logp = os.path.join(d, "auth.log")
    due = []
    seq = 0
    while True:
        now = time.time()
        while due and due[0][0] <= now:
            _, _, out = heapq.heappop(due)
            os.write(1, out)
            log(logp, "reply %r" % out)
        l = rd.pop()
        if l is None:
            if rd.eof:
                return
            rd.fill(max(0.0, min(0.5, due[0][0] - time.time())) if due else 0.5)
            continue
        log(logp, "recv %r" % l)
        parts = l.split(b" ")
        if len(parts) < 3:
            os.write(1, (parts[0] if parts else b"0") + b" BH message=\"bad request line\"\n")
            continue
        cid, user, pw = parts[0], parts[1], parts[2]
        m = re.match(rb"(ok|no)-(\d+)-", pw)
        if m:
            verdict = b"OK" if m.group(1) == b"ok" else b"ERR"
            delay = int(m.group(2)) / 1000.0
        else:
            verdict, delay = b"ERR", 0.0
        seq += 1
        heapq.heappush(due, (time.time() + delay, seq, cid + b" " + verdict + b"\n"))


def main():
    mode, d = sys.argv[1], sys.argv[2]
    if mode == "script":
        # tells the driver that a fresh helper process (channel ids restart at 1) is ready
        try:
            open(os.path.join(d, "started.%d" % os.getpid()), "w").close()
        except OSError:
            pass
        try:
            run_script(d)
        except BrokenPipeError:
            pass
    elif mode == "auth":
        run_auth(d)


main()
