"""C32: HTML quoting neutralises markup and is reversible."""
import itertools, re
from vlib import std, hbuild

PID = "C32"
META = {
    "text": "Theorems (Properties_C32.v, closed under the global context) state for ALL byte strings that html_quote's output decomposes into non-markup bytes and well-formed entity references (no raw < > \" ' &), and that a strict reference HTML character-reference decoder maps it back to the quoted C string. html_quote is modelled as a per-byte map whose 256-entry table is regenerated from src/html/Quoting.cc on every run; the proofs are re-checked against that table. The model is tied to the code by differential runs (all strings over a 16-symbol alphabet up to length 4, random strings up to 16 KB) which also establish that the real function is context-free.",
    "note": "Trusted: Coq kernel, extraction, gen/gen_bytemaps.cc, harness/h_quote.cc; that html_quote is a per-byte map on long strings is validated by correspondence on the generated cases only. squid has no HTML decoder: the decoder is a specification written in Gallina (QuoteModel.html_dec) and, independently, in Python (the oracle).",
    "technique": "Coq proof (sweep over the 256 regenerated table entries by vm_compute + induction on the string through a prefix-cutting lemma for the reference decoder) + extracted-model differential correspondence",
}

# sources compiled from the working tree on every run (C31 and C32 share one harness)
FRESH = ["src/html/Quoting.cc", "lib/rfc1738.cc", "src/anyp/Uri.cc", "src/format/Quoting.cc",
         "src/parser/Tokenizer.cc"]
# testURL's link recipe (src/Makefile) plus html (testHtmlQuote); --gc-sections keeps the list short
LINK = ("tests/stub_HelperChildConfig.o tests/stub_HttpHeader.o tests/stub_HttpRequest.o tests/stub_StatHist.o "
        "String.o tests/stub_access_log.o tests/stub_cbdata.o tests/stub_debug.o tests/stub_libhttp.o "
        "tests/stub_libmem.o anyp/libanyp.la libsquid.la parser/libparser.la base/libbase.la ip/libip.la "
        "sbuf/libsbuf.la ../lib/libmiscencoding.la ../compat/libcompatsquid.la").split()


def impl(sanitize="asan"):
    return hbuild.build("h_quote", "h_quote.cc", fresh=FRESH, link=LINK, sanitize=sanitize)


def prebuild():
    impl()


def hx(b):
    return bytes(b).hex() if len(b) else "-"


def unhx(h):
    return b"" if h == "-" else bytes.fromhex(h)


def cstr(b):
    k = b.find(b"\0")
    return b if k < 0 else b[:k]


# 16 symbols: the five metacharacters, the characters entity references are made of, raw
# whitespace that passes unquoted, control / DEL / 8-bit bytes that get numeric references
ALPHABET = b"<>\"'&;#xlt1\n\x1f\x7f\xff "
assert len(set(ALPHABET)) == 16
INTERESTING = [b"<script>alert('x')</script>", b"&lt;", b"&amp;lt;", b"&#60;", b"a&b;c", b"\"onload='x'",
               b"&", b"&&", b";&#", b"<!--", b"]]>", b"\r\n\t", bytes(range(1, 256)), bytes(range(255, 0, -1))]


def rand_string(rng, maxlen):
    k = rng.random()
    n = rng.choice([0, 1, 2, 3, 5, 8, 13, 40, 100]) if k < 0.8 else rng.randrange(0, maxlen + 1)
    mode = rng.random()
    if mode < 0.35:
        return bytes(rng.choice(ALPHABET) for _ in range(n))
    if mode < 0.7:
        return bytes(rng.randrange(1, 256) for _ in range(n))
    if mode < 0.8:
        return bytes(rng.randrange(0, 256) for _ in range(n))          # may contain NUL: the C string ends there
    parts = []
    while sum(map(len, parts)) < n:
        parts.append(rng.choice(INTERESTING) if rng.random() < 0.5 else bytes(rng.randrange(32, 127) for _ in range(rng.randrange(1, 9))))
    return b"".join(parts)[:max(n, 1)]


def gen_cases(rng, n):
    cases = []
    for k in range(0, 5):                                           # exhaustive small scope, every run
        for t in itertools.product(ALPHABET, repeat=k):
            cases.append("html " + hx(bytes(t)))
    for s in INTERESTING:
        cases.append("html " + hx(s))
    for c in range(256):                                            # every single byte, and in context
        cases.append("html " + hx(bytes([c])))
        cases.append("html " + hx(bytes([97, c, 60, c])))
    big = max(n // 100, 20)
    for _ in range(big):                                            # up to 16 KB
        cases.append("html " + hx(rand_string(rng, 16384)))
        cases.append("html " + hx(bytes(rng.randrange(1, 256) for _ in range(rng.choice([4096, 16383, 16384])))))
    for _ in range(n):
        cases.append("html " + hx(rand_string(rng, 300)))
    for _ in range(n // 10):
        cases.append("mime " + hx(rand_string(rng, 300)))            # dumped-only table: context-freeness
    return cases


REF = re.compile(rb"&(lt|gt|amp|quot|apos|#[0-9]{1,7}|#[xX][0-9a-fA-F]{1,6});")
NAMED = {b"lt": 60, b"gt": 62, b"amp": 38, b"quot": 34, b"apos": 39}


def html_decode_strict(q):
    """independent strict decoder: returns (bytes, None) or (None, reason)"""
    out = bytearray()
    i = 0
    while i < len(q):
        c = q[i]
        if c in b"<>\"'":
            return None, "raw markup metacharacter %r at offset %d of the quoted form" % (chr(c), i)
        if c == 38:
            m = REF.match(q, i)
            if not m:
                return None, "raw '&' that does not start an entity reference at offset %d" % i
            name = m.group(1)
            if name in NAMED:
                v = NAMED[name]
            elif name[1:2] in (b"x", b"X"):
                v = int(name[2:], 16)
            else:
                v = int(name[1:], 10)
            if v > 255:
                return None, "numeric reference %d is not a byte" % v
            out.append(v)
            i = m.end()
        else:
            out.append(c)
            i += 1
    return bytes(out), None


def oracle(case, out):
    a = case.split()
    if out.startswith(("CRASH", "EXC", "ERR")) or "BAD-" in out:
        return ("oracle:crash", "implementation crashed / threw: " + out[:200])
    if a[0] != "html":
        return None
    try:
        q = unhx(out.strip())
    except ValueError:
        return ("oracle:unparsable", "unparsable implementation output %r" % out[:100])
    want = cstr(unhx(a[1]))
    dec, why = html_decode_strict(q)
    if dec is None:
        return ("oracle:raw-markup", why)
    if dec != want:
        return ("oracle:not-reversible", "decoding the entity references of the quoted form gives %s, not the original %s"
                % (hx(dec)[:80], hx(want)[:80]))
    return None


def mutate(rng, case):
    a = case.split()
    b = bytearray(unhx(a[-1]))
    if b and rng.random() < 0.8:
        b[rng.randrange(len(b))] = rng.choice(list(ALPHABET) + [rng.randrange(1, 256)])
    else:
        b.insert(rng.randrange(len(b) + 1), rng.choice(ALPHABET))
    a[-1] = hx(b)
    return " ".join(a)


def kind(c, o):
    a = c.split()
    if a[0] != "html":
        return a[0]
    return "html:escaped" if o != a[1] else "html:verbatim"


def run(res, tier):
    res.rule = ("all strings over the 16-symbol alphabet < > \" ' & ; # x l t 1 LF 0x1f DEL 0xff SP up to length 4 "
                "(69905), every byte alone and in context, markup samples, random strings up to 16 KB (some with NUL); "
                "a case is non-trivial when at least one byte was replaced by an entity reference")
    std.run_standard(res, PID, tier, area="quote", build_impl=impl, gen_cases=gen_cases, oracle=oracle,
                     corr_name="QuoteModel.html_quote (table from gen_bytemaps) vs src/html/Quoting.cc",
                     gens=["bytemaps"], n_quick=4000, n_thorough=200000, seed_salt=32, mutate=mutate,
                     kind_fn=kind, nontrivial_fn=lambda c, o: o != c.split()[1])
