(* Properties_C18.v — C18: collapsed forwarding: one upstream fetch, identical copies.
   Statements only; proofs live in SmpProofs.v (lock, anchor population) and SmpProtoProofs.v (protocol).

   Vocabulary (SmpModel.v):
     step c g e / run c g evs   the collapsing protocol for ONE cache key as a step function over events:
                                EFind ci w (request ci reaches worker w: Store::Controller::find, collapse-or-miss),
                                EStart ci (processMiss: new StoreEntry, allowCollapsing/setPublicKey, origin request),
                                EHdr v n / EData v n / EEnd v / ECut v (origin side of fetch v: header + n body bytes,
                                more bytes, proper end, early close), ESync w (worker w drains its
                                CollapsedForwarding queue: syncCollapsed), EFin ci (client transaction over),
                                EPurge w, EReload ci w.  Events that do not apply are no-ops.
     nf g                       number of origin requests made so far (= versions issued)
     run_scen c s               the canonical schedule of a burst (leader, joiners A before the origin answered,
                                header + first bytes, joiners B, rest + end or early close, late joiners one by one),
                                which checks/c18.py drives through the real squid
     outcome_of c cl            OFull v: client holds a complete copy of origin response v; OTrunc v: its message
                                ended visibly incomplete; OPending / ONone
     pstep1 / prun              any number of processes calling the StoreMap anchor methods in any order *)
Require Import SquidV.Bytes SquidV.RwlockModel SquidV.SmpModel SquidV.SmpProofs SquidV.SmpProtoProofs.
Local Open Scope N_scope.

(* --- origin-request accounting, for ALL event sequences and all object parameters: an event makes an origin request
       iff it is the processMiss (EStart) of a client that missed or must re-forward; no lookup, collapse decision,
       origin data, abort, queue drain, purge or transaction end ever does --- *)
Theorem C18_only_processMiss_contacts_origin : forall c g e,
  nf (step c g e) = nf g + (if starts_fetch g e then 1 else 0).
Proof. exact nf_step. Qed.
Print Assumptions C18_only_processMiss_contacts_origin.

Theorem C18_origin_requests_equal_processMiss_count : forall c evs g,
  nf (run c g evs) = nf g + fetches_started c g evs.
Proof. exact nf_run. Qed.
Print Assumptions C18_origin_requests_equal_processMiss_count.

(* in particular a request that reaches a worker (whatever it finds: local entry, Transients entry with or without a
   writer, memory-cache entry, nothing) does not contact the origin in that step *)
Theorem C18_arrival_step_makes_no_origin_request : forall c g ci w, nf (step c g (EFind ci w)) = nf g.
Proof. exact nf_step_find. Qed.
Print Assumptions C18_arrival_step_makes_no_origin_request.

(* --- at most one writer of the Transients entry (exclusive lock), for any number of processes and any order of
       StoreMap method calls on the anchor; readers coexist with the writer only after its startAppending --- *)
Theorem C18_at_most_one_transient_writer : forall n sched p q, let s := fst (prun (pinit n) sched) in
  p <> q -> isW (hget (ph s) p) = true -> isW (hget (ph s) q) = true -> False.
Proof. exact pop_one_writer. Qed.
Print Assumptions C18_at_most_one_transient_writer.

Theorem C18_readers_only_beside_appending_writer : forall n sched p q, let s := fst (prun (pinit n) sched) in
  hget (ph s) p = HRead -> isW (hget (ph s) q) = true -> hget (ph s) q = HAppend.
Proof. exact pop_reader_only_with_appending_writer. Qed.
Print Assumptions C18_readers_only_beside_appending_writer.

(* --- all arrival orders of a bounded burst (exhaustive; 3 workers, leader at any worker, up to 3 joiners before the
       origin answered and up to 2 after the header + 9000 of 40000 body bytes, each at any worker; length known
       (Content-Length) or not (chunked)), complete cacheable response: exactly ONE origin request, while the fetch is
       in progress and in total (two late joiners included), and every client holds the complete first response --- *)
Theorem C18_burst_one_fetch_identical_copies_bounded : forall known lw A B,
  (lw = 1 \/ lw = 2 \/ lw = 3) ->
  (length A <= 3)%nat -> Forall (fun w => w = 1 \/ w = 2 \/ w = 3) A ->
  (length B <= 2)%nat -> Forall (fun w => w = 1 \/ w = 2 \/ w = 3) B ->
  check_complete true known lw A B = true.
Proof. exact burst_complete_one_fetch. Qed.
Print Assumptions C18_burst_one_fetch_identical_copies_bounded.

(* ... the same bursts when the origin closes after 20000 of 40000 bytes: one origin request while the fetch is in
   progress, and NO client is shown the first response as complete (each ends visibly truncated or, having
   re-forwarded, with the complete response of its own later fetch) *)
Theorem C18_burst_cut_never_presented_complete_bounded : forall known lw A B,
  (lw = 1 \/ lw = 2 \/ lw = 3) ->
  (length A <= 3)%nat -> Forall (fun w => w = 1 \/ w = 2 \/ w = 3) A ->
  (length B <= 2)%nat -> Forall (fun w => w = 1 \/ w = 2 \/ w = 3) B ->
  check_cut true known lw A B = true.
Proof. exact burst_cut_never_complete. Qed.
Print Assumptions C18_burst_cut_never_presented_complete_bounded.

(* --- outside the premise "arrives while a fetch is in progress": two requests at two workers that both look up
       before either has registered its Transients entry both go to the origin; one after the other they share --- *)
Theorem C18_simultaneous_misses_fetch_twice :
  nf (run race_cfg (add_clients g0 2) [EFind 0 1; EFind 1 2; EStart 0; EStart 1]) = 2 /\
  nf (run race_cfg (add_clients g0 2) [EFind 0 1; EStart 0; EFind 1 2; EStart 1]) = 1.
Proof. exact simultaneous_misses. Qed.
Print Assumptions C18_simultaneous_misses_fetch_twice.

(* --- the method-level lock used above is the atomic-operation ReadWriteLock model of property C54 run alone, for
       all 8 methods the anchors use, every writer/appending flag and up to 4 concurrent readers --- *)
Theorem C18_method_level_lock_is_C54_model_bounded : forall r w a, r <= 4 -> bridge_ok (mkL r w a) = true.
Proof. exact lock_bridge_bounded. Qed.
Print Assumptions C18_method_level_lock_is_C54_model_bounded.

(* --- hypotheses are satisfiable / the vocabulary is not vacuous --- *)
Example C18_ex_start_counts : starts_fetch (run race_cfg (add_clients g0 1) [EFind 0 1]) (EStart 0) = true.
Proof. vm_compute. reflexivity. Qed.
Example C18_ex_collapsed_joiner_shares :
  let c := cfg_of true true Pos 1000 in
  let g := run c (add_clients g0 2) [EFind 0 1; EStart 0; EFind 1 2; EHdr 1 400; ESync 2; EData 1 600; EEnd 1; ESync 2] in
  nf g = 1 /\ map (outcome_of c) (cs g) = [OFull 1; OFull 1].
Proof. vm_compute. split; reflexivity. Qed.
Example C18_ex_writer_and_reader :
  let s := fst (prun (pinit 2) [(0, MOpenW); (0, MStartApp); (1, MOpenR)]) in
  hget (ph s) 0 = HAppend /\ hget (ph s) 1 = HRead.
Proof. vm_compute. split; reflexivity. Qed.
