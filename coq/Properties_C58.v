(* Properties_C58.v — C58: IPC messages round-trip and malformed messages are rejected safely.
   Statements only; proofs live in TypedmsgProofs.v.  Model: TypedmsgModel.v (src/ipc/TypedMsgHdr.cc/.h).
   wf m          := data.raw has its declared size (tm_raw_size bytes); nothing is assumed about type_, size,
                    the content or the cursor.
   readable m n  := size <= sizeof(raw) /\ offset <= size /\ n <= size - offset
   segment m n   := the n bytes of data.raw at the cursor;  payload m := raw[0, size).
   TUndef/OUndef := a memcpy range not contained in data.raw (what ASan would report). *)
Require Import SquidV.Bytes SquidV.TypedmsgModel SquidV.TypedmsgProofs.
Require Import SquidV.gen.Typedmsg_gen.
Local Open Scope N_scope.

(* --- the platform facts the model builds in, checked against the constants generated from /repo ------- *)
Theorem C58_layout_constants :
  tm_int_size = 4 /\ tm_little_endian = true /\ tm_int_max = 2147483647%Z /\ tm_int_min = (-2147483648)%Z /\
  tm_raw_size = tm_max_size /\ tm_raw_size <= tm_offset_max /\ tm_raw_size <= tm_size_t_max /\
  int_bytes 1 = [1; 0; 0; 0] /\ int_bytes (-2) = [254; 255; 255; 255].
Proof. exact layout_constants. Qed.
Print Assumptions C58_layout_constants.

(* --- round trip ---------------------------------------------------------------------------------------
   For every non-zero type and every list of int / fixed-or-POD / string fields that fits the buffer:
   setType, the puts, transfer (received byte for byte, or copy-constructed), checkType, the matching gets,
   hasMoreData  answer  ok, ok.., ok, ok, exactly the stored values, false. *)
Theorem C58_roundtrip : forall (transfer : top) t fs,
  transfer = TRecv \/ transfer = TCopy -> t <> 0%Z -> Forall field_ok fs -> lenN (enc_all fs) <= tm_raw_size ->
  outs (fst (tm_run tm_fresh ([TSetType t] ++ map put_op fs ++ [transfer; TCheckType t] ++ map get_op fs ++ [THasMore])))
  = [OOk] ++ repeat OOk (length fs) ++ [OOk; OOk] ++ map val_out fs ++ [OBool false].
Proof. exact roundtrip. Qed.
Print Assumptions C58_roundtrip.

Theorem C58_int_roundtrip : forall z, (tm_int_min <= z <= tm_int_max)%Z -> bytes_int (int_bytes z) = z.
Proof. exact int_roundtrip. Qed.
Print Assumptions C58_int_roundtrip.

(* --- safety: for every buffer and every history, nothing is read or written outside data.raw ----------- *)
Theorem C58_never_outside_buffer : forall ops m, wf m -> Forall reset_ok ops ->
  Forall (fun x => fst (fst x) <> OUndef) (fst (tm_run m ops)) /\ wf (snd (tm_run m ops)).
Proof. exact run_safe. Qed.
Print Assumptions C58_never_outside_buffer.

(* --- getRaw/getFixed/getPod: succeeds exactly when the bytes are inside [offset, size), size <= sizeof(raw);
       then returns exactly those bytes and advances; otherwise throws and changes nothing ----------------- *)
Theorem C58_get_raw_exact : forall m n, wf m -> n <> 0 ->
  (readable m n /\ tm_get_raw m n = (TOk (segment m n), advance m n) /\
   lenN (segment m n) = n /\ t_off m + n <= t_size m /\ t_size m <= lenN (t_raw m)) \/
  (~ readable m n /\ tm_get_raw m n = (TThrow, m)).
Proof. exact get_raw_iff. Qed.
Print Assumptions C58_get_raw_exact.

Theorem C58_get_int_exact : forall m, wf m ->
  (readable m 4 /\ tm_get_int m = (TOk (bytes_int (segment m 4)), advance m 4)) \/
  (~ readable m 4 /\ tm_get_int m = (TThrow, m)).
Proof. exact get_int_iff. Qed.
Print Assumptions C58_get_int_exact.

(* --- getString: throws on a missing, negative, oversized or truncated length ---------------------------- *)
Theorem C58_get_string_exact : forall m, wf m ->
  tm_get_string m =
  match readable_dec m 4 with
  | right _ => (TThrow, m)
  | left _ =>
    let len := bytes_int (segment m 4) in
    let m1 := advance m 4 in
    if (len <? 0)%Z then (TThrow, m1)
    else if (len =? 0)%Z then (TOk [], m1)
    else if (Z.of_N tm_max_size <? len)%Z then (TThrow, m1)
    else match readable_dec m1 (Z.to_N len) with
         | left _ => (TOk (segment m1 (Z.to_N len)), advance m1 (Z.to_N len))
         | right _ => (TThrow, m1)
         end
  end.
Proof. exact get_string_spec. Qed.
Print Assumptions C58_get_string_exact.

(* --- checkType accepts exactly the stored type ---------------------------------------------------------- *)
Theorem C58_check_type_exact : forall m t,
  tm_check_type m t = (if (tm_raw_type m =? t)%Z then TOk tt else TThrow, m).
Proof. exact check_type_spec. Qed.
Print Assumptions C58_check_type_exact.

(* --- putRaw/putFixed/putPod/putInt: appends inside the array or throws and changes nothing -------------- *)
Theorem C58_put_raw_exact : forall m b, wf m -> lenN b <> 0 ->
  (writable m (lenN b) /\ tm_put_raw m b = (TOk tt, appended m b) /\ wf (appended m b) /\
   payload (appended m b) = payload m ++ b /\ t_size m + lenN b <= lenN (t_raw m)) \/
  (~ writable m (lenN b) /\ tm_put_raw m b = (TThrow, m)).
Proof. exact put_raw_iff. Qed.
Print Assumptions C58_put_raw_exact.

Theorem C58_put_string_too_long_rejected : forall m s, tm_max_size < lenN s -> tm_put_string m s = (TThrow, m).
Proof. exact put_string_too_long. Qed.
Print Assumptions C58_put_string_too_long_rejected.

(* --- the received-size check is what this rests on: without it the same read leaves the array ----------- *)
Theorem C58_size_check_is_needed :
  exists m n, wf m /\ fst (tm_get_raw_unchecked m n) = TUndef /\ fst (tm_get_raw m n) = TThrow.
Proof. exact unchecked_reaches_oob. Qed.
Print Assumptions C58_size_check_is_needed.

(* --- the hypotheses are satisfiable by non-trivial values ------------------------------------------------ *)
Definition ex_fields : list field := [FInt (-2); FString [97; 0; 98]; FBytes [1; 2; 3; 4; 5; 6; 7; 8]; FString []; FInt 2147483647].

Example C58_ex_fields_ok : Forall field_ok ex_fields /\ lenN (enc_all ex_fields) = 27 /\ lenN (enc_all ex_fields) <= tm_raw_size.
Proof. split; [repeat constructor; vm_compute; congruence | split; vm_compute; congruence]. Qed.

Example C58_ex_roundtrip :
  outs (fst (tm_run tm_fresh ([TSetType 7] ++ map put_op ex_fields ++ [TRecv; TCheckType 7] ++ map get_op ex_fields ++ [THasMore])))
  = [OOk; OOk; OOk; OOk; OOk; OOk; OOk; OOk; OInt (-2); OBytes [97; 0; 98]; OBytes [1; 2; 3; 4; 5; 6; 7; 8]; OBytes []; OInt 2147483647; OBool false].
Proof. vm_compute. reflexivity. Qed.

(* a received buffer announcing 5000 bytes: every getter throws, none reads *)
Example C58_ex_oversized : wf (tm_received 3 5000 zero_raw) /\
  outs (fst (tm_run (tm_received 3 5000 zero_raw) [TGetFixed 4200; TGetInt; TGetString; TPutInt 1; TCheckType 4; TCheckType 3]))
  = [OThrow; OThrow; OThrow; OThrow; OThrow; OOk].
Proof. split; [apply fresh_wf | vm_compute; reflexivity]. Qed.

(* a string whose length field says -1, 4097, or more than what is left *)
Example C58_ex_bad_lengths :
  outs (fst (tm_run tm_fresh [TReset 3 8 (raw_of 0 0 [255; 255; 255; 255]); TGetString;
                              TReset 3 4096 (raw_of 0 0 [1; 16; 0; 0]); TGetString;
                              TReset 3 8 (raw_of 0 0 [5; 0; 0; 0; 97; 98; 99; 100]); TGetString;
                              TReset 3 8 (raw_of 0 0 [4; 0; 0; 0; 97; 98; 99; 100]); TGetString]))
  = [OOk; OThrow; OOk; OThrow; OOk; OThrow; OOk; OBytes [97; 98; 99; 100]].
Proof. vm_compute. reflexivity. Qed.

Example C58_ex_reset_ok : reset_ok (TReset 3 8 (raw_of 0 0 [4; 0; 0; 0])).
Proof. intros ty sz raw H. inversion H; subst. vm_compute. reflexivity. Qed.
