(* handlers for the pagestack area (C53: Ipc::Mem::PageStack under explicit schedules).
   case:  ps.run <capacity> <F|E> <n> <script_0> .. <script_{n-1}> <schedule>   (see harness/h_pagestack.cc) *)
let op_of_char = function
  | 'o' -> OpPop | 'u' -> OpPushFirst | 'v' -> OpPushLast
  | _ -> failwith "bad-op"
let explode s = if s = "-" then [] else List.init (String.length s) (String.get s)
let show_event (t, e) =
  let ts = string_of_n t in
  match e with
  | EvCallPop -> ts ^ "@o"
  | EvCallPush num -> ts ^ "@u" ^ string_of_n num
  | EvRetPop (Some num) -> ts ^ "o+" ^ string_of_n num
  | EvRetPop None -> ts ^ "o-"
  | EvRetPush num -> ts ^ "u" ^ string_of_n num
  | EvFin -> ts ^ "!"
  | EvCrash -> ts ^ "#"
(* lower-case hex of an N, like std::hex *)
let hex_of_n (x : n) : string =
  let rec bits = function XH -> [1] | XO p -> 0 :: bits p | XI p -> 1 :: bits p in
  match x with
  | N0 -> "0"
  | Npos p ->
    let rec digits = function
      | [] -> []
      | b0 :: rest ->
        let take l = match l with [] -> (0, []) | b :: r -> (b, r) in
        let (b1, r1) = take rest in
        let (b2, r2) = take r1 in
        let (b3, r3) = take r2 in
        (b0 + 2 * b1 + 4 * b2 + 8 * b3) :: digits r3 in
    let ds = List.rev (digits (bits p)) in
    String.concat "" (List.map (fun d -> String.make 1 "0123456789abcdef".[d]) ds)
(* numbers with runs of consecutive values compressed: 2,3,4,9 -> 2-4,9 *)
let show_numbers (l : n list) : string =
  let rec go = function
    | [] -> []
    | lo :: rest ->
      let rec run hi = function
        | x :: r when x = hi + 1 -> run x r
        | r -> (hi, r) in
      let (hi, r) = run lo rest in
      (if hi = lo then string_of_int lo else Printf.sprintf "%d-%d" lo hi) :: go r in
  String.concat "," (go (List.map int_of_n l))
let () =
  reg "ps.run" (fun (caps :: mode :: ns :: rest) ->
      let n = int_of_string ns in
      let capi = int_of_string caps in
      if n < 1 || n > 8 || List.length rest <> n + 1 || capi > 100000 || (mode <> "F" && mode <> "E") then "ERR bad-args" else
      let scripts = List.map (fun s -> List.map op_of_char (explode s)) (List.filteri (fun i _ -> i < n) rest) in
      let sched = List.map (fun c -> n_of_int (Char.code c - 48)) (explode (List.nth rest n)) in
      let capacity = n_of_string caps in
      match run_case capacity (mode = "F") scripts sched with
      | OutCtorCrash -> "CTOR#"
      | OutFuel -> "FUEL"
      | OutRun (st, evs, steps, d) ->
        let log = if evs = [] then "-" else String.concat " " (List.map show_event evs) in
        let c = measure capacity in
        let count = int_of_n (node_count c) in
        let words = List.filteri (fun i _ -> i < count) st.sh.nodes in
        let held = String.concat ";" (List.map (fun th -> show_numbers th.theld) st.ths) in
        let dr = match d with
          | DrainOk l -> show_numbers l
          | DrainCrash l -> show_numbers l ^ "#"
          | DrainFuel -> "FUEL" in
        Printf.sprintf "%s | sz=%s | nodes=%s | held=%s | drain=%s | steps=%s"
          log (string_of_n st.sh.sz) (String.concat "," (List.map hex_of_n words)) held dr (string_of_n steps))
