/* LD_PRELOAD clock shim: adds the signed 64-bit offset (seconds) stored in the file named by
 * VERIF_TIME_FILE (8 bytes, native endian, mmap'ed) to gettimeofday/time/clock_gettime(CLOCK_REALTIME).
 * The check rewrites the file to move Squid's clock without sleeping. */
#define _GNU_SOURCE
#include <dlfcn.h>
#include <fcntl.h>
#include <stdint.h>
#include <stdlib.h>
#include <sys/mman.h>
#include <sys/time.h>
#include <time.h>
#include <unistd.h>

static volatile int64_t *off_ptr;
static int64_t zero;

static int64_t cur(void) {
    if (!off_ptr) {
        const char *p = getenv("VERIF_TIME_FILE");
        off_ptr = &zero;
        if (p) {
            int fd = open(p, O_RDONLY);
            if (fd >= 0) {
                void *m = mmap(0, 8, PROT_READ, MAP_SHARED, fd, 0);
                if (m != MAP_FAILED) off_ptr = (volatile int64_t *)m;
                close(fd);
            }
        }
    }
    return *off_ptr;
}

int gettimeofday(struct timeval *tv, void *tz) {
    static int (*real)(struct timeval *, void *);
    if (!real) real = dlsym(RTLD_NEXT, "gettimeofday");
    int r = real(tv, tz);
    if (r == 0 && tv) tv->tv_sec += cur();
    return r;
}

time_t time(time_t *t) {
    static time_t (*real)(time_t *);
    if (!real) real = dlsym(RTLD_NEXT, "time");
    time_t v = real(0) + cur();
    if (t) *t = v;
    return v;
}

int clock_gettime(clockid_t id, struct timespec *ts) {
    static int (*real)(clockid_t, struct timespec *);
    if (!real) real = dlsym(RTLD_NEXT, "clock_gettime");
    int r = real(id, ts);
    if (r == 0 && ts && id == CLOCK_REALTIME) ts->tv_sec += cur();
    return r;
}
