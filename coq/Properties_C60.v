(* Properties_C60.v — C60: ICAP adaptation delivers exactly the virgin or the adapted message.
   Statements only; proofs live in IcapProofs.v. The model (IcapModel.v) transcribes ModXact/Xaction/Launcher,
   Iterator::handleAdaptationError and the two consumers; pipe capacity, backup limit, the order of State::Writing
   and the status switch of parseIcapHead come from gen/IcapConst_gen.v, regenerated from the source on every run. *)
Require Import SquidV.Bytes SquidV.IcapModel SquidV.IcapProofs SquidV.gen.IcapConst_gen.
Local Open Scope N_scope.

(* the status switch of ModXact::parseIcapHead as the source has it now: 100 -> handle100Continue, 200/201 ->
   validate200Ok + handle200Ok, 204 -> handle204NoContent, 206 -> handle206PartialContent, everything else ->
   handleUnknownScode *)
Theorem C60_status_dispatch :
  icap_dispatch 100 = 1 /\ icap_dispatch 200 = 2 /\ icap_dispatch 201 = 2 /\ icap_dispatch 204 = 3 /\ icap_dispatch 206 = 4 /\
  forall s, s <> 100 -> s <> 200 -> s <> 201 -> s <> 204 -> s <> 206 -> icap_dispatch s = 0.
Proof. exact dispatch_table. Qed.
Print Assumptions C60_status_dispatch.

(* the model's writing stages are ordered as the enumerators of ModXact::State::Writing (the code compares them) *)
Theorem C60_writing_enum_order :
  map w_rank [WInit; WConnect; WHeaders; WPreview; WPaused; WPrime; WAlmostDone; WReallyDone] = [0;1;2;3;4;5;6;7] /\
  writing_enum_size = 8.
Proof. exact writing_ranks. Qed.
Print Assumptions C60_writing_enum_order.

(* icap_output_trichotomy. For EVERY configuration and EVERY sequence of asynchronous calls (connect, write done /
   failed, virgin data / end / abort, ICAP reply tokens in any segmentation, EOF, I/O stop, timeout, consumer space /
   abort, initiator abort): the bytes put on the adapted body pipe are
     - nothing, while no adapted head object exists,
     - exactly the first s_off bytes of the virgin body, and no adapted payload was ever accepted, when the head is the
       clone of the virgin head (204 / bypass),
     - exactly the adapted payload parsed from the ICAP reply (in order, nothing else) when the head was parsed from
       the ICAP reply;
   and the head forwarded to the HTTP side is that head object. Never a mixture. *)
Theorem C60_icap_output_trichotomy : forall c evs,
  let x := run (init c) evs in
  match ad_header (ad x) with
  | None => o_body (out x) = []
  | Some SrcVirgin => o_body (out x) = takeN (s_off (vs x)) (vp_data (vs x)) /\ ad_in (ad x) = []
  | Some SrcAdapted => o_body (out x) = ad_in (ad x)
  end /\
  (forall s, o_answer (out x) = Some (Fwd s) -> ad_header (ad x) = Some s).
Proof. exact no_mixture. Qed.
Print Assumptions C60_icap_output_trichotomy.

(* bypass_only_before_adapted_used: whenever the virgin head has been forwarded (204 or bypass), not a single adapted
   payload byte was ever accepted from the ICAP server, and what was sent is a prefix of the virgin body ... *)
Theorem C60_virgin_answer_excludes_adapted_content : forall c evs,
  let x := run (init c) evs in
  o_answer (out x) = Some (Fwd SrcVirgin) ->
  ad_in (ad x) = [] /\ o_body (out x) = takeN (s_off (vs x)) (vp_data (vs x)).
Proof. exact virgin_answer_pure. Qed.
Print Assumptions C60_virgin_answer_excludes_adapted_content.

(* ... and whenever the adapted head has been forwarded, no virgin byte was ever echoed *)
Theorem C60_adapted_answer_excludes_virgin_content : forall c evs,
  let x := run (init c) evs in
  o_answer (out x) = Some (Fwd SrcAdapted) ->
  o_body (out x) = ad_in (ad x) /\ s_off (vs x) = 0.
Proof. exact adapted_answer_pure. Qed.
Print Assumptions C60_adapted_answer_excludes_virgin_content.

(* what the HTTP side gets (Launcher::noteXactAbort, Iterator::handleAdaptationError, ClientHttpRequest::
   handleAdaptationFailure for REQMOD, Client::handleAdaptationAborted for RESPMOD): a message whose body is purely
   virgin or purely adapted, the untouched virgin request (REQMOD, bypass=1, nothing consumed from its body pipe), or
   an error - for all configurations and event sequences *)
Theorem C60_delivery_trichotomy : forall c evs,
  let x := run (init c) evs in
  match deliver x with
  | DMessage SrcVirgin _ body _ => body = takeN (s_off (vs x)) (vp_data (vs x)) /\ ad_in (ad x) = []
  | DMessage SrcAdapted _ body _ => body = ad_in (ad x) /\ s_off (vs x) = 0
  | DVirginUntouched =>
    c_reqmod (cfg x) = true /\ c_bypass (cfg x) = true /\ (vb_expected (cfg x) = false \/ vp_consumed (vs x) = 0) /\
    (forall s, o_answer (out x) <> Some (Fwd s))
  | DError => forall s, o_answer (out x) <> Some (Fwd s)
  end.
Proof. exact deliver_trichotomy. Qed.
Print Assumptions C60_delivery_trichotomy.

(* The bypass clause at full strength - "with bypass enabled, an ICAP failure that happens before any adapted content
   was used yields the virgin message" - is FALSE for the code as it is: bypass=1, RESPMOD, 10-byte body, preview 4,
   the server answers `ICAP/1.0 200 OK` after the preview and closes inside the encapsulated HTTP head: no adapted head
   was completed or forwarded and no adapted byte accepted, yet the transaction ends with an error answer and the
   client gets ERR_ICAP_FAILURE (known finding C60-bypass-lost-after-200-head: handle200Ok stops the backup). *)
Theorem C60_bypass_on_failure_refuted :
  exists c evs, c_bypass c = true /\
    let x := run (init c) evs in
    o_body (out x) = [] /\ ad_in (ad x) = [] /\ stopped (job x) = true /\
    o_answer (out x) = Some AnsError /\ deliver x = DError.
Proof. exact bypass_refuted. Qed.
Print Assumptions C60_bypass_on_failure_refuted.

(* The provable part: for EVERY state in which bypass is still enabled, no adapted head object exists, the answer is
   still owed and the virgin body backup is usable (no body, or virginBodySending active / plannable from offset 0),
   ANY exception (ModXact::callException) makes the transaction forward the virgin head. *)
Theorem C60_bypass_on_thrown_failure_partial : forall x,
  can_bypass (fl x) = true -> retriable (fl x) = false ->
  ad_header (ad x) = None -> ad_pipe (ad x) = false -> initiator (job x) = true ->
  (vb_expected (cfg x) = true ->
     (active (s_st (vs x)) = true \/ (is_disabled (s_st (vs x)) = false /\ s_off (vs x) = 0)) /\ o_end (out x) = None) ->
  o_answer (out (callException x)) = Some (Fwd SrcVirgin).
Proof. exact bypass_partial. Qed.
Print Assumptions C60_bypass_on_thrown_failure_partial.

(* hypotheses are satisfiable / the statements are not vacuous: concrete runs of the model *)
Example C60_ex_bypass_on_close :
  let x := run (init (cfg_demo true)) (evs_demo [EvEof]) in deliver x = DMessage SrcVirgin true vbody_demo true.
Proof. exact bypass_close_example. Qed.
(* an ICAP error status inside the preview: bypassed since /repo 0ccad7c (former finding), an error without bypass *)
Example C60_ex_bypass_on_icap_status :
  let x := run (init (cfg_demo true)) (evs_demo [EvRead [TIcapHead 500 HNone false false]]) in
  deliver x = DMessage SrcVirgin true vbody_demo true.
Proof. exact bypass_status_example. Qed.
Example C60_ex_no_bypass_icap_status_is_error :
  let x := run (init (cfg_demo false)) (evs_demo [EvRead [TIcapHead 500 HNone false false]]) in deliver x = DError.
Proof. exact nobypass_status_example. Qed.
Example C60_ex_no_bypass_is_error :
  let x := run (init (cfg_demo false)) (evs_demo [EvEof]) in deliver x = DError.
Proof. exact nobypass_close_example. Qed.
Example C60_ex_adapted_intact :
  let x := run (init (cfg_demo false))
               (evs_demo [EvRead [TIcapHead 200 HRes true false; THttpHead; TChunk [65;66]]; EvRead [TChunk [67]; TLast]]) in
  deliver x = DMessage SrcAdapted true [65;66;67] true.
Proof. exact adapted_example. Qed.
Example C60_ex_204_in_preview_is_virgin :
  let x := run (init (cfg_demo false)) (evs_demo [EvRead [TIcapHead 204 HNone false false]]) in
  deliver x = DMessage SrcVirgin true vbody_demo true.
Proof. exact preview204_example. Qed.
