(* AccessProofs.v — proofs for C45: the http_access decision path (AccessModel.v) refines the
   reference first-match evaluation over set-semantics ACLs.

   1. bookkeeping: byte-string equality, find_acl / set_data, the four parse() routines continue where the
      previous line of the same ACL stopped (…_app).
   2. cfg_parse: after reading the lines, every named ACL object holds exactly what parsing ALL tokens of
      its name from scratch yields, and the rule list is the list of non-empty http_access lines (or the
      default "deny all").
   3. semantic invariants of the four kinds of ACL data (from C41, C42, C43 and, for methods, here) and
      their preservation by every lookup.
   4. the walk: literal, rule, tree; a request; a sequence of requests.
   5. the method-prefix defect: witness.
   6. the C44 checklist machine on the same tree decides the same. *)
Require Import SquidV.Bytes SquidV.SplayModel SquidV.TokModel SquidV.IntrangeModel SquidV.IntrangeProofs SquidV.AccessModel.
Require SquidV.AcldomModel SquidV.AclipModel SquidV.AcldomProofs SquidV.AclipProofs SquidV.AcltreeModel SquidV.AcltreeProofs.
Require Import SquidV.gen.AccessMeth_gen.
Require Import Lia ZifyBool ZifyN.
Local Open Scope N_scope.

(* ================================================================== *)
(* 1. bookkeeping                                                      *)
Lemma list_eqb_spec (a : bytes) : forall b, list_eqb a b = true <-> a = b.
Proof.
  induction a as [|x a IH]; intros [|y b]; cbn [list_eqb]; try (split; [discriminate|discriminate]); [tauto|].
  rewrite Bool.andb_true_iff, N.eqb_eq, IH. split; [intros [-> ->]; reflexivity| intros H; inversion H; auto].
Qed.
Lemma list_eqb_refl (a : bytes) : list_eqb a a = true.
Proof. apply list_eqb_spec. reflexivity. Qed.
Lemma list_eqb_neq (a b : bytes) : list_eqb a b = false <-> a <> b.
Proof.
  split.
  - intros H E. apply list_eqb_spec in E. congruence.
  - intros H. destruct (list_eqb a b) eqn:E; [apply list_eqb_spec in E; contradiction| reflexivity].
Qed.
Lemma list_eqb_sym (a b : bytes) : list_eqb a b = list_eqb b a.
Proof.
  destruct (list_eqb a b) eqn:E.
  - apply list_eqb_spec in E. subst. symmetry. apply list_eqb_refl.
  - apply list_eqb_neq in E. symmetry. apply list_eqb_neq. congruence.
Qed.

Lemma find_acl_name name acls a : find_acl name acls = Some a -> a_name a = name.
Proof.
  induction acls as [|x r IH]; cbn [find_acl]; [discriminate|].
  destruct (list_eqb (a_name x) name) eqn:E; [|exact IH].
  intros H. inversion H; subst. apply list_eqb_spec, E.
Qed.

Lemma find_acl_app name acls x :
  find_acl name (acls ++ [x]) =
  match find_acl name acls with
  | Some a => Some a
  | None => if list_eqb (a_name x) name then Some x else None
  end.
Proof.
  induction acls as [|y r IH]; cbn [find_acl app]; [reflexivity|].
  destruct (list_eqb (a_name y) name); [reflexivity| exact IH].
Qed.

Lemma find_set name' name d acls :
  find_acl name' (set_data name d acls) =
  if list_eqb name' name
  then match find_acl name acls with Some a => Some (mkAcl (a_name a) (a_type a) d) | None => None end
  else find_acl name' acls.
Proof.
  induction acls as [|x r IH]; cbn [find_acl set_data].
  - destruct (list_eqb name' name); reflexivity.
  - destruct (list_eqb (a_name x) name) eqn:E1.
    + apply list_eqb_spec in E1. cbn [find_acl a_name]. rewrite E1.
      destruct (list_eqb name' name) eqn:E2.
      * apply list_eqb_spec in E2. subst. rewrite list_eqb_refl. reflexivity.
      * rewrite (list_eqb_sym name name'), E2. reflexivity.
    + cbn [find_acl]. destruct (list_eqb (a_name x) name') eqn:E3.
      * apply list_eqb_spec in E3. subst name'. rewrite E1. reflexivity.
      * exact IH.
Qed.

(* ---- parse() continues where the previous line stopped ---- *)
Lemma ip_parse_app A : forall B f4 f6 t n,
  AclipModel.acl_parse_from f4 f6 t n (A ++ B) =
  match AclipModel.acl_parse_from f4 f6 t n A with
  | AclipModel.POk f4' f6' t' n' => AclipModel.acl_parse_from f4' f6' t' n' B
  | bad => bad
  end.
Proof.
  induction A as [|[tok sp] A IH]; intros B f4 f6 t n; cbn [app AclipModel.acl_parse_from]; [reflexivity|].
  destruct (AclipModel.parse_global tok) as [[g4 g6]|]; [apply IH|].
  destruct sp as [| |vals]; try reflexivity.
  destruct (AclipModel.merge_all t n vals); try reflexivity. apply IH.
Qed.

Lemma dom_parse_app A : forall B t n,
  AcldomModel.acl_parse_from t n (A ++ B) =
  match AcldomModel.acl_parse_from t n A with
  | AcldomModel.MOk t' n' => AcldomModel.acl_parse_from t' n' B
  | bad => bad
  end.
Proof.
  induction A as [|tok A IH]; intros B t n; cbn [app AcldomModel.acl_parse_from]; [reflexivity|].
  destruct (AcldomModel.merge _ t n _); try reflexivity. apply IH.
Qed.

Lemma ir_parse_ub toks : forall acc ub ub', fst (ir_parse toks acc ub) = fst (ir_parse toks acc ub').
Proof.
  induction toks as [|t r IH]; intros acc ub ub'; cbn [ir_parse]; [reflexivity|].
  destruct (ir_parse_token t) as [[rg|] o]; cbn [fst]; [apply IH| reflexivity].
Qed.

Lemma ir_parse_app A : forall B acc ub rs,
  fst (ir_parse A acc ub) = Some rs ->
  fst (ir_parse (A ++ B) acc ub) = fst (ir_parse B (rev rs) false).
Proof.
  induction A as [|t r IH]; intros B acc ub rs; cbn [ir_parse app].
  - cbn [fst]. intros H. inversion H; subst. rewrite rev_involutive. apply ir_parse_ub.
  - destruct (ir_parse_token t) as [[rg|] o]; cbn [fst]; [apply IH| discriminate].
Qed.

Lemma parse_into_app d0 ips1 txt1 d1 ips2 txt2 :
  parse_into d0 ips1 txt1 = Some d1 ->
  parse_into d1 ips2 txt2 = parse_into d0 (ips1 ++ ips2) (txt1 ++ txt2).
Proof.
  destruct d0 as [f4 f6 t n|t n|rs|vs]; cbn [parse_into].
  - rewrite map_app, ip_parse_app.
    destruct (AclipModel.acl_parse_from f4 f6 t n (map ip_spec ips1)); try discriminate.
    intros H. inversion H; subst. reflexivity.
  - rewrite dom_parse_app. destruct (AcldomModel.acl_parse_from t n txt1); try discriminate.
    intros H. inversion H; subst. reflexivity.
  - destruct (ir_parse txt1 (rev rs) false) as [[rs1|] u1] eqn:E1; [|discriminate].
    intros H. inversion H; subst. cbn [parse_into].
    pose proof (ir_parse_app txt1 txt2 (rev rs) false rs1 ltac:(rewrite E1; reflexivity)) as E.
    destruct (ir_parse txt2 (rev rs1) false) as [[x|] ?]; destruct (ir_parse (txt1 ++ txt2) (rev rs) false) as [[y|] ?];
      cbn [fst] in E; congruence.
  - intros H. inversion H; subst. cbn [parse_into]. rewrite map_app, app_assoc. reflexivity.
Qed.

(* ================================================================== *)
(* 2. what the lines of a configuration say (reference vocabulary)     *)
Definition line_ips (name : bytes) (l : line) : list iptok :=
  match l with LAcl n _ ips _ => if list_eqb n name then ips else [] | _ => [] end.
Definition line_txt (name : bytes) (l : line) : list bytes :=
  match l with LAcl n _ _ txt => if list_eqb n name then txt else [] | _ => [] end.
(* all values given for a name, in the order of the lines *)
Definition acl_ips (cfg : list line) (name : bytes) : list iptok := flat_map (line_ips name) cfg.
Definition acl_txt (cfg : list line) (name : bytes) : list bytes := flat_map (line_txt name) cfg.
(* the type of a name is the type of its first acl line *)
Fixpoint acl_type (cfg : list line) (name : bytes) : option atype :=
  match cfg with
  | [] => None
  | LAcl n ty _ _ :: r => if list_eqb n name then Some ty else acl_type r name
  | _ :: r => acl_type r name
  end.
(* the http_access lines that name at least one ACL *)
Definition line_rule (l : line) : list rule :=
  match l with LAccess allow (t :: ts) => [(allow, t :: ts)] | _ => [] end.
Definition raw_rules (cfg : list line) : list rule := flat_map line_rule cfg.

Lemma acl_ips_app a b name : acl_ips (a ++ b) name = acl_ips a name ++ acl_ips b name.
Proof. unfold acl_ips. apply flat_map_app. Qed.
Lemma acl_txt_app a b name : acl_txt (a ++ b) name = acl_txt a name ++ acl_txt b name.
Proof. unfold acl_txt. apply flat_map_app. Qed.
Lemma raw_rules_app a b : raw_rules (a ++ b) = raw_rules a ++ raw_rules b.
Proof. unfold raw_rules. apply flat_map_app. Qed.
Lemma acl_type_app a b name :
  acl_type (a ++ b) name = match acl_type a name with Some ty => Some ty | None => acl_type b name end.
Proof.
  induction a as [|l a IH]; cbn [app acl_type]; [reflexivity|].
  destruct l as [n ty ips txt|al ts]; [|exact IH]. destruct (list_eqb n name); [reflexivity| exact IH].
Qed.

(* the state of the parser after the lines [pre] *)
Definition acl_parsed (pre : list line) (name : bytes) (a : aclobj) : Prop :=
  a_name a = name /\ acl_type pre name = Some (a_type a) /\ parse_into (empty_data (a_type a)) (acl_ips pre name) (acl_txt pre name) = Some (a_data a).

Definition parsed (pre : list line) (s : cstate) : Prop :=
  (forall name, match find_acl name (c_acls s) with
                | Some a => acl_parsed pre name a
                | None => acl_type pre name = None
                end) /\ c_rules s = raw_rules pre /\ (forall r t, In r (c_rules s) -> In t (snd r) -> find_acl (snd t) (c_acls s) <> None).

Lemma parsed_nil : parsed [] (mkC [] []).
Proof. split; [intros name; reflexivity|]. split; [reflexivity|]. intros r t []. Qed.

Lemma empty_data_parse_shape ty ips txt d :
  parse_into (empty_data ty) ips txt = Some d ->
  match ty, d with
  | (TSrc | TDst), DIp _ _ _ _ | TDom, DDom _ _ | TPort, DPort _ | TMeth, DMeth _ => True
  | _, _ => False
  end.
Proof.
  destruct ty; cbn [empty_data parse_into].
  1,2: destruct (AclipModel.acl_parse_from _ _ _ _ _); try discriminate; intros H; inversion H; exact I.
  - destruct (AcldomModel.acl_parse_from _ _ _); try discriminate; intros H; inversion H; exact I.
  - destruct (ir_parse _ _ _) as [[?|] ?]; try discriminate; intros H; inversion H; exact I.
  - intros H; inversion H; exact I.
Qed.

Lemma cfg_step_parsed pre s l s' : parsed pre s -> cfg_step s l = Some s' -> parsed (pre ++ [l]) s'.
Proof.
  intros (HA & HR & HN) Hs. destruct l as [name ty ips txt|allow terms]; cbn [cfg_step] in Hs.
  - (* acl line *)
    pose proof (HA name) as Hn.
    destruct (find_acl name (c_acls s)) as [a|] eqn:Ef.
    + destruct (atype_eqb (a_type a) ty) eqn:Et; [|discriminate].
      assert (Ety : a_type a = ty) by (destruct (a_type a), ty; cbn in Et; congruence).
      destruct (parse_into (a_data a) ips txt) as [d|] eqn:Ep; [|discriminate]. inversion Hs; subst s'. clear Hs.
      destruct Hn as (N1 & N2 & N3).
      split; [|split].
      * intros name'. cbn [c_acls]. rewrite find_set.
        destruct (list_eqb name' name) eqn:E.
        -- apply list_eqb_spec in E. subst name'. rewrite Ef. unfold acl_parsed. cbn [a_name a_type a_data].
           split; [exact N1|]. split; [rewrite acl_type_app, N2; reflexivity|].
           rewrite acl_ips_app, acl_txt_app. unfold acl_ips at 2, acl_txt at 2. cbn [flat_map line_ips line_txt].
           rewrite list_eqb_refl, !app_nil_r. rewrite <- (parse_into_app _ _ _ _ ips txt N3). exact Ep.
        -- apply list_eqb_neq in E. specialize (HA name').
           assert (Ei : acl_ips (pre ++ [LAcl name ty ips txt]) name' = acl_ips pre name').
           { rewrite acl_ips_app. unfold acl_ips at 2. cbn [flat_map line_ips].
             rewrite (proj2 (list_eqb_neq name name') ltac:(congruence)). rewrite !app_nil_r. reflexivity. }
           assert (Ex : acl_txt (pre ++ [LAcl name ty ips txt]) name' = acl_txt pre name').
           { rewrite acl_txt_app. unfold acl_txt at 2. cbn [flat_map line_txt].
             rewrite (proj2 (list_eqb_neq name name') ltac:(congruence)). rewrite !app_nil_r. reflexivity. }
           assert (Ey : acl_type (pre ++ [LAcl name ty ips txt]) name' = acl_type pre name').
           { rewrite acl_type_app. cbn [acl_type]. rewrite (proj2 (list_eqb_neq name name') ltac:(congruence)).
             destruct (acl_type pre name'); reflexivity. }
           destruct (find_acl name' (c_acls s)) as [b|]; [|rewrite Ey; exact HA].
           unfold acl_parsed in *. rewrite Ei, Ex, Ey. exact HA.
      * cbn [c_rules]. rewrite raw_rules_app. cbn [raw_rules flat_map line_rule]. rewrite app_nil_r. exact HR.
      * cbn [c_rules c_acls]. intros r t Hr Ht. rewrite find_set. specialize (HN r t Hr Ht).
        destruct (list_eqb (snd t) name); [rewrite Ef; discriminate| exact HN].
    + destruct (parse_into (empty_data ty) ips txt) as [d|] eqn:Ep; [|discriminate]. inversion Hs; subst s'. clear Hs.
      split; [|split].
      * intros name'. cbn [c_acls]. rewrite find_acl_app. specialize (HA name').
        destruct (find_acl name' (c_acls s)) as [b|] eqn:Eb.
        -- assert (Hne : name <> name').
           { intros ->. rewrite Ef in Eb. discriminate. }
           unfold acl_parsed in *. rewrite acl_ips_app, acl_txt_app, acl_type_app.
           unfold acl_ips at 2, acl_txt at 2. cbn [flat_map line_ips line_txt].
           rewrite (proj2 (list_eqb_neq name name') Hne), !app_nil_r.
           destruct HA as (H1 & H2 & H3). rewrite H2. auto.
        -- cbn [a_name]. destruct (list_eqb name name') eqn:E.
           ++ apply list_eqb_spec in E. subst name'. unfold acl_parsed. cbn [a_name a_type a_data].
              split; [reflexivity|]. rewrite acl_type_app, HA. cbn [acl_type]. rewrite list_eqb_refl.
              split; [reflexivity|].
              assert (Ei : acl_ips pre name = []).
              { clear -HA. induction pre as [|l pre IH]; [reflexivity|]. cbn [acl_type] in HA. unfold acl_ips. cbn [flat_map].
                destruct l as [n ty' i x|? ?]; cbn [line_ips].
                - destruct (list_eqb n name); [discriminate|]. apply IH, HA.
                - apply IH, HA. }
              assert (Ex : acl_txt pre name = []).
              { clear -HA. induction pre as [|l pre IH]; [reflexivity|]. cbn [acl_type] in HA. unfold acl_txt. cbn [flat_map].
                destruct l as [n ty' i x|? ?]; cbn [line_txt].
                - destruct (list_eqb n name); [discriminate|]. apply IH, HA.
                - apply IH, HA. }
              rewrite acl_ips_app, acl_txt_app, Ei, Ex. unfold acl_ips, acl_txt. cbn [flat_map line_ips line_txt app].
              rewrite list_eqb_refl, !app_nil_r. exact Ep.
           ++ rewrite acl_type_app, HA. cbn [acl_type]. rewrite E. reflexivity.
      * cbn [c_rules]. rewrite raw_rules_app. cbn [raw_rules flat_map line_rule]. rewrite app_nil_r. exact HR.
      * cbn [c_rules c_acls]. intros r t Hr Ht. rewrite find_acl_app. specialize (HN r t Hr Ht).
        destruct (find_acl (snd t) (c_acls s)); [discriminate| contradiction].
  - (* http_access line *)
    destruct (forallb _ terms) eqn:Ef; [|discriminate].
    assert (HAcc : forall pre' : unit, (forall name, acl_ips (pre ++ [LAccess allow terms]) name = acl_ips pre name) /\                        (forall name, acl_txt (pre ++ [LAccess allow terms]) name = acl_txt pre name) /\                        (forall name, acl_type (pre ++ [LAccess allow terms]) name = acl_type pre name)).
    { intros _. repeat split; intros name.
      - rewrite acl_ips_app. unfold acl_ips at 2. cbn. apply app_nil_r.
      - rewrite acl_txt_app. unfold acl_txt at 2. cbn. apply app_nil_r.
      - rewrite acl_type_app. cbn [acl_type]. destruct (acl_type pre name); reflexivity. }
    destruct (HAcc tt) as (Ei & Ex & Ey).
    assert (HA' : forall name, match find_acl name (c_acls s) with
                               | Some a => acl_parsed (pre ++ [LAccess allow terms]) name a
                               | None => acl_type (pre ++ [LAccess allow terms]) name = None end).
    { intros name. specialize (HA name). destruct (find_acl name (c_acls s)); [|rewrite Ey; exact HA].
      unfold acl_parsed in *. rewrite Ei, Ex, Ey. exact HA. }
    destruct terms as [|t ts].
    + inversion Hs; subst s'. split; [exact HA'|]. split.
      * rewrite raw_rules_app. cbn [raw_rules flat_map line_rule]. rewrite app_nil_r. exact HR.
      * exact HN.
    + inversion Hs; subst s'. cbn [c_acls c_rules]. split; [exact HA'|]. split.
      * rewrite raw_rules_app, HR. reflexivity.
      * intros r t' Hr Ht. apply in_app_or in Hr. destruct Hr as [Hr|[<-|[]]]; [exact (HN r t' Hr Ht)|].
        cbn [snd] in Ht. cbn [c_acls]. rewrite forallb_forall in Ef. specialize (Ef t' Ht).
        destruct (find_acl (snd t') (c_acls s)); [discriminate| discriminate Ef].
Qed.

Lemma cfg_steps_parsed rest : forall pre s s', parsed pre s -> cfg_steps s rest = Some s' -> parsed (pre ++ rest) s'.
Proof.
  induction rest as [|l rest IH]; intros pre s s' HP Hs; cbn [cfg_steps] in Hs.
  - inversion Hs; subst. rewrite app_nil_r. exact HP.
  - destruct (cfg_step s l) as [s1|] eqn:E; [|discriminate].
    replace (pre ++ l :: rest) with ((pre ++ [l]) ++ rest) by (rewrite <- app_assoc; reflexivity).
    apply (IH _ s1); [apply (cfg_step_parsed pre s l s1 HP E)| exact Hs].
Qed.

(* the rule list of the reference: the non-empty http_access lines, or "deny all" when there is none *)
Definition ref_rules (cfg : list line) : list rule :=
  match raw_rules cfg with [] => [(false, [(false, s_all)])] | rs => rs end.

Definition full (cfg : list line) : list line := predefined ++ cfg.

Theorem cfg_parse_parsed cfg s : cfg_parse cfg = Some s ->
  (forall name, match find_acl name (c_acls s) with
                | Some a => acl_parsed (full cfg) name a
                | None => acl_type (full cfg) name = None
                end) /\ c_rules s = ref_rules (full cfg) /\ (forall r t, In r (c_rules s) -> In t (snd r) -> find_acl (snd t) (c_acls s) <> None).
Proof.
  unfold cfg_parse, full. intros H.
  destruct (cfg_steps (mkC [] []) (predefined ++ cfg)) as [s1|] eqn:E1; [|discriminate].
  pose proof (cfg_steps_parsed _ [] _ _ parsed_nil E1) as P1. cbn [app] in P1.
  destruct (c_rules s1) as [|r0 rs0] eqn:ER.
  - pose proof (cfg_step_parsed _ _ _ _ P1 H) as (PA & PR & PN).
    destruct P1 as (PA1 & PR1 & _). rewrite ER in PR1.
    split; [|split].
    + intros name. specialize (PA name). destruct (find_acl name (c_acls s)) as [a|].
      * unfold acl_parsed in *. rewrite acl_ips_app, acl_txt_app, acl_type_app in PA.
        unfold acl_ips at 2, acl_txt at 2 in PA. cbn [flat_map line_ips line_txt default_rule acl_type] in PA.
        rewrite !app_nil_r in PA. destruct PA as (Q1 & Q2 & Q3). split; [exact Q1|]. split; [|exact Q3].
        destruct (acl_type (predefined ++ cfg) name); [exact Q2| discriminate].
      * rewrite acl_type_app in PA. destruct (acl_type (predefined ++ cfg) name); [discriminate| reflexivity].
    + rewrite PR, raw_rules_app. unfold ref_rules. cbn [app] in PR1 |- *. rewrite <- PR1. reflexivity.
    + exact PN.
  - inversion H; subst s1. destruct P1 as (PA & PR & PN). split; [exact PA|]. split; [|exact PN].
    unfold ref_rules. cbn [app] in PR |- *. rewrite <- PR, ER. reflexivity.
Qed.

(* ================================================================== *)
(* 3a. IP values (src, dst): C42                                       *)
Module IP := SquidV.AclipProofs.
Module IM := SquidV.AclipModel.

Definition W32 : N := 4294967296.

(* the values the property quantifies over: IPv4, ends ordered, prefix length 1..32, no host bits *)
Definition iptok_ok (t : iptok) : Prop :=
  match t with
  | IWord w => IM.parse_global w <> None
  | ISingle a => a < W32
  | ICidr a n => a < W32 /\ 1 <= n <= 32 /\ a mod 2 ^ (32 - n) = 0
  | IRange a b => a <= b /\ b < W32
  | IRangeCidr a b n => a <= b /\ b < W32 /\ 1 <= n <= 32 /\ a mod 2 ^ (32 - n) = 0 /\ b mod 2 ^ (32 - n) = 0
  end.

(* the set of (32-bit) addresses a value stands for *)
Definition ip_in (x : N) (t : iptok) : Prop :=
  match t with
  | IWord w => exists g6, IM.parse_global w = Some (true, g6)          (* all, ipv4 and the legacy spellings of all *)
  | ISingle a => x = a
  | ICidr a n => a <= x <= a + (2 ^ (32 - n) - 1)
  | IRange a b => a <= x <= b
  | IRangeCidr a b n => a <= x <= b + (2 ^ (32 - n) - 1)
  end.

Definition cv_of (t : iptok) : list IP.cval :=
  match t with
  | IWord _ => []
  | ISingle a => [IP.CNet (v4 a) 0]
  | ICidr a n => [IP.CNet (v4 a) (32 - n)]
  | IRange a b => [IP.CRange (v4 a) (v4 b) 0]
  | IRangeCidr a b n => [IP.CRange (v4 a) (v4 b) (32 - n)]
  end.

Lemma V4ANY_eq : IM.V4ANY = 65535 * W32. Proof. reflexivity. Qed.
Lemma TOP_big : W32 * W32 * W32 * W32 = IM.TOP. Proof. reflexivity. Qed.

Lemma pow_le_32 h : h <= 32 -> 0 < 2 ^ h /\ W32 = 2 ^ (32 - h) * 2 ^ h.
Proof.
  intros H. split; [apply IP.pow2_pos|]. rewrite <- N.pow_add_r. replace (32 - h + h) with 32 by lia. reflexivity.
Qed.

Lemma v4_aligned a h : h <= 32 -> a mod 2 ^ h = 0 -> v4 a mod 2 ^ h = 0.
Proof.
  intros Hh Ha. destruct (pow_le_32 h Hh) as [HP E]. unfold v4. rewrite V4ANY_eq, E.
  rewrite N.mul_assoc, N.add_comm, N.mod_add by lia. exact Ha.
Qed.

Lemma aligned_bound a P M : 0 < P -> a mod P = 0 -> M mod P = 0 -> a < M -> a + P <= M.
Proof.
  intros HP Ha HM Hlt.
  assert (Ea : a = P * (a / P)) by (apply N.div_exact; lia).
  assert (Em : M = P * (M / P)) by (apply N.div_exact; lia).
  set (q := a / P) in *. set (r := M / P) in *. clearbody q r. clear Ha HM.
  assert (Hq : q < r) by (apply (N.mul_lt_mono_pos_l P); lia).
  assert (Hm : P * (q + 1) <= P * r) by (apply N.mul_le_mono_l; lia).
  rewrite N.mul_add_distr_l, N.mul_1_r in Hm. lia.
Qed.

Lemma w32_aligned h : h <= 32 -> W32 mod 2 ^ h = 0.
Proof.
  intros Hh. destruct (pow_le_32 h Hh) as [HP E]. rewrite E. apply N.mod_mul. lia.
Qed.

Lemma v4_lt_top a : a < W32 -> v4 a < IM.TOP.
Proof. intros H. unfold v4. rewrite V4ANY_eq, <- TOP_big. unfold W32 in *. lia. Qed.

Lemma v4_is_v4 a : a < W32 -> IM.isIPv4 (v4 a) = true.
Proof.
  intros H. unfold IM.isIPv4, v4. rewrite V4ANY_eq. apply N.eqb_eq. change (2 ^ 32) with W32.
  rewrite N.div_add_l by discriminate. rewrite (N.div_small a W32 H). reflexivity.
Qed.

Lemma tok_plain_not_global : IM.parse_global tok_plain = None. Proof. reflexivity. Qed.

Lemma cidr_val a n : a < W32 -> 1 <= n <= 32 -> a mod 2 ^ (32 - n) = 0 ->
  IM.mask_of_cidr n true = Some (IP.pmask (32 - n)) /\ IM.applyMask (v4 a) (IP.pmask (32 - n)) = v4 a.
Proof.
  intros Ha Hn Hal. split; [apply (IP.mask_of_cidr_pmask n true); lia|].
  unfold IM.applyMask. rewrite IP.land_pmask by (try apply v4_lt_top; lia).
  symmetry. apply IP.aligned_mul; [pose proof (IP.pow2_pos (32 - n)); lia|]. apply v4_aligned; [lia| exact Hal].
Qed.

(* FactoryParse() stores for a well-formed value exactly the triple C42 reasons about *)
Lemma ip_spec_cv t : iptok_ok t ->
  IP.tok_parsed (ip_spec t) /\ IP.tok_vals (ip_spec t) = map IP.cv_val (cv_of t) /\
  Forall IP.cv_ok (cv_of t).
Proof.
  destruct t as [w|a|a n|a b|a b n]; cbn [iptok_ok ip_spec cv_of map]; intros H.
  - destruct (IM.parse_global w) as [g|] eqn:E; [|contradiction].
    split; [left; cbn [fst]; rewrite E; discriminate|]. unfold IP.tok_vals. cbn [fst]. rewrite E. auto.
  - split; [right; eexists; reflexivity|]. unfold IP.tok_vals. cbn [fst snd]. rewrite tok_plain_not_global.
    split; [cbn [IP.cv_val]; rewrite IP.pmask_0; reflexivity|].
    pose proof (v4_lt_top a H). constructor; [|constructor].
    cbn [IP.cv_ok]. rewrite N.pow_0_r, N.mod_1_r. lia.
  - destruct H as (Ha & Hn & Hal). destruct (cidr_val a n Ha Hn Hal) as [Em Ev]. rewrite Em, Ev.
    split; [right; eexists; reflexivity|]. unfold IP.tok_vals. cbn [fst snd]. rewrite tok_plain_not_global.
    unfold IM.applyMask. rewrite N.land_0_l. split; [reflexivity|].
    constructor; [|constructor].
    cbn [IP.cv_ok]. split; [lia|]. split; [apply v4_lt_top, Ha|]. apply v4_aligned; [lia| exact Hal].
  - destruct H as (Hab & Hb).
    split; [right; eexists; reflexivity|]. unfold IP.tok_vals. cbn [fst snd]. rewrite tok_plain_not_global.
    split; [cbn [IP.cv_val]; rewrite IP.pmask_0; reflexivity|].
    pose proof (v4_lt_top b Hb). constructor; [|constructor].
    cbn [IP.cv_ok]. rewrite N.pow_0_r, !N.mod_1_r. split; [lia|]. split; [unfold v4; lia|]. split; [assumption|].
    split; [reflexivity|]. split; [reflexivity|]. unfold v4. intros E. lia.
  - destruct H as (Hab & Hb & Hn & Hala & Halb). assert (Ha : a < W32) by lia.
    destruct (cidr_val a n Ha Hn Hala) as [Em Eva]. destruct (cidr_val b n Hb Hn Halb) as [_ Evb]. rewrite Em, Eva, Evb.
    split; [right; eexists; reflexivity|]. unfold IP.tok_vals. cbn [fst snd]. rewrite tok_plain_not_global.
    split; [reflexivity|].
    constructor; [|constructor].
    cbn [IP.cv_ok]. split; [lia|]. split; [unfold v4; lia|]. split; [exact (v4_lt_top b Hb)|].
    split; [exact (v4_aligned a (32 - n) ltac:(lia) Hala)|]. split; [exact (v4_aligned b (32 - n) ltac:(lia) Halb)|].
    unfold v4. intros E. lia.
Qed.

Lemma ip_in_cv x t : iptok_ok t ->
  (ip_in x t <-> (exists w g6, t = IWord w /\ IM.parse_global w = Some (true, g6)) \/
                 (exists c, In c (cv_of t) /\ IP.cv_in (v4 x) c)).
Proof.
  destruct t as [w|a|a n|a b|a b n]; cbn [iptok_ok ip_in cv_of In]; intros H.
  - split.
    + intros [g6 E]. left. exists w, g6. auto.
    + intros [(w' & g6 & E1 & E2)|(c & [] & _)]. inversion E1; subst. exists g6. exact E2.
  - split.
    + intros ->. right. eexists. split; [left; reflexivity|]. unfold IP.cv_in. cbn [IP.cv_lo IP.cv_hi]. rewrite N.pow_0_r. lia.
    + intros [(w & g6 & E & _)|(c & [<-|[]] & Hc)]; [discriminate|]. unfold IP.cv_in in Hc. cbn [IP.cv_lo IP.cv_hi] in Hc.
      rewrite N.pow_0_r in Hc. unfold v4 in Hc. lia.
  - split.
    + intros Hx. right. eexists. split; [left; reflexivity|]. unfold IP.cv_in. cbn [IP.cv_lo IP.cv_hi]. unfold v4. lia.
    + intros [(w & g6 & E & _)|(c & [<-|[]] & Hc)]; [discriminate|]. unfold IP.cv_in in Hc. cbn [IP.cv_lo IP.cv_hi] in Hc.
      unfold v4 in Hc. lia.
  - split.
    + intros Hx. right. eexists. split; [left; reflexivity|]. unfold IP.cv_in. cbn [IP.cv_lo IP.cv_hi]. rewrite N.pow_0_r. unfold v4. lia.
    + intros [(w & g6 & E & _)|(c & [<-|[]] & Hc)]; [discriminate|]. unfold IP.cv_in in Hc. cbn [IP.cv_lo IP.cv_hi] in Hc.
      rewrite N.pow_0_r in Hc. unfold v4 in Hc. lia.
  - split.
    + intros Hx. right. eexists. split; [left; reflexivity|]. unfold IP.cv_in. cbn [IP.cv_lo IP.cv_hi]. unfold v4. lia.
    + intros [(w & g6 & E & _)|(c & [<-|[]] & Hc)]; [discriminate|]. unfold IP.cv_in in Hc. cbn [IP.cv_lo IP.cv_hi] in Hc.
      unfold v4 in Hc. lia.
Qed.

Definition cvs (ips : list iptok) : list IP.cval := flat_map cv_of ips.

Lemma ips_facts ips : Forall iptok_ok ips ->
  Forall IP.tok_parsed (map ip_spec ips) /\ IP.vals_of (map ip_spec ips) = map IP.cv_val (cvs ips) /\
  Forall IP.cv_ok (cvs ips) /\
  (IP.any4 (map ip_spec ips) = true <-> exists w g6, In (IWord w) ips /\ IM.parse_global w = Some (true, g6)).
Proof.
  induction ips as [|t ips IH]; intros H.
  - cbn. repeat split; try constructor; [discriminate| intros (w & g6 & [] & _)].
  - inversion H as [|? ? Ht Hr]; subst. destruct (IH Hr) as (I1 & I2 & I3 & I5).
    destruct (ip_spec_cv t Ht) as (S1 & S2 & S3).
    split; [constructor; assumption|]. split.
    { unfold IP.vals_of, cvs in *. cbn [map flat_map]. rewrite map_app, <- S2, <- I2. reflexivity. }
    split; [unfold cvs; cbn [flat_map]; apply Forall_app; auto|].
    unfold IP.any4 in *. cbn [map existsb]. rewrite Bool.orb_true_iff, I5. split.
    + intros [Hh|(w & g6 & Hin & E)]; [|exists w, g6; split; [right; exact Hin| exact E]].
      destruct t as [w|a|a n|a b|a b n]; cbn [ip_spec fst] in Hh; try (rewrite tok_plain_not_global in Hh; discriminate).
      destruct (IM.parse_global w) as [[g4 g6]|] eqn:E; [|discriminate]. subst g4. exists w, g6. split; [left; reflexivity| exact E].
    + intros (w & g6 & [->|Hin] & E); [left; cbn [ip_spec fst]; rewrite E; reflexivity| right; exists w, g6; auto].
Qed.

(* the invariant of an ACLIP object whose lines listed [ips] *)
Definition ip_inv (ips : list iptok) (f4 f6 : bool) (t : tree IM.ipval) : Prop :=
  f4 = IP.any4 (map ip_spec ips) /\ f6 = IP.any6 (map ip_spec ips) /\ IP.stored_ok (cvs ips) t.

Lemma ip_parse_inv ips f4 f6 t n : Forall iptok_ok ips ->
  IM.acl_parse_from false false (@Leaf _) 0%Z (map ip_spec ips) = IM.POk f4 f6 t n -> ip_inv ips f4 f6 t.
Proof.
  intros H E. destruct (ips_facts ips H) as (I1 & I2 & I3 & _).
  destruct (IP.acl_parse_ok _ _ I1 I2 I3) as (t' & n' & E' & St).
  unfold IM.acl_parse in E'. rewrite E in E'. inversion E'; subst. split; [reflexivity|]. split; [reflexivity| exact St].
Qed.

(* ACLIP::match(address): the invariant survives, the answer is membership in the union *)
Lemma ip_lookup ips f4 f6 t x : Forall iptok_ok ips -> ip_inv ips f4 f6 t -> x < W32 ->
  ip_inv ips f4 f6 (fst (IM.acl_match f4 f6 t (v4 x))) /\
  (snd (IM.acl_match f4 f6 t (v4 x)) = true <-> exists tk, In tk ips /\ ip_in x tk).
Proof.
  intros H (E4 & E6 & St) Hx. destruct (ips_facts ips H) as (I1 & I2 & I3 & I5).
  destruct (IP.acl_match_ok (cvs ips) t f4 f6 (v4 x) St (v4_lt_top x Hx)) as [St' Hm].
  split; [split; [exact E4|]; split; [exact E6| exact St']|].
  rewrite Hm. unfold IP.acl_spec. rewrite (v4_is_v4 x Hx). rewrite Forall_forall in H. split.
  - intros [[F _]|[[F _]|[[_ F]|(c & Hc & Hin)]]]; try discriminate.
    1,2: rewrite E4 in F; apply I5 in F; destruct F as (w & g6 & Hw & E); exists (IWord w); split; [exact Hw| exists g6; exact E].
    unfold cvs in Hc. apply in_flat_map in Hc. destruct Hc as (tk & Htk & Hc). exists tk. split; [exact Htk|].
    apply (ip_in_cv x tk (H tk Htk)). right. exists c. auto.
  - intros (tk & Htk & Hin). apply (ip_in_cv x tk (H tk Htk)) in Hin.
    destruct Hin as [(w & g6 & -> & E)|(c & Hc & Hin)].
    + right. left. split; [|reflexivity]. rewrite E4. apply I5. exists w, g6. auto.
    + right. right. right. exists c. split; [|exact Hin]. unfold cvs. apply in_flat_map. exists tk. auto.
Qed.

(* ================================================================== *)
(* 3b. methods                                                         *)
Lemma meth_eq_iff a b : meth_eq a b = true <->
  m_id a = m_id b /\ (m_id a <> am_OTHER \/ m_image a = m_image b).
Proof.
  unfold meth_eq. rewrite Bool.andb_true_iff, Bool.orb_true_iff, Bool.negb_true_iff, N.eqb_eq, N.eqb_neq, list_eqb_spec.
  reflexivity.
Qed.
Lemma meth_eq_refl a : meth_eq a a = true.
Proof. apply meth_eq_iff. auto. Qed.
Lemma meth_eq_sym a b : meth_eq a b = true -> meth_eq b a = true.
Proof. rewrite !meth_eq_iff. intros [E [H|H]]; (split; [congruence|]); [left; congruence| right; congruence]. Qed.
Lemma meth_eq_trans a b c : meth_eq a b = true -> meth_eq b c = true -> meth_eq a c = true.
Proof.
  rewrite !meth_eq_iff. intros [E1 H1] [E2 H2]. split; [congruence|].
  destruct H1 as [H1|H1]; [left; exact H1|]. destruct H2 as [H2|H2]; [left; congruence| right; congruence].
Qed.

(* the values of an ACLMethodData whose lines listed [toks], up to the order the lookups impose *)
Definition meth_inv (toks : list bytes) (vs : list meth) : Prop :=
  forall m, (exists v, In v vs /\ meth_eq v m = true) <-> (exists tok, In tok toks /\ meth_eq (meth_parse_cfg tok) m = true).

Lemma meth_find_spec vs m : forall seen,
  match meth_find vs m seen with
  | Some vs' => exists r1 v r2, vs = r1 ++ v :: r2 /\ meth_eq v m = true /\ vs' = m :: rev seen ++ r1 ++ r2
  | None => forall v, In v vs -> meth_eq v m = false
  end.
Proof.
  induction vs as [|v r IH]; intros seen; cbn [meth_find]; [intros v []|].
  destruct (meth_eq v m) eqn:E.
  - exists [], v, r. auto.
  - specialize (IH (v :: seen)). destruct (meth_find r m (v :: seen)) as [vs'|].
    + destruct IH as (r1 & v' & r2 & -> & E' & ->). exists (v :: r1), v', r2. split; [reflexivity|]. split; [exact E'|].
      cbn [rev]. rewrite <- !app_assoc. reflexivity.
    + intros x [<-|Hx]; [exact E| exact (IH x Hx)].
Qed.

Lemma meth_lookup toks vs m : meth_inv toks vs ->
  match meth_find vs m [] with
  | Some vs' => meth_inv toks vs' /\ exists tok, In tok toks /\ meth_eq (meth_parse_cfg tok) m = true
  | None => ~ exists tok, In tok toks /\ meth_eq (meth_parse_cfg tok) m = true
  end.
Proof.
  intros Inv. pose proof (meth_find_spec vs m []) as S. destruct (meth_find vs m []) as [vs'|].
  - destruct S as (r1 & v & r2 & -> & E & ->). cbn [rev app]. split.
    + intros m'. rewrite <- (Inv m'). split.
      * intros (x & [<-|Hx] & Hm).
        -- exists v. split; [apply in_or_app; right; left; reflexivity| exact (meth_eq_trans _ _ _ E Hm)].
        -- exists x. split; [|exact Hm]. apply in_app_or in Hx. apply in_or_app. destruct Hx; [left|right; right]; assumption.
      * intros (x & Hx & Hm). apply in_app_or in Hx. destruct Hx as [Hx|[<-|Hx]].
        -- exists x. split; [right; apply in_or_app; left; exact Hx| exact Hm].
        -- exists m. split; [left; reflexivity| exact (meth_eq_trans _ _ _ (meth_eq_sym _ _ E) Hm)].
        -- exists x. split; [right; apply in_or_app; right; exact Hx| exact Hm].
    + apply Inv. exists v. split; [apply in_or_app; right; left; reflexivity| exact E].
  - intros H. apply Inv in H. destruct H as (v & Hv & Hm). rewrite (S v Hv) in Hm. discriminate.
Qed.

Lemma meth_parse_inv toks : meth_inv toks ([] ++ map meth_parse_cfg toks).
Proof.
  intros m. cbn [app]. split.
  - intros (v & Hv & Hm). apply in_map_iff in Hv. destruct Hv as (tok & <- & Ht). exists tok. auto.
  - intros (tok & Ht & Hm). exists (meth_parse_cfg tok). split; [apply in_map, Ht| exact Hm].
Qed.

(* a method value means what it says: reading it the way request lines are read gives the same method.
   (Before /repo ae7c270 this failed for proper prefixes of registered names: "GE" was GET, "p" was POST.) *)
Definition meth_tok_exact (tok : bytes) : Prop := meth_parse_cfg tok = meth_parse_req tok.

Lemma takeN_all {A} (l : list A) : takeN (lenN l) l = l.
Proof.
  induction l as [|x l IH]; cbn [lenN takeN]; [reflexivity|].
  destruct (N.eqb_spec (N.succ (lenN l)) 0) as [E|E]; [lia|]. rewrite N.pred_succ, IH. reflexivity.
Qed.

Lemma cfg_req_image_eq image tok : cfg_image_eq image tok = req_image_eq image tok.
Proof.
  unfold cfg_image_eq, req_image_eq. destruct (N.eqb_spec (lenN tok) (lenN image)) as [E|E]; [|reflexivity].
  rewrite E, takeN_all. reflexivity.
Qed.

Lemma meth_scan_same tbl tok : meth_scan cfg_image_eq tbl tok = meth_scan req_image_eq tbl tok.
Proof.
  induction tbl as [|[id image] r IH]; cbn [meth_scan]; [reflexivity|]. rewrite cfg_req_image_eq, IH. reflexivity.
Qed.

Theorem meth_cfg_req_same tok : meth_tok_exact tok.
Proof. unfold meth_tok_exact, meth_parse_cfg, meth_parse_req, meth_parse. rewrite meth_scan_same. reflexivity. Qed.

(* ================================================================== *)
(* 3c. dstdomain: C41                                                  *)
Module DP := SquidV.AcldomProofs.
Module DM := SquidV.AcldomModel.

Definition rdns_name (e : env) (a : N) : bytes :=
  match assoc_n a (e_rev e) with Some nm => nm | None => s_none end.

(* checklist->dst_rdns, once set, is the reverse name of the numeric URL host *)
Definition rdns_ok (e : env) (rq : request) (rdns : option bytes) : Prop :=
  match rdns with
  | None => True
  | Some r => exists a, rq_hostip rq = Some a /\ assoc_n a (e_rev e) = Some r
  end.

(* what a dstdomain ACL is asked about: the URL host and, for numeric hosts, its reverse name *)
Definition dom_hit (e : env) (rq : request) (toks : list bytes) : Prop :=
  exists tok, In tok toks /\
    (DP.dom_match (DP.norm tok) (rq_host rq) \/
     exists a, rq_hostip rq = Some a /\ DP.dom_match (DP.norm tok) (rdns_name e a)).

Lemma dom_lookup e rq rdns toks t : Forall DP.nonempty toks -> DP.acl_holds toks t -> rdns_ok e rq rdns ->
  DP.acl_holds toks (fst (fst (dom_eval e rq rdns t))) /\
  rdns_ok e rq (snd (dom_eval e rq rdns t)) /\
  (snd (fst (dom_eval e rq rdns t)) = true <-> dom_hit e rq toks).
Proof.
  intros W Ht Hr. unfold dom_eval, dom_hit.
  destruct (DP.acl_match_correct toks t (rq_host rq) W Ht) as [Ht1 Hb1].
  destruct (DM.acl_match t (rq_host rq)) as [t1 b1]. cbn [fst snd] in Ht1, Hb1.
  destruct b1.
  - cbn [fst snd]. split; [exact Ht1|]. split; [exact Hr|]. split; [intros _|reflexivity].
    destruct (proj1 Hb1 eq_refl) as (tok & Hin & Hm). exists tok. auto.
  - assert (Hno : forall tok, In tok toks -> ~ DP.dom_match (DP.norm tok) (rq_host rq)).
    { intros tok Hin Hm. assert (false = true) by (apply Hb1; exists tok; auto). discriminate. }
    destruct (rq_hostip rq) as [a|] eqn:Eh.
    + assert (Hsecond : forall nm t2 b2, rdns_name e a = nm -> DM.acl_match t1 nm = (t2, b2) ->
                DP.acl_holds toks t2 /\ (b2 = true <-> exists tok, In tok toks /\
                  (DP.dom_match (DP.norm tok) (rq_host rq) \/ exists a0, Some a = Some a0 /\ DP.dom_match (DP.norm tok) (rdns_name e a0)))).
      { intros nm t2 b2 En Em. destruct (DP.acl_match_correct toks t1 nm W Ht1) as [Ht2 Hb2]. rewrite Em in Ht2, Hb2.
        cbn [fst snd] in Ht2, Hb2. split; [exact Ht2|]. rewrite Hb2. split.
        - intros (tok & Hin & Hm). exists tok. split; [exact Hin|]. right. exists a. rewrite En. auto.
        - intros (tok & Hin & [Hm|(a0 & Ea & Hm)]); [destruct (Hno tok Hin Hm)|]. inversion Ea; subst a0. exists tok. rewrite <- En. auto. }
      destruct rdns as [r|].
      * destruct Hr as (a' & Ea' & Er). rewrite Eh in Ea'. inversion Ea'; subst a'.
        destruct (DM.acl_match t1 r) as [t2 b2] eqn:Em. cbn [fst snd].
        destruct (Hsecond r t2 b2 ltac:(unfold rdns_name; rewrite Er; reflexivity) Em) as [H1 H2].
        split; [exact H1|]. split; [exists a; auto| exact H2].
      * destruct (assoc_n a (e_rev e)) as [nm|] eqn:Er.
        -- destruct (DM.acl_match t1 nm) as [t2 b2] eqn:Em. cbn [fst snd].
           destruct (Hsecond nm t2 b2 ltac:(unfold rdns_name; rewrite Er; reflexivity) Em) as [H1 H2].
           split; [exact H1|]. split; [exists a; auto| exact H2].
        -- destruct (DM.acl_match t1 s_none) as [t2 b2] eqn:Em. cbn [fst snd].
           destruct (Hsecond s_none t2 b2 ltac:(unfold rdns_name; rewrite Er; reflexivity) Em) as [H1 H2].
           split; [exact H1|]. split; [exact I| exact H2].
    + cbn [fst snd]. split; [exact Ht1|]. split; [exact Hr|]. split; [discriminate|].
      intros (tok & Hin & [Hm|(a0 & Ea & _)]); [destruct (Hno tok Hin Hm)| discriminate].
Qed.

(* ================================================================== *)
(* 3d. dst: the resolved addresses of the URL host                     *)
Lemma dst_lookup ips f4 f6 : Forall iptok_ok ips -> forall addrs t, ip_inv ips f4 f6 t -> Forall (fun a => a < W32) addrs ->
  ip_inv ips f4 f6 (fst (dst_loop f4 f6 t addrs)) /\
  (snd (dst_loop f4 f6 t addrs) = true <-> exists a tk, In a addrs /\ In tk ips /\ ip_in a tk).
Proof.
  intros H. induction addrs as [|a r IH]; intros t Inv Hr; cbn [dst_loop].
  - cbn [fst snd]. split; [exact Inv|]. split; [discriminate| intros (a & tk & [] & _)].
  - inversion Hr as [|? ? Ha Hr']; subst. destruct (ip_lookup ips f4 f6 t a H Inv Ha) as [Inv1 Hm].
    destruct (IM.acl_match f4 f6 t (v4 a)) as [t1 b]. cbn [fst snd] in Inv1, Hm. destruct b.
    + cbn [fst snd]. split; [exact Inv1|]. split; [intros _|reflexivity].
      destruct (proj1 Hm eq_refl) as (tk & Hin & Hi). exists a, tk. split; [left; reflexivity| auto].
    + destruct (IH t1 Inv1 Hr') as [Inv2 Hm2]. split; [exact Inv2|]. rewrite Hm2. split.
      * intros (a' & tk & Hin & Htk & Hi). exists a', tk. split; [right; exact Hin| auto].
      * intros (a' & tk & [<-|Hin] & Htk & Hi); [|exists a', tk; auto].
        assert (false = true) by (apply Hm; exists tk; auto). discriminate.
Qed.

(* ================================================================== *)
(* 4. the reference evaluation and the walk                            *)

(* ---- all lines of a name have the type of its first line ---- *)
Definition typed (cfg : list line) : Prop :=
  forall n ty ips txt, In (LAcl n ty ips txt) cfg -> acl_type cfg n = Some ty.

Lemma acl_type_app_some a b name ty : acl_type a name = Some ty -> acl_type (a ++ b) name = Some ty.
Proof. intros H. rewrite acl_type_app, H. reflexivity. Qed.

Lemma cfg_step_typed pre s l s' : parsed pre s -> typed pre -> cfg_step s l = Some s' -> typed (pre ++ [l]).
Proof.
  intros (HA & _ & _) HT Hs n ty ips txt Hin. apply in_app_or in Hin. destruct Hin as [Hin|[->|[]]].
  - apply acl_type_app_some, (HT n ty ips txt Hin).
  - cbn [cfg_step] in Hs. specialize (HA n). destruct (find_acl n (c_acls s)) as [a|].
    + destruct (atype_eqb (a_type a) ty) eqn:Et; [|discriminate].
      assert (Ety : a_type a = ty) by (destruct (a_type a), ty; cbn in Et; congruence).
      destruct HA as (_ & H2 & _). apply acl_type_app_some. rewrite H2, Ety. reflexivity.
    + rewrite acl_type_app, HA. cbn [acl_type]. rewrite list_eqb_refl. reflexivity.
Qed.

Lemma cfg_steps_typed rest : forall pre s s', parsed pre s -> typed pre -> cfg_steps s rest = Some s' -> typed (pre ++ rest).
Proof.
  induction rest as [|l rest IH]; intros pre s s' HP HT Hs; cbn [cfg_steps] in Hs.
  - rewrite app_nil_r. exact HT.
  - destruct (cfg_step s l) as [s1|] eqn:E; [|discriminate].
    replace (pre ++ l :: rest) with ((pre ++ [l]) ++ rest) by (rewrite <- app_assoc; reflexivity).
    apply (IH _ s1 s'); [exact (cfg_step_parsed pre s l s1 HP E)| exact (cfg_step_typed pre s l s1 HP HT E)| exact Hs].
Qed.

Lemma cfg_parse_typed cfg s : cfg_parse cfg = Some s -> typed (full cfg).
Proof.
  unfold cfg_parse, full. intros H.
  destruct (cfg_steps (mkC [] []) (predefined ++ cfg)) as [s1|] eqn:E1; [|discriminate].
  apply (cfg_steps_typed _ [] _ _ parsed_nil ltac:(intros ? ? ? ? []) E1).
Qed.

(* ---- well-formed lines (the quantifier of the property) ---- *)
Definition line_ok (l : line) : Prop :=
  match l with
  | LAcl _ (TSrc | TDst) ips _ => Forall iptok_ok ips
  | LAcl _ TDom _ txt => Forall DP.nonempty txt
  | LAcl _ TPort _ txt => Forall (fun t => clean t = true) txt
  | LAcl _ TMeth _ _ => True
  | LAccess _ _ => True
  end.

Lemma Forall_flat_map' {A B} (P : B -> Prop) (f : A -> list B) l :
  (forall x, In x l -> Forall P (f x)) -> Forall P (flat_map f l).
Proof.
  induction l as [|x l IH]; intros H; cbn [flat_map]; [constructor|].
  apply Forall_app. split; [apply H; left; reflexivity| apply IH; intros y Hy; apply H; right; exact Hy].
Qed.

Lemma toks_ok cfg name ty : typed cfg -> Forall line_ok cfg -> acl_type cfg name = Some ty ->
  match ty with
  | TSrc | TDst => Forall iptok_ok (acl_ips cfg name)
  | TDom => Forall DP.nonempty (acl_txt cfg name)
  | TPort => forallb clean (acl_txt cfg name) = true
  | TMeth => True
  end.
Proof.
  intros HT HW Hty. rewrite Forall_forall in HW.
  assert (Hl : forall n ty' ips txt, In (LAcl n ty' ips txt) cfg -> list_eqb n name = true -> ty' = ty).
  { intros n ty' ips txt Hin E. apply list_eqb_spec in E. subst n. pose proof (HT _ _ _ _ Hin). congruence. }
  assert (Hfb : forall l, Forall (fun t => clean t = true) l -> forallb clean l = true).
  { intros l F. apply forallb_forall. rewrite Forall_forall in F. exact F. }
  destruct ty; [| |  |apply Hfb|exact I]; unfold acl_ips, acl_txt; apply Forall_flat_map'; intros l Hin;
    pose proof (HW l Hin) as Hok; destruct l as [n ty' ips txt|? ?]; cbn [line_ips line_txt]; try constructor;
    destruct (list_eqb n name) eqn:E; try constructor; pose proof (Hl _ _ _ _ Hin E) as ->; exact Hok.
Qed.

(* ---- the reference: set semantics of one named ACL ---- *)
Definition ref_acl (cfg : list line) (e : env) (rq : request) (name : bytes) : Prop :=
  match acl_type cfg name with
  | Some TSrc => exists tk, In tk (acl_ips cfg name) /\ ip_in (rq_client rq) tk
  | Some TDst => exists a tk, In a (resolve e rq) /\ In tk (acl_ips cfg name) /\ ip_in a tk
  | Some TDom => dom_hit e rq (acl_txt cfg name)
  | Some TPort => exists t lo hi, In t (acl_txt cfg name) /\ tok_range t = Some (lo, hi) /\ (lo <= rq_port rq <= hi)%Z
  | Some TMeth => exists tok, In tok (acl_txt cfg name) /\
                    meth_eq (meth_parse_req tok) (meth_parse_req (rq_method rq)) = true
  | None => False
  end.

Definition req_ok (e : env) (rq : request) : Prop :=
  rq_client rq < W32 /\ Forall (fun a => a < W32) (resolve e rq) /\ (0 <= rq_port rq <= 65535)%Z.

(* ---- the invariant of an ACL object ---- *)
Definition data_inv (cfg : list line) (name : bytes) (ty : atype) (d : adata) : Prop :=
  match ty, d with
  | (TSrc | TDst), DIp f4 f6 t _ => ip_inv (acl_ips cfg name) f4 f6 t
  | TDom, DDom t _ => DP.acl_holds (acl_txt cfg name) t
  | TPort, DPort rs => fst (ir_parse (acl_txt cfg name) [] false) = Some rs
  | TMeth, DMeth vs => meth_inv (acl_txt cfg name) vs
  | _, _ => False
  end.

Lemma parsed_data_inv cfg name a : typed cfg -> Forall line_ok cfg -> acl_parsed cfg name a ->
  data_inv cfg name (a_type a) (a_data a).
Proof.
  intros HT HW (_ & Hty & Hp). pose proof (toks_ok cfg name (a_type a) HT HW Hty) as Hok.
  destruct (a_type a); cbn [empty_data parse_into] in Hp.
  1,2: destruct (IM.acl_parse_from false false Leaf 0%Z (map ip_spec (acl_ips cfg name))) as [f4 f6 t n| | |] eqn:E; try discriminate;
       inversion Hp; cbn [data_inv]; exact (ip_parse_inv _ _ _ _ _ Hok E).
  - destruct (DM.acl_parse_from Leaf 0%Z (acl_txt cfg name)) as [t n| | |] eqn:E; try discriminate. inversion Hp. cbn [data_inv].
    destruct (DP.acl_parse_ok _ Hok) as (t' & n' & E' & Hh). unfold DM.acl_parse in E'. rewrite E in E'. inversion E'; subst. exact Hh.
  - cbn [rev] in Hp. destruct (ir_parse (acl_txt cfg name) [] false) as [[rs|] u] eqn:E; try discriminate. inversion Hp.
    cbn [data_inv]. rewrite E. reflexivity.
  - inversion Hp. cbn [data_inv]. apply meth_parse_inv.
Qed.

(* ---- one literal ---- *)
Lemma leaf_ok cfg e rq rdns name a : typed cfg -> Forall line_ok cfg -> req_ok e rq -> rdns_ok e rq rdns ->
  acl_type cfg name = Some (a_type a) -> data_inv cfg name (a_type a) (a_data a) ->
  data_inv cfg name (a_type a) (snd (fst (leaf_eval e rq rdns a))) /\
  rdns_ok e rq (snd (leaf_eval e rq rdns a)) /\
  (fst (fst (leaf_eval e rq rdns a)) = true <-> ref_acl cfg e rq name).
Proof.
  intros HT HW (Hc & Hres & Hport) Hr Hty Hd. pose proof (toks_ok cfg name (a_type a) HT HW Hty) as Hok.
  unfold leaf_eval, ref_acl. rewrite Hty.
  destruct (a_type a); destruct (a_data a) as [f4 f6 t n|t n|rs|vs]; cbn [data_inv] in Hd; try contradiction.
  - destruct (ip_lookup _ f4 f6 t (rq_client rq) Hok Hd Hc) as [I M].
    destruct (IM.acl_match f4 f6 t (v4 (rq_client rq))) as [t' b]. cbn [fst snd data_inv] in *. auto.
  - destruct (dst_lookup _ f4 f6 Hok (resolve e rq) t Hd Hres) as [I M].
    destruct (dst_loop f4 f6 t (resolve e rq)) as [t' b]. cbn [fst snd data_inv] in *. auto.
  - destruct (dom_lookup e rq rdns _ t Hok Hd Hr) as (I & R & M).
    destruct (dom_eval e rq rdns t) as [[t' b] rdns']. cbn [fst snd data_inv] in *. auto.
  - cbn [fst snd data_inv]. split; [exact Hd|]. split; [exact Hr|].
    apply (intrange_match_iff _ rs (rq_port rq) Hok Hd). unfold two31, int_max. lia.
  - pose proof (meth_lookup _ vs (meth_parse_req (rq_method rq)) Hd) as L.
    assert (Hex : (exists tok, In tok (acl_txt cfg name) /\ meth_eq (meth_parse_cfg tok) (meth_parse_req (rq_method rq)) = true) <->
                  (exists tok, In tok (acl_txt cfg name) /\ meth_eq (meth_parse_req tok) (meth_parse_req (rq_method rq)) = true)).
    { split; intros (tok & Hin & Hm); exists tok; (split; [exact Hin|]);
        [rewrite <- (meth_cfg_req_same tok)| rewrite (meth_cfg_req_same tok)]; exact Hm. }
    destruct (meth_find vs (meth_parse_req (rq_method rq)) []) as [vs'|]; cbn [fst snd data_inv].
    + destruct L as [I X]. split; [exact I|]. split; [exact Hr|]. split; [intros _; apply Hex, X| reflexivity].
    + split; [exact Hd|]. split; [exact Hr|]. split; [discriminate|]. intros X. apply Hex in X. contradiction.
Qed.

(* ---- the walk ---- *)
Definition acls_inv (cfg : list line) (acls : list aclobj) : Prop :=
  forall name, match find_acl name acls with
               | Some a => acl_type cfg name = Some (a_type a) /\ data_inv cfg name (a_type a) (a_data a)
               | None => True
               end.

(* a literal holds: the ACL matches, or does not when preceded by '!' *)
Definition term_holds (cfg : list line) (e : env) (rq : request) (t : bool * bytes) : Prop :=
  if fst t then ~ ref_acl cfg e rq (snd t) else ref_acl cfg e rq (snd t).
(* a rule applies when all its literals hold *)
Definition rule_holds (cfg : list line) (e : env) (rq : request) (terms : list (bool * bytes)) : Prop :=
  Forall (term_holds cfg e rq) terms.

Definition same_names (acls acls' : list aclobj) : Prop :=
  forall n, find_acl n acls' = None <-> find_acl n acls = None.

Lemma and_walk_ok cfg e rq : typed cfg -> Forall line_ok cfg -> req_ok e rq ->
  forall terms acls rdns, acls_inv cfg acls -> rdns_ok e rq rdns ->
  (forall t, In t terms -> find_acl (snd t) acls <> None) ->
  acls_inv cfg (snd (fst (and_walk e rq acls rdns terms))) /\
  rdns_ok e rq (snd (and_walk e rq acls rdns terms)) /\
  same_names acls (snd (fst (and_walk e rq acls rdns terms))) /\
  (fst (fst (and_walk e rq acls rdns terms)) = true <-> rule_holds cfg e rq terms).
Proof.
  intros HT HW HQ. induction terms as [|[neg name] terms IH]; intros acls rdns Inv Hr Hex; cbn [and_walk].
  - cbn [fst snd]. split; [exact Inv|]. split; [exact Hr|]. split; [intros n; reflexivity|]. split; [constructor| reflexivity].
  - pose proof (Hex (neg, name) ltac:(left; reflexivity)) as Hn. cbn [snd] in Hn.
    pose proof (Inv name) as Ia. destruct (find_acl name acls) as [a|] eqn:Ef; [|contradiction]. destruct Ia as [Hty Hd].
    destruct (leaf_ok cfg e rq rdns name a HT HW HQ Hr Hty Hd) as (Hd' & Hr' & Hb).
    destruct (leaf_eval e rq rdns a) as [[b d] rdns']. cbn [fst snd] in Hd', Hr', Hb.
    assert (Inv' : acls_inv cfg (set_data name d acls)).
    { intros n. rewrite find_set. destruct (list_eqb n name) eqn:E.
      - apply list_eqb_spec in E. subst n. rewrite Ef. cbn [a_type a_data]. auto.
      - apply Inv. }
    assert (Same : same_names acls (set_data name d acls)).
    { intros n. rewrite find_set. destruct (list_eqb n name) eqn:E; [|reflexivity].
      apply list_eqb_spec in E. subst n. rewrite Ef. split; discriminate. }
    assert (Hterm : xorb neg b = true <-> term_holds cfg e rq (neg, name)).
    { unfold term_holds. cbn [fst snd]. destruct neg, b; cbn [xorb]; split; intros H; try discriminate; try reflexivity.
      - exfalso. apply H, Hb. reflexivity.
      - intros X. apply Hb in X. discriminate.
      - apply Hb. reflexivity.
      - apply Hb in H. discriminate. }
    destruct (xorb neg b) eqn:Ex.
    + assert (Hex' : forall t, In t terms -> find_acl (snd t) (set_data name d acls) <> None).
      { intros t Ht X. apply Same in X. exact (Hex t (or_intror Ht) X). }
      destruct (IH (set_data name d acls) rdns' Inv' Hr' Hex') as (I2 & R2 & S2 & B2).
      split; [exact I2|]. split; [exact R2|]. split.
      * intros n. exact (iff_trans (S2 n) (Same n)).
      * rewrite B2. unfold rule_holds. split; [intros F; constructor; [apply Hterm; reflexivity| exact F]| intros F; inversion F; assumption].
    + cbn [fst snd]. split; [exact Inv'|]. split; [exact Hr'|]. split; [exact Same|]. split; [discriminate|].
      intros F. inversion F as [|? ? F1 _]; subst. apply Hterm in F1. discriminate.
Qed.

(* first match: "allow" of the first rule that applies, or the default when none applies *)
Fixpoint fm_allows (holds : list (bool * bytes) -> Prop) (rules : list rule) (dflt : bool) : Prop :=
  match rules with
  | [] => dflt = true
  | (allow, terms) :: r => (holds terms /\ allow = true) \/ (~ holds terms /\ fm_allows holds r dflt)
  end.

Lemma or_walk_ok cfg e rq : typed cfg -> Forall line_ok cfg -> req_ok e rq ->
  forall rules acls rdns, acls_inv cfg acls -> rdns_ok e rq rdns ->
  (forall r t, In r rules -> In t (snd r) -> find_acl (snd t) acls <> None) ->
  acls_inv cfg (snd (or_walk e rq acls rdns rules)) /\
  same_names acls (snd (or_walk e rq acls rdns rules)) /\
  forall dflt, (match fst (or_walk e rq acls rdns rules) with Some al => al = true | None => dflt = true end)
               <-> fm_allows (rule_holds cfg e rq) rules dflt.
Proof.
  intros HT HW HQ. induction rules as [|[allow terms] rules IH]; intros acls rdns Inv Hr Hex; cbn [or_walk].
  - cbn [fst snd fm_allows]. split; [exact Inv|]. split; [intros n; reflexivity|]. intros dflt. reflexivity.
  - destruct (and_walk_ok cfg e rq HT HW HQ terms acls rdns Inv Hr
                (fun t Ht => Hex (allow, terms) t (or_introl eq_refl) Ht)) as (I1 & R1 & S1 & B1).
    destruct (and_walk e rq acls rdns terms) as [[b acls1] rdns1]. cbn [fst snd] in I1, R1, S1, B1.
    destruct b.
    + cbn [fst snd fm_allows]. split; [exact I1|]. split; [exact S1|]. intros dflt.
      pose proof (proj1 B1 eq_refl) as Hh. split; [intros ->; left; auto| intros [[_ E]|[N _]]; [exact E| contradiction]].
    + assert (Hex' : forall r t, In r rules -> In t (snd r) -> find_acl (snd t) acls1 <> None).
      { intros r t Hr' Ht X. apply S1 in X. exact (Hex r t (or_intror Hr') Ht X). }
      destruct (IH acls1 rdns1 I1 R1 Hex') as (I2 & S2 & B2).
      split; [exact I2|]. split; [intros n; exact (iff_trans (S2 n) (S1 n))|]. intros dflt. rewrite B2. cbn [fm_allows].
      assert (Nh : ~ rule_holds cfg e rq terms) by (intros X; apply B1 in X; discriminate).
      split; [intros F; right; auto| intros [[X _]|[_ F]]; [contradiction| exact F]].
Qed.

(* the reference decision for a request *)
Definition ref_allows (cfg : list line) (e : env) (rq : request) : Prop :=
  fm_allows (rule_holds (full cfg) e rq) (ref_rules (full cfg))
            (negb (fst (last (ref_rules (full cfg)) (true, [])))).     (* no rule applies: reverse of the last action *)

Definition st_inv (cfg : list line) (s : cstate) : Prop :=
  acls_inv (full cfg) (c_acls s) /\ c_rules s = ref_rules (full cfg) /\
  (forall r t, In r (c_rules s) -> In t (snd r) -> find_acl (snd t) (c_acls s) <> None).

Lemma rev_head_last {A} (l : list A) x r d : rev l = x :: r -> last l d = x.
Proof.
  intros H. assert (E : l = rev r ++ [x]).
  { rewrite <- (rev_involutive l), H. reflexivity. }
  rewrite E. apply last_last.
Qed.

Lemma check_ok cfg e s rq : typed (full cfg) -> Forall line_ok (full cfg) -> req_ok e rq -> st_inv cfg s ->
  st_inv cfg (snd (check e s rq)) /\
  (access_done (fst (check e s rq)) = OForward <-> ref_allows cfg e rq).
Proof.
  intros HT HW HQ (Inv & HR & Hex). unfold check.
  destruct (or_walk_ok (full cfg) e rq HT HW HQ (c_rules s) (c_acls s) None Inv I Hex) as (I1 & S1 & B1).
  destruct (or_walk e rq (c_acls s) None (c_rules s)) as [w acls']. cbn [fst snd] in *.
  split.
  - split; [exact I1|]. split; [exact HR|]. cbn [c_rules c_acls]. intros r t Hr Ht X. apply S1 in X. exact (Hex r t Hr Ht X).
  - unfold ref_allows. rewrite <- HR, <- B1. destruct w as [[|]|]; cbn [access_done].
    + split; reflexivity.
    + split; discriminate.
    + destruct (rev (c_rules s)) as [|[[|] ts] r] eqn:Er.
      * assert (c_rules s = []) by (rewrite <- (rev_involutive (c_rules s)), Er; reflexivity).
        rewrite H. cbn. split; discriminate.
      * assert (EL : last (c_rules s) (true, []) = (true, ts)) by (apply (rev_head_last _ _ r), Er).
        rewrite EL. cbn. split; discriminate.
      * assert (EL : last (c_rules s) (true, []) = (false, ts)) by (apply (rev_head_last _ _ r), Er).
        rewrite EL. cbn. split; reflexivity.
Qed.

Lemma serve_ok cfg e : typed (full cfg) -> Forall line_ok (full cfg) ->
  forall reqs s, st_inv cfg s -> Forall (req_ok e) reqs ->
  Forall2 (fun rq o => o = OForward <-> ref_allows cfg e rq) reqs (serve e s reqs).
Proof.
  intros HT HW. induction reqs as [|rq reqs IH]; intros s Inv HQ; cbn [serve]; [constructor|].
  inversion HQ as [|? ? Q1 QR]; subst. destruct (check_ok cfg e s rq HT HW Q1 Inv) as [Inv' Hv].
  destruct (check e s rq) as [v s']. cbn [fst snd] in *. constructor; [exact Hv| exact (IH s' Inv' QR)].
Qed.

Lemma predefined_ok : Forall line_ok predefined.
Proof. constructor; [|constructor]. cbn. constructor; [|constructor]. cbn. discriminate. Qed.

Lemma cfg_parse_inv cfg s : Forall line_ok cfg -> cfg_parse cfg = Some s -> st_inv cfg s.
Proof.
  intros HW H. pose proof (cfg_parse_typed cfg s H) as HT. destruct (cfg_parse_parsed cfg s H) as (PA & PR & PN).
  assert (HW' : Forall line_ok (full cfg)) by (apply Forall_app; split; [exact predefined_ok| exact HW]).
  split; [|split; assumption].
  intros name. specialize (PA name). destruct (find_acl name (c_acls s)) as [a|]; [|exact I].
  split; [apply PA| exact (parsed_data_inv _ _ _ HT HW' PA)].
Qed.

(* ===== the property over the model ===== *)
Theorem access_correct cfg e reqs outs :
  Forall line_ok cfg -> Forall (req_ok e) reqs -> access_run cfg e reqs = Some outs ->
  Forall2 (fun rq o => (o = OForward <-> ref_allows cfg e rq) /\ (o = ODeny403 <-> ~ ref_allows cfg e rq)) reqs outs.
Proof.
  intros HW HQ H. unfold access_run in H. destruct (cfg_parse cfg) as [s|] eqn:E; [|discriminate]. inversion H; subst outs.
  pose proof (cfg_parse_typed cfg s E) as HT.
  assert (HW' : Forall line_ok (full cfg)) by (apply Forall_app; split; [exact predefined_ok| exact HW]).
  pose proof (serve_ok cfg e HT HW' reqs s (cfg_parse_inv cfg s HW E) HQ) as F.
  clear -F. induction F as [|rq o reqs outs Ho F IH]; constructor; [|exact IH].
  split; [exact Ho|]. destruct o; split.
  - discriminate.
  - intros N. exfalso. apply N, Ho. reflexivity.
  - intros _ X. apply Ho in X. discriminate.
  - reflexivity.
Qed.

(* ---- no http_access line that names an ACL: everything is denied ---- *)
Lemma all_always_matches cfg e rq : ref_acl (full cfg) e rq s_all.
Proof.
  unfold ref_acl, full, predefined. cbn [app acl_type]. rewrite list_eqb_refl.
  exists (IWord s_all). split; [|exists true; reflexivity].
  unfold acl_ips. cbn [flat_map line_ips]. rewrite list_eqb_refl. left. reflexivity.
Qed.

Theorem no_rules_deny cfg e rq : raw_rules cfg = [] -> ~ ref_allows cfg e rq.
Proof.
  intros H. unfold ref_allows, ref_rules, full. rewrite raw_rules_app, H. cbn [predefined raw_rules flat_map line_rule app fm_allows].
  intros [[_ E]|[N _]]; [discriminate|]. apply N. constructor; [|constructor]. unfold term_holds. cbn [fst snd].
  apply (all_always_matches cfg e rq).
Qed.

(* ================================================================== *)
(* 5. the former defect (repaired by /repo ae7c270): a method value that is a proper prefix of a   *)
(*    registered method name was read as that method                                               *)
Definition b_m : bytes := [109].                     (* "m" *)
Definition b_GE : bytes := [71; 69].                 (* "GE" *)
Definition b_GET : bytes := [71; 69; 84].            (* "GET" *)
(* acl m method GE / http_access deny m / http_access allow all *)
Definition wit_cfg : list line :=
  [LAcl b_m TMeth [] [b_GE]; LAccess false [(false, b_m)]; LAccess true [(false, s_all)]].
(* from 127.0.0.3: <method> http://127.0.0.1:80/ *)
Definition wit_req (m : bytes) : request := mkReq 2130706435 m [49; 50; 55; 46; 48; 46; 48; 46; 49] (Some 2130706433) 80%Z.
Definition wit_env : env := mkEnv [] [].

(* the former witness now behaves as the access list says: GE is denied, GET is forwarded; "GE", "g" and "p"
   are extension methods, "get" is GET *)
Theorem former_prefix_witness_repaired :
  access_run wit_cfg wit_env [wit_req b_GE; wit_req b_GET] = Some [ODeny403; OForward] /\
  meth_parse_cfg b_GE = mkMeth am_OTHER b_GE /\ meth_parse_cfg [103] = mkMeth am_OTHER [103] /\
  meth_parse_cfg [112] = mkMeth am_OTHER [112] /\ meth_parse_cfg [103; 101; 116] = meth_parse_req b_GET.
Proof. repeat split; vm_compute; reflexivity. Qed.

(* a well-formed example: acl a src 127.0.0.0/30 127.0.0.9; acl d dstdomain .verif.test; acl p port 80 8000-8080;
   acl g method get POST; http_access deny !a g; http_access allow d p *)
Definition ex_a : bytes := [97].
Definition ex_d : bytes := [100].
Definition ex_p : bytes := [112].
Definition ex_g : bytes := [103].
Definition ex_dom : bytes := [46; 118; 101; 114; 105; 102; 46; 116; 101; 115; 116].           (* .verif.test *)
Definition ex_host : bytes := [97; 46; 118; 101; 114; 105; 102; 46; 116; 101; 115; 116].      (* a.verif.test *)
Definition ex_cfg : list line :=
  [LAcl ex_a TSrc [ICidr 2130706432 30; ISingle 2130706441] [];
   LAcl ex_d TDom [] [ex_dom];
   LAcl ex_p TPort [] [[56; 48]; [56; 48; 48; 48; 45; 56; 48; 56; 48]];
   LAcl ex_g TMeth [] [[103; 101; 116]; [80; 79; 83; 84]];
   LAccess false [(true, ex_a); (false, ex_g)];
   LAccess true [(false, ex_d); (false, ex_p)]].
Definition ex_env : env := mkEnv [(ex_host, 2130706433)] [(2130706433, ex_host)].
Definition ex_req (c : N) (m : bytes) (port : Z) : request := mkReq c m ex_host None port.

Lemma ex_cfg_ok : Forall line_ok ex_cfg.
Proof.
  repeat (apply Forall_cons); try apply Forall_nil; cbn [line_ok]; try exact I;
    repeat (apply Forall_cons); try apply Forall_nil; cbn [iptok_ok]; try reflexivity; try discriminate.
  all: try (split; [reflexivity|]; split; [split; discriminate| reflexivity]).
Qed.
Lemma ex_reqs_ok : Forall (req_ok ex_env)
  [ex_req 2130706434 b_GET 80; ex_req 2130706437 b_GET 80; ex_req 2130706437 [72; 69; 65; 68] 8001; ex_req 2130706441 [80; 79; 83; 84] 9000].
Proof.
  repeat (apply Forall_cons); try apply Forall_nil; (split; [reflexivity|]; split;
    [cbn; repeat constructor| split; discriminate]).
Qed.
Lemma ex_run : access_run ex_cfg ex_env
  [ex_req 2130706434 b_GET 80; ex_req 2130706437 b_GET 80; ex_req 2130706437 [72; 69; 65; 68] 8001; ex_req 2130706441 [80; 79; 83; 84] 9000]
  = Some [OForward; ODeny403; OForward; ODeny403].
Proof. vm_compute. reflexivity. Qed.

(* ================================================================== *)
(* 6. composition with C44: the ACLChecklist machine on the same tree  *)
Module TM := SquidV.AcltreeModel.
Module TP := SquidV.AcltreeProofs.

(* The Acl::Tree of the rule list. Every literal occurrence k (counted from 1 over the whole list) becomes
   its own scripted leaf 3k, so that it may go asynchronous on its own; '!' is the NotNode 3k+1 above it;
   a rule is the AndNode 3k+2 of its first literal; the tree itself is node 0. *)
Fixpoint num_terms (k : N) (terms : list (bool * bytes)) : list TM.node :=
  match terms with
  | [] => []
  | (neg, _) :: r =>
      (if neg then TM.Inner (3 * k + 1) TM.KNot [TM.Leaf (3 * k)] else TM.Leaf (3 * k)) :: num_terms (k + 1) r
  end.
Fixpoint num_rules (k : N) (rules : list rule) : list TM.node :=
  match rules with
  | [] => []
  | (_, ts) :: r => TM.Inner (3 * k + 2) TM.KAnd (num_terms k ts) :: num_rules (k + lenN ts) r
  end.
Definition act_of (r : rule) : TM.answer := TM.action (if fst r then TM.Allowed else TM.Denied) 0.
Definition tree_of (rules : list rule) : TM.tree := TM.mkTree 0 (num_rules 1 rules) (map act_of rules).

(* what the literal answers in the state s (a fresh checklist: no cached reverse name) *)
Definition lit_truth (e : env) (s : cstate) (rq : request) (name : bytes) : bool :=
  match find_acl name (c_acls s) with
  | Some a => fst (fst (leaf_eval e rq None a))
  | None => false
  end.

(* the scripts: leaf 3k answers lit_truth after [sched (3k)] lookups that really go asynchronous *)
Fixpoint scr_terms (e : env) (s : cstate) (rq : request) (sched : N -> nat) (k : N) (terms : list (bool * bytes))
  : list (N * TM.lscript) :=
  match terms with
  | [] => []
  | (_, name) :: r =>
      (3 * k, TM.mkScript (lit_truth e s rq name) false (repeat TM.Real (sched (3 * k)))) :: scr_terms e s rq sched (k + 1) r
  end.
Fixpoint scr_rules (e : env) (s : cstate) (rq : request) (sched : N -> nat) (k : N) (rules : list rule)
  : list (N * TM.lscript) :=
  match rules with
  | [] => []
  | (_, ts) :: r => scr_terms e s rq sched k ts ++ scr_rules e s rq sched (k + lenN ts) r
  end.
Definition scripts_of (e : env) (s : cstate) (rq : request) (sched : N -> nat) : list (N * TM.lscript) :=
  scr_rules e s rq sched 1 (c_rules s).

(* ---- leaf ids are distinct ---- *)
Fixpoint ids_terms (k : N) (terms : list (bool * bytes)) : list N :=
  match terms with [] => [] | _ :: r => 3 * k :: ids_terms (k + 1) r end.
Fixpoint ids_rules (k : N) (rules : list rule) : list N :=
  match rules with [] => [] | (_, ts) :: r => ids_terms k ts ++ ids_rules (k + lenN ts) r end.

Lemma leaf_ids_terms terms : forall k, flat_map TM.leaf_ids (num_terms k terms) = ids_terms k terms.
Proof.
  induction terms as [|[neg name] r IH]; intros k; cbn [num_terms ids_terms flat_map]; [reflexivity|].
  rewrite IH. destruct neg; reflexivity.
Qed.
Lemma leaf_ids_rules rules : forall k, flat_map TM.leaf_ids (num_rules k rules) = ids_rules k rules.
Proof.
  induction rules as [|[al ts] r IH]; intros k; cbn [num_rules ids_rules flat_map]; [reflexivity|].
  rewrite IH. cbn [TM.leaf_ids]. rewrite leaf_ids_terms. reflexivity.
Qed.

Lemma ids_terms_bounds terms : forall k x, In x (ids_terms k terms) -> 3 * k <= x < 3 * (k + lenN terms).
Proof.
  induction terms as [|t r IH]; intros k x; cbn [ids_terms lenN In]; [intros []|].
  intros [<-|H]; [lia|]. apply IH in H. lia.
Qed.
Lemma ids_rules_lower rules : forall k x, In x (ids_rules k rules) -> 3 * k <= x.
Proof.
  induction rules as [|[al ts] r IH]; intros k x; cbn [ids_rules In]; [intros []|].
  intros H. apply in_app_or in H. destruct H as [H|H]; [apply ids_terms_bounds in H; lia| apply IH in H; lia].
Qed.
Lemma NoDup_app' {A} (a b : list A) : NoDup a -> NoDup b -> (forall x, In x a -> In x b -> False) -> NoDup (a ++ b).
Proof.
  induction a as [|x a IH]; intros Ha Hb Hd; cbn [app]; [exact Hb|].
  inversion Ha as [|? ? Hx Ha']; subst. constructor.
  - intros H. apply in_app_or in H. destruct H as [H|H]; [contradiction| exact (Hd x (or_introl eq_refl) H)].
  - apply IH; [exact Ha'| exact Hb|]. intros y Hy1 Hy2. exact (Hd y (or_intror Hy1) Hy2).
Qed.
Lemma ids_terms_nodup terms : forall k, NoDup (ids_terms k terms).
Proof.
  induction terms as [|t r IH]; intros k; cbn [ids_terms]; constructor; [|apply IH].
  intros H. apply ids_terms_bounds in H. lia.
Qed.
Lemma ids_rules_nodup rules : forall k, NoDup (ids_rules k rules).
Proof.
  induction rules as [|[al ts] r IH]; intros k; cbn [ids_rules]; [constructor|].
  apply NoDup_app'; [apply ids_terms_nodup| apply IH|].
  intros x H1 H2. apply ids_terms_bounds in H1. apply ids_rules_lower in H2. lia.
Qed.

(* ---- the table ---- *)
Lemma lookup_skip A : forall B i, (forall p, In p A -> fst p <> i) ->
  TM.lookup_script (A ++ B) i = TM.lookup_script B i.
Proof.
  induction A as [|[j sc] A IH]; intros B i H; cbn [app TM.lookup_script]; [reflexivity|].
  destruct (N.eqb_spec j i) as [E|E]; [exfalso; exact (H (j, sc) (or_introl eq_refl) E)|].
  apply IH. intros p Hp. exact (H p (or_intror Hp)).
Qed.

Lemma scr_terms_keys e s rq sched terms : forall k p, In p (scr_terms e s rq sched k terms) ->
  3 * k <= fst p < 3 * (k + lenN terms).
Proof.
  induction terms as [|[neg name] r IH]; intros k p; cbn [scr_terms lenN In]; [intros []|].
  intros [<-|H]; [cbn [fst]; lia|]. apply IH in H. lia.
Qed.

Lemma all_real_lookup tbl : Forall (fun p => forallb TM.is_real (TM.attempts (snd p)) = true) tbl ->
  forall i, forallb TM.is_real (TM.attempts (TM.lookup_script tbl i)) = true.
Proof.
  induction tbl as [|[j sc] r IH]; intros H i; cbn [TM.lookup_script]; [reflexivity|].
  inversion H as [|? ? H1 H2]; subst. destruct (j =? i); [exact H1| exact (IH H2 i)].
Qed.
Lemma repeat_real n : forallb TM.is_real (repeat TM.Real n) = true.
Proof. induction n as [|n IH]; [reflexivity| exact IH]. Qed.
Lemma scr_terms_real e s rq sched terms : forall k,
  Forall (fun p => forallb TM.is_real (TM.attempts (snd p)) = true) (scr_terms e s rq sched k terms).
Proof.
  induction terms as [|[neg name] r IH]; intros k; cbn [scr_terms]; constructor; [apply repeat_real| apply IH].
Qed.
Lemma scr_rules_real e s rq sched rules : forall k,
  Forall (fun p => forallb TM.is_real (TM.attempts (snd p)) = true) (scr_rules e s rq sched k rules).
Proof.
  induction rules as [|[al ts] r IH]; intros k; cbn [scr_rules]; [constructor|].
  apply Forall_app. split; [apply scr_terms_real| apply IH].
Qed.

(* ---- evaluation of the numbered tree under the table's truth values ---- *)
Definition lit_holds_b (e : env) (s : cstate) (rq : request) (t : bool * bytes) : bool :=
  xorb (fst t) (lit_truth e s rq (snd t)).
Definition rule_holds_b (e : env) (s : cstate) (rq : request) (ts : list (bool * bytes)) : bool :=
  forallb (lit_holds_b e s rq) ts.

Section Eval.
Variables (e : env) (s : cstate) (rq : request) (sched : N -> nat).
Variable T : list (N * TM.lscript).
Let v : N -> bool := fun i => TM.truth (TM.lookup_script T i).

Lemma terms_eval terms : forall k P S,
  (forall p, In p P -> fst p < 3 * k) -> T = P ++ scr_terms e s rq sched k terms ++ S ->
  forallb (TM.eval v) (num_terms k terms) = rule_holds_b e s rq terms.
Proof.
  induction terms as [|[neg name] r IH]; intros k P S HP HT; cbn [num_terms rule_holds_b forallb]; [reflexivity|].
  assert (Hv : v (3 * k) = lit_truth e s rq name).
  { unfold v. rewrite HT, lookup_skip by (intros p Hp; apply HP in Hp; lia).
    cbn [scr_terms app TM.lookup_script]. rewrite N.eqb_refl. reflexivity. }
  assert (Hrest : forallb (TM.eval v) (num_terms (k + 1) r) = rule_holds_b e s rq r).
  { apply (IH (k + 1) (P ++ [(3 * k, TM.mkScript (lit_truth e s rq name) false (repeat TM.Real (sched (3 * k))))]) S).
    - intros p Hp. apply in_app_or in Hp. destruct Hp as [Hp|[<-|[]]]; [apply HP in Hp; lia| cbn [fst]; lia].
    - rewrite HT. cbn [scr_terms]. rewrite <- !app_assoc. reflexivity. }
  unfold rule_holds_b in Hrest. rewrite Hrest. f_equal. unfold lit_holds_b. cbn [fst snd].
  destruct neg; cbn [TM.eval]; rewrite Hv; destruct (lit_truth e s rq name); reflexivity.
Qed.

(* the index of the first rule that applies, as first_from counts it *)
Fixpoint first_pos (idx : N) (rules : list rule) : option N :=
  match rules with
  | [] => None
  | (_, ts) :: r => if rule_holds_b e s rq ts then Some idx else first_pos (idx + 1) r
  end.

Lemma rules_eval rules : forall k idx P S,
  (forall p, In p P -> fst p < 3 * k) -> T = P ++ scr_rules e s rq sched k rules ++ S ->
  TM.first_from v (fun _ => false) idx (num_rules k rules) = first_pos idx rules.
Proof.
  induction rules as [|[al ts] r IH]; intros k idx P S HP HT; cbn [num_rules TM.first_from first_pos]; [reflexivity|].
  cbn [negb andb TM.eval].
  rewrite (terms_eval ts k P (scr_rules e s rq sched (k + lenN ts) r ++ S) HP
             ltac:(rewrite HT; cbn [scr_rules]; rewrite <- !app_assoc; reflexivity)).
  destruct (rule_holds_b e s rq ts); [reflexivity|].
  apply (IH (k + lenN ts) (idx + 1) (P ++ scr_terms e s rq sched k ts) S).
  - intros p Hp. apply in_app_or in Hp. destruct Hp as [Hp|Hp]; [apply HP in Hp; lia| apply scr_terms_keys in Hp; lia].
  - rewrite HT. cbn [scr_rules]. rewrite <- !app_assoc. reflexivity.
Qed.
End Eval.

(* first match, computed *)
Fixpoint fm_bool (hb : list (bool * bytes) -> bool) (rules : list rule) (dflt : bool) : bool :=
  match rules with
  | [] => dflt
  | (allow, ts) :: r => if hb ts then allow else fm_bool hb r dflt
  end.

Lemma fm_bool_allows hb holds rules dflt :
  (forall r, In r rules -> (hb (snd r) = true <-> holds (snd r))) ->
  (fm_bool hb rules dflt = true <-> fm_allows holds rules dflt).
Proof.
  induction rules as [|[al ts] r IH]; intros H; cbn [fm_bool fm_allows]; [reflexivity|].
  pose proof (H (al, ts) (or_introl eq_refl)) as Hh. cbn [snd] in Hh.
  specialize (IH (fun x Hx => H x (or_intror Hx))).
  destruct (hb ts) eqn:E.
  - split; [intros ->; left; split; [apply Hh; reflexivity| reflexivity]| intros [[_ X]|[N _]]; [exact X| exfalso; apply N, Hh; reflexivity]].
  - rewrite IH. split; [intros F; right; split; [intros X; apply Hh in X; discriminate| exact F]|
                        intros [[X _]|[_ F]]; [apply Hh in X; discriminate| exact F]].
Qed.

Lemma nthN_lenN {A} (pre : list A) y r : nthN (lenN pre) (pre ++ y :: r) = Some y.
Proof.
  induction pre as [|x pre IH]; cbn [lenN app nthN]; [reflexivity|].
  destruct (N.eqb_spec (N.succ (lenN pre)) 0) as [E|E]; [lia|]. rewrite N.pred_succ. exact IH.
Qed.

Lemma first_pos_action e s rq rules : forall idx pre, lenN pre = idx ->
  match first_pos e s rq idx rules with
  | Some pos => exists r, nthN pos (pre ++ map act_of rules) = Some (act_of r) /\
                  forall d, fm_bool (rule_holds_b e s rq) rules d = fst r
  | None => forall d, fm_bool (rule_holds_b e s rq) rules d = d
  end.
Proof.
  induction rules as [|[al ts] r IH]; intros idx pre Hl; cbn [first_pos fm_bool]; [reflexivity|].
  destruct (rule_holds_b e s rq ts) eqn:E.
  - exists (al, ts). split; [|reflexivity]. subst idx. cbn [map]. apply nthN_lenN.
  - specialize (IH (idx + 1) (pre ++ [act_of (al, ts)]) ltac:(rewrite lenN_app; cbn [lenN]; lia)).
    destruct (first_pos e s rq (idx + 1) r) as [pos|]; [|exact IH].
    destruct IH as (r0 & Hn & Hf). exists r0. split; [|exact Hf]. rewrite <- app_assoc in Hn. exact Hn.
Qed.

Lemma lenN_num_rules rules : forall k, lenN (num_rules k rules) = lenN rules.
Proof. induction rules as [|[al ts] r IH]; intros k; cbn [num_rules lenN]; [reflexivity| rewrite IH; reflexivity]. Qed.
Lemma wf_num_terms terms : forall k, forallb TM.wf_node (num_terms k terms) = true.
Proof.
  induction terms as [|[neg name] r IH]; intros k; cbn [num_terms forallb]; [reflexivity|].
  rewrite IH. destruct neg; reflexivity.
Qed.
Lemma wf_num_rules rules : forall k, forallb TM.wf_node (num_rules k rules) = true.
Proof.
  induction rules as [|[al ts] r IH]; intros k; cbn [num_rules forallb TM.wf_node]; [reflexivity|].
  rewrite wf_num_terms, IH. reflexivity.
Qed.
Lemma explicit_acts rules : forallb (fun a => negb (TM.aimplicit a)) (map act_of rules) = true.
Proof. induction rules as [|r rs IH]; cbn [map forallb]; [reflexivity| rewrite IH; reflexivity]. Qed.
Lemma first_from_isb v isb l : (forall p, isb p = false) -> forall idx,
  TM.first_from v isb idx l = TM.first_from v (fun _ => false) idx l.
Proof.
  intros H. induction l as [|x r IH]; intros idx; cbn [TM.first_from]; [reflexivity|]. rewrite H, IH. reflexivity.
Qed.
Lemma last_map_ne {A B} (f : A -> B) (l : list A) d d' : l <> [] -> last (map f l) d' = f (last l d).
Proof.
  induction l as [|x r IH]; intros H; [contradiction|]. destruct r as [|y r]; [reflexivity|].
  change (last (f x :: map f (y :: r)) d') with (last (map f (y :: r)) d').
  change (last (x :: y :: r) d) with (last (y :: r) d). apply IH. discriminate.
Qed.

Lemma lit_truth_ok cfg e s rq name : typed (full cfg) -> Forall line_ok (full cfg) -> req_ok e rq -> st_inv cfg s ->
  find_acl name (c_acls s) <> None -> (lit_truth e s rq name = true <-> ref_acl (full cfg) e rq name).
Proof.
  intros HT HW HQ (Inv & _ & _) Hex. unfold lit_truth. specialize (Inv name).
  destruct (find_acl name (c_acls s)) as [a|]; [|contradiction]. destruct Inv as [Hty Hd].
  exact (proj2 (proj2 (leaf_ok (full cfg) e rq None name a HT HW HQ I Hty Hd))).
Qed.

Theorem checklist_machine_agrees cfg e s rq sched :
  Forall line_ok cfg -> req_ok e rq -> cfg_parse cfg = Some s ->
  exists c a, TM.run_check TM.MNonBlocking (tree_of (c_rules s)) [] (scripts_of e s rq sched) = Some c /\
    TM.err c = false /\ TM.cbk c = Some a /\ (TM.acode a = TM.Allowed <-> ref_allows cfg e rq).
Proof.
  intros HW HQ HP. pose proof (cfg_parse_typed cfg s HP) as HT.
  assert (HW' : Forall line_ok (full cfg)) by (apply Forall_app; split; [exact predefined_ok| exact HW]).
  pose proof (cfg_parse_inv cfg s HW HP) as Inv. destruct Inv as (IA & IR & IE).
  set (rules := c_rules s) in *. set (t := tree_of rules). set (tbl := scripts_of e s rq sched).
  assert (TK : TM.tree_ok t = true).
  { unfold TM.tree_ok, t, tree_of. cbn [TM.actions TM.rules]. destruct (map act_of rules) eqn:E; [reflexivity|].
    rewrite <- E, TP.lenN_map, lenN_num_rules. apply N.eqb_refl. }
  assert (WF : forallb TM.wf_node (TM.rules t) = true) by apply wf_num_rules.
  assert (EX : TM.explicit_actions t = true) by apply explicit_acts.
  assert (SH : TM.shared_leaves_sync t tbl).
  { apply TP.NoDup_shared_leaves_sync. unfold TM.tree_leaf_ids, t, tree_of. cbn [TM.rules].
    rewrite leaf_ids_rules. apply ids_rules_nodup. }
  assert (AR : forall i, In i (TM.tree_leaf_ids t) -> forallb TM.is_real (TM.attempts (TM.lookup_script tbl i)) = true).
  { intros i _. apply all_real_lookup, scr_rules_real. }
  destruct (TP.nonblocking_async_invisible t [] tbl TK WF EX SH AR) as (c & a & R1 & R2 & R3 & R4).
  exists c, a. split; [exact R1|]. split; [exact R2|]. split; [exact R3|].
  (* the decision *)
  assert (Hb : forall r, In r rules -> (rule_holds_b e s rq (snd r) = true <-> rule_holds (full cfg) e rq (snd r))).
  { intros r Hr. unfold rule_holds_b, rule_holds. rewrite forallb_forall, Forall_forall.
    assert (Hl : forall x, In x (snd r) -> (lit_holds_b e s rq x = true <-> term_holds (full cfg) e rq x)).
    { intros [neg name] Hx. pose proof (lit_truth_ok cfg e s rq name HT HW' HQ (conj IA (conj IR IE)) (IE r (neg, name) Hr Hx)) as L.
      unfold lit_holds_b, term_holds. cbn [fst snd]. destruct neg, (lit_truth e s rq name); cbn [xorb]; split; intros H; try discriminate; try reflexivity.
      - exfalso. apply H, L. reflexivity.
      - intros X. apply L in X. discriminate.
      - apply L. reflexivity.
      - apply L in H. discriminate. }
    split; intros H x Hx; apply (Hl x Hx), H, Hx. }
  unfold ref_allows. rewrite <- IR. rewrite <- (fm_bool_allows _ _ rules _ Hb).
  assert (D : TM.decide TM.MNonBlocking (fun i => TM.truth (TM.lookup_script tbl i)) t [] =
              match first_pos e s rq 0 rules with
              | Some pos => (TM.acode (TM.nth_action t pos), TM.akind (TM.nth_action t pos), false)
              | None => (TM.opposite (TM.acode (last (TM.actions t) (TM.action TM.Dunno 0))), 0, true)
              end).
  { unfold TM.decide. rewrite (first_from_isb _ (TM.rule_banned t []) _ ltac:(intros p; unfold TM.rule_banned; destruct (TM.actions t); reflexivity)).
    unfold t at 1, tree_of. cbn [TM.rules].
    rewrite (rules_eval e s rq sched tbl rules 1 0 [] [] ltac:(intros p []) ltac:(unfold tbl, scripts_of; fold rules; rewrite app_nil_r; reflexivity)).
    pose proof (first_pos_action e s rq rules 0 [] eq_refl) as FA.
    destruct (first_pos e s rq 0 rules) as [pos|]; [|reflexivity].
    destruct FA as (r0 & Hn & _). cbn [app] in Hn. unfold t, tree_of. cbn [TM.actions].
    destruct (map act_of rules); [discriminate Hn| reflexivity]. }
  rewrite D in R4. clear D.
  pose proof (first_pos_action e s rq rules 0 [] eq_refl) as FA.
  destruct (first_pos e s rq 0 rules) as [pos|].
  - destruct FA as (r0 & Hn & Hf). cbn [app] in Hn. rewrite Hf.
    unfold TM.nth_action, t, tree_of in R4. cbn [TM.actions] in R4. rewrite Hn in R4.
    unfold TM.result in R4. injection R4 as E1 E2 E3. rewrite E1. unfold act_of, TM.action. cbn [TM.acode].
    destruct (fst r0); split; intros X; try reflexivity; discriminate.
  - rewrite FA. unfold TM.result in R4. injection R4 as E1 E2 E3. rewrite E1. unfold t, tree_of. cbn [TM.actions].
    destruct rules as [|r1 rs] eqn:ER.
    + cbn. split; discriminate.
    + rewrite (last_map_ne act_of (r1 :: rs) (true, []) (TM.action TM.Dunno 0) ltac:(discriminate)).
      unfold act_of, TM.action. cbn [TM.acode]. destruct (fst (last (r1 :: rs) (true, []))); cbn; split; intros X; try reflexivity; discriminate.
Qed.
