(* B64Proofs.v — specifications and proofs for the base64 / Basic-credential model (C36). *)
Require Import SquidV.Bytes SquidV.B64Model.
Require Import SquidV.gen.Base64_gen.
Require Import ZifyBool ZifyN ZifyNat.
Ltac Zify.zify_post_hook ::= Z.div_mod_to_equations.
Local Open Scope N_scope.

(* ================================================================== *)
(* 1. The specification side: RFC 4648 section 4, written from the RFC  *)

(* "ABCDEFGHIJKLMNOPQRSTUVWXYZabcdefghijklmnopqrstuvwxyz0123456789+/" *)
Definition rfc4648_alphabet : list N :=
  [65;66;67;68;69;70;71;72;73;74;75;76;77;78;79;80;81;82;83;84;85;86;87;88;89;90;
   97;98;99;100;101;102;103;104;105;106;107;108;109;110;111;112;113;114;115;116;117;118;119;120;121;122;
   48;49;50;51;52;53;54;55;56;57;43;47].

(* symbol for a 6-bit value *)
Definition E (i : N) : N := tbl_get 0 rfc4648_alphabet i.

(* the encoding: 3 bytes -> 4 symbols, final 1 or 2 bytes zero-extended and padded with '=' *)
Fixpoint enc_spec (l : bytes) : bytes :=
  match l with
  | [] => []
  | [a] => [E (a / 4); E ((a mod 4) * 16); PAD; PAD]
  | [a; b] => [E (a / 4); E ((a mod 4) * 16 + b / 16); E ((b mod 16) * 4); PAD]
  | a :: b :: c :: r =>
      E (a / 4) :: E ((a mod 4) * 16 + b / 16) :: E ((b mod 16) * 4 + c / 64) :: E (c mod 64) :: enc_spec r
  end.

Definition is_byte (b : N) : bool := b <? 256.
Definition all_bytes_ok (l : bytes) : Prop := forallb is_byte l = true.

(* white space the decoder skips: HT LF VT FF CR SP *)
Definition b64_ws (c : N) : bool := ((9 <=? c) && (c <=? 13)) || (c =? 32).
Definition strip_ws (l : bytes) : bytes := filter (fun c => negb (b64_ws c)) l.

(* ================================================================== *)
(* 2. generic helpers                                                    *)

Lemma list_ind3 {A} (P : list A -> Prop) :
  P [] -> (forall a, P [a]) -> (forall a b, P [a; b]) ->
  (forall a b c r, P r -> P (a :: b :: c :: r)) -> forall l, P l.
Proof.
  intros H0 H1 H2 H3.
  assert (G : forall l, P l /\ (forall a, P (a :: l)) /\ (forall a b, P (a :: b :: l))).
  { induction l as [|x l [IH0 [IH1 IH2]]]; [repeat split; auto|].
    repeat split; auto. }
  intros l; apply G.
Qed.

Lemma forallb_app_iff {A} (p : A -> bool) a b :
  forallb p (a ++ b) = true <-> forallb p a = true /\ forallb p b = true.
Proof. rewrite forallb_app, andb_true_iff. tauto. Qed.

Lemma lenN_rev {A} (l : list A) : lenN (rev l) = lenN l.
Proof. rewrite !lenN_length, rev_length. reflexivity. Qed.

Lemma lenN_dropN {A} n (l : list A) : lenN (dropN n l) = lenN l - n.
Proof.
  revert n; induction l as [|x l IH]; intros n; cbn [dropN lenN]; [lia|].
  destruct (n =? 0) eqn:En; cbn [lenN]; [apply N.eqb_eq in En; lia|].
  apply N.eqb_neq in En. rewrite IH. lia.
Qed.

Lemma forallb_takeN {A} (p : A -> bool) n l : forallb p l = true -> forallb p (takeN n l) = true.
Proof.
  revert n; induction l as [|x l IH]; intros n H; cbn [takeN]; [reflexivity|].
  cbn [forallb] in H. apply andb_true_iff in H as [Hx Hl].
  destruct (n =? 0); cbn [forallb]; [reflexivity|]. now rewrite Hx, IH.
Qed.

Lemma forallb_dropN {A} (p : A -> bool) n l : forallb p l = true -> forallb p (dropN n l) = true.
Proof.
  revert n; induction l as [|x l IH]; intros n H; cbn [dropN]; [reflexivity|].
  destruct (n =? 0); [exact H|]. cbn [forallb] in H. apply andb_true_iff in H as [_ Hl]. now apply IH.
Qed.

(* bit operations as arithmetic *)
Lemma land63 x : N.land 63 x = x mod 64.
Proof. rewrite N.land_comm. change 63 with (N.ones 6). rewrite N.land_ones. reflexivity. Qed.

Lemma land_shiftl_small a b n : b < 2 ^ n -> N.land (N.shiftl a n) b = 0.
Proof.
  intros H. apply N.bits_inj_0; intro m. rewrite N.land_spec.
  destruct (N.lt_ge_cases m n) as [Hm|Hm].
  - rewrite N.shiftl_spec_low by exact Hm. reflexivity.
  - replace b with (b mod 2 ^ n) by (apply N.mod_small; exact H).
    rewrite N.mod_pow2_bits_high by exact Hm. apply andb_false_r.
Qed.

Lemma lor_shiftl_add a b n : b < 2 ^ n -> N.lor (N.shiftl a n) b = a * 2 ^ n + b.
Proof.
  intros H. rewrite <- N.lxor_lor by (apply land_shiftl_small; exact H).
  rewrite <- N.add_nocarry_lxor by (apply land_shiftl_small; exact H).
  rewrite N.shiftl_mul_pow2. reflexivity.
Qed.

Lemma enc_tbl_is_rfc : b64_enc_tbl = rfc4648_alphabet.
Proof. vm_compute. reflexivity. Qed.

Lemma ENC_E x : ENC x = E (x mod 64).
Proof. unfold ENC, E. rewrite land63, enc_tbl_is_rfc. reflexivity. Qed.

Ltac pow2 :=
  change (2 ^ 1) with 2 in *; change (2 ^ 2) with 4 in *; change (2 ^ 4) with 16 in *;
  change (2 ^ 6) with 64 in *; change (2 ^ 8) with 256 in *; change (2 ^ 0) with 1 in *.

Ltac eqE := match goal with |- E _ = E _ => apply f_equal; lia | |- _ => reflexivity end.
Ltac list_E := repeat (apply f_equal2; [eqE|]); try reflexivity.

Lemma byte_lt b : is_byte b = true -> b < 256.
Proof. unfold is_byte. lia. Qed.

(* ================================================================== *)
(* 3. encode_raw is the RFC encoding                                     *)

Definition grp (a b c : N) : bytes :=
  [E (a / 4); E ((a mod 4) * 16 + b / 16); E ((b mod 16) * 4 + c / 64); E (c mod 64)].

Lemma enc_spec_cons3 a b c r : enc_spec (a :: b :: c :: r) = grp a b c ++ enc_spec r.
Proof. reflexivity. Qed.

Lemma enc_spec_app3 x y : lenN x mod 3 = 0 -> enc_spec (x ++ y) = enc_spec x ++ enc_spec y.
Proof.
  revert x. apply (list_ind3 (fun x => lenN x mod 3 = 0 -> enc_spec (x ++ y) = enc_spec x ++ enc_spec y)).
  - reflexivity.
  - intros a H. cbn [lenN] in H. discriminate H.
  - intros a b H. cbn [lenN] in H. discriminate H.
  - intros a b c r IH H. cbn [lenN] in H.
    change ((a :: b :: c :: r) ++ y) with (a :: b :: c :: (r ++ y)).
    rewrite !enc_spec_cons3, IH, app_assoc; [reflexivity|]. lia.
Qed.

Lemma raw_group a b c : a < 256 -> b < 256 -> c < 256 ->
  [ENC (N.shiftr a 2); ENC (N.lor (N.shiftl a 4) (N.shiftr b 4));
   ENC (N.lor (N.shiftl b 2) (N.shiftr c 6)); ENC c] = grp a b c.
Proof.
  intros Ha Hb Hc. unfold grp. rewrite !ENC_E.
  rewrite !N.shiftr_div_pow2.
  rewrite (lor_shiftl_add a (b / 2 ^ 4) 4) by (pow2; lia).
  rewrite (lor_shiftl_add b (c / 2 ^ 6) 2) by (pow2; lia).
  pow2.
  list_E.
Qed.

Lemma raw_loop_spec r : forallb is_byte r = true -> lenN r mod 3 = 0 ->
  forall acc, raw_loop r acc = enc_spec (rev r) ++ acc.
Proof.
  revert r. apply (list_ind3 (fun r => forallb is_byte r = true -> lenN r mod 3 = 0 ->
                                 forall acc, raw_loop r acc = enc_spec (rev r) ++ acc)).
  - reflexivity.
  - intros a _ H. cbn [lenN] in H. discriminate H.
  - intros a b _ H. cbn [lenN] in H. discriminate H.
  - intros c b a r IH Hb Hl acc. cbn [lenN] in Hl.
    cbn [forallb] in Hb. apply andb_true_iff in Hb as [Hc Hb]. apply andb_true_iff in Hb as [Hb' Hb].
    apply andb_true_iff in Hb as [Ha Hr].
    apply byte_lt in Hc, Hb', Ha.
    cbn [raw_loop]. rewrite IH by (try assumption; lia).
    cbn [rev]. rewrite <- !app_assoc. cbn [app].
    rewrite (enc_spec_app3 (rev r) [a; b; c]) by (rewrite lenN_rev; lia).
    cbn [enc_spec]. rewrite <- app_assoc.
    change (ENC (N.shiftr a 2) :: ENC (N.lor (N.shiftl a 4) (N.shiftr b 4))
             :: ENC (N.lor (N.shiftl b 2) (N.shiftr c 6)) :: ENC c :: acc)
      with ([ENC (N.shiftr a 2); ENC (N.lor (N.shiftl a 4) (N.shiftr b 4));
             ENC (N.lor (N.shiftl b 2) (N.shiftr c 6)); ENC c] ++ acc).
    rewrite raw_group by assumption. reflexivity.
Qed.

Lemma encode_raw_spec x : all_bytes_ok x -> encode_raw x = enc_spec x.
Proof.
  unfold all_bytes_ok. intros Hx. unfold encode_raw. rewrite <- rev_alt.
  assert (Hr : forallb is_byte (rev x) = true).
  { rewrite forallb_forall in *. intros y Hy. apply Hx. now apply in_rev. }
  assert (Hlen : lenN (rev x) = lenN x) by apply lenN_rev.
  destruct (lenN x mod 3 =? 0) eqn:E0.
  - rewrite raw_loop_spec by (try assumption; lia). rewrite rev_involutive, app_nil_r. reflexivity.
  - destruct (lenN x mod 3 =? 1) eqn:E1.
    + destruct (rev x) as [|i0 r'] eqn:Er.
      { cbn [lenN] in Hlen. rewrite <- Hlen in E0. discriminate E0. }
      cbn [forallb] in Hr. apply andb_true_iff in Hr as [H0 Hr]. apply byte_lt in H0.
      cbn [lenN] in Hlen.
      rewrite raw_loop_spec by (try assumption; lia).
      assert (Hx' : x = rev r' ++ [i0]).
      { rewrite <- (rev_involutive x), Er. reflexivity. }
      rewrite Hx'. rewrite enc_spec_app3 by (rewrite lenN_rev; lia).
      cbn [enc_spec]. rewrite !ENC_E, N.shiftr_div_pow2, N.shiftl_mul_pow2. pow2.
      list_E.
    + destruct (rev x) as [|i1 [|i0 r']] eqn:Er.
      { cbn [lenN] in Hlen. rewrite <- Hlen in E0. discriminate E0. }
      { cbn [lenN] in Hlen. rewrite <- Hlen in E1. discriminate E1. }
      cbn [forallb] in Hr. apply andb_true_iff in Hr as [H1 Hr]. apply andb_true_iff in Hr as [H0 Hr].
      apply byte_lt in H0, H1. cbn [lenN] in Hlen.
      rewrite raw_loop_spec by (try assumption; lia).
      assert (Hx' : x = rev r' ++ [i0; i1]).
      { rewrite <- (rev_involutive x), Er. cbn [rev]. rewrite <- app_assoc. reflexivity. }
      rewrite Hx'. rewrite enc_spec_app3 by (rewrite lenN_rev; lia).
      cbn [enc_spec]. rewrite !ENC_E, !N.shiftr_div_pow2.
      rewrite (lor_shiftl_add i0 (i1 / 2 ^ 4) 4) by (pow2; lia).
      rewrite N.shiftl_mul_pow2. pow2.
      list_E.
Qed.

(* ================================================================== *)
(* 4. the streaming encoder (encode_single / encode_update / encode_final) *)

(* specification of streaming: a state is (number of buffered bits, their value);
   each input byte emits one or two symbols *)
Definition sstep (st : N * N) (s : N) : bytes * (N * N) :=
  let '(bits, p) := st in
  if bits =? 0 then ([E (s / 4)], (2, s mod 4))
  else if bits =? 2 then ([E (p * 16 + s / 16)], (4, s mod 16))
  else ([E (p * 4 + s / 64); E (s mod 64)], (0, 0)).

Fixpoint ssteps (st : N * N) (l : bytes) : bytes * (N * N) :=
  match l with
  | [] => ([], st)
  | s :: r => let '(o, st1) := sstep st s in
              let '(o2, st2) := ssteps st1 r in (o ++ o2, st2)
  end.

Definition sfinal (st : N * N) : bytes :=
  let '(bits, p) := st in
  if bits =? 0 then [] else if bits =? 2 then [E (p * 16); PAD; PAD] else [E (p * 4); PAD].

Lemma ssteps_app st a b :
  ssteps st (a ++ b) =
  let '(o1, s1) := ssteps st a in let '(o2, s2) := ssteps s1 b in (o1 ++ o2, s2).
Proof.
  revert st; induction a as [|x a IH]; intros st; cbn [app ssteps].
  - destruct (ssteps st b). reflexivity.
  - destruct (sstep st x) as [o st1]. rewrite IH.
    destruct (ssteps st1 a) as [o1 s1]. destruct (ssteps s1 b) as [o2 s2].
    rewrite app_assoc. reflexivity.
Qed.

Lemma ssteps_triple a b c r :
  ssteps (0, 0) (a :: b :: c :: r) = let '(o, st) := ssteps (0, 0) r in (grp a b c ++ o, st).
Proof.
  cbn [ssteps]. unfold sstep at 1. change (0 =? 0) with true. cbv iota beta.
  unfold sstep at 1. change (2 =? 0) with false. change (2 =? 2) with true. cbv iota beta.
  unfold sstep at 1. change (4 =? 0) with false. change (4 =? 2) with false. cbv iota beta.
  destruct (ssteps (0, 0) r) as [o st]. reflexivity.
Qed.

Lemma ssteps_bulk l : lenN l mod 3 = 0 -> ssteps (0, 0) l = (enc_spec l, (0, 0)).
Proof.
  revert l. apply (list_ind3 (fun l => lenN l mod 3 = 0 -> ssteps (0, 0) l = (enc_spec l, (0, 0)))).
  - reflexivity.
  - intros a H. cbn [lenN] in H. discriminate H.
  - intros a b H. cbn [lenN] in H. discriminate H.
  - intros a b c r IH H. cbn [lenN] in H. rewrite ssteps_triple, IH by lia. reflexivity.
Qed.

Lemma enc_spec_ssteps l :
  enc_spec l = fst (ssteps (0, 0) l) ++ sfinal (snd (ssteps (0, 0) l)).
Proof.
  revert l. apply list_ind3.
  - reflexivity.
  - intros a. reflexivity.
  - intros a b. reflexivity.
  - intros a b c r IH. rewrite ssteps_triple. destruct (ssteps (0, 0) r) as [o st].
    cbn [fst snd] in *. rewrite enc_spec_cons3, IH, app_assoc. reflexivity.
Qed.

(* the C context seen abstractly; only the low e_bits bits of word matter *)
Definition eabs (c : ectx) : N * N := (e_bits c, e_word c mod 2 ^ e_bits c).
Definition evalid (c : ectx) : Prop := e_bits c = 0 \/ e_bits c = 2 \/ e_bits c = 4.

Lemma enc_emit_stop fuel w bits : bits < 6 -> enc_emit fuel w bits = ([], bits).
Proof.
  intros H. destruct fuel; cbn [enc_emit]; [reflexivity|].
  destruct (6 <=? bits) eqn:E6; [lia|reflexivity].
Qed.

Lemma enc_emit_go f w bits : 6 <= bits ->
  enc_emit (S f) w bits =
  let '(o, b) := enc_emit f w (bits - 6) in (ENC (N.shiftr w (bits - 6)) :: o, b).
Proof. intros H. cbn [enc_emit]. destruct (6 <=? bits) eqn:E6; [reflexivity|lia]. Qed.

(* the fuel handed to the while loop always suffices: it stops only when bits < 6 *)
Lemma enc_emit_fuel fuel w bits : (N.to_nat bits <= fuel)%nat -> snd (enc_emit fuel w bits) < 6.
Proof.
  revert bits; induction fuel as [|f IH]; intros bits H; cbn [enc_emit].
  - cbn [snd]. lia.
  - destruct (6 <=? bits) eqn:E6; [|cbn [snd]; lia].
    specialize (IH (bits - 6) ltac:(lia)). destruct (enc_emit f w (bits - 6)). exact IH.
Qed.

Lemma encode_single_sstep ctx s : evalid ctx -> s < 256 ->
  sstep (eabs ctx) s = (fst (encode_single ctx s), eabs (snd (encode_single ctx s))) /\
  evalid (snd (encode_single ctx s)).
Proof.
  destruct ctx as [w b]. unfold evalid, eabs. cbn [e_bits e_word].
  intros Hv Hs. unfold encode_single. cbn [e_bits e_word].
  rewrite (lor_shiftl_add w (s mod 256) 8) by (pow2; lia).
  destruct Hv as [-> | [-> | ->]].
  - change (0 + 8) with 8. change (N.to_nat 8) with 8%nat.
    rewrite enc_emit_go by lia. change (8 - 6) with 2. rewrite enc_emit_stop by lia.
    cbn [fst snd e_bits e_word]. change (2 mod 256) with 2. unfold sstep. change (0 =? 0) with true.
    cbv iota beta. rewrite ENC_E, N.shiftr_div_pow2. pow2. split; [|auto].
    f_equal; [list_E | f_equal; lia].
  - change (2 + 8) with 10. change (N.to_nat 10) with 10%nat.
    rewrite enc_emit_go by lia. change (10 - 6) with 4. rewrite enc_emit_stop by lia.
    cbn [fst snd e_bits e_word]. change (4 mod 256) with 4. unfold sstep.
    change (2 =? 0) with false. change (2 =? 2) with true.
    cbv iota beta. rewrite ENC_E, N.shiftr_div_pow2. pow2. split; [|auto].
    f_equal; [list_E | f_equal; lia].
  - change (4 + 8) with 12. change (N.to_nat 12) with 12%nat.
    rewrite enc_emit_go by lia. change (12 - 6) with 6.
    rewrite enc_emit_go by lia. change (6 - 6) with 0. rewrite enc_emit_stop by lia.
    cbn [fst snd e_bits e_word]. change (0 mod 256) with 0. unfold sstep.
    change (4 =? 0) with false. change (4 =? 2) with false.
    cbv iota beta. rewrite !ENC_E, !N.shiftr_div_pow2. pow2. split; [|auto].
    f_equal; [list_E | f_equal; lia].
Qed.

Lemma enc_singles_ssteps src : forall ctx, evalid ctx -> forallb is_byte src = true ->
  ssteps (eabs ctx) src = (fst (enc_singles ctx src), eabs (snd (enc_singles ctx src))) /\
  evalid (snd (enc_singles ctx src)).
Proof.
  induction src as [|s r IH]; intros ctx Hv Hb; cbn [enc_singles ssteps].
  - split; [reflexivity|exact Hv].
  - cbn [forallb] in Hb. apply andb_true_iff in Hb as [Hs Hr]. apply byte_lt in Hs.
    destruct (encode_single_sstep ctx s Hv Hs) as [H1 Hv1].
    destruct (encode_single ctx s) as [o c1]. cbn [fst snd] in *.
    rewrite H1. destruct (IH c1 Hv1 Hr) as [H2 Hv2].
    destruct (enc_singles c1 r) as [o2 c2]. cbn [fst snd] in *. rewrite H2. split; [reflexivity|exact Hv2].
Qed.

Lemma enc_phase1_ssteps src : forall ctx, evalid ctx -> forallb is_byte src = true ->
  let '(o, c1, rest) := enc_phase1 ctx src in
  exists pre, src = pre ++ rest /\ ssteps (eabs ctx) pre = (o, eabs c1) /\ evalid c1 /\
              (rest = [] \/ e_bits c1 = 0).
Proof.
  induction src as [|s r IH]; intros ctx Hv Hb; cbn [enc_phase1].
  - exists []. repeat split; auto.
  - destruct (e_bits ctx =? 0) eqn:E0.
    + exists []. repeat split; auto. right. apply N.eqb_eq. exact E0.
    + cbn [forallb] in Hb. apply andb_true_iff in Hb as [Hs Hr]. apply byte_lt in Hs.
      destruct (encode_single_sstep ctx s Hv Hs) as [H1 Hv1].
      destruct (encode_single ctx s) as [o c1]. cbn [fst snd] in *.
      specialize (IH c1 Hv1 Hr). destruct (enc_phase1 c1 r) as [[o2 c2] rest].
      destruct IH as [pre [Hsrc [Hst [Hv2 Hor]]]].
      exists (s :: pre). repeat split; auto.
      * rewrite Hsrc. reflexivity.
      * cbn [ssteps]. rewrite H1, Hst. reflexivity.
Qed.

Lemma lenN_takeN_le {A} n (l : list A) : n <= lenN l -> lenN (takeN n l) = n.
Proof. intros H. rewrite lenN_takeN. lia. Qed.

(* one base64_encode_update call = the streaming specification on that chunk *)
Lemma encode_update_ssteps ctx src : evalid ctx -> forallb is_byte src = true ->
  ssteps (eabs ctx) src = (fst (encode_update ctx src), eabs (snd (encode_update ctx src))) /\
  evalid (snd (encode_update ctx src)).
Proof.
  intros Hv Hb. unfold encode_update.
  pose proof (enc_phase1_ssteps src ctx Hv Hb) as H1.
  destruct (enc_phase1 ctx src) as [[o1 c1] rest].
  destruct H1 as [pre [Hsrc [Hst [Hv1 Hor]]]].
  assert (Hbr : forallb is_byte rest = true).
  { rewrite Hsrc in Hb. apply forallb_app_iff in Hb. tauto. }
  set (bulk := lenN rest - lenN rest mod 3).
  assert (Hbulk : bulk <= lenN rest) by (unfold bulk; lia).
  assert (Hb3 : bulk mod 3 = 0) by (unfold bulk; lia).
  pose proof (enc_singles_ssteps (dropN bulk rest) c1 Hv1 (forallb_dropN _ _ _ Hbr)) as [H3 Hv3].
  destruct (enc_singles c1 (dropN bulk rest)) as [o3 c3]. cbn [fst snd] in *.
  split; [|exact Hv3].
  rewrite Hsrc, ssteps_app, Hst.
  rewrite <- (takeN_dropN bulk rest) at 1. rewrite ssteps_app.
  destruct Hor as [Hnil | Hz].
  - (* the whole chunk went through single-byte steps *)
    subst rest. cbn [lenN] in *. assert (bulk = 0) by lia. subst bulk.
    replace (lenN (@nil N) - lenN (@nil N) mod 3 =? 0) with true in * by reflexivity.
    cbn [takeN dropN ssteps] in *. inversion H3; subst. rewrite !app_nil_r. reflexivity.
  - (* no buffered bits: bulk through encode_raw *)
    assert (Ha : eabs c1 = (0, 0)).
    { unfold eabs. rewrite Hz. change (2 ^ 0) with 1. rewrite N.mod_1_r. reflexivity. }
    rewrite Ha in *.
    rewrite ssteps_bulk by (rewrite lenN_takeN_le; assumption).
    rewrite H3. f_equal. f_equal.
    destruct (bulk =? 0) eqn:Eb.
    + apply N.eqb_eq in Eb. rewrite Eb. destruct rest; reflexivity.
    + rewrite encode_raw_spec; [reflexivity|]. apply forallb_takeN. exact Hbr.
Qed.

Lemma encode_final_sfinal ctx : evalid ctx -> fst (encode_final ctx) = sfinal (eabs ctx).
Proof.
  destruct ctx as [w b]. unfold evalid, eabs, encode_final, sfinal. cbn [e_bits e_word].
  intros [-> | [-> | ->]].
  - reflexivity.
  - change (2 =? 0) with false. change (2 =? 2) with true. cbv iota. cbn [fst pad_loop].
    change (2 <? 6) with true. change (2 + 2) with 4. change (4 <? 6) with true. change (4 + 2) with 6.
    change (6 <? 6) with false. cbv iota. change (6 - 2) with 4.
    rewrite ENC_E, N.shiftl_mul_pow2. pow2. list_E.
  - change (4 =? 0) with false. change (4 =? 2) with false. cbv iota. cbn [fst pad_loop].
    change (4 <? 6) with true. change (4 + 2) with 6. change (6 <? 6) with false. cbv iota.
    change (6 - 4) with 2. rewrite ENC_E, N.shiftl_mul_pow2. pow2. list_E.
Qed.

Lemma encode_chunks_ssteps chunks : forall ctx, evalid ctx -> forallb is_byte (concat chunks) = true ->
  encode_chunks ctx chunks =
  fst (ssteps (eabs ctx) (concat chunks)) ++ sfinal (snd (ssteps (eabs ctx) (concat chunks))).
Proof.
  induction chunks as [|s r IH]; intros ctx Hv Hb; cbn [encode_chunks concat].
  - cbn [ssteps fst snd app]. apply encode_final_sfinal. exact Hv.
  - apply forallb_app_iff in Hb as [Hs Hr].
    destruct (encode_update_ssteps ctx s Hv Hs) as [H1 Hv1].
    destruct (encode_update ctx s) as [o c1]. cbn [fst snd] in *.
    rewrite ssteps_app, H1, (IH c1 Hv1 Hr).
    destruct (ssteps (eabs c1) (concat r)) as [o2 s2]. cbn [fst snd]. rewrite app_assoc. reflexivity.
Qed.

(* T: whatever way the input is cut into base64_encode_update calls, update*;final produces the
   RFC 4648 encoding of the whole input *)
Theorem encode_chunks_spec chunks : all_bytes_ok (concat chunks) ->
  encode_chunks ectx_init chunks = enc_spec (concat chunks).
Proof.
  intros Hb. rewrite encode_chunks_ssteps; [|left; reflexivity|exact Hb].
  change (eabs ectx_init) with (0, 0). symmetry. apply enc_spec_ssteps.
Qed.

Theorem b64_encode_spec x : all_bytes_ok x -> b64_encode x = enc_spec x.
Proof.
  intros Hb. unfold b64_encode. rewrite encode_chunks_spec; cbn [concat]; rewrite app_nil_r; auto.
Qed.

(* output length of one update call stays within BASE64_ENCODE_LENGTH (the assert at its end) *)
Lemma ssteps_len st l o st' : (fst st = 0 \/ fst st = 2 \/ fst st = 4) -> ssteps st l = (o, st') ->
  6 * lenN o + fst st' = fst st + 8 * lenN l /\ (fst st' = 0 \/ fst st' = 2 \/ fst st' = 4).
Proof.
  revert st o st'; induction l as [|s r IH]; intros [b p] o st' Hv H; cbn [ssteps] in H.
  - inversion H; subst. cbn [lenN fst] in *. split; [lia|exact Hv].
  - destruct (sstep (b, p) s) as [o1 st1] eqn:E1. destruct (ssteps st1 r) as [o2 st2] eqn:E2.
    inversion H; subst. cbn [fst] in Hv.
    assert (H1 : 6 * lenN o1 + fst st1 = b + 8 /\ (fst st1 = 0 \/ fst st1 = 2 \/ fst st1 = 4)).
    { unfold sstep in E1. destruct Hv as [-> | [-> | ->]].
      - change (0 =? 0) with true in E1. inversion E1; subst. cbn [lenN fst]. lia.
      - change (2 =? 0) with false in E1. change (2 =? 2) with true in E1. inversion E1; subst. cbn [lenN fst]. lia.
      - change (4 =? 0) with false in E1. change (4 =? 2) with false in E1. inversion E1; subst. cbn [lenN fst]. lia. }
    destruct H1 as [H1 Hv1]. destruct (IH st1 o2 st' Hv1 E2) as [H2 Hv2].
    rewrite lenN_app. cbn [lenN fst]. split; [lia|exact Hv2].
Qed.

Theorem encode_update_length ctx src : evalid ctx -> all_bytes_ok src ->
  lenN (fst (encode_update ctx src)) <= BASE64_ENCODE_LENGTH (lenN src).
Proof.
  intros Hv Hb. destruct (encode_update_ssteps ctx src Hv Hb) as [H _].
  apply ssteps_len in H; [|exact Hv]. cbn [fst eabs] in H. destruct H as [H Hv'].
  unfold BASE64_ENCODE_LENGTH. unfold evalid in Hv. lia.
Qed.
