(* HitsModel.v — the data path of a cache hit (C10).

   Sources transcribed (squid working tree):
     writer side  Rock::IoState::tryWrite/writeToBuffer/writeToDisk (fs/rock/RockIoState.cc),
                  MemStore::copyToShm/copyToShmSlice/nextAppendableSlice (MemStore.cc),
                  mem_hdr::write (stmem.cc; see MemhdrModel.v for the node-level model), doPages (store_swapout.cc)
     slot supply  Rock::SwapDir::reserveSlotForWriting / MemStore::reserveSapForWriting: free stack, else purgeOne()
     reader side  Rock::IoState::read_ (chain walk by offset), MemStore::copyFromShm, mem_hdr::copy,
                  store_client::fileRead/readHeader/readBody/handleBodyFromDisk (store_client.cc),
                  Store::UnpackHitSwapMeta + SwapMetaView (store/SwapMetaIn.cc, SwapMetaView.cc), headersEnd (mime_header.cc)
     locking      Ipc::StoreMap openForWriting/closeForWriting/abortWriting/openForReading/closeForReading/freeEntry
                  at the granularity "exclusive writer / set of readers / waitingToBeFreed" (the atomics are C55's
                  StoremapModel.v); StoreEntry::lock/release for the local memory cache and ufs files is the same
                  discipline with a fresh anchor per version.

   One machine covers all store kinds: an ENTRY (anchor) owns a chain of SLOTS (rock db slots, shared memory pages,
   mem_nodes; a ufs file is a chain of one unbounded slot).  The writer appends byte strings of arbitrary sizes; a slot
   is filled to its capacity before the next one is taken (from the free stack, else by purging an idle entry).
   Readers hold the entry (their id is in e_rdrs = the read-lock count) and copy by offset, at most one slot tail per
   read.  An entry is recycled only when it is idle (no writer, no reader); freeEntry on a busy entry only marks it.

   [e_sent] is a ghost: the pieces the writer (= the origin response) has appended so far, newest first ([sent e] is
   their concatenation in order); [r_racc] likewise holds what a reader has copied ([acc rd]); [s_log] is a ghost: the
   (key, version, bytes) of every write that was completed (closeForWriting).

   Not modelled: StoreMap's atomics/ABA (C55), updates of stored headers (MemStore::updateHeaders, rock
   createUpdateIO), STORE_META_URL / Vary comparison, I/O errors of the disk layer, SMP queue transport. *)
Require Import SquidV.Bytes SquidV.gen.Hits_gen SquidV.gen.HitsPage_gen.
Local Open Scope N_scope.

(* ------------------------------------------------------------------ store kinds and capacities *)
Inductive kind : Type := KMem | KShm | KRock | KUfs.

(* capacity of one slot of the chain; 0 = unbounded (one file) *)
Definition cap_of (k : kind) : N :=
  match k with
  | KMem => hits_sm_page_size                                   (* mem_node: SM_PAGE_SIZE *)
  | KShm => hits_shm_page_size                                  (* Ipc::Mem::PageSize() *)
  | KRock => hits_rock_slot_size - hits_rock_cell_header        (* slotSize - sizeof(DbCellHeader) *)
  | KUfs => 0
  end.
(* disk entries start with swap metadata; memory entries with the HTTP header *)
Definition has_meta (k : kind) : bool := match k with KRock | KUfs => true | _ => false end.

(* ------------------------------------------------------------------ the machine *)
Record entry : Type := mkE {
  e_key : N; e_ver : N;
  e_rslots : list N;        (* the chain, NEWEST slot first (anchor.start is the last element) *)
  e_len : N;                (* bytes appended so far (anchor.basics.swap_file_sz / IoState::offset_) *)
  e_writing : bool;         (* the exclusive (writer) lock is held *)
  e_complete : bool;        (* closeForWriting happened *)
  e_dead : bool;            (* waitingToBeFreed / RELEASE_REQUEST *)
  e_rdrs : list N;          (* ids of the readers holding the entry: the read-lock count is its length *)
  e_sent : list bytes }.    (* ghost: the pieces appended, NEWEST first *)

Definition sent (e : entry) : bytes := concat (rev (e_sent e)).

Record reader : Type := mkR {
  r_ent : N; r_key : N; r_off : N;
  r_racc : list bytes;      (* what the reader has copied so far: the results of its reads, NEWEST first *)
  r_open : bool; r_done : bool }.
Definition acc (rd : reader) : bytes := concat (rev (r_racc rd)).

Record state : Type := mkS {
  s_cap : N;
  s_content : N -> bytes;            (* readable bytes of each slot (slice.size bytes of the page / slot payload) *)
  s_free : list N;                   (* free slot stack *)
  s_scan : list N;                   (* the anchors purgeOne() walks over *)
  s_ents : N -> option entry;
  s_rdrs : N -> option reader;
  s_log : list (N * N * bytes) }.    (* ghost *)

Definition upd {A} (f : N -> A) (k : N) (v : A) : N -> A := fun x => if x =? k then v else f x.

Definition init (cap : N) (free scan : list N) : state :=
  mkS cap (fun _ => []) free scan (fun _ => None) (fun _ => None) [].

Definition set_ent (st : state) (a : N) (e : option entry) : state :=
  mkS (s_cap st) (s_content st) (s_free st) (s_scan st) (upd (s_ents st) a e) (s_rdrs st) (s_log st).
Definition set_rdr (st : state) (r : N) (rd : reader) : state :=
  mkS (s_cap st) (s_content st) (s_free st) (s_scan st) (s_ents st) (upd (s_rdrs st) r (Some rd)) (s_log st).

(* no writer and no reader: lockExclusive() would succeed *)
Definition idle (e : entry) : bool :=
  negb (e_writing e) && match e_rdrs e with [] => true | _ => false end.

(* StoreMap::freeChain: the anchor becomes empty, its slots go back to the free stack (contents stay in place) *)
Definition release (st : state) (a : N) (e : entry) : state :=
  mkS (s_cap st) (s_content st) (e_rslots e ++ s_free st) (s_scan st) (upd (s_ents st) a None) (s_rdrs st) (s_log st).

(* store the changed entry; if it is marked for deletion and nobody holds it any more, recycle it *)
Definition put_ent (st : state) (a : N) (e : entry) : state :=
  if e_dead e && idle e then release st a e else set_ent st a (Some e).

Definition with_flags (e : entry) (writing complete dead : bool) (rdrs : list N) : entry :=
  mkE (e_key e) (e_ver e) (e_rslots e) (e_len e) writing complete dead rdrs (e_sent e).

(* StoreMap::purgeOne: the first idle entry of the scan order is freed *)
Fixpoint purge_one (st : state) (scan : list N) : option state :=
  match scan with
  | [] => None
  | a :: rest =>
    match s_ents st a with
    | Some e => if idle e then Some (release st a e) else purge_one st rest
    | None => purge_one st rest
    end
  end.

Definition pop_free (st : state) : option (N * state) :=
  match s_free st with
  | s :: f => Some (s, mkS (s_cap st) (upd (s_content st) s []) f (s_scan st) (s_ents st) (s_rdrs st) (s_log st))
  | [] => None
  end.

(* reserveSlotForWriting / reserveSapForWriting; prepFreeSlice empties the slice *)
Definition alloc (st : state) : option (N * state) :=
  match pop_free st with
  | Some x => Some x
  | None => match purge_one st (s_scan st) with
            | Some st' => pop_free st'
            | None => None
            end
  end.

(* room left in slot s (writeToBuffer: theBuf.spaceSize(); copyToShmSlice: bufSize - sliceOffset) *)
Definition space_in (st : state) (s : N) (d : bytes) : N :=
  if s_cap st =? 0 then lenN d else s_cap st - lenN (s_content st s).

(* put as much of d as fits into slot s of entry a; returns what is left of d *)
Definition fill (st : state) (a : N) (e : entry) (s : N) (d : bytes) : state * bytes :=
  let n := space_in st s d in
  let now := takeN n d in
  let e' := mkE (e_key e) (e_ver e) (e_rslots e) (e_len e + lenN now) (e_writing e) (e_complete e) (e_dead e)
                (e_rdrs e) (now :: e_sent e) in
  (mkS (s_cap st) (upd (s_content st) s (s_content st s ++ now)) (s_free st) (s_scan st)
       (upd (s_ents st) a (Some e')) (s_rdrs st) (s_log st),
   dropN n d).

(* one round of the writer's loop: the current slot if it has room, else a new slot *)
Definition append1 (st : state) (a : N) (d : bytes) : option (state * bytes) :=
  match s_ents st a with
  | None => None
  | Some e =>
    let fresh :=
      match alloc st with
      | None => None
      | Some (s, st1) =>
        match s_ents st1 a with
        | None => None
        | Some e1 =>
          let e2 := mkE (e_key e1) (e_ver e1) (s :: e_rslots e1) (e_len e1) (e_writing e1) (e_complete e1)
                        (e_dead e1) (e_rdrs e1) (e_sent e1) in
          Some (fill st1 a e2 s d)
        end
      end in
    match e_rslots e with
    | s :: _ => if 0 <? space_in st s d then Some (fill st a e s d) else fresh
    | [] => fresh
    end
  end.

(* writer gone / write error: abortWriting + freeEntry *)
Definition abort (st : state) (a : N) : state :=
  match s_ents st a with
  | None => st
  | Some e => put_ent st a (with_flags e false false true (e_rdrs e))
  end.

(* fuel exhaustion or slot exhaustion aborts the entry (it can then never be served as complete) *)
Fixpoint append_loop (fuel : nat) (st : state) (a : N) (d : bytes) : state :=
  match d with
  | [] => st
  | _ :: _ =>
    match fuel with
    | O => abort st a
    | S f =>
      match append1 st a d with
      | None => abort st a
      | Some (st', rest) => append_loop f st' a rest
      end
    end
  end.

(* Rock::IoState::read_: walk the chain to the slot holding coreOff, return at most the rest of that slot *)
Fixpoint seek (sl : list bytes) (objOff coreOff : N) : option (bytes * N) :=
  match sl with
  | [] => None
  | s :: t => if coreOff <? objOff + lenN s then Some (s, objOff) else seek t (objOff + lenN s) coreOff
  end.
Definition chain_read (sl : list bytes) (coreOff len : N) : bytes :=
  match seek sl 0 coreOff with
  | None => []
  | Some (s, o) => takeN (N.min len (o + lenN s - coreOff)) (dropN (coreOff - o) s)
  end.

Definition chain_of (st : state) (e : entry) : list bytes := map (s_content st) (rev (e_rslots e)).

Inductive op : Type :=
| OpenW (a k v : N)
| Append (a : N) (d : bytes)
| CloseW (a : N)
| AbortW (a : N)
| OpenR (r a k : N)
| Read (r len : N)
| CloseR (r : N)
| Evict (a : N).

Definition new_entry (k v : N) : entry := mkE k v [] 0 true false false [] [].

Definition step (st : state) (o : op) : state :=
  match o with
  | OpenW a k v =>
    match s_ents st a with
    | None => set_ent st a (Some (new_entry k v))
    | Some e => if idle e then set_ent (release st a e) a (Some (new_entry k v)) else st
    end
  | Append a d =>
    match s_ents st a with
    | Some e => if e_writing e then append_loop (S (length d)) st a d else st
    | None => st
    end
  | CloseW a =>
    match s_ents st a with
    | Some e =>
      if e_writing e then
        put_ent (mkS (s_cap st) (s_content st) (s_free st) (s_scan st) (s_ents st) (s_rdrs st)
                     ((e_key e, e_ver e, sent e) :: s_log st))
                a (with_flags e false true (e_dead e) (e_rdrs e))
      else st
    | None => st
    end
  | AbortW a =>
    match s_ents st a with
    | Some e => if e_writing e then abort st a else st
    | None => st
    end
  | OpenR r a k =>
    match s_rdrs st r, s_ents st a with
    | None, Some e =>
      if (e_key e =? k) && negb (e_dead e) && (e_complete e || e_writing e) then
        set_rdr (set_ent st a (Some (with_flags e (e_writing e) (e_complete e) (e_dead e) (r :: e_rdrs e))))
                r (mkR a k 0 [] true false)
      else st
    | _, _ => st
    end
  | Read r len =>
    match s_rdrs st r with
    | Some rd =>
      if r_open rd && negb (r_done rd) then
        match s_ents st (r_ent rd) with
        | Some e =>
          if e_complete e && (r_off rd =? e_len e) then
            set_rdr st r (mkR (r_ent rd) (r_key rd) (r_off rd) (r_racc rd) true true)
          else
            let data := chain_read (chain_of st e) (r_off rd) len in
            set_rdr st r (mkR (r_ent rd) (r_key rd) (r_off rd + lenN data) (data :: r_racc rd) true false)
        | None => st
        end
      else st
    | None => st
    end
  | CloseR r =>
    match s_rdrs st r with
    | Some rd =>
      if r_open rd then
        let st1 := set_rdr st r (mkR (r_ent rd) (r_key rd) (r_off rd) (r_racc rd) false (r_done rd)) in
        match s_ents st1 (r_ent rd) with
        | Some e => put_ent st1 (r_ent rd)
                      (with_flags e (e_writing e) (e_complete e) (e_dead e)
                                  (filter (fun x => negb (x =? r)) (e_rdrs e)))
        | None => st1
        end
      else st
    | None => st
    end
  | Evict a =>
    match s_ents st a with
    | Some e => put_ent st a (with_flags e (e_writing e) (e_complete e) true (e_rdrs e))
    | None => st
    end
  end.

Fixpoint run (st : state) (ops : list op) : state :=
  match ops with
  | [] => st
  | o :: r => run (step st o) r
  end.

(* ------------------------------------------------------------------ the stored format and what a hit extracts *)
Definition le32 (b : bytes) : option N :=
  match b with
  | b0 :: b1 :: b2 :: b3 :: _ => Some (b0 + 256 * b1 + 65536 * b2 + 16777216 * b3)
  | _ => None
  end.
Definition le32_enc (n : N) : bytes :=
  [N.land n 255; N.land (N.shiftr n 8) 255; N.land (N.shiftr n 16) 255; N.land (N.shiftr n 24) 255].
Definition int_max : N := 2147483647.

(* UnpackPrefix + the "metadata is too big" test of SwapMetaUnpacker: Some swap_hdr_sz or None (= throw) *)
Definition unpack_prefix (buf : bytes) : option N :=
  match buf with
  | m :: rest =>
    if m =? hits_meta_magic then
      match le32 rest with
      | Some n =>
        if int_max <? n then None                      (* negative int: Less(rawMetaSize, SwapMetaPrefixSize) *)
        else if n <? hits_meta_prefix then None
        else if lenN buf <? n then None                (* Less(size, headerSize) *)
        else Some n
      | None => None
      end
    else None
  | [] => None
  end.

(* SwapMetaIterator over the fields; KEY_MD5 is compared with the entry key; a URL value must hold a NUL *)
Fixpoint check_fields (fuel : nat) (key : bytes) (metas : bytes) : bool :=
  match metas with
  | [] => true
  | t :: rest =>
    match fuel with
    | O => false
    | S f =>
      match le32 rest with
      | None => false                                                     (* SwapMetaExtract overrun *)
      | Some l =>
        let value := takeN l (dropN hits_meta_len_size rest) in
        if int_max <? l then false                                        (* negative length *)
        else if hits_meta_value_max <? l then false                       (* huge length *)
        else if lenN rest <? hits_meta_len_size + l then false            (* truncated value *)
        else if (t =? hits_meta_key_md5) && negb ((l =? hits_md5_len) && list_eqb value key) then false
        else if (t =? hits_meta_url) && negb (existsb (fun c => c =? 0) value) then false
        else check_fields f key (dropN (hits_meta_len_size + l) rest)
      end
    end
  end.

(* Store::UnpackHitSwapMeta(buf): buf is what the FIRST disk read returned *)
Definition unpack_hit_meta (key : bytes) (buf : bytes) : option N :=
  match unpack_prefix buf with
  | Some n =>
    let metas := takeN (n - hits_meta_prefix) (dropN hits_meta_prefix buf) in
    if check_fields (S (length metas)) key metas then Some n else None
  | None => None
  end.

(* headersEnd() of mime_header.cc: the scan starts in state 1; 0 = no terminator yet *)
Fixpoint headers_end_from (state e : N) (b : bytes) : N :=
  match b with
  | [] => 0
  | c :: t =>
    let st' := if state =? 0 then (if c =? 10 then 1 else 0)
               else if state =? 1 then (if c =? 13 then 2 else if c =? 10 then 3 else 0)
               else (if c =? 10 then 3 else 0) in
    if st' =? 3 then e + 1 else headers_end_from st' (e + 1) t
  end.
Definition headers_end (b : bytes) : N := headers_end_from 1 0 b.

(* what store_client hands to the client side for a stored stream: (HTTP header block, body) *)
Definition parse_stored (meta : bool) (key : bytes) (raw : bytes) : option (bytes * bytes) :=
  let http :=
    if meta then
      match unpack_hit_meta key (takeN (N.min hits_reqbuf_size hits_sm_page_size) raw) with
      | Some n => Some (dropN n raw)
      | None => None
      end
    else Some raw in
  match http with
  | None => None
  | Some h => let z := headers_end h in if z =? 0 then None else Some (takeN z h, dropN z h)
  end.

(* ------------------------------------------------------------------ a sequential driver over the machine
   (what the correspondence run executes: one client at a time on one store) *)
Fixpoint chunks (fuel : nat) (sizes : list N) (dflt : N) (d : bytes) : list bytes :=
  match d with
  | [] => []
  | _ :: _ =>
    match fuel with
    | O => [d]
    | S f =>
      let (n, rest) := match sizes with x :: r => (x, r) | [] => (dflt, []) end in
      let n := if n =? 0 then 1 else n in
      takeN n d :: chunks f rest dflt (dropN n d)
    end
  end.

(* a miss fills the entry at anchor a with the origin's stream, appended in the given pieces *)
Definition store_version (st : state) (a k v : N) (pieces : list bytes) : state :=
  run st (OpenW a k v :: map (Append a) pieces ++ [CloseW a]).

Fixpoint read_all (fuel : nat) (st : state) (r len : N) : state :=
  match fuel with
  | O => st
  | S f =>
    let st' := step st (Read r len) in
    match s_rdrs st' r with
    | Some rd => if r_done rd then st' else read_all f st' r len
    | None => st'
    end
  end.

(* a client asking for key k at anchor a with reader id r: Some raw stream when the hit completed *)
Definition hit (st : state) (r a k len : N) (fuel : nat) : state * option bytes :=
  let st1 := step st (OpenR r a k) in
  match s_rdrs st1 r with
  | None => (st, None)
  | Some _ =>
    let st2 := read_all fuel st1 r len in
    let res := match s_rdrs st2 r with
               | Some rd => if r_done rd then Some (acc rd) else None
               | None => None
               end in
    (step st2 (CloseR r), res)
  end.

(* synthetic streams (the same recurrences are used by the origin stub of the check) *)
Definition body_step (s : N * N * bytes) : N * N * bytes :=
  let '(a, x, acc) := s in
  let a' := a + 1 in
  if a' =? 251 then (0, x + 10, N.land x 255 :: acc) else (a', x + 3, N.land x 255 :: acc).
Definition mk_body (v n : N) : bytes := rev_append (snd (N.iter n body_step (0, v * 11, []))) [].

Definition fillN (n c : N) : bytes := N.iter n (fun l => c :: l) [].
Definition mk_hdr (hlen : N) : bytes := fillN (hlen - 4) 104 ++ [13; 10; 13; 10].
Definition mk_meta (key : bytes) (mlen : N) : bytes :=
  let fixed := hits_meta_prefix + (hits_meta_type_size + hits_meta_len_size + hits_md5_len)
               + (hits_meta_type_size + hits_meta_len_size) in
  [hits_meta_magic] ++ le32_enc mlen ++ [hits_meta_key_md5] ++ le32_enc hits_md5_len ++ key
  ++ [hits_meta_url] ++ le32_enc (mlen - fixed) ++ fillN (mlen - fixed - 1) 117 ++ [0].
Definition mk_prefix (k : kind) (key : bytes) (mlen hlen : N) : bytes :=
  (if has_meta k then mk_meta key mlen else []) ++ mk_hdr hlen.
Definition mk_stream (k : kind) (key : bytes) (mlen hlen v blen : N) : bytes :=
  mk_prefix k key mlen hlen ++ mk_body v blen.

(* Adler-32 of a byte string (what the check computes on the bytes squid sent) *)
Definition adler_step (s : N * N) (c : N) : N * N :=
  let (a, b) := s in
  let a1 := a + c in let a2 := if 65521 <=? a1 then a1 - 65521 else a1 in
  let b1 := b + a2 in let b2 := if 65521 <=? b1 then b1 - 65521 else b1 in
  (a2, b2).
Definition adler32 (d : bytes) : N := let (a, b) := fold_left adler_step d (1, 0) in b * 65536 + a.

(* sequential scenario: urls are numbered; a url's entry lives at anchor [q_idx u] *)
(* ------------------------------------------------------------------ refreshing the stored header after a 304
   Rock::HeaderUpdater (fs/rock/RockHeaderUpdater.cc) and MemStore::updateHeaders: the stale prefix (swap metadata +
   HTTP header) is read slot by slot until the header is complete; the SPLICING POINT is the slot holding the last
   header byte, and what that slot holds after the header (the "exchange buffer" / same-slice payload) is re-written
   behind the fresh prefix into a fresh chain (full slots, last one partly filled), whose last slot is linked to the
   slot after the splicing point.  The result is a chain with a PARTLY FILLED SLOT IN THE MIDDLE. *)
Fixpoint splice_tail (sl : list bytes) (n : N) : bytes * list bytes :=
  match sl with
  | [] => ([], [])
  | s :: t => if n <=? lenN s then (dropN n s, t) else splice_tail t (n - lenN s)
  end.

Definition update_chain (cap : N) (sl : list bytes) (oldp : N) (newp : bytes) : list bytes :=
  let (tl, rest) := splice_tail sl oldp in
  let fresh := newp ++ tl in
  chunks (S (length fresh)) [] cap fresh ++ rest.

(* the fresh chain is written into newly reserved slots; in the model ALL slots of the updated entry are re-reserved
   (slot identities are not observable); the entry must be idle (openForUpdating needs the exclusive lock of the
   fresh anchor and the update lock of the stale one) *)
Fixpoint place (st : state) (ns : list bytes) (acc : list N) : option (state * list N) :=
  match ns with
  | [] => Some (st, acc)
  | s :: t =>
    match alloc st with
    | None => None
    | Some (id, st1) =>
      place (mkS (s_cap st1) (upd (s_content st1) id s) (s_free st1) (s_scan st1) (s_ents st1) (s_rdrs st1) (s_log st1))
            t (id :: acc)
    end
  end.

Definition update_entry (st : state) (a : N) (oldp : N) (newp : bytes) : state :=
  match s_ents st a with
  | Some e =>
    if idle e && e_complete e && negb (e_dead e) then
      let ns := update_chain (s_cap st) (chain_of st e) oldp newp in
      let st0 := release st a e in
      match place st0 ns [] with
      | Some (st1, rslots) =>
        set_ent st1 a (Some (mkE (e_key e) (e_ver e) rslots (lenN (concat ns)) false true false [] [concat ns]))
      | None => st0
      end
    else st
  | None => st
  end.

Inductive sop : Type :=
| SGet (u : N) (key : bytes) (mlen hlen v blen : N) (sizes : list N)    (* plain request; the origin would answer version v *)
| SReload (u : N) (key : bytes) (mlen hlen v blen : N) (sizes : list N) (* forced refetch *)
| SPurge (u : N)
| SUpdate (u : N) (key : bytes) (mlen oldhlen newhlen : N).   (* revalidation answered by a 304 with other headers *)

Inductive sres : Type :=
| RHit (hdr_len body_len sum : N)
| RMiss (body_len sum : N)
| RSwapFail
| RPurged
| RReval (body_len sum : N).

Record seqst : Type := mkQ { q_st : state; q_idx : N -> option N; q_next : N }.

(* StoreMap kinds keep a key at its own anchor; the others take a fresh anchor per stored version *)
Definition fixed_anchor (k : kind) : bool := match k with KShm | KRock => true | _ => false end.

Definition seq_store (k : kind) (q : seqst) (u : N) (key : bytes) (mlen hlen v blen : N) (sizes : list N)
  : seqst * sres :=
  let body := mk_body v blen in
  let stream := mk_prefix k key mlen hlen ++ body in
  let st0 := match q_idx q u with Some a => step (q_st q) (Evict a) | None => q_st q end in
  let a := if fixed_anchor k then u else q_next q in
  let st1 := store_version st0 a u v (chunks (S (length stream)) sizes hits_sm_page_size stream) in
  let stored := match s_ents st1 a with Some e => e_complete e && negb (e_dead e) | None => false end in
  (mkQ st1 (upd (q_idx q) u (if stored then Some a else None)) (q_next q + 1),
   RMiss (lenN body) (adler32 body)).

Definition seq_step (k : kind) (q : seqst) (o : sop) : seqst * sres :=
  match o with
  | SGet u key mlen hlen v blen sizes =>
    match q_idx q u with
    | Some a =>
      let total := match s_ents (q_st q) a with Some e => e_len e | None => 0 end in
      let (st', res) := hit (q_st q) (q_next q) a u hits_reqbuf_size (S (S (N.to_nat (total / 1024)))) in
      let q' := mkQ st' (q_idx q) (q_next q + 1) in
      match res with
      | Some raw =>
        match parse_stored (has_meta k) key raw with
        | Some (h, b) => (q', RHit (lenN h) (lenN b) (adler32 b))
        | None => (mkQ (step st' (Evict a)) (upd (q_idx q) u None) (q_next q + 1), RSwapFail)
        end
      | None => seq_store k q' u key mlen hlen v blen sizes
      end
    | None => seq_store k q u key mlen hlen v blen sizes
    end
  | SReload u key mlen hlen v blen sizes => seq_store k q u key mlen hlen v blen sizes
  | SUpdate u key mlen oldhlen newhlen =>
    match q_idx q u with
    | Some a =>
      let total := match s_ents (q_st q) a with Some e => e_len e | None => 0 end in
      let (st', res) := hit (q_st q) (q_next q) a u hits_reqbuf_size (S (S (N.to_nat (total / 1024)))) in
      match res with
      | Some raw =>
        match parse_stored (has_meta k) key raw with
        | Some (h, b) =>
          let oldp := (if has_meta k then mlen else 0) + oldhlen in
          (mkQ (update_entry st' a oldp (mk_prefix k key mlen newhlen)) (q_idx q) (q_next q + 1),
           RReval (lenN b) (adler32 b))
        | None => (mkQ (step st' (Evict a)) (upd (q_idx q) u None) (q_next q + 1), RSwapFail)
        end
      | None => (mkQ st' (q_idx q) (q_next q + 1), RSwapFail)
      end
    | None => (q, RSwapFail)
    end
  | SPurge u =>
    match q_idx q u with
    | Some a => (mkQ (step (q_st q) (Evict a)) (upd (q_idx q) u None) (q_next q), RPurged)
    | None => (q, RPurged)
    end
  end.

Fixpoint seq_run (k : kind) (q : seqst) (ops : list sop) : seqst * list sres :=
  match ops with
  | [] => (q, [])
  | o :: r => let (q1, x) := seq_step k q o in let (q2, xs) := seq_run k q1 r in (q2, x :: xs)
  end.

Fixpoint upto_from (n : nat) (start : N) : list N :=
  match n with O => [] | S m => start :: upto_from m (start + 1) end.
Definition upto (n : nat) : list N := upto_from n 0.

Definition seq_init (k : kind) (nslots nanchors : nat) : seqst :=
  mkQ (init (cap_of k) (upto nslots) (upto nanchors)) (fun _ => None) (N.of_nat nanchors).

(* sizes of the slots of the chain a url is stored in (for the on-disk layout comparison) *)
Definition layout_of (q : seqst) (u : N) : option (list N) :=
  match q_idx q u with
  | Some a => match s_ents (q_st q) a with
              | Some e => Some (map (@lenN N) (chain_of (q_st q) e))
              | None => None
              end
  | None => None
  end.
