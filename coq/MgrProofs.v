(* MgrProofs.v — proofs about MgrModel (C61). *)
Require Import SquidV.Bytes SquidV.TokModel SquidV.TokProofs SquidV.Int64Proofs SquidV.B64Model SquidV.MgrModel.
Require Import SquidV.gen.Mgr_gen.
Require Import ZifyBool ZifyN ZifyNat.
Local Open Scope N_scope.

(* ------------------------------------------------------------------ *)
(* list vocabulary                                                      *)

Lemma leqb_true (a : bytes) : forall b, list_eqb a b = true -> a = b.
Proof.
  induction a as [|x a IH]; intros [|y b] H; cbn [list_eqb] in H; try discriminate; [reflexivity|].
  apply andb_true_iff in H. destruct H as [H1 H2]. apply N.eqb_eq in H1. subst y. f_equal. apply IH, H2.
Qed.

Lemma leqb_refl (a : bytes) : list_eqb a a = true.
Proof. induction a as [|x a IH]; cbn [list_eqb]; [reflexivity|]. rewrite N.eqb_refl, IH. reflexivity. Qed.

Lemma leqb_false (a b : bytes) : list_eqb a b = false -> a <> b.
Proof. intros H E. subst b. rewrite leqb_refl in H. discriminate. Qed.

Lemma starts_with_split l p : starts_with l p = true -> exists r, l = p ++ r.
Proof.
  revert l; induction p as [|y p IH]; intros l H; [exists l; reflexivity|].
  destruct l as [|x l]; cbn [starts_with] in H; [discriminate|].
  apply andb_true_iff in H. destruct H as [H1 H2]. apply N.eqb_eq in H1. subst y.
  destruct (IH _ H2) as [r Hr]. exists r. cbn [app]. now rewrite Hr.
Qed.

Lemma starts_with_app p r : starts_with (p ++ r) p = true.
Proof. induction p as [|y p IH]; cbn [app starts_with]; [destruct r; reflexivity|]. now rewrite N.eqb_refl, IH. Qed.

(* a maximal run followed by a stopping byte (or the end) is what span returns *)
Lemma span_run (p : N -> bool) (a r : bytes) :
  forallb p a = true ->
  match r with [] => True | y :: _ => p y = false end ->
  span p (a ++ r) = (a, r).
Proof.
  intros Ha Hr. induction a as [|x a IH]; cbn [app].
  - destruct r as [|y r]; cbn [span]; [reflexivity|]. now rewrite Hr.
  - cbn [forallb] in Ha. apply andb_true_iff in Ha. destruct Ha as [Hx Ha].
    cbn [span]. rewrite Hx, (IH Ha). reflexivity.
Qed.

Lemma span_eq (p : N -> bool) (l a r : bytes) :
  span p l = (a, r) ->
  l = a ++ r /\ forallb p a = true /\ match r with [] => True | y :: _ => p y = false end.
Proof.
  intros H. pose proof (span_app p l) as H1. pose proof (span_all p l) as H2. pose proof (span_stop p l) as H3.
  rewrite H in H1, H2, H3. cbn [fst snd] in *. auto.
Qed.

Lemma forallb_app' {A} (p : A -> bool) a b : forallb p (a ++ b) = forallb p a && forallb p b.
Proof. induction a as [|x a IH]; cbn [app forallb]; [reflexivity|]. now rewrite IH, andb_assoc. Qed.

Definition nonul (c : N) : bool := negb (c =? 0).
Definition nopct (c : N) : bool := negb (c =? 37).

Lemma cstr_app (a b : bytes) : forallb nonul a = true -> cstr (a ++ b) = a ++ cstr b.
Proof.
  intros Ha. unfold cstr. induction a as [|x a IH]; cbn [app]; [reflexivity|].
  cbn [forallb] in Ha. apply andb_true_iff in Ha. destruct Ha as [Hx Ha]. unfold nonul in Hx.
  cbn [span]. rewrite Hx. specialize (IH Ha).
  destruct (span (fun c => negb (c =? 0)) (a ++ b)) as [u v] eqn:E. cbn [fst] in *. now rewrite IH.
Qed.

(* ------------------------------------------------------------------ *)
(* percent coding                                                       *)

Lemma uri_encode_app ok a b : uri_encode ok (a ++ b) = uri_encode ok a ++ uri_encode ok b.
Proof. unfold uri_encode. apply flat_map_app. Qed.

Lemma uri_encode_id ok a : forallb ok a = true -> uri_encode ok a = a.
Proof.
  induction a as [|x a IH]; intros H; [reflexivity|].
  cbn [forallb] in H. apply andb_true_iff in H. destruct H as [Hx Ha].
  unfold uri_encode in *. cbn [flat_map]. rewrite Hx, (IH Ha). reflexivity.
Qed.

Lemma uri_decode_app (a b : bytes) :
  forallb nopct a = true -> uri_decode (a ++ b) = option_map (app a) (uri_decode b).
Proof.
  intros Ha. induction a as [|x a IH]; cbn [app].
  - destruct (uri_decode b); reflexivity.
  - cbn [forallb] in Ha. apply andb_true_iff in Ha. destruct Ha as [Hx Ha]. unfold nopct in Hx.
    cbn [uri_decode]. apply negb_true_iff in Hx. rewrite Hx, (IH Ha).
    destruct (uri_decode b); reflexivity.
Qed.

(* whatever DecodeOrDupe does to the tail, a '%'-free head survives it *)
Lemma decode_or_dupe_head (a b : bytes) :
  forallb nopct a = true -> exists t, decode_or_dupe (a ++ b) = a ++ t.
Proof.
  intros Ha. unfold decode_or_dupe. rewrite (uri_decode_app a b Ha).
  destruct (uri_decode b) as [d|]; cbn [option_map]; eauto.
Qed.

(* ------------------------------------------------------------------ *)
(* the manager regex                                                    *)

Definition nocolon (c : N) : bool := negb (c =? 58).
Definition noslash (c : N) : bool := negb (c =? 47).

(* what `^[^:]+://[^/]+<lit>` (REG_EXTENDED, no REG_ICASE) means on a C string *)
Definition mgr_regex_spec (s : bytes) : Prop :=
  exists a b rest,
    cstr s = a ++ [58;47;47] ++ b ++ mgr_regex_lit ++ rest
    /\ a <> [] /\ forallb nocolon a = true
    /\ b <> [] /\ forallb noslash b = true.

Lemma shape_ok : mgr_acl_shape_ok = true.
Proof. vm_compute. reflexivity. Qed.

Lemma lit_is_prefix : mgr_regex_lit = mgr_prefix.
Proof. vm_compute. reflexivity. Qed.

Lemma lit_head : exists l, mgr_regex_lit = 47 :: l.
Proof. eexists. vm_compute. reflexivity. Qed.

Lemma drop3 (x y z : N) (r : bytes) : dropN 3 (x :: y :: z :: r) = r.
Proof. change (dropN 3 (x :: y :: z :: r)) with (dropN 0 r). apply dropN_0. Qed.

Lemma regex_match_iff s : mgr_regex_match s = true <-> mgr_regex_spec s.
Proof.
  unfold mgr_regex_match, mgr_regex_spec. destruct lit_head as [lit' Hlit].
  split.
  - destruct (span (fun c => negb (c =? 58)) (cstr s)) as [a r1] eqn:E1.
    destruct a as [|a0 a']; [discriminate|].
    destruct (starts_with r1 [58;47;47]) eqn:E2; [|discriminate].
    destruct (span (fun c => negb (c =? 47)) (dropN 3 r1)) as [b r3] eqn:E3.
    destruct b as [|b0 b']; [discriminate|]. intros H.
    apply span_eq in E1. destruct E1 as (Hs & Ha & _).
    apply starts_with_split in E2. destruct E2 as [r2 Hr1]. subst r1.
    cbn [app] in E3. rewrite drop3 in E3.
    apply span_eq in E3. destruct E3 as (Hr2 & Hb & _).
    apply starts_with_split in H. destruct H as [rest Hr3].
    exists (a0 :: a'), (b0 :: b'), rest. subst r3 r2. repeat split; try exact Ha; try exact Hb; try discriminate.
    exact Hs.
  - intros (a & b & rest & Hs & Hane & Ha & Hbne & Hb). rewrite Hs.
    rewrite (span_run (fun c => negb (c =? 58)) a ([58;47;47] ++ b ++ mgr_regex_lit ++ rest) Ha) by reflexivity.
    destruct a as [|a0 a']; [congruence|].
    rewrite (starts_with_app [58;47;47] (b ++ mgr_regex_lit ++ rest)).
    cbn [app]. rewrite drop3.
    rewrite (span_run (fun c => negb (c =? 47)) b (mgr_regex_lit ++ rest) Hb) by (rewrite Hlit; reflexivity).
    destruct b as [|b0 b']; [congruence|]. apply starts_with_app.
Qed.

(* ------------------------------------------------------------------ *)
(* every request the cache manager would handle matches `manager` (no user-info in the effective URI)  *)

Definition hostchar (c : N) : bool := negb (c =? 47) && negb (c =? 37) && negb (c =? 0).
Definition digitc (c : N) : bool := (48 <=? c) && (c <=? 57).
(* visible_hostname is a non-empty string without '/', '%' and NUL *)
Definition host_ok (h : bytes) : Prop := h <> [] /\ forallb hostchar h = true.

Ltac Zify.zify_post_hook ::= Z.div_mod_to_equations.

Lemma hostchar_lower c : hostchar (xtolower c) = hostchar c.
Proof.
  unfold hostchar, xtolower. destruct ((65 <=? c) && (c <=? 90)) eqn:E; [|reflexivity]. lia.
Qed.

Lemma forallb_hostchar_lower a : forallb hostchar (lower a) = forallb hostchar a.
Proof.
  unfold lower. induction a as [|x a IH]; cbn [map forallb]; [reflexivity|]. now rewrite hostchar_lower, IH.
Qed.

Lemma forallb_imp {A} (p q : A -> bool) l :
  (forall x, p x = true -> q x = true) -> forallb p l = true -> forallb q l = true.
Proof.
  intros Hpq. induction l as [|x l IH]; cbn [forallb]; [reflexivity|]. intros H.
  apply andb_true_iff in H. destruct H as [Hx Hl]. now rewrite (Hpq _ Hx), (IH Hl).
Qed.

Lemma dec_aux_digits f : forall n acc, forallb digitc acc = true -> forallb digitc (dec_aux f n acc) = true.
Proof.
  induction f as [|f IH]; intros n acc Hacc; cbn [dec_aux]; [exact Hacc|].
  assert (Hd : digitc (48 + n mod 10) = true) by (unfold digitc; lia).
  destruct (n / 10 =? 0); [cbn [forallb]; now rewrite Hd, Hacc|].
  apply IH. cbn [forallb]. now rewrite Hd, Hacc.
Qed.

Lemma dec_hostchars n : forallb hostchar (dec n) = true.
Proof.
  apply (forallb_imp digitc hostchar); [|apply dec_aux_digits; reflexivity].
  intros x Hx. unfold digitc in Hx. unfold hostchar. lia.
Qed.

Lemma authority_hostchars s h port :
  forallb hostchar h = true -> forallb hostchar (authority s h port) = true.
Proof.
  intros Hh. unfold authority. rewrite forallb_app', Hh. cbn [andb].
  destruct (default_port s) as [d|]; [destruct (port =? d); [reflexivity|]|];
    cbn [forallb]; now rewrite dec_hostchars.
Qed.

Lemma internal_host_ok e q :
  is_internal e q = true -> host_ok (e_myhost e) ->
  norm_host (q_host q) <> [] /\ forallb hostchar (norm_host (q_host q)) = true.
Proof.
  unfold is_internal, bytes_eqb_ci, host_ok. intros H [Hne Hch].
  apply andb_true_iff in H. destruct H as [_ H]. apply leqb_true in H.
  split.
  - intros E. rewrite E in H. cbn in H. symmetry in H. unfold lower in H. apply map_eq_nil in H. contradiction.
  - rewrite <- forallb_hostchar_lower, H, forallb_hostchar_lower. exact Hch.
Qed.

Lemma scheme_image_facts s : s <> SOther ->
  scheme_image s <> [] /\ forallb nocolon (scheme_image s) = true
  /\ forallb nopct (scheme_image s) = true /\ forallb nonul (scheme_image s) = true.
Proof. destruct s; intros H; try congruence; repeat split; try discriminate; reflexivity. Qed.

Lemma prefix_facts : forallb nopct mgr_prefix = true /\ forallb nonul mgr_prefix = true.
Proof. split; vm_compute; reflexivity. Qed.

Lemma internal_http_like e q : is_internal e q = true -> http_like (q_scheme q) = true.
Proof.
  unfold is_internal. intros H. apply andb_true_iff in H. destruct H as [H _].
  apply andb_true_iff in H. destruct H as [H _]. apply andb_true_iff in H. destruct H as [_ H]. exact H.
Qed.

Lemma http_like_facts s : http_like s = true -> s <> SOther /\ allow_userinfo s = false.
Proof. destruct s; intros H; try discriminate H; split; try discriminate; reflexivity. Qed.

Lemma acl_covers e q :
  is_internal e q = true -> for_cache_manager q = true -> host_ok (e_myhost e) ->
  acl_manager q = true.
Proof.
  intros Hint Hfcm Hho.
  destruct (http_like_facts _ (internal_http_like e q Hint)) as [Hs Hau].
  assert (Hui : userinfo_part q = []) by (unfold userinfo_part; now rewrite Hau).
  destruct (internal_host_ok e q Hint Hho) as [Hne Hhc].
  destruct (scheme_image_facts _ Hs) as (Hine & Hic & Hip & Hin).
  destruct prefix_facts as [Hpp Hpn].
  unfold for_cache_manager in Hfcm. apply starts_with_split in Hfcm. destruct Hfcm as [tail Htail].
  set (B := authority (q_scheme q) (norm_host (q_host q)) (q_port q)).
  assert (HB : forallb hostchar B = true) by (apply authority_hostchars, Hhc).
  assert (HBne : B <> []).
  { unfold B, authority. destruct (norm_host (q_host q)); [congruence|discriminate]. }
  set (X := scheme_image (q_scheme q) ++ [58;47;47] ++ B ++ mgr_prefix).
  assert (HU : effective_uri q = X ++ tail).
  { unfold effective_uri, X. rewrite Hui, Htail. fold B. cbn [app]. rewrite <- !app_assoc. cbn [app].
    rewrite <- !app_assoc. reflexivity. }
  assert (HXp : forallb nopct X = true).
  { unfold X. rewrite !forallb_app', Hip, Hpp. cbn [forallb andb].
    rewrite (forallb_imp hostchar nopct B); [reflexivity| |exact HB].
    intros x Hx. unfold hostchar in Hx. unfold nopct. lia. }
  assert (HXn : forallb nonul X = true).
  { unfold X. rewrite !forallb_app', Hin, Hpn. cbn [forallb andb].
    rewrite (forallb_imp hostchar nonul B); [reflexivity| |exact HB].
    intros x Hx. unfold hostchar in Hx. unfold nonul. lia. }
  unfold acl_manager. apply regex_match_iff. rewrite HU.
  destruct (decode_or_dupe_head X tail HXp) as [t Ht]. rewrite Ht.
  exists (scheme_image (q_scheme q)), B, (cstr t).
  rewrite (cstr_app X t HXn). unfold X. rewrite lit_is_prefix.
  repeat split; try assumption.
  - rewrite <- !app_assoc. reflexivity.
  - apply (forallb_imp hostchar noslash B); [|exact HB].
    intros x Hx. unfold hostchar in Hx. unfold noslash. lia.
Qed.

(* any answer produced by the cache manager itself *)
Definition mgr_answer (r : result) : bool :=
  match r with RAuthReq _ | RIndex | RReport _ | RNotFound | RFuel => true | _ => false end.

Lemma answer_requires_access e menu pl rules q :
  mgr_answer (handle e menu pl rules q) = true ->
  access_allowed (acl_manager q) (e_local e) rules = true.
Proof.
  unfold handle. intros H.
  destruct (url_check_request (q_method q) (q_scheme q)); cbn [negb] in H; [|discriminate H].
  destruct (access_allowed (acl_manager q) (e_local e) rules); cbn [negb] in H; [reflexivity|discriminate H].
Qed.

(* `http_access deny manager` as the first rule: no cache-manager answer of any kind *)
Lemma deny_manager_blocks e menu pl rest q :
  host_ok (e_myhost e) ->
  mgr_answer (handle e menu pl (mkRule false [AMgr] :: rest) q) = false.
Proof.
  intros Hho. destruct (mgr_answer (handle e menu pl (mkRule false [AMgr] :: rest) q)) eqn:E; [|reflexivity].
  pose proof (answer_requires_access _ _ _ _ _ E) as Hacc.
  unfold handle in E.
  destruct (url_check_request (q_method q) (q_scheme q)) eqn:Eu; cbn [negb] in E; [|discriminate E].
  rewrite Hacc in E. cbn [negb] in E.
  destruct (is_internal e q) eqn:Ei; cbn [negb] in E; [|discriminate E].
  destruct (for_cache_manager q) eqn:Ef; cbn [negb] in E; [|discriminate E].
  pose proof (acl_covers e q Ei Ef Hho) as Hm.
  unfold access_allowed in Hacc. cbn [eval_rules r_atoms r_allow forallb atom_holds] in Hacc.
  rewrite Hm in Hacc. cbn in Hacc. discriminate Hacc.
Qed.

(* ------------------------------------------------------------------ *)
(* cachemgr_passwd: the first covering line decides                     *)

Definition covers_spec (e : pwent) (n : bytes) : Prop := In n (pe_actions e) \/ In kw_all (pe_actions e).
Definition uncovered (pl : list pwent) (n : bytes) : Prop := Forall (fun e => ~ covers_spec e n) pl.
Definition first_covering (pl : list pwent) (n : bytes) (e : pwent) : Prop :=
  exists pre post, pl = pre ++ e :: post /\ uncovered pre n /\ covers_spec e n.

Lemma covers_iff e n : covers e n = true <-> covers_spec e n.
Proof.
  unfold covers, covers_spec. rewrite existsb_exists. split.
  - intros (w & Hin & Hw). apply orb_true_iff in Hw. destruct Hw as [Hw|Hw]; apply leqb_true in Hw; subst; auto.
  - intros [H|H]; [exists n|exists kw_all]; (split; [exact H|]); rewrite leqb_refl; [reflexivity|apply orb_true_r].
Qed.

Lemma passwd_get_first pl n e : first_covering pl n e -> passwd_get pl n = Some (pe_passwd e).
Proof.
  intros (pre & post & Hpl & Hpre & Hc). subst pl. induction Hpre as [|x pre Hx Hpre IH]; cbn [app passwd_get].
  - apply covers_iff in Hc. now rewrite Hc.
  - destruct (covers x n) eqn:E; [apply covers_iff in E; contradiction|exact IH].
Qed.

Lemma passwd_get_uncovered pl n : uncovered pl n -> passwd_get pl n = None.
Proof.
  intros H. induction H as [|x pl Hx Hpl IH]; cbn [passwd_get]; [reflexivity|].
  destruct (covers x n) eqn:E; [apply covers_iff in E; contradiction|exact IH].
Qed.

Lemma passwd_get_cases pl n :
  (exists e, first_covering pl n e /\ passwd_get pl n = Some (pe_passwd e)) \/ (uncovered pl n /\ passwd_get pl n = None).
Proof.
  induction pl as [|x pl IH]; cbn [passwd_get].
  - right. split; [constructor|reflexivity].
  - destruct (covers x n) eqn:E.
    + left. exists x. split; [|reflexivity]. exists [], pl. repeat split; [constructor|now apply covers_iff].
    + assert (Hx : ~ covers_spec x n) by (intros H; apply covers_iff in H; congruence).
      destruct IH as [(e & (pre & post & Hpl & Hpre & Hc) & Hg)|[Hu Hg]].
      * left. exists e. split; [|exact Hg]. exists (x :: pre), post. subst pl. repeat split; [constructor; assumption|exact Hc].
      * right. split; [constructor; assumption|exact Hg].
Qed.

(* ------------------------------------------------------------------ *)
(* credentials: RFC 7617 as squid reads it                              *)

(* `field` is the Authorization value; user and pass are what base64(user ":" pass) decodes to *)
Definition basic_credentials (field user pass : bytes) : Prop :=
  exists sch ws txt,
    cstr field = sch ++ ws ++ txt /\ lower sch = kw_basic
    /\ ws <> [] /\ forallb xisspace ws = true
    /\ b64_decode true txt = Some (user ++ 58 :: pass)
    /\ forallb nocolon user = true.

Lemma takeN_dropN' {A} n (l : list A) : l = takeN n l ++ dropN n l.
Proof. symmetry. apply takeN_dropN. Qed.

Lemma auth_token_spec f tok :
  get_auth_token (Some f) = tok -> tok <> [] ->
  exists sch ws txt, cstr f = sch ++ ws ++ txt /\ lower sch = kw_basic /\ ws <> [] /\ forallb xisspace ws = true
                     /\ b64_decode true txt = Some tok.
Proof.
  unfold get_auth_token. intros H Hne.
  destruct (list_eqb (lower (takeN 5 (cstr f))) kw_basic) eqn:E1; cbn [negb] in H; [|congruence].
  apply leqb_true in E1.
  destruct (dropN 5 (cstr f)) as [|c r] eqn:E2; [congruence|].
  destruct (xisspace c) eqn:E3; cbn [negb] in H; [|congruence].
  destruct (span xisspace (c :: r)) as [ws r'] eqn:E4. cbn [snd] in H.
  destruct r' as [|d r'']; [congruence|].
  destruct (b64_decode true (d :: r'')) as [t|] eqn:E5; [|congruence]. subst t.
  assert (Hwsne : ws <> []).
  { cbn [span] in E4. rewrite E3 in E4. destruct (span xisspace r) as [u v]. injection E4 as Hw _. subst ws. discriminate. }
  apply span_eq in E4. destruct E4 as (Hcr & Hws & _).
  exists (takeN 5 (cstr f)), ws, (d :: r''). repeat split; try assumption.
  rewrite <- Hcr, <- E2. apply takeN_dropN'.
Qed.

Lemma supplied_password_spec field pass :
  supplied_password field = pass -> pass <> [] ->
  exists f user, field = Some f /\ basic_credentials f user pass.
Proof.
  unfold supplied_password. intros H Hne.
  destruct (span (fun c => negb (c =? 58)) (get_auth_token field)) as [user rest] eqn:E.
  destruct rest as [|c pw]; [congruence|]. subst pw.
  apply span_eq in E. destruct E as (Ht & Hu & Hc). apply negb_false_iff, N.eqb_eq in Hc. subst c.
  destruct field as [f|]; [|destruct user; discriminate Ht].
  assert (Htne : get_auth_token (Some f) <> []) by (rewrite Ht; destruct user; discriminate).
  destruct (auth_token_spec f _ eq_refl Htne) as (sch & ws & txt & H1 & H2 & H3 & H4 & H5).
  exists f, user. split; [reflexivity|]. exists sch, ws, txt. rewrite Ht in H5. repeat split; assumption.
Qed.

Lemma cstr_full (a : bytes) : lenN a = lenN (cstr a) -> a = cstr a.
Proof.
  unfold cstr. intros H. pose proof (span_app (fun c => negb (c =? 0)) a) as Happ.
  destruct (span (fun c => negb (c =? 0)) a) as [u v]. cbn [fst snd] in *.
  rewrite <- Happ in H. rewrite lenN_app in H. destruct v as [|y v]; [now rewrite app_nil_r in Happ|].
  cbn [lenN] in H. lia.
Qed.

Lemma cstr_nonul (a : bytes) : forallb nonul a = true -> cstr a = a.
Proof. intros H. rewrite <- (app_nil_r a) at 1. rewrite (cstr_app a [] H). apply app_nil_r. Qed.

Lemma check_password_false pl a pw :
  check_password pl a pw = false ->
  match passwd_get pl (a_name a) with
  | None => a_pwreq a = false
  | Some pwd => pwd <> kw_disable /\ (pwd = kw_none \/ (pw <> [] /\ pw = cstr pwd))
  end.
Proof.
  unfold check_password. destruct (passwd_get pl (a_name a)) as [pwd|]; [|auto].
  destruct (list_eqb pwd kw_disable) eqn:E1; [discriminate|]. apply leqb_false in E1.
  destruct (list_eqb pwd kw_none) eqn:E2; [apply leqb_true in E2; auto|].
  destruct pw as [|p pw]; [discriminate|]. intros H. split; [exact E1|]. right.
  apply orb_false_iff in H. destruct H as [Hlen H].
  apply negb_false_iff, N.eqb_eq in Hlen.
  unfold string_ne in H. destruct pwd as [|d pwd]; [discriminate|].
  apply negb_false_iff, leqb_true in H. split; [discriminate|].
  rewrite <- H in Hlen. rewrite <- H. apply cstr_full, Hlen.
Qed.

Definition field_char (c : N) : bool := negb (memb c mgr_field_stop).

(* what ParseUrl accepted *)
Lemma parse_url_action menu pl path a :
  parse_url menu pl path = UAction a -> lenN path < npos ->
  In a menu
  /\ (action_protection pl a = Public \/ action_protection pl a = Protected)
  /\ exists nm rest,
       path = mgr_prefix ++ nm ++ rest
       /\ forallb field_char nm = true
       /\ match rest with [] => True | c :: _ => field_char c = false end
       /\ a_name a = match nm with [] => kw_index | _ => nm end.
Proof.
  unfold parse_url, tok_skip. intros H Hlen.
  destruct (starts_with path mgr_prefix) eqn:E0; [|discriminate].
  apply starts_with_split in E0. destruct E0 as [b0 Hp]. subst path. rewrite dropN_app_exact in H.
  assert (Hlen0 : lenN b0 < npos) by (rewrite lenN_app in Hlen; lia).
  destruct (negb (lenN mgr_prefix =? 0)); [|discriminate].
  fold field_char in H.
  destruct (tok_prefix field_char npos b0) as [[nm b1]|] eqn:E1.
  - destruct (find_action menu nm) as [a'|] eqn:E2; [|discriminate].
    apply find_some in E2. destruct E2 as [Hin Hnm]. apply leqb_true in Hnm.
    assert (Hprot : (action_protection pl a' = Public \/ action_protection pl a' = Protected) /\ a' = a).
    { destruct (action_protection pl a'); try discriminate; (split; [auto|]);
        destruct (tok_skipChar 63 b1) as [[|] b2]; try destruct (query_parse _ b2) as [b3| |];
        try discriminate; try (destruct b3 as [|c b3]; [|destruct (c =? 35)]; congruence);
        try (destruct b1 as [|c b1']; [|destruct (c =? 35)]; congruence). }
    destruct Hprot as [Hprot ->]. split; [exact Hin|]. split; [exact Hprot|].
    apply tok_prefix_sound in E1. destruct E1 as (Happ & Hne & Hall & Hle & Hstop).
    exists nm, b1. subst b0. repeat split; try assumption.
    + destruct Hstop as [Hl|Hs]; [rewrite lenN_app in Hlen0; lia|]. destruct b1; [exact I|exact Hs].
    + destruct nm; [congruence|exact Hnm].
  - destruct (find_action menu kw_index) as [a'|] eqn:E2; [|discriminate].
    apply find_some in E2. destruct E2 as [Hin Hnm]. apply leqb_true in Hnm.
    assert (Hprot : (action_protection pl a' = Public \/ action_protection pl a' = Protected) /\ a' = a).
    { destruct (action_protection pl a'); try discriminate; (split; [auto|]);
        destruct (tok_skipChar 63 b0) as [[|] b2]; try destruct (query_parse _ b2) as [b3| |];
        try discriminate; try (destruct b3 as [|c b3]; [|destruct (c =? 35)]; congruence);
        try (destruct b0 as [|c b0']; [|destruct (c =? 35)]; congruence). }
    destruct Hprot as [Hprot ->]. split; [exact Hin|]. split; [exact Hprot|].
    exists [], b0. cbn [app]. repeat split; try assumption.
    apply tok_prefix_none in E1. destruct E1 as [E|[E|E]]; [subst b0; exact I|discriminate E|].
    destruct b0; [exact I|exact E].
Qed.

(* ------------------------------------------------------------------ *)
(* the transaction                                                      *)

(* the action a cache-manager answer is about *)
Definition answered_action (r : result) : option bytes :=
  match r with
  | RAuthReq n => Some n
  | RReport n => Some n
  | RIndex => Some kw_index
  | _ => None
  end.

Lemma answered_inv e menu pl rules q n :
  answered_action (handle e menu pl rules q) = Some n ->
  exists a, parse_url menu pl (q_path q) = UAction a /\ a_name a = n.
Proof.
  unfold handle.
  destruct (negb (url_check_request _ _)); [discriminate|].
  destruct (negb (access_allowed _ _ _)); [discriminate|].
  destruct (negb (is_internal e q)); [discriminate|].
  destruct (negb (for_cache_manager q)); [discriminate|].
  destruct (parse_url menu pl (q_path q)) as [a| |]; try discriminate.
  intros H. exists a. split; [reflexivity|].
  destruct (check_password pl a _); [cbn in H; congruence|].
  destruct (list_eqb (a_name a) kw_index) eqn:E; cbn in H; [apply leqb_true in E|]; congruence.
Qed.

Lemma report_inv e menu pl rules q n :
  handle e menu pl rules q = RReport n ->
  exists a, parse_url menu pl (q_path q) = UAction a /\ a_name a = n
            /\ check_password pl a (supplied_password (q_auth q)) = false /\ n <> kw_index.
Proof.
  unfold handle.
  destruct (negb (url_check_request _ _)); [discriminate|].
  destruct (negb (access_allowed _ _ _)); [discriminate|].
  destruct (negb (is_internal e q)); [discriminate|].
  destruct (negb (for_cache_manager q)); [discriminate|].
  destruct (parse_url menu pl (q_path q)) as [a| |]; try discriminate.
  destruct (check_password pl a _) eqn:Ec; [discriminate|].
  destruct (list_eqb (a_name a) kw_index) eqn:E; [discriminate|]. intros H. injection H as H.
  exists a. repeat split; try assumption. subst n. apply leqb_false, E.
Qed.

Definition path_ok (q : request) : Prop := lenN (q_path q) < npos.

(* the action performed is the one the URL names, and it is in the table *)
Lemma report_names_action e menu pl rules q n :
  handle e menu pl rules q = RReport n -> path_ok q ->
  (exists a, In a menu /\ a_name a = n)
  /\ exists rest, q_path q = mgr_prefix ++ n ++ rest
                  /\ forallb field_char n = true /\ n <> []
                  /\ match rest with [] => True | c :: _ => field_char c = false end.
Proof.
  intros H Hlen. destruct (report_inv _ _ _ _ _ _ H) as (a & Hp & Hn & _ & Hidx).
  destruct (parse_url_action _ _ _ _ Hp Hlen) as (Hin & _ & nm & rest & Hpath & Hfc & Hstop & Hname).
  split; [exists a; auto|].
  destruct nm as [|c nm]; [congruence|]. rewrite Hn in Hname. rewrite Hname.
  exists rest. repeat split; try assumption. discriminate.
Qed.

(* disabled and hidden actions: no answer that involves the action at all (they yield 404) *)
Lemma answered_not_disabled_nor_hidden e menu pl rules q n :
  answered_action (handle e menu pl rules q) = Some n -> path_ok q ->
  (forall e0, first_covering pl n e0 -> pe_passwd e0 <> kw_disable)
  /\ (uncovered pl n -> exists a, In a menu /\ a_name a = n /\ a_pwreq a = false).
Proof.
  intros H Hlen. destruct (answered_inv _ _ _ _ _ _ H) as (a & Hp & Hn).
  destruct (parse_url_action _ _ _ _ Hp Hlen) as (Hin & Hprot & _). subst n.
  unfold action_protection in Hprot. split.
  - intros e0 Hf. rewrite (passwd_get_first _ _ _ Hf) in Hprot. intros Hd. rewrite Hd in Hprot.
    cbn in Hprot. destruct Hprot; discriminate.
  - intros Hu. rewrite (passwd_get_uncovered _ _ Hu) in Hprot. exists a. repeat split; try assumption.
    destruct (a_pwreq a); [destruct Hprot; discriminate|reflexivity].
Qed.

(* a report implies the password rule admitted it *)
Lemma report_respects_passwd e menu pl rules q n :
  handle e menu pl rules q = RReport n -> path_ok q ->
  (forall e0, first_covering pl n e0 ->
     pe_passwd e0 <> kw_disable
     /\ (pe_passwd e0 = kw_none
         \/ exists f user pass, q_auth q = Some f /\ basic_credentials f user pass
                                /\ pass <> [] /\ pass = cstr (pe_passwd e0)))
  /\ (uncovered pl n -> exists a, In a menu /\ a_name a = n /\ a_pwreq a = false).
Proof.
  intros H Hlen. destruct (report_inv _ _ _ _ _ _ H) as (a & Hp & Hn & Hc & _).
  assert (Ha : answered_action (handle e menu pl rules q) = Some n) by (rewrite H; reflexivity).
  destruct (answered_not_disabled_nor_hidden _ _ _ _ _ _ Ha Hlen) as [Hd Hh].
  split; [|exact Hh]. intros e0 Hf. split; [apply Hd, Hf|].
  apply check_password_false in Hc. rewrite Hn, (passwd_get_first _ _ _ Hf) in Hc.
  destruct Hc as [_ [Hnone|(Hpw & Heq)]]; [left; exact Hnone|right].
  destruct (supplied_password_spec _ _ eq_refl Hpw) as (f & user & Hq & Hb).
  exists f, user, (supplied_password (q_auth q)). repeat split; assumption.
Qed.

(* ------------------------------------------------------------------ *)
(* http_access: first matching line decides, otherwise the reverse of the last line            *)

Definition rule_matches (mgr local : bool) (r : rule) : bool := forallb (atom_holds mgr local) (r_atoms r).

Lemma eval_rules_first mgr local pre r post last :
  forallb (fun x => negb (rule_matches mgr local x)) pre = true -> rule_matches mgr local r = true ->
  eval_rules mgr local (pre ++ r :: post) last = r_allow r.
Proof.
  revert last. induction pre as [|x pre IH]; intros last Hpre Hr; cbn [app eval_rules].
  - unfold rule_matches in Hr. now rewrite Hr.
  - cbn [forallb] in Hpre. apply andb_true_iff in Hpre. destruct Hpre as [Hx Hpre].
    unfold rule_matches in Hx. apply negb_true_iff in Hx. rewrite Hx. apply IH; assumption.
Qed.

Lemma eval_rules_none mgr local rules last :
  forallb (fun x => negb (rule_matches mgr local x)) rules = true ->
  eval_rules mgr local rules last =
  match rev rules with r :: _ => negb (r_allow r) | [] => match last with Some a => negb a | None => false end end.
Proof.
  revert last. induction rules as [|x rules IH]; intros last H; cbn [eval_rules]; [reflexivity|].
  cbn [forallb] in H. apply andb_true_iff in H. destruct H as [Hx H].
  unfold rule_matches in Hx. apply negb_true_iff in Hx. rewrite Hx, (IH _ H). cbn [rev].
  destruct (rev rules) as [|y l]; reflexivity.
Qed.

(* ------------------------------------------------------------------ *)
(* witnesses                                                            *)

Definition w_host : bytes := [118;101;114;105;102;46;116;101;115;116].            (* verif.test *)
Definition w_env : env := mkEnv w_host 3128 true.
Definition s_menu : bytes := [109;101;110;117].
Definition s_info : bytes := [105;110;102;111].
Definition s_shutdown : bytes := [115;104;117;116;100;111;119;110].
Definition s_secret : bytes := [115;101;99;114;101;116].
Definition w_menu : list action := [mkAct kw_index false; mkAct s_menu false; mkAct s_info false; mkAct s_shutdown true].
Definition deny_manager_allow_all : list rule := [mkRule false [AMgr]; mkRule true [AAll]].

(* GET ftp://a%2Fb@verif.test:3128/squid-internal-mgr/menu *)
Definition w_bypass : request :=
  mkReq MGet SFtp [97;37;50;70;98] w_host 3128
        [47;115;113;117;105;100;45;105;110;116;101;114;110;97;108;45;109;103;114;47;109;101;110;117] None.
(* the same request without user-info *)
Definition w_plain : request :=
  mkReq MGet SFtp [] w_host 3128
        [47;115;113;117;105;100;45;105;110;116;101;114;110;97;108;45;109;103;114;47;109;101;110;117] None.

Lemma w_host_ok : host_ok (e_myhost w_env).
Proof. split; [discriminate|reflexivity]. Qed.

(* the former bypass (finding C61-manager-acl-ftp-userinfo, repaired by 6b03ef7): the ACL still does not match this URL,
   but the request is no longer internal -- it goes to the ftp gateway like any ftp:// URL *)
Lemma bypass_witness :
  host_ok (e_myhost w_env)
  /\ is_internal w_env w_bypass = false
  /\ acl_manager w_bypass = false
  /\ handle w_env w_menu [] deny_manager_allow_all w_bypass = RForwarded
  /\ handle w_env w_menu [] deny_manager_allow_all w_plain = RDenied.
Proof. split; [exact w_host_ok|]. repeat split; vm_compute; reflexivity. Qed.

(* cachemgr_passwd secret info ; Authorization: Basic base64("u:secret" NUL "x") *)
Definition w_pl : list pwent := [mkPw s_secret [s_info]].
Definition w_nul : request :=
  mkReq MGet SHttp [] w_host 3128
        [47;115;113;117;105;100;45;105;110;116;101;114;110;97;108;45;109;103;114;47;105;110;102;111]
        (Some [66;97;115;105;99;32;100;84;112;122;90;87;78;121;90;88;81;65;101;65;61;61]).
Definition w_good : request :=
  mkReq MGet SHttp [] w_host 3128
        [47;115;113;117;105;100;45;105;110;116;101;114;110;97;108;45;109;103;114;47;105;110;102;111]
        (Some [66;97;115;105;99;32;100;84;112;122;90;87;78;121;90;88;81;61]).
Definition w_noauth : request :=
  mkReq MGet SHttp [] w_host 3128
        [47;115;113;117;105;100;45;105;110;116;101;114;110;97;108;45;109;103;114;47;105;110;102;111] None.

(* the former finding C61-password-nul-suffix (repaired by 5479385): "secret" NUL "x" is challenged again *)
Lemma nul_witness :
  first_covering w_pl s_info (mkPw s_secret [s_info])
  /\ handle w_env w_menu w_pl [mkRule true [AAll]] w_nul = RAuthReq s_info
  /\ supplied_password (q_auth w_nul) = s_secret ++ [0; 120]
  /\ handle w_env w_menu w_pl [mkRule true [AAll]] w_good = RReport s_info
  /\ handle w_env w_menu w_pl [mkRule true [AAll]] w_noauth = RAuthReq s_info.
Proof.
  split.
  - exists [], []. repeat split; [constructor|left; left; reflexivity].
  - repeat split; vm_compute; reflexivity.
Qed.

(* hypotheses of the main theorems are satisfiable, and the theorems are not vacuous *)
Lemma examples :
  path_ok w_good
  /\ uncovered w_pl s_menu
  /\ handle w_env w_menu w_pl [mkRule true [AAll]] (mkReq MGet SHttp [] w_host 3128 (q_path w_bypass) None) = RReport s_menu
  /\ handle w_env w_menu [mkPw kw_disable [s_menu]] [mkRule true [AAll]] (mkReq MGet SHttp [] w_host 3128 (q_path w_bypass) None) = RNotFound
  /\ handle w_env w_menu [] [mkRule true [AAll]]
       (mkReq MGet SHttp [] w_host 3128 (mgr_prefix ++ s_shutdown) (q_auth w_good)) = RNotFound.
Proof.
  repeat split; try (vm_compute; reflexivity).
  - constructor; [|constructor]. intros [H|H]; cbn in H; destruct H as [H|[]]; discriminate H.
Qed.

(* ------------------------------------------------------------------ *)
(* the fuel of the two QueryParams loops is always sufficient            *)

Lemma length_dropN_le {A} n (l : list A) : (length (dropN n l) <= length l)%nat.
Proof.
  revert n; induction l as [|x l IH]; intros n; cbn [dropN length]; [lia|].
  destruct (n =? 0); cbn [length]; [lia|]. specialize (IH (N.pred n)). lia.
Qed.

Lemma length_dropN_lt {A} n (l : list A) : 1 <= n -> l <> [] -> (length (dropN n l) < length l)%nat.
Proof.
  intros Hn Hl. destruct l as [|x l]; [congruence|]. cbn [dropN length].
  destruct (n =? 0) eqn:E; [apply N.eqb_eq in E; lia|]. pose proof (length_dropN_le (N.pred n) l). lia.
Qed.

Lemma int64_progress limit buf v n : tok_int64 10 false limit buf = Some (v, n) -> 1 <= n /\ buf <> [].
Proof.
  rewrite Int64Proofs.tok_int64_dec_unsigned. intros H. split.
  - destruct (digit_run 10 (takeN limit buf)) as [|d ds]; [discriminate|].
    cbv zeta in H. destruct (_ >? _)%Z; [discriminate|]. injection H as _ Hn. subst n. cbn [lenN]. lia.
  - intros E. subst buf. cbn in H. discriminate.
Qed.

Lemma param_value_fuel f : forall buf, (length buf < f)%nat -> param_value f buf <> TFuel.
Proof.
  induction f as [|f IH]; intros buf Hf; [lia|]. cbn [param_value].
  destruct (tok_int64 10 false npos buf) as [[v n]|] eqn:E; [|discriminate].
  destruct ((v <? -2147483648) || (v >? 2147483647))%Z; [discriminate|].
  destruct (int64_progress _ _ _ _ E) as [Hn Hb].
  pose proof (length_dropN_lt n buf Hn Hb) as Hlt.
  apply IH.
  destruct (1 <? lenN (dropN n buf)); [|lia].
  unfold tok_skipOne. destruct (dropN n buf) as [|c r]; cbn [snd length] in *; [lia|].
  destruct (is_comma c); cbn [snd length]; lia.
Qed.

Lemma span_lengths {A} (p : A -> bool) l : (length (fst (span p l)) + length (snd (span p l)) = length l)%nat.
Proof. rewrite <- app_length, span_app. reflexivity. Qed.

Lemma query_parse_fuel f : forall buf, (length buf < f)%nat -> query_parse f buf <> QFuel.
Proof.
  induction f as [|f IH]; intros buf Hf; [lia|]. cbn [query_parse].
  destruct buf as [|c buf']; [discriminate|].
  destruct (c =? 35); [discriminate|].
  remember (c :: buf') as buf eqn:Hbuf. clear Hbuf c buf'.
  destruct (tok_skipAll is_amp buf) as [k b1] eqn:Es.
  rewrite tok_skipAll_spec in Es. injection Es as Hk Hb1.
  destruct (negb (k =? 0)) eqn:Ek.
  - apply IH. pose proof (span_lengths is_amp buf) as Hl. rewrite Hb1 in Hl.
    destruct (fst (span is_amp buf)) as [|y ys]; [cbn [lenN] in Hk; subst k; discriminate Ek|].
    cbn [length] in Hl. lia.
  - destruct (tok_prefix name_chars npos buf) as [[nm b2]|] eqn:E1; [|discriminate].
    apply tok_prefix_sound in E1. destruct E1 as (Happ1 & Hne1 & _).
    unfold tok_skipChar. destruct b2 as [|d b3]; [discriminate|].
    destruct (d =? 61); [|discriminate].
    destruct (tok_prefix value_chars npos b3) as [[v b4]|] eqn:E2; [|discriminate].
    apply tok_prefix_sound in E2. destruct E2 as (Happ2 & Hne2 & _).
    pose proof (param_value_fuel (S (length v)) v ltac:(lia)) as Hpv.
    destruct (param_value (S (length v)) v); [|discriminate|congruence].
    apply IH. rewrite <- Happ1, <- Happ2 in Hf. rewrite !app_length in Hf. cbn [length] in Hf.
    rewrite app_length in Hf. destruct nm; [congruence|]. cbn [length] in Hf. lia.
Qed.

Lemma parse_url_fuel menu pl path : parse_url menu pl path <> UFuel.
Proof.
  unfold parse_url. destruct (tok_skip mgr_prefix path) as [[|] b0]; [|discriminate].
  destruct (match tok_prefix _ npos b0 with Some (a, b) => (a, b) | None => (kw_index, b0) end) as [name b1].
  destruct (find_action menu name) as [a|]; [|discriminate].
  destruct (action_protection pl a); try discriminate;
    (destruct (tok_skipChar 63 b1) as [[|] b2];
     [pose proof (query_parse_fuel (S (length b2)) b2 ltac:(lia)) as Hq;
      destruct (query_parse (S (length b2)) b2) as [b3| |]; [|discriminate|congruence]
     |set (b3 := b1)];
     (destruct b3 as [|c b3']; [discriminate|destruct (c =? 35); discriminate])).
Qed.

Lemma handle_fuel e menu pl rules q : handle e menu pl rules q <> RFuel.
Proof.
  unfold handle.
  destruct (negb (url_check_request _ _)); [discriminate|].
  destruct (negb (access_allowed _ _ _)); [discriminate|].
  destruct (negb (is_internal e q)); [discriminate|].
  destruct (negb (for_cache_manager q)); [discriminate|].
  pose proof (parse_url_fuel menu pl (q_path q)) as Hp.
  destruct (parse_url menu pl (q_path q)) as [a| |]; [|discriminate|congruence].
  destruct (check_password pl a _); [discriminate|]. destruct (list_eqb _ _); discriminate.
Qed.

(* ------------------------------------------------------------------ *)
(* statements in the form Properties_C61.v quotes                        *)

Lemma acl_shape : mgr_acl_shape_ok = true /\ mgr_regex_lit = mgr_prefix.
Proof. exact (conj shape_ok lit_is_prefix). Qed.

Lemma access_first_match mgr local pre r post :
  forallb (fun x => negb (rule_matches mgr local x)) pre = true -> rule_matches mgr local r = true ->
  access_allowed mgr local (pre ++ r :: post) = r_allow r.
Proof. intros; apply eval_rules_first; assumption. Qed.

Lemma access_implicit_default mgr local rules :
  forallb (fun x => negb (rule_matches mgr local x)) rules = true ->
  access_allowed mgr local rules = match rev rules with r :: _ => negb (r_allow r) | [] => false end.
Proof. intros; unfold access_allowed; rewrite eval_rules_none by assumption; reflexivity. Qed.

Lemma acl_covers_all e q :
  host_ok (e_myhost e) -> is_internal e q = true -> for_cache_manager q = true ->
  acl_manager q = true.
Proof. intros Hh Hi Hf. exact (acl_covers e q Hi Hf Hh). Qed.

Lemma report_password_exact e menu pl rules q n e0 :
  handle e menu pl rules q = RReport n -> path_ok q ->
  first_covering pl n e0 -> pe_passwd e0 <> kw_none -> forallb nonul (pe_passwd e0) = true ->
  supplied_password (q_auth q) = pe_passwd e0.
Proof.
  intros H Hlen Hf Hnn Hnul. destruct (report_inv _ _ _ _ _ _ H) as (a & Hp & Hn & Hc & _).
  apply check_password_false in Hc. rewrite Hn, (passwd_get_first _ _ _ Hf) in Hc.
  destruct Hc as [_ [Hnone|(_ & Heq)]]; [contradiction|]. rewrite Heq. apply cstr_nonul, Hnul.
Qed.

Lemma ex_hypotheses :
  host_ok (e_myhost w_env) /\ path_ok w_good /\ uncovered w_pl s_menu
  /\ first_covering w_pl s_info (mkPw s_secret [s_info]) /\ forallb nonul s_secret = true.
Proof.
  destruct examples as (H1 & H2 & _). destruct nul_witness as (H3 & _).
  exact (conj w_host_ok (conj H1 (conj H2 (conj H3 eq_refl)))).
Qed.

Lemma ex_outcomes :
  handle w_env w_menu w_pl [mkRule true [AAll]] w_good = RReport s_info
  /\ handle w_env w_menu w_pl [mkRule true [AAll]] w_noauth = RAuthReq s_info
  /\ handle w_env w_menu w_pl [mkRule true [AAll]] w_nul = RAuthReq s_info
  /\ handle w_env w_menu [] deny_manager_allow_all w_plain = RDenied
  /\ handle w_env w_menu [] deny_manager_allow_all w_bypass = RForwarded
  /\ handle w_env w_menu [mkPw kw_disable [s_menu]] [mkRule true [AAll]]
       (mkReq MGet SHttp [] w_host 3128 (q_path w_bypass) None) = RNotFound
  /\ handle w_env w_menu [] [mkRule true [AAll]]
       (mkReq MGet SHttp [] w_host 3128 (mgr_prefix ++ s_shutdown) (q_auth w_good)) = RNotFound.
Proof.
  destruct nul_witness as (_ & H0 & _ & H1 & H2). destruct bypass_witness as (_ & _ & _ & H3b & H3).
  destruct examples as (_ & _ & _ & H4 & H5). repeat split; assumption.
Qed.
