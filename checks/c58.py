"""C58: IPC messages round-trip and malformed messages are rejected safely (src/ipc/TypedMsgHdr.cc/.h)."""
from vlib import std, hbuild

PID = "C58"
META = {
    "text": "Theorems (Properties_C58.v, closed under the global context) over a line-by-line model of "
            "Ipc::TypedMsgHdr (data buffer {type_, size, raw[4096]}, read cursor, setType/checkType, "
            "putRaw/getRaw with their Must() checks, putInt/getInt, putPod/getPod, putFixed/getFixed, "
            "putString/getString, receive and copy; every access to data.raw goes through a bounds-reporting "
            "memory primitive): (round trip) for EVERY message type and EVERY sequence of int / POD / fixed / string "
            "fields whose encoding fits the buffer, storing the fields, transferring the buffer (receive or copy) and "
            "loading them with the matching getters returns exactly the stored values, checkType accepts the type and "
            "no data is left over; (rejection, safety) for EVERY received buffer - any type_, any 64-bit size, any raw "
            "content, any cursor - and EVERY history of getters and putters, no operation ever touches a byte outside "
            "raw[0,4096) (the model's out-of-bounds outcome is unreachable), a getter succeeds exactly when the bytes "
            "it needs lie inside [offset, size) with size <= 4096 and then returns exactly those bytes, checkType throws "
            "for every other type, getString throws for negative, too large or truncated lengths, putters throw instead "
            "of writing past the buffer, and a throwing getRaw/putRaw changes nothing. The model is tied to the code by "
            "differential runs of the extracted model against src/ipc/TypedMsgHdr.cc compiled from the working tree with "
            "ASan+UBSan (every message object in its own heap block), comparing every result, data.size and offset.",
    "note": "Trusted: Coq kernel, extraction, gen/gen_typedmsg.cc (maxSize, sizeof(raw), sizeof(int), endianness, "
            "size_t/unsigned limits), harness/h_typedmsg.cc (reaches the private data buffer with '#define private "
            "public' in its own unit). The model is of the repaired code ('fix: validate the received IPC payload size "
            "before reading or appending'); without that fix getRaw trusts a received data.size > 4096 and the model "
            "reaches its out-of-bounds outcome. putFd/getFd/address (control message and socket name) are not "
            "modelled. The hand-written TypedmsgModel.v is validated against the code only on the generated histories. "
            "Observations (not violations): a failing getString() has already consumed its 4-byte length; a failing "
            "putString() may already have appended the length; setType(0) allocates the data part so that any later "
            "setType() throws.",
    "technique": "Coq proof (induction over field lists with a buffer-layout invariant; case analysis of the "
                 "guards; induction over operation histories) + extracted-model differential correspondence under ASan",
}
FRESH = ["src/ipc/TypedMsgHdr.cc"]
LINK = "String.o tests/stub_debug.o tests/stub_libmem.o sbuf/libsbuf.la base/libbase.la ../compat/libcompatsquid.la".split()
RAW = 4096
INT_MAX = 2 ** 31 - 1
INT_MIN = -2 ** 31
U64 = 2 ** 64 - 1
PODS = [1, 2, 4, 8, 16, 32]


def impl(sanitize="asan"):
    return hbuild.build("h_typedmsg", "h_typedmsg.cc", fresh=FRESH, link=LINK, sanitize=sanitize)


def prebuild():
    impl()


def hx(b):
    return bytes(b).hex() if len(b) else "-"


def unhx(h):
    return b"" if h == "-" else bytes.fromhex(h)


def le32(z):
    return (z & 0xFFFFFFFF).to_bytes(4, "little")


def int_of(b):
    return int.from_bytes(b, "little", signed=True)


# ---------------------------------------------------------------- generator
def rand_bytes(rng, n):
    k = rng.random()
    if k < 0.3:
        return bytes(rng.choice([0, 0x41, 0xff]) for _ in range(n))
    return bytes(rng.randrange(256) for _ in range(n))


def rand_field(rng, room):
    """-> (put op, get op, size)"""
    k = rng.random()
    if k < 0.3:
        z = rng.choice([0, 1, -1, 2, 255, 256, 65536, INT_MAX, INT_MIN, INT_MAX - 1, rng.randrange(INT_MIN, INT_MAX + 1)])
        return "I:%d" % z, "i", 4
    if k < 0.45:
        n = rng.choice(PODS)
        return "P:" + hx(rand_bytes(rng, n)), "p:%d" % n, n
    if k < 0.65:
        n = rng.choice([0, 1, 3, 5, 7, 24, 100, rng.randrange(0, 300), max(room, 0), max(room - 1, 0), room + 1] + ([4096, 4097] if room > 40 else []))
        return "F:" + hx(rand_bytes(rng, n)), "f:%d" % n, n
    n = rng.choice([0, 0, 1, 2, 5, 17, 64, rng.randrange(0, 400), max(room - 4, 0), max(room - 5, 0), max(room - 3, 0)] + ([4096, 4097, 4092] if room > 40 else []))
    return "S:" + hx(rand_bytes(rng, n)), "s", 4 + n


def gen_roundtrip(rng):
    t = rng.choice([1, 2, 3, 7, 19, 255, INT_MAX, -1, INT_MIN, 0])
    puts, gets = [], []
    used = 0
    big = rng.random() < 0.12
    for _ in range(rng.choice([0, 1, 2, 3, 4, 6, 9, 14])):
        room = RAW - used
        p, g, n = rand_field(rng, room if big else min(room, 40))
        puts.append(p); gets.append(g)
        if n <= room and not (p.startswith("S:") and n - 4 > RAW):
            used += n
    ops = ["T:%d" % t] + puts
    if rng.random() < 0.15:
        ops.append("D")
    ops.append(rng.choice(["X", "X", "X", "Y"]))
    q = rng.random()
    ops.append("t:%d" % (t if q < 0.85 else rng.choice([t + 1, 0, -t, 5])))
    if rng.random() < 0.15:
        ops.append("y")
    ops += gets
    ops.append("h")
    if rng.random() < 0.5:
        ops.append(rng.choice(["i", "s", "f:1", "p:8", "f:0"]))
    return "tm.run " + " ".join(ops)


SIZES = [0, 1, 3, 4, 5, 7, 8, 12, 100, 4092, 4095, 4096, 4097, 4100, 5000, 8192, 2 ** 32, 2 ** 32 + 4, 2 ** 32 + 4096,
         2 ** 63, U64, U64 - 3, U64 - 4095]


def gen_malformed(rng):
    size = rng.choice(SIZES + [rng.randrange(0, 4200)] * 6)
    ty = rng.choice([0, 1, 3, 7, -1, INT_MAX, INT_MIN])
    fill = rng.choice([0, 0, 0x41, 0xff, 0x7f, 1])
    eff = min(size, RAW)
    # content: a few fields, the last of them placed against the end of the announced size / of the array
    body = b""
    for _ in range(rng.choice([0, 1, 1, 2, 3])):
        k = rng.random()
        if k < 0.55:
            ln = rng.choice([0, 1, 2, 5, -1, -5, INT_MIN, INT_MAX, 4096, 4097, 4095, 65536, max(eff - 4, 0), max(eff - 3, 0),
                             rng.randrange(0, 50)])
            body += le32(ln) + rand_bytes(rng, min(max(ln, 0), rng.choice([0, 3, 50])))
        else:
            body += rand_bytes(rng, rng.choice([1, 4, 8, 13]))
    pos = rng.choice([0, 0, 0, max(eff - len(body), 0), max(RAW - len(body), 0), max(eff - 4, 0), max(RAW - 4, 0),
                      max(RAW - 2, 0), rng.randrange(0, RAW)])
    ops = ["R:%d:%d:%d:%d:%s" % (ty, size, fill, pos, hx(body))]
    off = 0
    for _ in range(rng.choice([1, 2, 3, 4, 6, 10])):
        rem = max(eff - off, 0)
        k = rng.random()
        if k < 0.22:
            ops.append("i"); off += 4
        elif k < 0.47:
            ops.append("s"); off += 4
        elif k < 0.72:
            n = rng.choice([0, 1, 4, rem, rem + 1, max(rem - 1, 0), pos - off if pos > off else 2, 4096, 4097, 8192,
                            rng.randrange(0, 64)])
            ops.append("f:%d" % n); off += n if n <= rem else 0
        elif k < 0.80:
            n = rng.choice(PODS); ops.append("p:%d" % n); off += n if n <= rem else 0
        elif k < 0.85:
            ops.append("h")
        elif k < 0.90:
            ops.append("t:%d" % rng.choice([ty, ty, ty + 1, 0]))
        elif k < 0.93:
            ops.append("y")
        elif k < 0.96:
            ops.append(rng.choice(["I:7", "F:" + hx(rand_bytes(rng, rng.choice([1, 4, max(RAW - eff, 0), max(RAW - eff, 0) + 1]))),
                                   "S:" + hx(rand_bytes(rng, rng.choice([0, 3, max(RAW - eff - 4, 0), max(RAW - eff - 3, 0)])))]))
        elif k < 0.98:
            ops.append("D")
        else:
            ops.append(rng.choice(["X", "Y"])); off = 0
    return "tm.run " + " ".join(ops)


def gen_confused(rng):
    """a valid message read back with the wrong getters"""
    c = gen_roundtrip(rng).split()
    k = next((i for i, o in enumerate(c) if o.startswith("t:")), None)
    if k is None:
        return " ".join(c)
    gets = c[k + 1:]
    for _ in range(rng.choice([1, 1, 2, 3])):
        if gets:
            gets[rng.randrange(len(gets))] = rng.choice(["i", "s", "s", "f:3", "f:9", "p:2", "p:16", "f:4096", "h"])
    return " ".join(c[:k + 1] + gets)


def gen_cases(rng, n):
    out = []
    for _ in range(n):
        r = rng.random()
        out.append(gen_roundtrip(rng) if r < 0.42 else gen_malformed(rng) if r < 0.88 else gen_confused(rng))
    return out


# ---------------------------------------------------------------- oracle
def overlay(fill, pos, body):
    raw = bytearray([fill]) * RAW
    for j, b in enumerate(body):
        if pos + j < RAW:
            raw[pos + j] = b
    return raw


def oracle(case, out):
    """C58 on the implementation's answers: every getter either throws or returns exactly the bytes of
    raw[offset, offset+n) with offset+n <= size <= 4096; it throws only when those bytes are not all there;
    putters either throw or append inside raw; checkType accepts exactly the stored type; a well-formed
    store / transfer / load sequence returns the stored values."""
    if out.startswith("CRASH") or "ERR" in out or "UNDEF" in out:
        return ("oracle:crash", "implementation crashed (sanitizer report / abort): " + out[-300:])
    ops = case.split()[1:]
    toks = out.split()
    if len(toks) != len(ops):
        return ("oracle:unparsable", "%d operations but %d answers" % (len(ops), len(toks)))
    raw = bytearray(RAW)      # what data.raw must contain, from the puts / the received image
    size, off, ty, iov = 0, 0, 0, False
    stored, loaded = [], []   # for the direct round-trip comparison
    shape_ok = True           # store* transfer checkType load* so far, everything succeeded
    transferred = False
    for n, (o, t) in enumerate(zip(ops, toks)):
        where = "op #%d `%s`" % (n + 1, o[:60])
        try:
            res, _, so = t.rpartition("@")
            nsize, noff = (int(x) for x in so.split(","))
        except ValueError:
            return ("oracle:unparsable", where + ": unparsable answer " + t[:80])
        f = o.split(":")
        k = f[0]
        exc = res == "EXC"
        if k in ("i", "p", "f", "s"):
            if nsize != size:
                return ("oracle:get-changed-size", "%s: a getter changed data.size from %d to %d" % (where, size, nsize))
            need = 4 if k in ("i", "s") else int(f[1])
            avail = size <= RAW and off <= size and need <= size - off
            if k != "s" or not avail:
                payload_ok = avail or need == 0
                val = bytes(raw[off:off + need]) if payload_ok else None
                end = off + need if payload_ok else off
            else:
                ln = int_of(raw[off:off + 4])
                if ln == 0:
                    payload_ok, val, end = True, b"", off + 4
                elif 0 < ln <= RAW and ln <= size - (off + 4):
                    payload_ok, val, end = True, bytes(raw[off + 4:off + 4 + ln]), off + 4 + ln
                else:
                    payload_ok, val, end = False, None, off + 4      # length consumed, then rejected
            if exc:
                if payload_ok:
                    return ("oracle:valid-rejected", "%s: threw although the %d bytes it needs are inside [offset=%d, size=%d)" % (where, need, off, size))
                if noff not in (off, end if k == "s" else off):
                    return ("oracle:offset", "%s: threw and moved the cursor from %d to %d" % (where, off, noff))
                off = noff
                shape_ok = False
            else:
                if not payload_ok:
                    return ("oracle:read-beyond-buffer", "%s: answered `%s` although the bytes it needs are not inside [offset=%d, size=%d) of the %d-byte buffer"
                            % (where, res[:80], off, size, RAW))
                got = res[1:]
                exp = str(int_of(val)) if k == "i" else hx(val)
                if got != exp:
                    return ("oracle:wrong-value", "%s: returned %s, the buffer holds %s at offset %d" % (where, got[:80], exp[:80], off))
                if noff != end:
                    return ("oracle:offset", "%s: cursor is %d, must be %d" % (where, noff, end))
                off = noff
                loaded.append(("i" if k == "i" else "s" if k == "s" else "b%d" % need, exp))
        elif k in ("I", "P", "F", "S"):
            if noff != off:
                return ("oracle:offset", "%s: a putter moved the read cursor" % where)
            if k == "I":
                data = le32(int(f[1]))
            elif k == "S":
                data = le32(len(unhx(f[1]))) + unhx(f[1])
            else:
                data = unhx(f[1])
            fits = len(data) == 0 or (size <= RAW and len(data) <= RAW - size)
            if exc:
                ok_partial = k == "S" and len(unhx(f[1])) <= RAW and size <= RAW and 4 <= RAW - size and nsize == size + 4
                if fits and not (k == "S" and len(unhx(f[1])) > RAW):
                    return ("oracle:valid-rejected", "%s: threw although %d bytes fit behind size=%d" % (where, len(data), size))
                if nsize != size and not ok_partial:
                    return ("oracle:put-size", "%s: threw and changed data.size from %d to %d" % (where, size, nsize))
                if ok_partial:
                    raw[size:size + 4] = data[:4]
                size = nsize
                shape_ok = False
            else:
                if not fits or (k == "S" and len(unhx(f[1])) > RAW):
                    return ("oracle:write-beyond-buffer", "%s: accepted %d bytes behind size=%d of the %d-byte buffer" % (where, len(data), size, RAW))
                if nsize != size + len(data):
                    return ("oracle:put-size", "%s: data.size is %d, must be %d" % (where, nsize, size + len(data)))
                raw[size:size + len(data)] = data
                size = nsize
                stored.append(("i" if k == "I" else "s" if k == "S" else "b%d" % len(data), str(int(f[1])) if k == "I" else hx(unhx(f[1]))))
        elif k == "T":
            if not exc:
                if nsize != 0 and ty == 0:
                    return ("oracle:settype", "%s: setType left size %d" % (where, nsize))
                if ty == 0:
                    size = 0
                ty, iov = int(f[1]), True
            else:
                shape_ok = False
        elif k == "t":
            cur = ty if iov else 0
            if exc == (cur == int(f[1])):
                return ("oracle:checktype", "%s: stored type is %d, checkType(%s) %s" % (where, cur, f[1], "threw" if exc else "accepted"))
            if exc:
                shape_ok = False
        elif k == "y":
            if res != "=%d" % (ty if iov else 0):
                return ("oracle:rawtype", "%s: rawType() %s, stored type is %d" % (where, res, ty if iov else 0))
        elif k == "h":
            if res != "=%d" % (1 if off < size else 0):
                return ("oracle:hasmore", "%s: hasMoreData() %s with offset %d, size %d" % (where, res, off, size))
        elif k in ("X", "Y"):
            if nsize != size or noff != 0:
                return ("oracle:transfer", "%s: transfer changed size/offset to %d/%d" % (where, nsize, noff))
            off = 0
            if k == "X":
                iov = True
            transferred = True
        elif k == "R":
            ty, size, iov, off = int(f[1]), int(f[2]), True, 0
            raw = overlay(int(f[3]), int(f[4]), unhx(f[5]))
            shape_ok = False
            if nsize != size or noff != 0:
                return ("oracle:transfer", "%s: harness did not install the buffer" % where)
        elif k == "D":
            exp = "=%d/%s" % (ty, hx(raw[:min(size, RAW)]))
            if res != exp:
                return ("oracle:content", "%s: buffer content differs from what was stored: %s vs %s" % (where, res[:120], exp[:120]))
        else:
            return ("oracle:unparsable", "unknown op " + o[:40])
        if (nsize, noff) != (size, off):
            return ("oracle:state", "%s: size/offset %d/%d, expected %d/%d" % (where, nsize, noff, size, off))
    # direct statement of the round trip: everything stored came back, in order, when the loads match the stores
    if shape_ok and transferred and len(loaded) >= len(stored) > 0:
        if [a for a, _ in loaded[:len(stored)]] == [a for a, _ in stored]:
            for (ks, vs), (kl, vl) in zip(stored, loaded):
                if vs != vl:
                    return ("oracle:roundtrip", "stored %s, loaded %s" % (vs[:80], vl[:80]))
    return None


def mutate(rng, case):
    a = case.split()
    ops = a[1:]
    if not ops:
        return case
    k = rng.randrange(len(ops))
    f = ops[k].split(":")
    if f[0] == "R":
        q = rng.random()
        if q < 0.5:
            f[2] = str(rng.choice(SIZES))
        elif q < 0.8:
            f[4] = str(rng.randrange(0, RAW))
        else:
            b = bytearray(unhx(f[5]) or b"\0")
            b[rng.randrange(len(b))] = rng.randrange(256)
            f[5] = hx(b)
        ops[k] = ":".join(f)
    elif f[0] == "f":
        ops[k] = "f:%d" % rng.choice([0, 1, 4, 4095, 4096, 4097, int(f[1]) + 1])
    else:
        ops.insert(k, rng.choice(["i", "s", "f:4", "f:4096", "h", "I:1"]))
    return " ".join(a[:1] + ops)


def kind(case, out):
    ops = case.split()[1:]
    shape = "malformed" if any(o.startswith("R:") for o in ops) else "typed"
    gets = [t for o, t in zip(ops, out.split()) if o[0] in "ipfs"]
    nexc = sum(1 for t in gets if t.startswith("EXC"))
    return "%s/%s" % (shape, "no-get" if not gets else "all-ok" if nexc == 0 else "all-rejected" if nexc == len(gets) else "mixed")


def nontrivial(case, out):
    return any(t.startswith("=") and not t.startswith("=-@") for o, t in zip(case.split()[1:], out.split()) if o[0] in "ipfs") \
        or "EXC" in out


def run(res, tier):
    res.rule = ("typed stream: setType + 0..14 fields (ints incl. INT_MIN/INT_MAX, PODs of 1..32 bytes, fixed blobs of 0..4097 "
                "bytes, strings of 0..4097 bytes incl. NUL bytes) sized around the remaining room of the 4096-byte buffer, "
                "transfer by receive or copy, checkType (15% wrong), the matching getters, hasMoreData, one getter too many; "
                "malformed stream: a received buffer with any type, size in {0..8192, 2^32.., 2^63, 2^64-1..}, content with "
                "length prefixes {0, +-1, INT_MIN, INT_MAX, 4095..4097, remaining-3..remaining} placed against the announced "
                "size and against the end of the array, then 1..10 getters/putters with lengths {0,1,4,remaining+-1,4096,4097,"
                "8192}; confusion stream: a valid message read with the wrong getters; a case is non-trivial when a getter "
                "returned data or something was rejected")
    std.run_standard(res, PID, tier, area="typedmsg", build_impl=impl, gen_cases=gen_cases, oracle=oracle,
                     corr_name="TypedmsgModel vs src/ipc/TypedMsgHdr.cc",
                     gens=["typedmsg"], n_quick=10000, n_thorough=400000, seed_salt=58, mutate=mutate,
                     kind_fn=kind, nontrivial_fn=nontrivial,
                     # a small quarantine keeps ASan from mapping fresh memory for every 4 KB message / 64 KB stub pool object
                     impl_env={"ASAN_OPTIONS": "detect_leaks=0:abort_on_error=0:quarantine_size_mb=4"})
