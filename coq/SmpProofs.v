(* SmpProofs.v — proofs for SmpModel.v (C18, C19). *)
Require Import SquidV.Bytes SquidV.RwlockModel SquidV.SmpModel.
Require Import ZifyBool ZifyN ZifyNat Lia.
Local Open Scope N_scope.

Lemma lock_unlock_shared : forall l l', lockShared l = (l', true) -> unlockShared l' = l.
Proof.
  intros [r w a] l' H. unfold lockShared in H. cbn [wr ap rd] in H.
  destruct (negb w || a); inversion H; subst. unfold unlockShared; cbn [rd wr ap].
  f_equal. lia.
Qed.
