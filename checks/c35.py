"""C35: HTTP date formatting and parsing round-trip (src/time/rfc1123.cc)."""
import random, re
from vlib import std, hbuild, coq, common

PID = "C35"
META = {
    "text": "Theorems (Properties_C35.v, closed under the global context) about an executable model of Time::ParseRfc1123 / "
            "Time::FormatRfc1123 (strtok/atoi/strchr/strncmp/make_month/make_num/year rules/tmSaneValues, strftime for the "
            "regenerated RFC1123_STRFTIME, gmtime/timegm as civil-from-days / days-from-civil): for EVERY t in "
            "[0, 253402300800) (1970..9999) parsing the formatted date returns t; for EVERY string of the IMF-fixdate, RFC 850 "
            "and asctime forms (all day-name, 2DIGIT/4DIGIT field values) the parser's answer is computed in closed form, and "
            "whenever a string of one of the forms is accepted its fields are a real calendar date and the result is the "
            "denoted time (days that do not exist in the month, e.g. 30 Feb, are rejected); conversely every denoting string "
            "is accepted; the day count is tied to the Gregorian calendar (0 on 1 Jan 1970, +1 per calendar day, inverse of "
            "civil-from-days for all integers).",
    "note": "Trusted: Coq kernel, extraction, gen/gen_datetabs.cc, harness/h_date.cc. glibc gmtime/timegm/strftime/strtok/atoi "
            "are modelled, not verified from source: validated by differential runs only (raw date.timegm/date.gmtime entries "
            "included). Conventions fixed in the statements: the day-name is not checked against the date (the code ignores "
            "it); an RFC 850 two-digit year yy denotes 19yy for yy>=70 and 20yy otherwise (the code's fixed window, not RFC "
            "9110's sliding 50-year window); the value -1 is both the error value and 31 Dec 1969 23:59:59.",
    "technique": "Coq proof (vm_compute sweep over the 146097-day Gregorian cycle lifted by a periodicity lemma; structural "
                 "lemmas for the tokenizer/atoi; finite sweeps over 2DIGIT/4DIGIT fields) + regenerated tables "
                 "(month_names, strftime format, locale names) + extracted-model differential correspondence",
}
FRESH = ["src/time/rfc1123.cc"]
LINK = ["../compat/libcompatsquid.la"]
T_MAX = 253402300800  # 1 Jan 10000
N_DAYS = T_MAX // 86400

WD = ["Sun", "Mon", "Tue", "Wed", "Thu", "Fri", "Sat"]
WDL = ["Sunday", "Monday", "Tuesday", "Wednesday", "Thursday", "Friday", "Saturday"]
MON = ["Jan", "Feb", "Mar", "Apr", "May", "Jun", "Jul", "Aug", "Sep", "Oct", "Nov", "Dec"]
MLEN = [31, 28, 31, 30, 31, 30, 31, 31, 30, 31, 30, 31]


def impl(sanitize="ubsan"):
    return hbuild.build("h_date", "h_date.cc", fresh=FRESH, link=LINK, sanitize=sanitize)


def prebuild():
    impl()


def hx(b):
    return bytes(b).hex() if len(b) else "-"


def unhx(h):
    return b"" if h == "-" else bytes.fromhex(h)


# ---------------------------------------------------------------------------
# independent statement of the calendar (table of month lengths + leap rule; no
# relation to the era/day-of-era algorithm of the model)
def leap(y):
    return (y % 4 == 0 and y % 100 != 0) or y % 400 == 0


def leaps_before(y):
    """number of leap years in [0, y) for y >= 0"""
    if y <= 0:
        return 0
    n = y - 1
    return n // 4 - n // 100 + n // 400 + 1  # year 0 is leap


def days_to(y, m, d):
    """days from 1970-01-01 to y-m-d (m 1..12, d may exceed the month; it is added linearly)"""
    days = 365 * (y - 1970) + leaps_before(y) - leaps_before(1970)
    for k in range(m - 1):
        days += MLEN[k] + (1 if k == 1 and leap(y) else 0)
    return days + d - 1


def mlen(y, m):
    return MLEN[m - 1] + (1 if m == 2 and leap(y) else 0)


def civil(days):
    """inverse of days_to by plain year/month stepping (days >= 0 or small negative)"""
    y = 1970 + (days * 400) // 146097 - 1
    while days_to(y + 1, 1, 1) <= days:
        y += 1
    while days_to(y, 1, 1) > days:
        y -= 1
    rem = days - days_to(y, 1, 1)
    m = 1
    while rem >= mlen(y, m):
        rem -= mlen(y, m)
        m += 1
    return y, m, rem + 1


def py_format(t):
    days, rem = divmod(t, 86400)
    y, m, d = civil(days)
    return "%s, %02d %s %d %02d:%02d:%02d GMT" % (WD[(4 + days) % 7], d, MON[m - 1], y, rem // 3600, rem % 3600 // 60, rem % 60)


RE_IMF = re.compile(rb"^(Mon|Tue|Wed|Thu|Fri|Sat|Sun), (\d\d) (Jan|Feb|Mar|Apr|May|Jun|Jul|Aug|Sep|Oct|Nov|Dec) (\d{4}) (\d\d):(\d\d):(\d\d) GMT$")
RE_850 = re.compile(rb"^(Monday|Tuesday|Wednesday|Thursday|Friday|Saturday|Sunday), (\d\d)-(Jan|Feb|Mar|Apr|May|Jun|Jul|Aug|Sep|Oct|Nov|Dec)-(\d\d) (\d\d):(\d\d):(\d\d) GMT$")
RE_ASC = re.compile(rb"^(Mon|Tue|Wed|Thu|Fri|Sat|Sun) (Jan|Feb|Mar|Apr|May|Jun|Jul|Aug|Sep|Oct|Nov|Dec) (\d\d| \d) (\d\d):(\d\d):(\d\d) (\d{4})$")


def in_form(s):
    """None if s is in none of the three forms, else (form, y, m, d, hh, mm, ss)"""
    if b"\n" in s:  # `$` would accept a trailing newline
        return None
    g = RE_IMF.match(s)
    if g:
        return ("imf", int(g.group(4)), MON.index(g.group(3).decode()) + 1, int(g.group(2)), int(g.group(5)), int(g.group(6)), int(g.group(7)))
    g = RE_850.match(s)
    if g:
        yy = int(g.group(4))
        return ("rfc850", (2000 + yy) if yy < 70 else (1900 + yy), MON.index(g.group(3).decode()) + 1, int(g.group(2)),
                int(g.group(5)), int(g.group(6)), int(g.group(7)))
    g = RE_ASC.match(s)
    if g:
        return ("asctime", int(g.group(7)), MON.index(g.group(2).decode()) + 1, int(g.group(3)), int(g.group(4)), int(g.group(5)), int(g.group(6)))
    return None


def oracle(case, out):
    a = case.split()
    op = a[0]
    if out.startswith(("CRASH", "EXC", "ERR")):
        return ("oracle:crash", "implementation crashed / threw: " + out[:200])
    try:
        if op == "date.rt":
            t = int(a[1])
            w = out.split()
            back = int(w[0])
            if 0 <= t < T_MAX:
                s = unhx(w[1])
                if s != py_format(t).encode():
                    return ("oracle:format", "FormatRfc1123(%d) = %r, the RFC 1123 date of that time is %r" % (t, s, py_format(t)))
                if back != t:
                    return ("oracle:roundtrip", "ParseRfc1123(FormatRfc1123(%d)) = %d (string %r)" % (t, back, s))
            return None
        if op == "date.fmt":
            t = int(a[1])
            if 0 <= t < T_MAX and unhx(out) != py_format(t).encode():
                return ("oracle:format", "FormatRfc1123(%d) = %r, the RFC 1123 date of that time is %r" % (t, unhx(out), py_format(t)))
            return None
        if op == "date.parse":
            s = unhx(a[1])
            z = s.find(b"\0")
            if z >= 0:
                s = s[:z]
            got = int(out)
            f = in_form(s)
            if f is None or got == -1:
                return None  # the property speaks about accepted strings of the three forms only
            form, y, m, d, hh, mm, ss = f
            if not (1 <= d <= mlen(y, m)):
                return ("oracle:nonexistent-day-accepted:" + form,
                        "%r is in %s form, names day %d of %s %d which does not exist, and is accepted as time %d (%s)"
                        % (s, form, d, MON[m - 1], y, got, py_format(got) if 0 <= got < T_MAX else "?"))
            if hh > 23 or mm > 59 or ss > 59:
                return ("oracle:invalid-time-of-day-accepted:" + form, "%r accepted as %d" % (s, got))
            want = days_to(y, m, d) * 86400 + hh * 3600 + mm * 60 + ss
            if got != want:
                return ("oracle:wrong-time:" + form, "%r is in %s form and denotes %d; ParseRfc1123 returned %d" % (s, form, want, got))
            return None
        if op == "date.timegm":
            # C library reference entry (not squid code): checked where the calendar is unambiguous
            y, mo, d, h, mi, se = [int(x) for x in a[1:7]]
            if 0 <= mo <= 11 and -100000 < y < 100000 and y + 1900 >= 0:
                want = days_to(y + 1900, mo + 1, d) * 86400 + h * 3600 + mi * 60 + se
                if int(out) != want:
                    return ("oracle:libc-timegm", "timegm(%s) = %s, expected %d" % (a[1:7], out, want))
            return None
        if op == "date.gmtime":
            t = int(a[1])
            if 0 <= t < T_MAX:
                days, rem = divmod(t, 86400)
                y, m, d = civil(days)
                want = "%d %d %d %d %d %d %d" % (y - 1900, m - 1, d, rem // 3600, rem % 3600 // 60, rem % 60, (4 + days) % 7)
                if out != want:
                    return ("oracle:libc-gmtime", "gmtime(%d) = %s, expected %s" % (t, out, want))
            return None
    except Exception as ex:
        return ("oracle:unparsable", "unparsable implementation output %r (%s)" % (out[:100], ex))
    return None


# ---------------------------------------------------------------------------
# generators
BOUNDARY_T = [0, 1, 59, 60, 3599, 3600, 86399, 86400, 86401, 68169599, 68169600, 68255999, 68256000,  # 29 Feb 1972
              951782399, 951782400, 951868799, 951868800, 946684799, 946684800,  # 2000
              4107542399, 4107542400, 4102444799, 4102444800,  # 2100 (not leap)
              2147483647, 2147483648, 4294967295, 4294967296, 32503679999, 32503680000,
              T_MAX - 1, T_MAX - 86400, T_MAX - 86401, T_MAX - 31536000, T_MAX - 31536001]
OUTSIDE_T = [-1, -2, -86400, -86401, -2208988800, -62135596800, -62135596801, -62167219200, -62167219201,
             T_MAX, T_MAX + 1, T_MAX + 86400, 1 << 40, -(1 << 40), (1 << 50), -(1 << 50)]


def rand_time(rng):
    k = rng.random()
    if k < 0.75:
        return rng.randrange(N_DAYS) * 86400 + rng.randrange(86400)
    if k < 0.85:
        return rng.choice(BOUNDARY_T)
    if k < 0.93:
        # around year / month / century boundaries
        y = rng.choice([1970, 1971, 1972, 1999, 2000, 2001, 2038, 2099, 2100, 2101, 2400, 9999, rng.randrange(1970, 10000)])
        m = rng.choice([1, 2, 3, 12, rng.randrange(1, 13)])
        base = days_to(y, m, 1) * 86400 + rng.choice([-1, 0, 1, 86399, 86400, -86400])
        return min(max(base, 0), T_MAX - 1)
    return rng.choice(OUTSIDE_T + [rng.randrange(-(1 << 36), 1 << 39)])


def fields_of(t):
    days, rem = divmod(t, 86400)
    y, m, d = civil(days)
    return (4 + days) % 7, y, m, d, rem // 3600, rem % 3600 // 60, rem % 60


def render(form, wd, y, m, d, hh, mm, ss, rng=None):
    if form == "imf":
        return "%s, %02d %s %04d %02d:%02d:%02d GMT" % (WD[wd], d, MON[m - 1], y, hh, mm, ss)
    if form == "rfc850":
        return "%s, %02d-%s-%02d %02d:%02d:%02d GMT" % (WDL[wd], d, MON[m - 1], y % 100, hh, mm, ss)
    day = ("%2d" % d) if (rng is None or d >= 10 or rng.random() < 0.7) else ("%02d" % d)
    return "%s %s %s %02d:%02d:%02d %04d" % (WD[wd], MON[m - 1], day, hh, mm, ss, y)


def valid_string(rng):
    form = rng.choice(["imf", "imf", "rfc850", "asctime"])
    if form == "rfc850":
        t = rng.randrange(0, 3155760000)  # 1970..2069, the window two-digit years map to
    else:
        t = rng.randrange(-62167219200, T_MAX) if rng.random() < 0.3 else rand_time(rng) % T_MAX
    wd, y, m, d, hh, mm, ss = fields_of(t)
    if rng.random() < 0.1:
        wd = rng.randrange(7)  # day-name not matching the date: ignored by the code
    return render(form, wd, y, m, d, hh, mm, ss, rng).encode()


def form_string(rng):
    """in one of the three forms, field values free: exercises tmSaneValues and day normalisation"""
    form = rng.choice(["imf", "rfc850", "asctime"])
    y = rng.choice([rng.randrange(0, 10000), rng.randrange(1970, 2100), 0, 1, 69, 70, 99, 100, 1900, 1969, 1970, 9999])
    m = rng.randrange(1, 13)
    d = rng.choice([0, 1, 28, 29, 30, 31, 32, 39, 99, rng.randrange(0, 34), rng.randrange(1, 29), rng.randrange(1, 29)])
    hh = rng.choice([0, 23, 24, 29, 99, rng.randrange(0, 24), rng.randrange(0, 24), rng.randrange(0, 24)])
    mm = rng.choice([0, 59, 60, 99, rng.randrange(0, 60), rng.randrange(0, 60), rng.randrange(0, 60)])
    ss = rng.choice([0, 59, 60, 61, 99, rng.randrange(0, 60), rng.randrange(0, 60), rng.randrange(0, 60)])
    if form == "asctime" and d > 9 and rng.random() < 0.2:
        d = rng.randrange(0, 10)
    return render(form, rng.randrange(7), y, m, d % 100, hh, mm, ss, rng).encode()


JUNK = [b"GMT", b"UTC", b"gmt", b"+0000", b"PST", b"Jan", b"jan", b"JANUARY", b"Ja", b"J", b"Sun", b"12", b"1994", b"94",
        b"08:49:37", b"8:49:37", b"08:49", b"08:", b":", b"::", b"1:2:3", b"12:+5:-0", b"12:\t7:\n9", b"06-Nov-94", b"06-Nov",
        b"06--94", b"6-Nov-1994", b"06-Nov-94-x", b"-", b"--", b"19100", b"19070", b"19000", b"19001", b"069", b"70", b"69",
        b"0070", b"99999999999", b"2147483648", b"4294967297", b"9223372036854775807", b"9223372036854775808",
        b"99999999999999999999", b"-5", b"+5", b"0x10", b"1e3", b"\xb1\xb2", b"1\xff:00:00", b"3\xb0:00:00", b"2;:00:00",
        b"1/:10:10", b",", b",,", b" ", b"  ", b"\t", b"x"]


def mutate_bytes(rng, s):
    s = bytearray(s)
    for _ in range(rng.choice([1, 1, 1, 2, 3])):
        k = rng.random()
        toks = bytes(s).split(b" ")
        if k < 0.18 and s:
            s[rng.randrange(len(s))] = rng.choice([rng.randrange(1, 256), rng.randrange(48, 59), 32, 44, 45, 58])
        elif k < 0.30 and s:
            del s[rng.randrange(len(s))]
        elif k < 0.42:
            p = rng.randrange(len(s) + 1)
            s[p:p] = bytes([rng.choice([32, 44, 45, 58, 48, 57, 9, 0, rng.randrange(1, 256)])])
        elif k < 0.54 and len(toks) > 1:
            i = rng.randrange(len(toks)); toks[i] = rng.choice(JUNK); s = bytearray(b" ".join(toks))
        elif k < 0.62 and len(toks) > 1:
            del toks[rng.randrange(len(toks))]; s = bytearray(b" ".join(toks))
        elif k < 0.72:
            toks.insert(rng.randrange(len(toks) + 1), rng.choice(JUNK)); s = bytearray(b" ".join(toks))
        elif k < 0.80 and len(toks) > 1:
            i = rng.randrange(len(toks)); j = rng.randrange(len(toks)); toks[i], toks[j] = toks[j], toks[i]
            s = bytearray(b" ".join(toks))
        elif k < 0.88:
            # padding that moves the 63-byte truncation point of xstrncpy into the string
            pad = rng.choice([20, 28, 29, 30, 33, 34, 35, 36, 40, 62, 63, 64, rng.randrange(0, 70)])
            s = bytearray(rng.choice([b" ", b",", b", "]) * pad)[:pad] + s
        elif k < 0.94:
            s = s + rng.choice([b" ", b",", b" GMT", b" x", b"\0junk", b" 1", b"\n", b" 12:00:00"])
        else:
            s = bytearray(bytes(s).swapcase() if rng.random() < 0.5 else bytes(s).upper())
    return bytes(s)


def gen_cases(rng, n):
    cases = []
    if n >= 3000000:
        # thorough: every day of 1970..9999 at a random second
        for day in range(N_DAYS):
            cases.append("date.rt %d" % (day * 86400 + rng.randrange(86400)))
        n -= N_DAYS
    for t in BOUNDARY_T + OUTSIDE_T:
        cases.append("date.rt %d" % t)
        cases.append("date.gmtime %d" % t)
    target = len(cases) + n
    while len(cases) < target:
        k = rng.random()
        if k < 0.30:
            cases.append("date.rt %d" % rand_time(rng))
        elif k < 0.33:
            cases.append("date.fmt %d" % rand_time(rng))
        elif k < 0.37:
            cases.append("date.gmtime %d" % rand_time(rng))
        elif k < 0.42:
            y = rng.choice([rng.randrange(-1900, 8100), rng.randrange(70, 200), rng.randrange(-3000, 20000)])
            cases.append("date.timegm %d %d %d %d %d %d" % (y, rng.randrange(12), rng.choice([1, 28, 29, 30, 31, rng.randrange(1, 32)]),
                                                           rng.randrange(24), rng.randrange(60), rng.randrange(60)))
        elif k < 0.58:
            cases.append("date.parse " + hx(valid_string(rng)))
        elif k < 0.72:
            cases.append("date.parse " + hx(form_string(rng)))
        else:
            base = valid_string(rng) if rng.random() < 0.7 else form_string(rng)
            cases.append("date.parse " + hx(mutate_bytes(rng, base)))
    return cases


def mutate(rng, case):
    a = case.split()
    if a[0] == "date.parse":
        return "date.parse " + hx(mutate_bytes(rng, unhx(a[1])))
    if a[0] in ("date.rt", "date.fmt", "date.gmtime"):
        t = int(a[1]) + rng.choice([-86400, -3600, -60, -1, 1, 60, 3600, 86400, 31536000, -31536000])
        return "%s %d" % (rng.choice(["date.rt", "date.fmt", "date.gmtime"]), t)
    if a[0] == "date.timegm":
        v = [int(x) for x in a[1:7]]
        i = rng.randrange(6)
        v[i] += rng.choice([-1, 1])
        v[1] %= 12
        return "date.timegm " + " ".join(str(x) for x in v)
    return case


def kind(c, o):
    op = c.split()[0]
    if op == "date.parse":
        f = in_form(unhx(c.split()[1]).split(b"\0")[0])
        return "parse:%s:%s" % (f[0] if f else "other", "reject" if o == "-1" else "accept")
    if op == "date.rt":
        t = int(c.split()[1])
        return "rt:" + ("in-range" if 0 <= t < T_MAX else "outside")
    return op


def run(res, tier):
    res.rule = ("times: uniformly random day of 1970..9999 at a random second (thorough: every one of the 2932897 days), "
                "year/month/leap/century boundaries, times outside the range; strings: the three HTTP-date forms rendered from "
                "random times, the three forms with free field values (day 00..99, hour/min/sec beyond their ranges, years "
                "0000..9999), and mutations of both (byte flips, token deletion/insertion/swap, junk tokens, signs, overflowing "
                "numbers, high bytes, NUL, case changes, padding that moves the 63-byte truncation point); raw timegm/gmtime. "
                "A case is non-trivial when the parser accepted the string / the time is inside 1970..9999")
    std.run_standard(res, PID, tier, area="date", build_impl=impl, gen_cases=gen_cases, oracle=oracle,
                     corr_name="DateModel vs src/time/rfc1123.cc (+ glibc timegm/gmtime/strftime)",
                     gens=["datetabs"], n_quick=40000, n_thorough=3200000, seed_salt=35, mutate=mutate,
                     kind_fn=kind,
                     nontrivial_fn=lambda c, o: (o != "-1") if c.startswith("date.parse") else
                     (0 <= int(c.split()[1]) < T_MAX if c.split()[0] in ("date.rt", "date.fmt", "date.gmtime") else True))
