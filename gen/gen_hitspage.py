#!/usr/bin/env python3
"""Table generator for C10 (HitsModel.v): the shared-memory page size, i.e. the capacity of one MemStore slice.
Ipc::Mem::PageSize() (src/ipc/mem/Pages.cc) is a function whose translation unit cannot be linked into a small
generator, so its `return <constant expression>;` is read from the source text of the tree given as argv[1].
The generator fails (and the check reports a broken obligation) if the function no longer has that shape."""
import re, sys

repo = sys.argv[1]
txt = open(repo + "/src/ipc/mem/Pages.cc", encoding="latin1").read()
m = re.search(r"size_t\s+Ipc::Mem::PageSize\(\)\s*\{\s*return\s+([0-9*+ \t()]+);\s*\}", txt)
assert m, "Ipc::Mem::PageSize() is no longer `return <integer expression>;`"
val = eval(m.group(1), {"__builtins__": {}})
assert isinstance(val, int) and val > 0
print("@@FILE HitsPage_gen.v")
print("(* generated from /repo/src/ipc/mem/Pages.cc by gen/gen_hitspage.py -- do not edit *)")
print("Require Import SquidV.Bytes.")
print("Definition hits_shm_page_size : N := %d%%N." % val)
