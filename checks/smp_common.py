"""Shared lab driver for the SMP / collapsed-forwarding checks C18 and C19.

The implementation side is the REAL squid binary (vlib.lab) in SMP mode (workers=N, every worker also listens on its
own port 127.0.0.1:<base><kid>), between raw-socket clients and a *gated* origin: the first response for a request
id is released in steps that the scenario driver controls (before the header / after the header and the first body
bytes / end), so that "arrives while the fetch is in progress" is established causally (the origin has the request and
has not answered / has answered in part) instead of by timing. Every origin arrival k of a request id answers with
its own body version k, so that each client body identifies the fetch it came from.

Nothing here edits vlib/lab.py: the origin handler is a subclass installed on a stock lab.Origin."""
import os, socket, threading, time
from vlib import lab

IPC_DIR = "/usr/local/squid/var/run/squid"     # DEFAULT_STATEDIR of this build (src/ipc/Port.cc): kid-to-kid UDS sockets


def ensure_ipc_dir():
    """SMP kids bind unix sockets under ${localstatedir}/run/squid, which `make install` would create; the in-tree
    build never ran it. (Socket names carry the -n service name, so concurrent instances do not collide.)"""
    if not os.path.isdir(IPC_DIR):
        os.makedirs(IPC_DIR, exist_ok=True)
    try:
        import shutil
        shutil.chown(IPC_DIR, "nobody")
        for d in ("/usr/local/squid", "/usr/local/squid/var", "/usr/local/squid/var/run"):
            os.chmod(d, 0o755)
    except Exception:
        pass


def free_port_base(nkids=9):
    """a base b such that ports b*10+0 .. b*10+nkids are free (used as `http_port 127.0.0.1:<b>${process_number}`)"""
    import random
    r = random.Random(os.getpid() * 7919 + int(time.time() * 1000) % 100000)
    for _ in range(400):
        b = r.randrange(2100, 6400)
        ok = True
        for k in range(0, nkids + 1):
            s = socket.socket()
            try:
                s.bind(("127.0.0.1", b * 10 + k))
            except OSError:
                ok = False
            finally:
                s.close()
            if not ok:
                break
        if ok:
            return b
    raise lab.LabError("no free port block")


# ------------------------------------------------------------------ gated origin
VSEED = 1000          # body version k of a request id = lab.body_bytes(size, VSEED*salt + k)


def version_body(size, salt, k):
    return lab.body_bytes(size, VSEED * (salt + 1) + k)


class GatedHandler(lab._Handler):
    """spec keys added to the stock stub:
         vsize, vsalt   body of the k-th arrival of this rid = version_body(vsize, vsalt, k)
         gated          the FIRST arrival of this rid waits for gate 'h' before sending anything, sends the header and
                        `first` body bytes, waits for gate 'b', then sends the rest (or, with cut_after, closes)
         first          number of body bytes sent together with the header (gated responses)"""

    def respond(self, conn, spec, rec, hl):
        org = self.server.org
        rid = rec["rid"]
        with org.lock:
            k = sum(1 for r in org.log if r["rid"] == rid and r["n"] <= rec["n"])
        spec = dict(spec)
        if "vsize" in spec:
            import base64
            spec["body_b64"] = base64.b64encode(version_body(spec["vsize"], spec.get("vsalt", 0), k)).decode()
        if "first_arrival" in spec and k == 1:
            spec.update(spec["first_arrival"])
        self._gate = None
        if spec.get("gated") and k == 1:
            self._gate = gates(org, rid)
            self._gate["arrived"].set()
            self._gate["h"].wait(40)
        return super().respond(conn, spec, rec, hl)

    def send_split(self, conn, data, spec):
        g = getattr(self, "_gate", None)
        if not g:
            return super().send_split(conn, data, spec)
        hend = data.find(b"\r\n\r\n") + 4
        p = min(len(data), hend + int(spec.get("first", 0)))
        conn.sendall(data[:p])
        g["sent1"].set()
        g["b"].wait(40)
        if p < len(data):
            conn.sendall(data[p:])
        g["sent2"].set()


def gates(org, rid):
    with org.lock:
        d = org.__dict__.setdefault("_gates", {})
        if rid not in d:
            d[rid] = {n: threading.Event() for n in ("arrived", "h", "sent1", "b", "sent2")}
        return d[rid]


def gated_origin(L):
    org = L.origin()
    org.srv.RequestHandlerClass = GatedHandler
    return org


# ------------------------------------------------------------------ streaming client
class Client(threading.Thread):
    """one request on a fresh connection, read to the end in the background"""

    def __init__(self, port, url, headers=(), method="GET", total=40.0):
        super().__init__(daemon=True)
        self.port, self.url, self.method, self.total = port, url, method, total
        h = "%s %s HTTP/1.1\r\n" % (method, url)
        hs = list(headers)
        if not any(n.lower() == "host" for n, _ in hs):
            hs.insert(0, ("Host", url.split("://", 1)[1].split("/", 1)[0]))
        for n, v in hs:
            h += "%s: %s\r\n" % (n, v)
        self.req = (h + "\r\n").encode("latin1")
        self.raw = b""
        self.closed = False
        self.sent = threading.Event()
        self.finished = threading.Event()
        self.err = None

    def run(self):
        try:
            s = socket.create_connection(("127.0.0.1", self.port), timeout=5)
        except OSError as ex:
            self.err = str(ex); self.sent.set(); self.finished.set()
            return
        try:
            s.sendall(self.req)
            self.sent.set()
            t0 = time.time()
            s.settimeout(0.05)
            while time.time() - t0 < self.total:
                if lab.n_complete(self.raw, 1, [self.method]) if self.raw else False:
                    break
                try:
                    d = s.recv(262144)
                except socket.timeout:
                    continue
                except OSError:
                    self.closed = True
                    break
                if not d:
                    self.closed = True
                    break
                self.raw += d
        finally:
            self.sent.set()
            try:
                s.close()
            except OSError:
                pass
            self.finished.set()

    def have_header(self):
        return b"\r\n\r\n" in self.raw

    def resp(self):
        rs, _ = lab.parse_responses(self.raw, [self.method], eof=self.closed)
        fin = [r for r in rs if r.status is not None and not (100 <= r.status < 200)]
        return fin[0] if fin else None


def wait_for(pred, timeout=10.0, step=0.01):
    t0 = time.time()
    while time.time() - t0 < timeout:
        if pred():
            return True
        time.sleep(step)
    return bool(pred())


def wait_port(port, timeout=20.0):
    t0 = time.time()
    while time.time() - t0 < timeout:
        try:
            s = socket.create_connection(("127.0.0.1", port), timeout=0.5)
            s.close()
            return True
        except OSError:
            time.sleep(0.1)
    raise lab.LabError("port %d did not open" % port)


def classify(cl, size, salt, maxver=60, status=200):
    """canonical outcome of one client: F<v> complete copy of origin version v; T<v> visibly incomplete message whose
    body is a proper prefix of version v (T0: no body byte); E<status> complete non-200 reply; X... anything else
    (a body that is not what one origin response carried, or a short body presented as complete)"""
    if cl.err:
        return "Xconn"
    r = cl.resp()
    if r is None or r.status is None:
        return "N" if not cl.raw else "Xgarbage"
    if r.status != status:
        return "E%d" % r.status if r.complete else "Xerr-incomplete%d" % r.status
    body = r.body
    ver = None
    for k in range(1, maxver + 1):
        if version_body(size, salt, k)[:len(body)] == body and (len(body) > 0 or k == 1):
            ver = k
            break
    if len(body) == 0:
        ver = 0
    if ver is None:
        return "Xmixed%d" % len(body)
    if r.complete:
        return "F%d" % ver if len(body) == size else "Xshort%d:%d" % (ver, len(body))
    if len(body) >= size:
        return "T%d" % ver    # all bytes but no end-of-message marker: still visibly incomplete
    return "T%d" % ver
