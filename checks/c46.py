"""C46: proxy authentication gates forwarding and never mixes identities (end to end: real squid + scripted Basic helper)."""
import base64, concurrent.futures, json, os, re, socket, threading, time
from vlib import std, lab, common
from vlib.common import VERIF

PID = "C46"
META = {
    "text": "Theorems (Properties_C46.v, closed under the global context) about a transcription of the Basic scheme's path through Auth::UserRequest::authenticate, Auth::Basic::Config::decode / decodeCleartext, Auth::Basic::User::updateCached / authenticated, module_direction, startHelperLookup and HandleReply as a transition system over arrivals, helper replies and clock ticks (AuthhelperModel.v): for ALL event sequences a request without a Proxy-Authorization header, or with one that does not decode to user:password (other scheme, invalid base64, NUL/CR/LF, no colon, empty password), is answered 407 at once and is never authorised later; for ALL event sequences whoever is authorised is authorised (and logged) under the user name of its OWN credentials and only if the helper has accepted SOME password presented for that user name (_partial); for all SEQUENTIAL histories (each lookup answered before the next request arrives) every authorised request presented credentials the helper accepts, across cache hits, password changes and TTL expiry. The full statement over all interleavings is REFUTED with a witness (alice:good pending; alice:bad replaces the cached password and starts its own lookup; the OK for the first lookup marks the shared user object Ok; a third request with alice:bad is authorised) - known finding C46-shared-user-race (DESIGN F13), replayed against the running proxy on every run. Tie: the extracted model is run against the real squid binary with a Basic helper that holds every lookup until the check releases it, so arrivals and helper replies happen in exactly the scripted order; observables: 200 + origin arrival + access.log user name, or 407.",
    "note": "partial: authorisation by one's own credentials holds for sequential histories only (see the refutation); the interleaving theorem is the weaker per-user-name statement. The theorems are about the transcribed state machine; that the running proxy follows it rests on the end-to-end correspondence. Not modelled: the hourly credentials-cache clean-up, realm key extras, utf8 transcoding, credentialsttl <= 0 (HandleReply's queue drain does not terminate there), other schemes. libnettle's base64 decoder is modelled by hand (external library). Trusted: Coq kernel, extraction, vlib/lab.py, lab/helper_authhelper.py.",
    "technique": "Coq proof (inductive invariants over all event interleavings; quiescent-state invariant for sequential histories; vm_compute witness) + end-to-end differential correspondence of the extracted model against the running squid under a check-controlled schedule + independent oracle",
}

SID_PH = "######"
TTL_LONG, TTL_SHORT = 3600, 4
TICK_SLEEP = 5.3


# ----------------------------------------------------------------------------------------------- generator
def b64(s):
    return base64.b64encode(s.encode("latin1")).decode()


def header_for(r, sid):
    """the Proxy-Authorization value of request r (None = no header)"""
    k = r["kind"]
    u = r.get("u", "").replace(SID_PH, sid)
    p = r.get("p", "")
    if k == "none": return None
    if k == "ok": return r.get("scheme", "Basic") + r.get("sep", " ") + b64(u + ":" + p)
    if k == "nocolon": return "Basic " + b64(u)
    if k == "emptypw": return "Basic " + b64(u + ":")
    if k == "badb64": return "Basic " + b64(u + ":" + p)[:-3] + "!*?"
    if k == "scheme": return r.get("scheme", "Digest") + " " + b64(u + ":" + p)
    if k == "nul": return "Basic " + b64(u + "\0x:" + p)
    if k == "lf": return "Basic " + b64(u + ":" + p + "\nx")
    if k == "empty": return ""
    raise ValueError(k)


GARBLED = ["none", "nocolon", "emptypw", "badb64", "scheme", "nul", "lf", "none", "empty"]


def gen_one(rng, k):
    users = ["u%sa" % SID_PH, "u%sb" % SID_PH]
    shape = rng.random()
    reqs, events = [], []
    nreq = rng.randrange(2, 7)
    ttl = "long"
    outstanding = []
    sequential = shape < 0.3
    if 0.3 <= shape < 0.4:
        ttl = "short"
    for i in range(nreq):
        c = rng.random()
        if c < 0.2:
            r = {"kind": rng.choice(GARBLED), "u": rng.choice(users), "p": rng.choice(["ok-1", "no-1"])}
            if r["kind"] == "scheme":
                r["scheme"] = rng.choice(["Digest", "Bearer", "Basi", "NTLM"])
        else:
            u = users[0] if rng.random() < 0.8 else users[1]
            if rng.random() < 0.15:
                u = u.upper() if rng.random() < 0.5 else u.capitalize()      # same user: names are lower-cased
            r = {"kind": "ok", "u": u, "p": rng.choice(["ok-1", "ok-1", "ok-2", "no-1", "no-1", "no-2"])}
            s = rng.random()
            if s < 0.08: r["scheme"] = rng.choice(["basic", "BASIC", "BasicX"])
            if 0.08 <= s < 0.14: r["sep"] = rng.choice(["  ", "\t", "   "])
        r["reuse"] = rng.random() < 0.3
        reqs.append(r)
        events.append(["a", i])
        if sequential:
            events.append(["r", i])
            if ttl == "short" and rng.random() < 0.4:
                events.append(["t"])
        else:
            outstanding.append(i)
            while outstanding and rng.random() < 0.45:
                j = outstanding.pop(rng.randrange(len(outstanding)))
                events.append(["r", j])
            if ttl == "short" and rng.random() < 0.25:
                events.append(["t"])
    rng.shuffle(outstanding)
    for j in outstanding:
        events.append(["r", j])
    if sum(1 for e in events if e[0] == "t") > 2:
        seen = 0
        ev2 = []
        for e in events:
            if e[0] == "t":
                seen += 1
                if seen > 2: continue
            ev2.append(e)
        events = ev2
    return {"ttl": ttl, "reqs": reqs, "events": events}


def gen_scenarios(rng, n):
    return [gen_one(rng, k) for k in range(n)]


def hexs(b):
    return b.hex() if b else "-"


def to_case(s):
    sid = "000000"
    ev = []
    for e in s["events"]:
        if e[0] == "a":
            h = header_for(s["reqs"][e[1]], sid)
            ev.append("a%d:%s" % (e[1] + 1, "none" if h is None else hexs(h.encode("latin1"))))
        elif e[0] == "r":
            ev.append("r%d" % (e[1] + 1))
        else:
            ev.append("t10")
    ttl = TTL_LONG if s["ttl"] == "long" else TTL_SHORT
    return "ah.auth %d 0 %s" % (ttl, " ".join(ev))


# ----------------------------------------------------------------------------------------------- driver
_state = {}


class Inst:
    def __init__(self, L, org, ttl, tag):
        self.org = org
        self.dir = os.path.join(L.dir, "auth-" + tag)
        os.makedirs(self.dir, exist_ok=True)
        os.chmod(self.dir, 0o777)
        helper = os.path.join(VERIF, "lab", "helper_authhelper.py")
        conf = ("auth_param basic program /usr/bin/python3 -S %s auth %s\n"
                "auth_param basic children 1 startup=1 idle=1 concurrency=400\n"
                "auth_param basic credentialsttl %d seconds\n"
                "auth_param basic realm verif\n"
                "acl authd proxy_auth REQUIRED\n" % (helper, self.dir, ttl))
        self.sq = L.squid(extra_conf=conf, access="http_access allow authd\nhttp_access deny all",
                          name="c46%sp%d" % (tag, os.getpid()))
        # wait for the helper to be up
        t0 = time.time()
        while time.time() - t0 < 20 and "start" not in self.logtxt():
            time.sleep(0.05)

    def logtxt(self):
        try:
            with open(os.path.join(self.dir, "auth.log")) as f:
                return f.read()
        except OSError:
            return ""

    def lookups(self, sid):
        """[(seq, user, password)] of this scenario, in helper arrival order"""
        return [(int(a), b, c) for a, b, c in re.findall(r" recv (\d+) (\S*) (\S*)", self.logtxt()) if sid in b.lower()]


class Client:
    """one request on a (possibly reused) connection; runs in a thread"""
    def __init__(self, port, url, hdr, sock=None):
        self.done = threading.Event()
        self.status = None
        self.sock = sock
        self.keep = False
        self.th = threading.Thread(target=self.run, args=(port, url, hdr), daemon=True)
        self.th.start()

    def run(self, port, url, hdr):
        try:
            req = "GET %s HTTP/1.1\r\nHost: %s\r\n" % (url, url.split("/")[2])
            if hdr is not None:
                req += "Proxy-Authorization: %s\r\n" % hdr
            req += "\r\n"
            data = req.encode("latin1")
            for attempt in (0, 1):
                if self.sock is None:
                    self.sock = socket.create_connection(("127.0.0.1", port), timeout=5)
                    attempt = 1
                try:
                    self.sock.sendall(data)
                    raw = b""
                    self.sock.settimeout(20)
                    while not lab.n_complete(raw, 1):
                        d = self.sock.recv(65536)
                        if not d:
                            break
                        raw += d
                except OSError:
                    raw = b""
                if raw or attempt == 1:
                    break
                try:
                    self.sock.close()
                except OSError:
                    pass
                self.sock = None          # the reused connection had been closed: once more on a fresh one
            rs, _ = lab.parse_responses(raw, ["GET"], eof=False)
            if rs and rs[0].status is not None:
                self.status = rs[0].status
                conn = (rs[0].get("Connection") or "").lower()
                self.keep = rs[0].complete and "close" not in conn
        except Exception:
            self.status = None
        finally:
            if not self.keep and self.sock is not None:
                try:
                    self.sock.close()
                except OSError:
                    pass
                self.sock = None
            self.done.set()


def wait_until(pred, timeout, step=0.004):
    t0 = time.time()
    while time.time() - t0 < timeout:
        if pred():
            return True
        time.sleep(step)
    return False


def collect(clients, idle):
    """finished clients hand their still open connection over to the idle pool (exactly once)"""
    for c in clients.values():
        if c.done.is_set() and c.sock is not None:
            if c.keep:
                idle.append(c.sock)
            c.sock = None


def run_one(inst, s, sid):
    org, sq = inst.org, inst.sq
    reqs = s["reqs"]
    clients = {}
    lookup_of = {}          # request index -> helper seq
    claimed = set()
    idle = []
    for e in s["events"]:
        if e[0] == "a":
            i = e[1]
            hdr = header_for(reqs[i], sid)
            sock = idle.pop() if (reqs[i].get("reuse") and idle) else None
            before = len(inst.lookups(sid))
            c = Client(sq.port, "http://127.0.0.1:%d/c46x%sx/r%d" % (org.port, sid, i), hdr, sock)
            clients[i] = c
            # either the request completes at once, or its lookup reaches the helper, or it is queued behind another
            # lookup of the same user (nothing observable: settle)
            wait_until(lambda: c.done.is_set() or len(inst.lookups(sid)) > before, 0.45)
            for seq, u, p in inst.lookups(sid):
                if seq not in claimed:
                    claimed.add(seq)
                    lookup_of[i] = seq
            collect(clients, idle)
        elif e[0] == "r":
            i = e[1]
            seq = lookup_of.pop(i, None)
            if seq is not None:
                open(os.path.join(inst.dir, "rel.%d" % seq), "w").close()
                clients[i].done.wait(3.0)
                time.sleep(0.02)        # queued requests resumed by the same helper reply
                collect(clients, idle)
        else:
            time.sleep(TICK_SLEEP)
    for i, seq in list(lookup_of.items()):
        open(os.path.join(inst.dir, "rel.%d" % seq), "w").close()
    for c in clients.values():
        c.done.wait(3.0)
    collect(clients, idle)
    for sk in idle:
        try:
            sk.close()
        except OSError:
            pass
    time.sleep(0.05)
    # observations
    arrivals = {}
    for a in org.arrivals("c46x%sx" % sid):
        m = re.search(r"/r(\d+)", a["line"])
        if m:
            arrivals[int(m.group(1))] = arrivals.get(int(m.group(1)), 0) + 1
            if any(h.lower() == "proxy-authorization" for h, v in a["headers"]):
                arrivals[int(m.group(1))] += 100
    logged = {}
    for _ in range(20):
        logged = {}
        for line in sq.access_lines():
            m = re.search(r"/c46x%sx/r(\d+) (\S+) " % sid, line)
            if m:
                logged[int(m.group(1))] = m.group(2)
        if all(i in logged for i, c in clients.items() if c.status is not None):
            break
        time.sleep(0.05)
    toks = []
    for i in range(len(reqs)):
        c = clients.get(i)
        st = c.status if c else None
        if st == 407 and not arrivals.get(i):
            toks.append("%d=407" % (i + 1))
        elif st == 200 and arrivals.get(i) == 1:
            un = logged.get(i, "?").replace(sid, "000000")
            toks.append("%d=%s" % (i + 1, un.encode("latin1").hex()))
        elif st is None:
            toks.append("%d=pend" % (i + 1))
        else:
            toks.append("%d=odd:%s:%s" % (i + 1, st, arrivals.get(i)))
    return " ".join(toks)


def run_impl(L, scenarios):
    if "inst" not in _state:
        _state["org"] = L.origin()
        _state["inst"] = {}
        _state["n"] = 0
        _state["gen"] = 0
    org = _state["org"]
    for k, ttl in (("long", TTL_LONG), ("short", TTL_SHORT)):
        if k not in _state["inst"] or not _state["inst"][k].sq.alive():
            _state["gen"] += 1
            _state["inst"][k] = Inst(L, org, ttl, "%s%d" % (k, _state["gen"]))
    jobs = []
    for s in scenarios:
        _state["n"] += 1
        jobs.append((_state["inst"][s["ttl"]], s, "%06d" % _state["n"]))

    def serve(j):
        try:
            j[1]["_sid"] = j[2]
            o = run_one(*j)
            if not j[0].sq.alive():
                return "squid-died " + " ".join(j[0].sq.log_has("assertion failed", "FATAL"))
            return o
        except Exception as ex:
            return "driver-error " + str(ex)[:200].replace("\n", " ")
    with concurrent.futures.ThreadPoolExecutor(max_workers=16) as ex:
        return list(ex.map(serve, jobs))


# ----------------------------------------------------------------------------------------------- oracle
def overlapping(s, user):
    """some request of `user` arrives while another request of that user with a DIFFERENT password is still waiting
    for its (scripted) helper reply"""
    inflight = {}
    for e in s["events"]:
        if e[0] == "a":
            r = s["reqs"][e[1]]
            if r["kind"] == "ok" and r["u"].lower() == user:
                if any(p != r["p"] for p in inflight.values()):
                    return True
                inflight[e[1]] = r["p"]
        elif e[0] == "r":
            inflight.pop(e[1], None)
    return False


def oracle(s, obs):
    """The property on what squid did. The helper accepts exactly the passwords starting with `ok`.
    - a request without credentials that decode to user:password must get 407 and must not reach the origin;
    - a forwarded request must be logged under its own (lower-cased) user name;
    - a request whose own credentials the helper rejects must never be forwarded."""
    if obs.startswith("squid-died"):
        return ("oracle:squid-died", "squid stopped during the scenario: " + obs)
    if obs.startswith("driver-error"):
        return ("oracle:lab-driver-error", obs)
    toks = dict(t.split("=", 1) for t in obs.split())
    reqs = s["reqs"]
    arrived = []
    order = [e[1] for e in s["events"] if e[0] == "a"]
    for i in order:
        r = reqs[i]
        t = toks.get(str(i + 1))
        if t is None or t.startswith("odd"):
            return ("oracle:odd-outcome", "request %d: %s" % (i + 1, t))
        valid = r["kind"] == "ok" and (r.get("scheme", "Basic").lower().startswith("basic"))
        if not valid:
            if t != "407":
                return ("oracle:forwarded-without-valid-credentials:" + r["kind"],
                        "request %d carries %s credentials but was answered %s" % (i + 1, r["kind"], t))
            continue
        if t in ("407", "pend"):
            arrived.append(i)
            continue
        own = r["u"].replace(SID_PH, "000000").lower()
        got = bytes.fromhex(t).decode("latin1")
        if got != own:
            return ("oracle:identity-mixed", "request %d (user %s) was forwarded and logged as %s" % (i + 1, own, got))
        if not r["p"].startswith("ok"):
            # the known defect needs (a) another request naming the same user with a password the helper accepts and
            # (b) two requests of that user with different passwords in flight at the same time
            race = any(q["kind"] == "ok" and q["u"].lower() == r["u"].lower() and q["p"].startswith("ok") for q in reqs) \
                and overlapping(s, r["u"].lower())
            return ("oracle:rejected-credentials-forwarded" + (":shared-user-race" if race else ""),
                    "request %d presented %s:%s, which the helper rejects, and was forwarded (logged as %s)"
                    % (i + 1, own, r["p"], got))
        arrived.append(i)
    return None


def nontrivial(s, o):
    users = [r["u"].lower() for r in s["reqs"] if r["kind"] == "ok"]
    return len(users) != len(set(users)) and "=407" in o and any(re.match(r"\d+=[0-9a-f]{4,}", t) for t in o.split())


def run(res, tier):
    res.rule = ("2-6 requests for one or two user names (random letter case) with passwords the helper accepts / rejects, no "
                "header, other schemes, invalid base64, NUL / LF in the credentials, missing colon, empty password, lower-case "
                "or padded scheme token, new or reused client connections; the helper's replies are released by the check in "
                "a random order interleaved with the arrivals (30% strictly sequential; 10% with credentialsttl 4 s and 5 s "
                "pauses); non-trivial = a user name used by several requests, with both a 407 and a forwarded request")
    std.run_lab(res, PID, tier, area="authhelper", gen_scenarios=gen_scenarios, run_impl=run_impl,
                to_case=to_case, oracle=oracle, corr_name="AuthhelperModel (astep/arun) vs the running squid",
                n_quick=90, n_thorough=2500, seed_salt=46,
                kind_fn=lambda s, o: s["ttl"] + ":" + ("mixed" if ("=407" in o and re.search(r"=[0-9a-f]{4,}", o)) else
                                                        ("all407" if "=407" in o else "allok")),
                nontrivial_fn=nontrivial)
    _state.clear()
