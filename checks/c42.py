"""C42: IP-address ACLs match exactly the configured address sets."""
import ipaddress, itertools, random, re
from vlib import std, hbuild, corr

PID = "C42"
META = {
    "text": "Theorems (Properties_C42.v, 17, closed under the global context) over the Gallina models of Ip::Address "
            "matchIPAddr/mask primitives (src/ip/Address.cc), acl_ip_data::firstAddress/lastAddress, "
            "Acl::SplayInserter<acl_ip_data*>::Compare/IsSubset/MakeCombinedValue, aclIpAddrNetworkCompare, "
            "ACLIP::parseGlobal/parse/match (src/acl/Ip.cc), Acl::SplayInserter<>::Merge (src/acl/SplayInserter.h) and "
            "include/splay.h (SplayModel.v, shared with C41): for EVERY list of parsed values (single address, CIDR network, "
            "address range, range of networks) without host bits below a prefix mask, in any order, with duplicates and "
            "overlaps, parse() ends normally (no exception, no freed-but-stored value, Merge loop within its bound), the "
            "stored ranges stay sorted and pairwise disjoint with the same union, and match(address) -- also any sequence of "
            "tree-reshaping lookups -- is true exactly when the address lies in the union of the configured sets or its "
            "family is selected by all/ipv4/ipv6. No side condition: since /repo 98f97cc the ACL code orders addresses with "
            "matchIPAddr() (a total order) instead of the Ip::Address relational operators. The model is tied to the code by "
            "differential runs of the extracted model against the real ACLIP/acl_ip_data/Ip::Address compiled from the "
            "working tree (ASan+UBSan), comparing exact tree shapes.",
    "note": "partial only in this sense: text -> (addr1, addr2, mask) is NOT modelled (FactoryParse's sscanf patterns, "
            "getaddrinfo, DecodeMask text handling): the harness prints what the real FactoryParse() returned for each token "
            "and the model starts from those triples; only the integer-CIDR mask construction (applyMask(cidr, type)) is "
            "modelled and its '/0 is NoAddr' shortcut is proved to turn ::/0 into the single address :: (known finding "
            "C42-prefix0, theorem C42_prefix_length_zero_refuted). Values WITH host bits below the mask, reversed or "
            "cross-family ranges and non-prefix masks are modelled as the code behaves and covered by correspondence only. "
            "Trusted: Coq kernel, extraction, harness/h_aclip.cc (it supplies ConfigParser::strtokFile tokens to the real "
            "ACLIP::parse(), sets Ip::EnableIpv6 as on a dual-stack host, and turns self_destruct() into an exception). "
            "Side finding outside the property (a reversed range is not a valid value): `acl x src 10.0.0.9-10.0.0.1 "
            "10.0.0.0/8` makes Merge() free a value the tree still holds (heap-use-after-free under ASan; the model predicts "
            "it: theorem C42_reversed_range_frees_stored_value, reproducer in corpus/C42/known.txt). The former finding "
            "C42-anyaddr-order was repaired in /repo by 98f97cc; its reproducers are regressions in corpus/C42/regress.txt.",
    "technique": "Coq proof (interval semantics of prefix masks by a / 2^h * 2^h arithmetic, sorted-disjoint invariant for "
                 "the fuel-bounded Merge loop with MakeCombinedValue, sign-monotone comparator for the shared splay "
                 "library) + extracted-model differential correspondence with exact tree shapes + independent Python oracle",
}

LINK = ("tests/stub_CachePeer.o tests/stub_HelperChildConfig.o tests/stub_HttpHeader.o tests/stub_HttpRequest.o "
        "tests/stub_MemBuf.o Parsing.o tests/stub_StatHist.o String.o tests/stub_access_log.o tests/stub_cache_manager.o "
        "tests/stub_cbdata.o tests/stub_client_side.o tests/stub_debug.o dlink.o tests/stub_errorpage.o tests/stub_fatal.o "
        "globals.o tests/stub_libauth.o tests/stub_libcomm.o tests/stub_libhttp.o tests/stub_libmem.o "
        "tests/stub_libsecurity.o tests/stub_neighbors.o anyp/libanyp.la acl/libapi.la acl/libstate.la SquidConfig.o "
        "ip/libip.la parser/libparser.la sbuf/libsbuf.la base/libbase.la ../lib/libmisccontainers.la "
        "../lib/libmiscutil.la ../compat/libcompatsquid.la").split()
# src/acl/Ip.cc is #included into the harness unit (file-static aclIpAddrNetworkCompare, private members), so it is
# compiled from the working tree together with the driver; src/acl/SplayInserter.h and include/splay.h are headers of
# that unit (object cache keyed by the preprocessed text). src/ip/Address.cc is a fresh source.
FRESH = ["src/ip/Address.cc"]
ENV = {"ASAN_OPTIONS": "detect_leaks=0:abort_on_error=0:symbolize=0",
       "UBSAN_OPTIONS": "print_stacktrace=0:halt_on_error=1:symbolize=0"}


def impl(sanitize="asan"):
    return hbuild.build("h_aclip", "h_aclip.cc", fresh=FRESH, link=LINK, sanitize=sanitize)


def prebuild():
    impl()


# ---------------------------------------------------------------- address arithmetic (independent of the model)
TOP = 1 << 128
ALL1 = TOP - 1
V4BASE = 0xffff << 32
V4ANY = V4BASE
V4NO = V4BASE | 0xffffffff


def h128(x):
    return "%032x" % x


def hx(b):
    return bytes(b).hex() if len(b) else "-"


def addr_int(text):
    """address text -> (128-bit int, is_v4)"""
    a = ipaddress.ip_address(text)
    if a.version == 4:
        return V4BASE | int(a), True
    return int(a), False


def is_v4(x):
    return (x >> 32) == 0xffff


LEGACY = ("0/0", "0.0.0.0/0", "0.0.0.0/0.0.0.0", "0.0.0.0-255.255.255.255", "0.0.0.0-0.0.0.0/0")


def denote(tok):
    """C42: the set of addresses a configured token stands for.
    Returns ("all",) | ("v4",) | ("v6",) | ("set", lo, hi, mask, raw_b, prefix0) for an in-scope value
    (single address, CIDR network, range; no host bits below the mask; ends ordered, same family), or None
    when the property does not speak about the token."""
    if tok == "all" or tok in LEGACY:      # the legacy spellings are documented to mean 'all'
        return ("all",)
    if tok == "ipv4":
        return ("v4",)
    if tok == "ipv6":
        return ("v6",)
    m = re.fullmatch(r"([0-9A-Fa-f:.]+)(?:-([0-9A-Fa-f:.]+))?(?:/([0-9.]+))?", tok)
    if not m:
        return None
    try:
        a, a4 = addr_int(m.group(1))
        b, b4 = (addr_int(m.group(2)) if m.group(2) else (None, a4))
    except ValueError:
        return None
    if a4 != b4:
        return None                         # cross-family range
    width = 32 if a4 else 128
    plen = width
    if m.group(3) is not None:
        g = m.group(3)
        if "." in g:
            if not a4:
                return None
            try:
                nm = int(ipaddress.IPv4Address(g))
            except ValueError:
                return None
            inv = nm ^ 0xffffffff
            if inv & (inv + 1):
                return None                 # not a contiguous netmask
            plen = 32 - inv.bit_length()
        else:
            plen = int(g)
            if plen > width:
                return None
    host = (1 << (width - plen)) - 1
    if a & host or (b is not None and b & host):
        return None                         # host bits below the mask: outside the property
    if b is not None and b < a:
        return None                         # reversed range
    lo = a
    hi = (b if b is not None else a) | host
    mask = ALL1 ^ host
    return ("set", lo, hi, mask, b, plen == 0)


def member(d, p):
    if d[0] == "all":
        return True
    if d[0] == "v4":
        return is_v4(p)
    if d[0] == "v6":
        return not is_v4(p)
    return d[1] <= p <= d[2]


# ---------------------------------------------------------------- output parsing
def parse_tree(s):
    pos = [0]
    out = []

    def go():
        if s[pos[0]] == ".":
            pos[0] += 1
            return
        assert s[pos[0]] == "("
        pos[0] += 1
        go()
        assert s[pos[0]] == ","
        pos[0] += 1
        j = pos[0]
        while s[pos[0]] != ",":
            pos[0] += 1
        out.append(s[j:pos[0]])
        pos[0] += 1
        go()
        assert s[pos[0]] == ")"
        pos[0] += 1
    go()
    assert pos[0] == len(s)
    return out


def split_acl(case):
    a = case.split()
    n = int(a[1])
    toks = []
    for w in a[2:2 + n]:
        t, sp = w.split("=", 1)
        toks.append((bytes.fromhex(t).decode("latin1"), sp))
    return toks, [int(x, 16) for x in a[2 + n:]]


def triple(s):
    x, y, z = s.split("/")
    return int(x, 16), int(y, 16), int(z, 16)


def clean_interval(t):
    """(addr1, addr2, mask) -> (lo, hi) when the triple is a value in the scope of the property"""
    a, b, m = t
    inv = ALL1 ^ m
    if inv & (inv + 1):
        return None
    if a & inv or b & inv:
        return None
    if b == 0:
        return a, a | inv
    if b < a or (b == V4ANY and a != V4ANY):
        return None
    return a, b | inv


def oracle(case, out):
    a = case.split()
    op = a[0]
    try:
        if out.startswith(("CRASH", "ERR")):
            return ("oracle:%s:crash" % op, "implementation crashed: " + out[:200])
        if op == "acl":
            toks, probes = split_acl(case)
            ds = [denote(t) for t, _ in toks]
            names = [t for t, _ in toks]
            if any(d is None for d in ds):
                return None                 # some value is outside the scope of the property
            tag = "oracle:acl:"
            if out.startswith(("EXC", "HANG", "UB")):
                return (tag + "parse-fails", "building the ACL from %r throws / does not terminate / frees a stored value: %s"
                        % (names, out[:160]))
            w = out.split()
            okflag, flags, size, t1, bits, t2 = w[0], w[1], int(w[2]), parse_tree(w[3]), w[4], parse_tree(w[5])
            if size != len(t1) or sorted(t1) != sorted(t2):
                return (tag + "accounting", "element count %d, %d nodes after parse, %d after lookups" % (size, len(t1), len(t2)))
            bits = "" if bits == "-" else bits
            if len(bits) != len(probes):
                return (tag + "output", "malformed answer")
            for p, b in zip(probes, bits):
                exp = any(member(d, p) for d in ds)
                if exp != (b == "1"):
                    if exp and not any(member(d, p) for d in ds if not (d[0] == "set" and d[5])):
                        kind = "prefix0:"           # expected only because of a value written with prefix length 0
                    else:
                        kind = ""
                    return (tag + kind + ("missed" if exp else "spurious"),
                            "address %s %s by ACL %r" % (ipaddress.IPv6Address(p), "is NOT matched" if exp else "IS matched", names))
            return None
        if op in ("cmp", "sub", "ncmp"):
            if out.startswith("EXC"):
                return ("oracle:%s:crash" % op, out[:100])
            if op == "ncmp":
                p = int(a[1], 16)
                iv = clean_interval(triple(a[2]))
                if iv is None:
                    return None
                exp = -1 if p < iv[0] else (1 if p > iv[1] else 0)
                got = int(out)
                if (got > 0) - (got < 0) != exp:
                    return ("oracle:ncmp:sign", "aclIpAddrNetworkCompare(%s, %s) = %s but the address is %s the value's range"
                            % (a[1], a[2], out, {-1: "below", 0: "inside", 1: "above"}[exp]))
                return None
            i1, i2 = clean_interval(triple(a[1])), clean_interval(triple(a[2]))
            if i1 is None or i2 is None:
                return None
            if op == "cmp":
                exp = -1 if i1[1] < i2[0] else (1 if i1[0] > i2[1] else 0)
                if int(out) != exp:
                    return ("oracle:cmp:order", "Compare(%s, %s) = %s, expected %d from the two ranges" % (a[1], a[2], out, exp))
            else:
                exp = i2[0] <= i1[0] and i1[1] <= i2[1]
                if (out == "1") != exp:
                    return ("oracle:sub:subset", "IsSubset(%s, %s) = %s but the first range %s inside the second"
                            % (a[1], a[2], out, "is" if exp else "is not"))
            return None
    except Exception as ex:
        return ("oracle:%s:unparsable" % op, "unparsable implementation output %r (%s)" % (out[:120], ex))
    return None


# ---------------------------------------------------------------- generators
def v4(x):
    return str(ipaddress.IPv4Address(x & 0xffffffff))


def v6(x):
    return str(ipaddress.IPv6Address(x))


def space_pool(fmt, base, width, bits):
    """every single address, CIDR network and range inside the 2^bits addresses starting at base"""
    n = 1 << bits
    pool = []
    for k in range(bits + 1):
        for i in range(0, n, 1 << k):
            pool.append("%s/%d" % (fmt(base + i), width - k))
    for i in range(n):
        pool.append(fmt(base + i))
        for j in range(i, n):
            pool.append("%s-%s" % (fmt(base + i), fmt(base + j)))
    return pool


B4 = int(ipaddress.IPv4Address("192.168.7.16"))
B6 = int(ipaddress.IPv6Address("2001:db8::a0"))
B6LOW = int(ipaddress.IPv6Address("::7:0:20"))

SMALL4 = ["%s/30" % v4(B4), "%s/30" % v4(B4 + 4), "%s/29" % v4(B4), v4(B4 + 2), "%s-%s" % (v4(B4 + 3), v4(B4 + 5)),
          "%s-%s" % (v4(B4 + 1), v4(B4 + 2)), "%s-%s" % (v4(B4 + 6), v4(B4 + 11)), "%s/29" % v4(B4 + 8),
          "%s-%s" % (v4(B4 + 4), v4(B4 + 7)), "%s/28" % v4(B4), "%s/31" % v4(B4 + 12), v4(B4 + 14)]
SMALL6 = ["%s/126" % v6(B6), "%s/126" % v6(B6 + 4), "%s/125" % v6(B6), v6(B6 + 2), "%s-%s" % (v6(B6 + 3), v6(B6 + 5)),
          "%s-%s" % (v6(B6 + 1), v6(B6 + 2)), "%s-%s" % (v6(B6 + 6), v6(B6 + 11)), "%s/125" % v6(B6 + 8),
          "%s-%s" % (v6(B6 + 4), v6(B6 + 7)), "%s/124" % v6(B6), "%s/127" % v6(B6 + 12), v6(B6 + 14)]

WIDE = ["10.0.0.0/8", "10.1.0.0/16", "10.1.2.0/24", "10.1.2.3", "10.0.0.0-10.1.255.255", "10.1.2.0-10.1.3.0/24",
        "127.0.0.0/8", "127.0.0.1", "192.168.0.0/16", "192.168.7.0/255.255.255.0", "172.16.0.0/12", "224.0.0.0/4",
        "0.0.0.0/8", "1.0.0.0-9.255.255.255", "128.0.0.0/1", "0.0.0.0/1",
        "::1", "::", "fe80::/10", "fc00::/7", "2001:db8::/32", "2001:db8::/64", "2001:db8::1", "2001:db8::1-2001:db8::ffff",
        "2001:db8:0:1::-2001:db8:0:4::/64", "::2-::9", "::1/128", "2000::/3", "ff00::/8", "8000::/1", "::/1"]
QUIRKY = ["0.0.0.0", "0.0.0.0/32", "255.255.255.255", "224.0.0.0-255.255.255.255", "0.0.0.0-0.0.0.255",
          "::/0", "::1-::5", "::1", "::5:0:0-::9:0:0/96", "255.255.255.255/32", "240.0.0.0/4", "::/127"]
GLOBALS = ["all", "ipv4", "ipv6"] + list(LEGACY)
OUTSIDE = ["10.0.0.1/24", "192.168.7.17/28", "10.0.0.9-10.0.0.1", "10.0.0.1-10.0.0.255/24", "2001:db8::5/64", "1.2.3.4/0",
           "10.0.0.0/255.0.255.0", "10.1.2.3/255.255.0.0", "::5-0.0.0.0", "10.0.0.0-0.0.0.0", "192.168.7.18-192.168.7.21/30",
           "2001:db8::a1-2001:db8::a6/126", "1.2.3.4-::5", "10.0.0.0/33", "bogus!", "10.0.0.0/", "::1/f", "300.1.1.1"]

SPECIAL_ADDRS = [0, 1, 2, V4ANY - 1, V4ANY, V4ANY + 1, V4BASE | 0x7f000001, V4NO - 1, V4NO, V4NO + 1, 1 << 64, (1 << 127),
                 ALL1 - 1, ALL1, int(ipaddress.IPv6Address("2001:db8::1")), int(ipaddress.IPv6Address("::7:0:21")),
                 0xfffe << 32, (0xffff << 32) - 1, 1 << 48, (1 << 48) - 1]
MASKS = [ALL1, ALL1 ^ 0xff, ALL1 ^ 0xffffff, ALL1 ^ ((1 << 64) - 1), ALL1 ^ ((1 << 96) - 1), 0, V4NO, V4ANY,
         ALL1 ^ 0xf0, ALL1 ^ 3, ALL1 ^ 0xffffffff, ALL1 ^ ((1 << 33) - 1), 0xffffffff00ff]


def rand_addr(rng):
    k = rng.random()
    if k < 0.3:
        return rng.choice(SPECIAL_ADDRS)
    if k < 0.6:
        return V4BASE | rng.choice([rng.getrandbits(32), B4 + rng.randrange(-2, 18), rng.randrange(0, 300)])
    if k < 0.8:
        return rng.choice([B6 + rng.randrange(-2, 18), B6LOW + rng.randrange(-2, 18), rng.getrandbits(128)])
    return rng.choice(SPECIAL_ADDRS) ^ (1 << rng.randrange(128)) if rng.random() < 0.5 else rng.getrandbits(rng.choice([8, 40, 48, 49, 120]))


def rand_triple(rng):
    m = rng.choice(MASKS) if rng.random() < 0.8 else ALL1 ^ ((1 << rng.randrange(0, 129)) - 1)
    a = rand_addr(rng)
    b = rng.choice([0, 0, a, a + rng.randrange(0, 40), rand_addr(rng)]) & ALL1
    if rng.random() < 0.6:
        a &= m
        b &= m
    return "%s/%s/%s" % (h128(a), h128(b), h128(m))


def rand_value_text(rng, fam=None):
    fam = fam or rng.choice("446")
    if fam == "4":
        fmt, base, width = v4, B4, 32
    else:
        fmt, base, width = v6, rng.choice([B6, B6, B6LOW]), 128
    k = rng.random()
    if k < 0.25:
        return fmt(base + rng.randrange(16))
    if k < 0.55:
        b = rng.randrange(0, 5)
        return "%s/%d" % (fmt(base + (rng.randrange(16) >> b << b)), width - b)
    i = rng.randrange(16)
    return "%s-%s" % (fmt(base + i), fmt(base + rng.randrange(i, 16)))


def probes_for(rng, toks, extra_quirky):
    ps = set()
    fams = set()
    for t in toks:
        d = denote(t)
        if d and d[0] == "set":
            for e in (d[1], d[2]):
                ps.update([(e - 1) % TOP, e, (e + 1) % TOP])
            if d[2] > d[1]:
                ps.add(rng.randrange(d[1], d[2] + 1))
            fams.add(is_v4(d[1]))
    ps.update([V4BASE | 0x7f000001, 1, V4BASE | 0x0a010203, int(ipaddress.IPv6Address("2001:db8::3")), rng.getrandbits(128),
               V4BASE | rng.getrandbits(32)])
    if not extra_quirky:
        ps -= {V4ANY, V4NO}
    else:
        ps.update([V4ANY, V4NO, 0, ALL1])
    ps = sorted(ps)
    if len(ps) > 24:
        ps = sorted(rng.sample(ps, 24))
    return ps


def gen_lists(rng, n):
    """lists of token texts + probe lists"""
    lists = []
    thorough = n > 60000
    all16_4 = [V4BASE | (B4 + i) for i in range(-1, 17)]
    all16_6 = [B6 + i for i in range(-1, 17)]
    # (1) exhaustively: every ordered list (all insertion orders, duplicates included) of up to 3 values from a pool
    #     of 12 overlapping values inside an IPv4 /28 and inside an IPv6 /124, probed with every address of the
    #     block and its two neighbours
    small = []
    for pool, probes in ((SMALL4, all16_4), (SMALL6, all16_6)):
        for k in (1, 2, 3):
            for t in itertools.product(pool, repeat=k):
                small.append((list(t), probes))
    budget = max(n * 2 // 5, 1)
    if len(small) > budget:
        small = rng.sample(small, budget)
    lists += small
    # (2) random lists of up to 8 values from the complete value pools of the two 16-address blocks
    full4 = space_pool(v4, B4, 32, 4)
    full6 = space_pool(v6, B6, 128, 4)
    full6l = space_pool(v6, B6LOW, 128, 4)
    for _ in range(n // 5):
        pool, probes = rng.choice([(full4, all16_4), (full6, all16_6), (full4 + full6, all16_4 + all16_6)])
        k = rng.choice([2, 3, 4, 4, 5, 6, 8])
        lists.append(([rng.choice(pool) for _ in range(k)], probes))
    # (3) mixed families, wide networks, global words, values with netmasks
    for _ in range(n // 6):
        k = rng.choice([1, 2, 3, 4, 6, 10])
        toks = []
        for _ in range(k):
            r = rng.random()
            if r < 0.45:
                toks.append(rng.choice(WIDE))
            elif r < 0.55:
                toks.append(rng.choice(GLOBALS))
            elif r < 0.8:
                toks.append(rand_value_text(rng))
            else:
                toks.append(rng.choice(full4 + full6l))
        lists.append((toks, probes_for(rng, toks, False)))
    # (4) the addresses the Ip::Address operators special-case (0.0.0.0 / 255.255.255.255 / ::) and "/0" next to
    #     IPv6 values (regressions of the repaired C42-anyaddr-order; known finding C42-prefix0)
    for _ in range(n // 25):
        k = rng.choice([1, 2, 2, 3, 4])
        toks = [rng.choice(QUIRKY) if rng.random() < 0.6 else rng.choice(WIDE + full6l[:60]) for _ in range(k)]
        lists.append((toks, probes_for(rng, toks, True)))
    # (5) values outside the scope of the property (host bits, reversed/cross-family ranges, bad tokens):
    #     correspondence only
    for _ in range(n // 25):
        k = rng.choice([1, 2, 3, 4])
        toks = [rng.choice(OUTSIDE) if rng.random() < 0.5 else rng.choice(WIDE + SMALL4) for _ in range(k)]
        lists.append((toks, probes_for(rng, toks, rng.random() < 0.3) + all16_4[:6]))
    return lists


_SPEC_CACHE = {}


def specs_for(tokens):
    """what the real parser (built from the working tree) makes of each distinct token"""
    need = sorted(set(t for t in tokens if t not in _SPEC_CACHE))
    if need:
        outs = corr.run_lines(impl(), ["parse " + hx(t.encode("latin1")) for t in need], env=ENV)
        for t, o in zip(need, outs):
            _SPEC_CACHE[t] = o if re.fullmatch(r"G|X|[0-9a-f/;]+", o) else "X"
    return _SPEC_CACHE


def acl_case(toks, probes):
    sp = specs_for(toks)
    return "acl %d %s" % (len(toks), " ".join(["%s=%s" % (hx(t.encode("latin1")), sp[t]) for t in toks] + [h128(p) for p in probes]))


def gen_cases(rng, n):
    cases = []
    lists = gen_lists(rng, n - n // 5)
    specs_for([t for toks, _ in lists for t in toks])
    for toks, probes in lists:
        cases.append(acl_case(toks, probes))
    # (6) the component functions on special and random addresses / triples
    known = [s for s in _SPEC_CACHE.values() if s not in ("G", "X") and ";" not in s]
    while len(cases) < n:
        op = rng.choice(["lt", "gt", "le", "ge", "mip", "eq", "fam", "amask", "dmask", "fl", "cmp", "cmp", "sub", "comb",
                         "ncmp", "ncmp"])
        if op in ("lt", "gt", "le", "ge", "mip", "eq"):
            x = rand_addr(rng)
            y = rng.choice([x, rand_addr(rng), rand_addr(rng)])
            cases.append("%s %s %s" % (op, h128(x), h128(y)))
        elif op == "fam":
            cases.append("fam " + h128(rand_addr(rng)))
        elif op == "amask":
            cases.append("amask %s %s" % (h128(rand_addr(rng)), h128(rng.choice(MASKS))))
        elif op == "dmask":
            cases.append("dmask %d %s" % (rng.choice([0, 1, 7, 8, 9, 24, 31, 32, 33, 64, 96, 127, 128, rng.randrange(0, 129)]), rng.choice("46")))
        elif op == "fl":
            cases.append("fl " + (rng.choice(known) if rng.random() < 0.5 else rand_triple(rng)))
        elif op in ("cmp", "sub", "comb"):
            t1 = rng.choice(known) if rng.random() < 0.6 else rand_triple(rng)
            t2 = rng.choice(known) if rng.random() < 0.6 else rand_triple(rng)
            cases.append("%s %s %s" % (op, t1, t2))
        else:
            t = rng.choice(known) if rng.random() < 0.6 else rand_triple(rng)
            a, b, m = triple(t)
            p = rng.choice([a, (a - 1) % TOP, (b or a) | (ALL1 ^ m), ((b or a) | (ALL1 ^ m)) + 1 & ALL1, rand_addr(rng), b])
            cases.append("ncmp %s %s" % (h128(p), t))
    return cases


def kind_fn(c, o):
    op = c.split()[0]
    if op == "acl":
        w = o.split()
        if len(w) != 6:
            return "acl:" + w[0][:5]
        b = w[4]
        frac = b.count("1") / max(len(b), 1)
        return "acl:probes-matched-" + ("0%" if frac == 0 else "<25%" if frac < 0.25 else "25-75%" if frac <= 0.75 else ">75%")
    if op in ("mip", "cmp", "ncmp"):
        return op + ":" + ("0" if o == "0" else "neg" if o.startswith("-") else "pos")
    if op in ("lt", "gt", "le", "ge", "eq", "sub"):
        return op + ":" + o[:3]
    return op


def nontrivial(c, o):
    a = c.split()
    if a[0] == "acl":
        w = o.split()
        return int(a[1]) >= 2 and len(w) == 6 and "1" in w[4] and "0" in w[4]
    return True


def mutate(rng, case):
    """a neighbouring case: swap / drop / add values, more probes"""
    a = case.split()
    if a[0] != "acl":
        return case
    toks, probes = split_acl(case)
    names = [t for t, _ in toks]
    k = rng.random()
    if k < 0.3 and len(names) > 1:
        i, j = rng.sample(range(len(names)), 2)
        names[i], names[j] = names[j], names[i]
    elif k < 0.45 and len(names) > 1:
        del names[rng.randrange(len(names))]
    elif k < 0.7:
        names.insert(rng.randrange(len(names) + 1), rand_value_text(rng))
    else:
        probes = probes + probes_for(rng, names, False)[:8]
    return acl_case(names, probes)


def norm_impl(line):
    # the model's only statement about a freed-but-still-stored value is "behaviour undefined"; under
    # AddressSanitizer the implementation dies on the next access to it
    return "UB" if line.startswith("CRASH") else line


def norm_model(line):
    return "UB" if line == "HANG" else line


def run(res, tier):
    res.rule = ("ordered lists (<= 3 values, all orders, duplicates included; sampled down to 2/5 of the case budget) from 12 "
                "overlapping single/CIDR/range values inside an IPv4 /28 and an IPv6 /124, probed with all 16 addresses of the "
                "block and both neighbours; random lists of up to 8 values from ALL 167 values of each block; mixed-family "
                "lists with wide networks, netmasks, all/ipv4/ipv6 and the legacy spellings; the special-cased addresses "
                "0.0.0.0 / 255.255.255.255 / :: and /0 next to IPv6 values; values with host bits, reversed and "
                "cross-family ranges, bad tokens (correspondence only); Ip::Address operators, firstAddress/lastAddress, "
                "Compare/IsSubset/MakeCombinedValue, aclIpAddrNetworkCompare on special and random addresses and triples. "
                "An acl case is non-trivial when it has >= 2 values and both matching and non-matching probes")
    res.trusted.append("text -> (addr1, addr2, mask) is not modelled: every case carries, for each token, the triple(s) the real "
                       "acl_ip_data::FactoryParse()/ACLIP::parseGlobal() of the working tree produced (harness entry `parse`), "
                       "the harness re-derives and compares them while running the case, and the Python oracle judges the "
                       "final answers from the token TEXT with Python's ipaddress module")
    std.run_standard(res, PID, tier, area="aclip", build_impl=impl, gen_cases=gen_cases, oracle=oracle,
                     corr_name="AclipModel/SplayModel vs src/acl/Ip.cc, src/acl/SplayInserter.h, src/ip/Address.cc, include/splay.h",
                     gens=[], n_quick=5000, n_thorough=150000, seed_salt=42, mutate=mutate,
                     kind_fn=kind_fn, nontrivial_fn=nontrivial, norm_impl=norm_impl, norm_model=norm_model,
                     impl_env=ENV)
