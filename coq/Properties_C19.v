(* Properties_C19.v — C19 (placeholder while the pipeline is brought up). *)
Require Import SquidV.Bytes SquidV.RwlockModel SquidV.SmpModel SquidV.SmpProofs.
Local Open Scope N_scope.
Theorem C19_lock_unlock_shared : forall l l', lockShared l = (l', true) -> unlockShared l' = l.
Proof. exact lock_unlock_shared. Qed.
Print Assumptions C19_lock_unlock_shared.
