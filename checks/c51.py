"""C51: the bounded LRU/TTL map (src/base/ClpMap.h) behaves like its specification."""
import collections
from vlib import std, hbuild, corr

PID = "C51"
META = {
    "text": "Theorems (Properties_C51.v, 7, closed under the global context) state for ALL operation histories "
            "(get/add/add-with-default-TTL/del/setMemLimit/arbitrary clock changes, any capacity, any key and value "
            "sizes, any TTL incl. 0 and negative, for every Value type, MemoryUsedBy function and sizeof constants) that a "
            "line-by-line model of ClpMap (entry list + first-match index, uint64 counters with wrap-around, the "
            "assert()s, the trim() loop with fuel) returns exactly what a small reference specification returns "
            "(keyed list with deadlines; lookup=find, removal=filter, eviction=longest fitting MRU prefix; memory = sum "
            "of sizes), that memoryUsed() equals the sum of the stored sizes and never exceeds memLimit(), that no "
            "assert() fires and the loop bound is never hit, that keys stay unique, and that every operation removes, "
            "besides the addressed key, only a least-recently-used suffix, and no more of it than needed; that every entry "
            "is accounted at exactly key length + MemoryUsedBy(value) + the two sizeof overheads; and that get() serves "
            "exactly the stored entry of that key while its expiry time (saturating now+ttl) has not passed. The model is "
            "tied to the code by differential runs of the extracted model against the real template compiled from the "
            "working tree (UBSan), on the same histories, comparing every result, memoryUsed(), entries() and the "
            "final LRU traversal (key, value, expires, memCounted).",
    "note": "Trusted: Coq kernel, extraction, gen/gen_clpmap.cc (sizeof constants, time_t/int limits), harness/h_clpmap.cc; "
            "std::list/std::unordered_map are modelled as a list with first-match lookup (the harness additionally checks "
            "index_/entries_ consistency on the real object). The hand-written ClpmapModel.v is validated against the code "
            "only on the generated histories. Observation (not a violation of C51): add() returning false after its "
            "internal del(key) leaves the map WITHOUT the previous entry of that key although the header comment says "
            "'the map remains unchanged'; model and specification both describe what the code does. A negative "
            "squid_curtime makes new entries immortal (expires = max time_t).",
    "technique": "Coq proof (refinement to a specification by per-operation commutation lemmas + inductive invariant, "
                 "lifted to all histories by induction) + extracted-model differential correspondence",
}
LINK = ["tests/stub_debug.o", "tests/stub_libmem.o", "sbuf/libsbuf.la", "base/libbase.la", "../compat/libcompatsquid.la"]
U64 = 2 ** 64 - 1
TMAX = 2 ** 63 - 1
INT_MAX = 2 ** 31 - 1
INT_MIN = -2 ** 31


def impl(sanitize="ubsan"):
    # src/base/ClpMap.h is a header-only template: it is compiled from /repo's working tree into the harness
    # unit itself (hbuild keys the object on the preprocessed text, so any edit to it rebuilds the harness)
    return hbuild.build("h_clpmap", "h_clpmap.cc", fresh=[], link=LINK, sanitize=sanitize)


def prebuild():
    impl()


def hx(b):
    return bytes(b).hex() if len(b) else "-"


def klen(h):
    return 0 if h == "-" else len(h) // 2


# ---------------------------------------------------------------- generator
OVH_GUESS = 88  # only used to aim capacities at interesting places; the real value is read from the output


def gen_case(rng):
    nkeys = rng.choice([1, 2, 3, 3, 4, 5, 6, 8, 12])
    keys = []
    while len(keys) < nkeys:
        n = rng.choice([0, 1, 1, 2, 3, 5, 8, 17, 40])
        k = hx(bytes(rng.choice([0, 97, 98, 255, rng.randrange(256)]) for _ in range(n)))
        if k not in keys:
            keys.append(k)
    vszs = [rng.choice([0, 1, 4, 10, 12, 100, 112]) for _ in range(3)]
    unit = OVH_GUESS + klen(keys[0]) + vszs[0]
    style = rng.random()
    if style < 0.08:
        cap = rng.choice([0, 0, 1, OVH_GUESS - 1, OVH_GUESS, OVH_GUESS + 1])
    elif style < 0.75:
        cap = unit * rng.choice([1, 2, 2, 3, 3, 4, 5, 8]) + rng.choice([-1, 0, 0, 0, 1, rng.randrange(0, 60)])
    elif style < 0.93:
        cap = rng.choice([1000, 4096, 100000, 2 ** 32, 2 ** 32 + 5])
    else:
        cap = rng.choice([U64, U64 - 1, 2 ** 63, 2 ** 63 - 1])
    cap = max(cap, 0)
    t0 = rng.choice([0, 0, 1, 1000, 1000, 1700000000, 1700000000, -1, -50, TMAX, TMAX - 3, TMAX - 100, -2 ** 63])
    dttl = rng.choice(["-", "-", "0", "1", "5", "60", str(INT_MAX)])
    now = t0
    ttls_seen = [5]
    added = []
    ops = []
    for _ in range(rng.choice([1, 3, 6, 10, 16, 24, 24, 40, 60])):
        r = rng.random()
        k = rng.choice(keys)
        if r < 0.40:
            q = rng.random()
            if q < 0.80:
                vsz = rng.choice(vszs)
            elif q < 0.90:
                vsz = max(0, cap - OVH_GUESS - klen(k) + rng.choice([-2, -1, 0, 1, 2]))
            elif q < 0.96:
                vsz = U64 - OVH_GUESS - klen(k) + rng.choice([-2, -1, 0, 1, 2, OVH_GUESS])
            else:
                vsz = rng.choice([U64, U64 - 1, 2 ** 63, rng.randrange(0, 5000)])
            vsz = min(max(vsz, 0), U64)
            vid = rng.randrange(1, 1000)
            added.append(k)
            if rng.random() < 0.15:
                ops.append("A:%s:%d:%d" % (k, vid, vsz))
            else:
                ttl = rng.choice([0, 0, 1, 1, 2, 5, 5, 10, 60, 3600, -1, -1, -5, INT_MAX, INT_MAX - 1, INT_MIN,
                                  rng.randrange(0, 100)])
                ttls_seen.append(max(ttl, 0))
                ops.append("a:%s:%d:%d:%d" % (k, vid, vsz, ttl))
        elif r < 0.72:
            if added and rng.random() < 0.7:
                k = rng.choice(added[-3:])      # mostly ask for something recently stored
            ops.append("g:" + k)
        elif r < 0.79:
            ops.append("d:" + k)
        elif r < 0.87:
            q = rng.random()
            if q < 0.6:
                n = unit * rng.choice([0, 1, 1, 2, 2, 3, 4, 6]) + rng.choice([-1, 0, 0, 1, rng.randrange(0, 50)])
            elif q < 0.8:
                n = rng.choice([0, 1, cap, cap + 1, max(cap - 1, 0), cap // 2])
            else:
                n = rng.choice([U64, 2 ** 32, 10000, rng.randrange(0, 1000)])
            n = min(max(n, 0), U64)
            ops.append("l:%d" % n)
        else:
            q = rng.random()
            if q < 0.75:
                d = rng.choice([0, 1, 1, 1, 2, 3, 5, 6, 10, 11, 61, rng.choice(ttls_seen), rng.choice(ttls_seen) + 1])
                now = now + d
            elif q < 0.85:
                now = now - rng.choice([1, 2, 5, 100])
            else:
                now = rng.choice([0, -1, -1000, TMAX, TMAX - 1, 1700000000, t0])
            now = min(max(now, -2 ** 63), TMAX)
            ops.append("t:%d" % now)
    return "seq %d %d %s %s" % (t0, cap, dttl, " ".join(ops))


def gen_cases(rng, n):
    return [gen_case(rng) for _ in range(n)]


# ---------------------------------------------------------------- oracle
def parse_out(out):
    """-> (entry_size, index_size, [(kind, value, used, count)], [final entries], final limit) or raises"""
    head, _, tail = out.partition(" |")
    toks = head.split()
    e, i = toks[0][1:].split("+")
    steps = []
    for t in toks[1:]:
        r, _, rest = t.partition("[")
        used, cnt = rest.rstrip("]").split(",")
        steps.append((r, int(used), int(cnt)))
    tail = tail.strip()
    lim = int(tail[tail.rindex("L") + 1:])
    body = tail[:tail.rindex("L")].strip()
    ents = []
    if body:
        for x in body.split(","):
            k, vid, vsz, exp, mem = x.split(":")
            ents.append((k, int(vid), int(vsz), int(exp), int(mem)))
    return int(e), int(i), steps, ents, lim


def oracle(case, out):
    """C51 stated independently of the Coq model and evaluated on the IMPLEMENTATION's answers: a reference
    LRU/TTL/capacity map (an OrderedDict, least recently used first) is driven by the same history; every get()
    and add() answer, memoryUsed(), entries() and the final traversal must be the reference's; accounted memory
    must never exceed the capacity; victims must be the least recently used entries only.
    Returns None or (signature, description)."""
    if out.startswith("SKIP"):
        return None   # the harness stopped after an endless loop in an earlier case (reported there)
    if out.startswith("CRASH") or "EXC" in out or "ERR" in out or "BAD-" in out:
        return ("oracle:crash", "implementation crashed / asserted / looped / broke its own index: " + out[-200:])
    try:
        E, I, steps, ents, flimit = parse_out(out)
    except Exception as ex:
        return ("oracle:unparsable", "unparsable implementation output (%s)" % ex)
    a = case.split()
    now = int(a[1]); limit = int(a[2]); dttl = INT_MAX if a[3] == "-" else int(a[3])
    ops = a[4:]
    if len(ops) != len(steps):
        return ("oracle:unparsable", "%d operations but %d answers" % (len(ops), len(steps)))
    ref = collections.OrderedDict()  # key -> [id, vsz, expires, size]; last = most recently used

    def used():
        return sum(v[3] for v in ref.values())

    for n, (o, (r, iused, icnt)) in enumerate(zip(ops, steps)):
        f = o.split(":")
        where = "op #%d `%s`" % (n + 1, o)
        exp = None
        if f[0] == "g":
            e = ref.get(f[1])
            if e is not None and e[2] >= now:
                ref.move_to_end(f[1]); exp = "g=%d" % e[0]
            else:
                ref.pop(f[1], None); exp = "g=n"
            if r != exp:
                return ("oracle:get", "%s: get answered %s, the reference LRU/TTL map answers %s" % (where, r, exp))
        elif f[0] in ("a", "A"):
            k, vid, vsz = f[1], int(f[2]), int(f[3])
            ttl = int(f[4]) if f[0] == "a" else dttl
            if limit == 0:
                exp = "a=0"
            else:
                ref.pop(k, None)
                size = klen(k) + vsz + E + I
                if ttl < 0 or size > U64 or size > limit or size == 0:
                    exp = "a=0"
                else:
                    while used() + size > limit:
                        ref.popitem(last=False)      # least recently used first
                    ref[k] = [vid, vsz, TMAX if now < 0 else min(TMAX, now + ttl), size]
                    exp = "a=1"
            if r != exp:
                return ("oracle:add", "%s: add answered %s, the reference answers %s" % (where, r, exp))
        elif f[0] == "d":
            ref.pop(f[1], None)
        elif f[0] == "l":
            limit = int(f[1])
            while used() > limit:
                ref.popitem(last=False)
        elif f[0] == "t":
            now = int(f[1])
        if iused > limit:
            return ("oracle:mem-over-limit", "%s: memoryUsed()=%d exceeds memLimit()=%d" % (where, iused, limit))
        if icnt != len(ref) or iused != used():
            return ("oracle:purge-or-accounting",
                    "%s: entries()=%d memoryUsed()=%d, but the reference LRU map (which purges least recently used "
                    "entries only, and only as many as needed) holds %d entries accounting for %d bytes: wrong victims, "
                    "needless or missing purge, or wrong accounting" % (where, icnt, iused, len(ref), used()))
    want = [(k, v[0], v[1], v[2], v[3]) for k, v in reversed(ref.items())]
    if ents != want:
        return ("oracle:final-traversal", "final LRU traversal %s differs from the reference %s (wrong victims, order, "
                "expiry or accounting)" % (ents[:6], want[:6]))
    if flimit != limit:
        return ("oracle:limit", "memLimit()=%d, expected %d" % (flimit, limit))
    if sum(e[4] for e in ents) > flimit:
        return ("oracle:mem-over-limit", "final entries account for more than memLimit()")
    return None


def mutate(rng, case):
    """a neighbouring history: drop / duplicate / retarget one operation, or nudge a number by one"""
    a = case.split()
    ops = a[4:]
    if not ops:
        return case
    i = rng.randrange(len(ops))
    r = rng.random()
    if r < 0.25 and len(ops) > 1:
        del ops[i]
    elif r < 0.45:
        ops.insert(i, ops[rng.randrange(len(ops))])
    elif r < 0.6:
        a[2] = str(max(0, int(a[2]) + rng.choice([-1, 1, -88, 88])))
    else:
        f = ops[i].split(":")
        if f[0] in ("l", "t"):
            f[1] = str(min(max(int(f[1]) + rng.choice([-1, 1]), 0 if f[0] == "l" else -2 ** 63), U64 if f[0] == "l" else TMAX))
        elif f[0] == "a":
            j = rng.choice([3, 4])
            lo, hi = (0, U64) if j == 3 else (INT_MIN, INT_MAX)
            f[j] = str(min(max(int(f[j]) + rng.choice([-1, 1]), lo), hi))
        elif f[0] == "g":
            f[0] = "d"
        ops[i] = ":".join(f)
    return " ".join(a[:4] + ops)


def kind(case, out):
    if not out.startswith("o") or "EXC" in out or "BAD-" in out:
        return "abnormal"
    toks = out.partition(" |")[0].split()[1:]
    hit = sum(t.startswith("g=") and not t.startswith("g=n") for t in toks)
    miss = sum(t.startswith("g=n") for t in toks)
    ok = sum(t.startswith("a=1") for t in toks)
    rej = sum(t.startswith("a=0") for t in toks)
    purge = False
    prev = 0
    for t in toks:
        c = int(t.partition(",")[2].rstrip("]") or 0) if "[" in t else prev
        if (t.startswith("a=1") and c <= prev) or (t.startswith("l[") and c < prev):
            purge = True
        prev = c
    return "%s/%s/%s" % ("hit>=miss" if hit >= miss else "miss>hit", "add-ok>=rej" if ok >= rej else "rej>ok",
                         "purged" if purge else "no-purge")


def nontrivial(case, out):
    head = out.partition(" |")[0]
    return "a=1" in head and ("g=" in head.replace("g=n", ""))


def shrink(exe, case, sig, rounds=60):
    """delta-debugging on the operation list: the shortest history found on which the implementation still
    fails the oracle with the same signature. Returns (case, implementation output, oracle description)."""
    a = case.split()
    head, ops = a[:4], a[4:]
    best = None

    def first_failing(cands):
        outs = corr.run_lines(exe, [" ".join(head + c) for c in cands], timeout=120)
        for c, o in zip(cands, outs):
            v = oracle(" ".join(head + c), o)
            if v and v[0] == sig:
                return c, o, v[1]
        return None

    chunk = max(len(ops) // 2, 1)
    while chunk >= 1 and rounds > 0 and ops:
        rounds -= 1
        cands = [ops[:i] + ops[i + chunk:] for i in range(0, len(ops), chunk)]
        hit = first_failing([c for c in cands if len(c) < len(ops)])
        if hit:
            ops, best = hit[0], hit
            chunk = min(chunk, max(len(ops) // 2, 1))
        else:
            chunk //= 2
    if best is None:
        return None
    return " ".join(head + best[0]), best[1], best[2]


def minimise_violations(res):
    """post-processing of what run_standard found: shrink each failing history and put the reason first"""
    try:
        exe = impl()
    except Exception:
        return
    out = []
    for n, (sig, desc, replay) in enumerate(res.violations):
        if n < 5 and isinstance(replay, dict) and replay.get("case") and not replay.get("no_failing_input_found"):
            try:
                m = shrink(exe, replay["case"], sig)
            except Exception:
                m = None
            if m:
                replay = dict(replay, original_case=replay["case"], case=m[0], impl=m[1], oracle=m[2])
                desc = "%s: %s -- minimised history `%s`, implementation answered `%s`" % (PID, m[2], m[0][:300], m[1][:250])
        out.append((sig, desc, replay))
    res.violations[:] = out


def run(res, tier):
    res.rule = ("operation histories (1..60 ops over 1..12 keys of length 0..40: 40% add [15% of them with the map's default "
                "TTL], 32% get, 7% del, 8% setMemLimit, 13% clock changes incl. backwards/negative/max time_t) x capacities "
                "{0, below one entry, 1..8 entries +-1, large, 2^64-1} x value sizes {small, capacity-fitting +-2, "
                "uint64-overflowing +-2} x TTLs {0, 1, small, INT_MAX, negative, INT_MIN}; a case is non-trivial when at "
                "least one add succeeded and at least one get hit")
    std.run_standard(res, PID, tier, area="clpmap", build_impl=impl, gen_cases=gen_cases, oracle=oracle,
                     corr_name="ClpmapModel vs src/base/ClpMap.h", gens=["clpmap"],
                     n_quick=15000, n_thorough=300000, seed_salt=51, mutate=mutate,
                     kind_fn=kind, nontrivial_fn=nontrivial)
    minimise_violations(res)
