#!/usr/bin/env python3
"""Source-level table generator for C40 (FtpModel.v): facts that can only be read off the program text of the
tree given as argv[1]:
  * src/servers/FtpServer.cc: Ftp::Server::handlePortRequest / handleEprtRequest reject an empty parameter
    string, declare a fresh Ip::Address, hand params.termedBuf() to Ftp::ParseIpPort(…, nullptr, …) /
    Ftp::ParseProtoIpPort and return false when the parser refuses, before createDataConnection() is reached;
  * src/clients/FtpGateway.cc: the size of the function-static tbuf[] of ftpListParseParts and that every
    write to it is an snprintf(tbuf, sizeof(tbuf), …).
The model's preconditions (non-empty EPRT argument, fresh address) and the tbuf capacity rest on these."""
import re, sys

repo = sys.argv[1]


def strip(txt):
    txt = re.sub(r"/\*.*?\*/", " ", txt, flags=re.S)
    txt = re.sub(r"//[^\n]*", " ", txt)
    return re.sub(r"\s+", " ", txt)


def body_of(txt, header_re):
    """text of the brace-balanced body following the first match of header_re"""
    m = re.search(header_re, txt)
    if not m:
        return None
    i = txt.find("{", m.end())
    if i < 0:
        return None
    depth = 0
    for j in range(i, len(txt)):
        if txt[j] == "{":
            depth += 1
        elif txt[j] == "}":
            depth -= 1
            if depth == 0:
                return txt[i:j + 1]
    return None


def handler_shape(txt, method, parser, extra_args):
    """the four steps, in this order, with nothing touching the address variable in between; the names of the
    parameter and of the local are read from the text (renaming them is harmless)"""
    m = re.search(r"Ftp::Server::" + method + r"\( ?String ?& ?\w*, String ?& ?(\w+) ?\)", txt)
    if not m:
        return False
    par = m.group(1)
    body = body_of(txt, r"Ftp::Server::" + method + r"\(")
    if body is None:
        return False
    d = re.search(r"Ip::Address (\w+);", body)
    if not d:
        return False
    var = d.group(1)
    call = parser + r"\( ?" + par + r"\.termedBuf\(\), " + extra_args + var + r" ?\)"
    steps = [r"if \( ?(?:!" + par + r"\.size\(\)|" + par + r"\.size\(\) ?(?:== ?0|<= ?0|< ?1)) ?\) \{[^{}]*return false; \}",
             r"Ip::Address " + var + ";",
             r"if \( ?!" + call + r" ?\) \{[^{}]*return false; \}",
             r"if \( ?!createDataConnection\(" + var + r"\) ?\) return false;"]
    pos = 0
    spans = []
    for s in steps:
        mm = re.compile(s).search(body, pos)
        if not mm:
            return False
        spans.append((mm.start(), mm.end()))
        pos = mm.end()
    word = re.compile(r"\b" + var + r"\b")
    # between the declaration and the parser call, and between the call and its use, the variable is not mentioned
    if word.search(body[spans[1][1]:spans[2][0]]) or word.search(body[spans[2][1]:spans[3][0]]):
        return False
    # and not before its declaration either
    if word.search(body[:spans[1][0]]):
        return False
    return True


srv = strip(open(repo + "/src/servers/FtpServer.cc", encoding="latin1").read())
port_ok = handler_shape(srv, "handlePortRequest", r"Ftp::ParseIpPort", r"nullptr, ")
eprt_ok = handler_shape(srv, "handleEprtRequest", r"Ftp::ParseProtoIpPort", r"")

gw = strip(open(repo + "/src/clients/FtpGateway.cc", encoding="latin1").read())
lp = body_of(gw, r"ftpListParseParts\(const char \*buf, struct Ftp::GatewayFlags flags\)") or ""
m = re.search(r"static char tbuf\[(\d+)\];", lp)
tbuf_size = int(m.group(1)) if m else 0
uses = re.findall(r"\b(\w+)\( ?tbuf\b([^;]*);", lp)
writes_ok = bool(m)
n_snprintf = 0
for fn, rest in uses:
    if fn == "snprintf":
        n_snprintf += 1
        if not re.match(r" ?, ?sizeof\(tbuf\) ?,", rest):
            writes_ok = False
    elif fn in ("xstrdup",):
        pass                       # read only
    else:
        writes_ok = False          # any other function taking tbuf as first argument
if n_snprintf == 0 or re.search(r"\btbuf\[[^\]]*\] ?=[^=]", lp.replace("static char tbuf[%d];" % tbuf_size, "")):
    writes_ok = False
m = re.search(r"if \( ?strlen\(line\) > (\d+) ?\)", body_of(gw, r"Ftp::Gateway::htmlifyListEntry\(") or "")
line_max = int(m.group(1)) if m else 0

cf = open(repo + "/src/cf.data.pre", encoding="latin1").read()
m = re.search(r"\nNAME: ftp_sanitycheck\n(.*?)\nDOC_START", cf, re.S)
d = re.search(r"^DEFAULT:[ \t]*(\S+)", m.group(1), re.M) if m else None
sanity_default = (d.group(1) == "on") if d else False


def b(x):
    return "true" if x else "false"


print("@@FILE FtpSrc_gen.v")
print("(* generated from the program text of /repo by gen/gen_ftpsrv.py -- do not edit *)")
print("Require Import SquidV.Bytes.\nLocal Open Scope N_scope.")
print("(* FtpServer.cc: handlePortRequest = empty-parameter guard; fresh Ip::Address; ParseIpPort(params, nullptr, addr) or 501; then createDataConnection *)")
print("Definition port_handler_guarded : bool := %s." % b(port_ok))
print("(* FtpServer.cc: handleEprtRequest = empty-parameter guard; fresh Ip::Address; ParseProtoIpPort(params, addr) or 501; then createDataConnection *)")
print("Definition eprt_handler_guarded : bool := %s." % b(eprt_ok))
print("(* FtpGateway.cc ftpListParseParts: static char tbuf[N] and every write to it is snprintf(tbuf, sizeof(tbuf), ...) *)")
print("Definition tbuf_size : N := %d." % tbuf_size)
print("Definition tbuf_writes_are_sized_snprintf : bool := %s." % b(writes_ok))
print("(* FtpGateway.cc htmlifyListEntry: lines longer than this are not handed to ftpListParseParts *)")
print("Definition list_line_max : N := %d." % line_max)
print("(* cf.data.pre: ftp_sanitycheck default *)")
print("Definition ftp_sanitycheck_default : bool := %s." % b(sanity_default))
