// Harness: the real ClpMap template (src/base/ClpMap.h from /repo's working tree),
// instantiated as ClpMap<SBuf, HVal, HValMem>, with squid_curtime set by the case.
//
// stdin, one case per line:
//   seq <t0> <capacity> <defaultTtl|-> <op> <op> ...
//     a:<keyhex>:<id>:<vsz>:<ttl>   add(key, {id,vsz}, ttl)
//     A:<keyhex>:<id>:<vsz>         add(key, {id,vsz})            (map default TTL)
//     g:<keyhex>                    get(key)
//     d:<keyhex>                    del(key)
//     l:<n>                         setMemLimit(n)
//     t:<z>                         squid_curtime = z
// stdout, one line per case:
//   o<sizeof Entry>+<sizeof IndexItem> <r>[<memoryUsed>,<entries>] ... | <key>:<id>:<vsz>:<expires>:<memCounted>,...
//   where <r> is g=<id> / g=n / a=1 / a=0 / d / l / t, and the dump after '|' lists
//   the stored entries from most to least recently used, followed by " L<memLimit>".
#include "h_clpmap_types.h"
#include "hcommon.h"
#include <memory>
#include <stdexcept>
#include <signal.h>
#include <sys/time.h>
#include <unistd.h>

time_t squid_curtime = 0;

struct AssertionFailure: public std::runtime_error {
    explicit AssertionFailure(const std::string &m): std::runtime_error(m) {}
};

// squid's assert() lands here (this definition wins over compat/assert.cc in the archive)
void xassert(const char *expr, const char *, int)
{
    throw AssertionFailure(std::string("ASSERT ") + expr);
}

static SBuf sb(const std::string &hex) { std::string r = unhex(hex); return SBuf(r.data(), r.size()); }
static std::string hx(const SBuf &b) { return tohex(b.rawContent(), b.length()); }

static std::vector<std::string> splitc(const std::string &s) {
    std::vector<std::string> v;
    std::string cur;
    for (char c : s) {
        if (c == ':') { v.push_back(cur); cur.clear(); }
        else cur.push_back(c);
    }
    v.push_back(cur);
    return v;
}

static void obs(std::ostringstream &o, const HMap &m) {
    o << "[" << m.memoryUsed() << "," << m.entries() << "]";
    // internal consistency of the two containers (cannot be expressed by the model, which has no index)
    if (m.index_.size() != m.entries_.size())
        o << "BAD-INDEX-SIZE";
}

static void runCase(const std::vector<std::string> &a, std::ostringstream &o) {
    squid_curtime = static_cast<time_t>(std::stoll(a.at(1)));
    const uint64_t cap = std::stoull(a.at(2));
    std::unique_ptr<HMap> mp;
    if (a.at(3) == "-")
        mp.reset(new HMap(cap));
    else
        mp.reset(new HMap(cap, static_cast<int>(std::stoll(a.at(3)))));
    HMap &m = *mp;
    o << "o" << sizeof(HMap::Entries::value_type) << "+" << sizeof(HMap::Index::value_type);
    for (size_t i = 4; i < a.size(); ++i) {
        const auto f = splitc(a[i]);
        const std::string &op = f.at(0);
        o << " ";
        if (op == "a" || op == "A") {
            HVal v;
            v.id = std::stoull(f.at(2));
            v.sz = std::stoull(f.at(3));
            const bool r = (op == "a") ? m.add(sb(f.at(1)), v, static_cast<int>(std::stoll(f.at(4))))
                           : m.add(sb(f.at(1)), v);
            o << "a=" << (r ? 1 : 0);
        } else if (op == "g") {
            const HVal *v = m.get(sb(f.at(1)));
            if (v) o << "g=" << v->id; else o << "g=n";
        } else if (op == "d") {
            m.del(sb(f.at(1)));
            o << "d";
        } else if (op == "l") {
            m.setMemLimit(std::stoull(f.at(1)));
            o << "l";
        } else if (op == "t") {
            squid_curtime = static_cast<time_t>(std::stoll(f.at(1)));
            o << "t";
        } else {
            o << "ERR-op";
        }
        obs(o, m);
    }
    o << " |";
    bool first = true;
    for (const auto &e : m) {
        o << (first ? " " : ",") << hx(e.key) << ":" << e.value.id << ":" << e.value.sz << ":" << e.expires << ":" << e.memCounted;
        first = false;
        // every stored entry must be reachable through the index, at its own position
        const auto i = m.index_.find(e.key);
        if (i == m.index_.end() || &*(i->second) != &e)
            o << "BAD-INDEX";
    }
    o << " L" << m.memLimit();
}

// Watchdog: a case that makes ClpMap loop (e.g. trim() never reaching its goal) must become
// an answer, not a hung check. After 2 s of CPU time inside one case: report it as hung,
// answer every remaining input line with SKIP, and stop.
static void onHang(int) {
    static const char msg[] = " EXC HANG no answer within 2 s of CPU time (endless loop)\n";
    (void)!write(1, msg, sizeof(msg) - 1);
    std::string rest;
    while (std::getline(std::cin, rest)) {
        static const char skip[] = "SKIP after-hang\n";
        (void)!write(1, skip, sizeof(skip) - 1);
    }
    _exit(0);
}
static void armWatchdog(const time_t seconds) {
    struct itimerval t = {};
    t.it_value.tv_sec = seconds;
    setitimer(ITIMER_VIRTUAL, &t, nullptr);
}

int main() {
    signal(SIGVTALRM, onHang);
    std::string line;
    while (std::getline(std::cin, line)) {
        auto a = splitws(line);
        if (a.empty()) { std::cout << "\n"; continue; }
        std::ostringstream o;
        armWatchdog(2);
        try {
            if (a[0] == "seq") runCase(a, o);
            else o << "ERR unknown-entry " << a[0];
        } catch (const AssertionFailure &e) { o << " EXC " << e.what(); }
        catch (const std::exception &e) { o << " EXC " << e.what(); }
        armWatchdog(0);
        std::cout << o.str() << "\n" << std::flush;
    }
    return 0;
}
