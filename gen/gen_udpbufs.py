#!/usr/bin/env python3
"""Table generator for C39 (AdversarialModel.v): the receive-buffer discipline of the three UDP listeners, read from the
text of the tree given as argv[1] (these are function-local static arrays, so no compiled program can report them):

  src/snmp_core.cc  snmpHandleUdp : static char buf[SNMP_REQUEST_SIZE]; memset(buf, 0, sizeof(buf)); recvfrom(.., sizeof(buf)-K, ..)
  src/icp_v2.cc     icpHandleUdp  : LOCAL_ARRAY(char, buf, SQUID_UDP_SO_RCVBUF); recvfrom(.., SQUID_UDP_SO_RCVBUF - K, ..); buf[len] = '\\0'
  src/htcp.cc       htcpRecv      : static char buf[N]; recvfrom(.., sizeof(buf) - K, ..)
  lib/snmplib/snmp_api.c snmp_parse : u_char Community[N]; int CommunityLen = M
  lib/snmplib/asn1.c asn_parse_header : the sanity bound on an object's length

A construct that can no longer be found makes the generator fail (the check then reports a broken obligation)."""
import re, sys

repo = sys.argv[1]


def rd(p):
    return open(repo + "/" + p, encoding="latin1").read()


def body_of(txt, header_re):
    """text of the function whose header matches header_re (from the header to the closing brace at column 0)"""
    m = re.search(header_re, txt, re.M)
    assert m, "function not found: " + header_re
    end = txt.find("\n}\n", m.end())
    assert end > 0, "function end not found: " + header_re
    return txt[m.start():end]


def slack(expr, what):
    """K of an expression `X - K` / `X-K` / `X`"""
    expr = expr.strip()
    m = re.fullmatch(r"(sizeof\s*\(\s*buf\s*\)|SQUID_UDP_SO_RCVBUF)\s*(?:-\s*(\d+))?", expr)
    assert m, "%s: unrecognised receive limit %r" % (what, expr)
    return m.group(1), int(m.group(2) or 0)


# ---- SNMP
f = body_of(rd("src/snmp_core.cc"), r"^snmpHandleUdp\(int sock, void \*\)")
m = re.search(r"static\s+char\s+buf\[\s*SNMP_REQUEST_SIZE\s*\]\s*;", f)
assert m, "snmpHandleUdp: static char buf[SNMP_REQUEST_SIZE]"
mz = re.search(r"memset\(\s*buf\s*,\s*(?:'\\0'|0)\s*,\s*sizeof\s*\(\s*buf\s*\)\s*\)\s*;", f)
mr = re.search(r"comm_udp_recvfrom\(\s*sock\s*,\s*buf\s*,\s*([^,]+),", f)
assert mr, "snmpHandleUdp: comm_udp_recvfrom(sock, buf, <limit>, ..)"
_, snmp_slack = slack(mr.group(1), "snmpHandleUdp")
snmp_zeroed = bool(mz) and mz.start() < mr.start()

# ---- ICP
f = body_of(rd("src/icp_v2.cc"), r"^icpHandleUdp\(int sock, void \*\)")
assert re.search(r"LOCAL_ARRAY\(\s*char\s*,\s*buf\s*,\s*SQUID_UDP_SO_RCVBUF\s*\)\s*;", f), "icpHandleUdp: LOCAL_ARRAY(char, buf, SQUID_UDP_SO_RCVBUF)"
mr = re.search(r"comm_udp_recvfrom\(\s*sock\s*,\s*buf\s*,\s*([^,]+),", f)
assert mr, "icpHandleUdp: comm_udp_recvfrom(sock, buf, <limit>, ..)"
base, icp_slack = slack(mr.group(1), "icpHandleUdp")
assert base == "SQUID_UDP_SO_RCVBUF", "icpHandleUdp: limit is not relative to SQUID_UDP_SO_RCVBUF"
icp_terminates = bool(re.search(r"buf\[\s*len\s*\]\s*=\s*'\\0'\s*;", f))

# ---- HTCP
f = body_of(rd("src/htcp.cc"), r"^htcpRecv\(int fd, void \*\)")
m = re.search(r"static\s+char\s+buf\[\s*(\d+)\s*\]\s*;", f)
assert m, "htcpRecv: static char buf[N]"
htcp_size = int(m.group(1))
mr = re.search(r"comm_udp_recvfrom\(\s*fd\s*,\s*buf\s*,\s*([^,]+),", f)
assert mr, "htcpRecv: comm_udp_recvfrom(fd, buf, <limit>, ..)"
_, htcp_slack = slack(mr.group(1), "htcpRecv")

# ---- snmp_parse community buffer
f = body_of(rd("lib/snmplib/snmp_api.c"), r"^snmp_parse\(struct snmp_session \* session,")
m = re.search(r"u_char\s+Community\[\s*(\d+)\s*\]\s*;", f)
assert m, "snmp_parse: u_char Community[N]"
comm_cap = int(m.group(1))
m = re.search(r"int\s+CommunityLen\s*=\s*(\d+)\s*;", f)
assert m, "snmp_parse: int CommunityLen = N"
comm_len0 = int(m.group(1))

# ---- asn_parse_header sanity bound
f = body_of(rd("lib/snmplib/asn1.c"), r"^asn_parse_header\(u_char \* data, int \*datalength, u_char \* type\)")
m = re.search(r"asn_length\s*>\s*\(u_int\)\s*\(\s*(\d+)\s*<<\s*(\d+)\s*\)", f)
assert m, "asn_parse_header: asn_length > (u_int)(A << B)"
asn_max = int(m.group(1)) << int(m.group(2))

out = ["@@FILE Udpbufs_gen.v",
       "(* generated from /repo (src/snmp_core.cc, src/icp_v2.cc, src/htcp.cc, lib/snmplib/snmp_api.c, lib/snmplib/asn1.c)",
       "   by gen/gen_udpbufs.py -- do not edit *)",
       "From Coq Require Import ZArith.",
       "Local Open Scope Z_scope.",
       "(* snmpHandleUdp: static char buf[SNMP_REQUEST_SIZE]; recvfrom(.., sizeof(buf) - snmp_recv_slack) *)",
       "Definition snmp_recv_slack : Z := %d." % snmp_slack,
       "(* memset(buf, 0, sizeof(buf)) before every receive *)",
       "Definition snmp_buf_zeroed : bool := %s." % ("true" if snmp_zeroed else "false"),
       "(* icpHandleUdp: LOCAL_ARRAY(char, buf, SQUID_UDP_SO_RCVBUF); recvfrom(.., SQUID_UDP_SO_RCVBUF - icp_recv_slack) *)",
       "Definition icp_recv_slack : Z := %d." % icp_slack,
       "(* buf[len] = 0 after the receive *)",
       "Definition icp_terminates : bool := %s." % ("true" if icp_terminates else "false"),
       "(* htcpRecv: static char buf[htcp_bufsize]; recvfrom(.., sizeof(buf) - htcp_recv_slack) *)",
       "Definition htcp_bufsize : Z := %d." % htcp_size,
       "Definition htcp_recv_slack : Z := %d." % htcp_slack,
       "(* snmp_parse: u_char Community[snmp_comm_cap]; int CommunityLen = snmp_comm_len0 *)",
       "Definition snmp_comm_cap : Z := %d." % comm_cap,
       "Definition snmp_comm_len0 : Z := %d." % comm_len0,
       "(* asn_parse_header refuses objects longer than this *)",
       "Definition asn_max_len : Z := %d." % asn_max,
       ""]
sys.stdout.write("\n".join(out))
