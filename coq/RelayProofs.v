(* RelayProofs.v — proofs about RelayModel.v (C01, C02). *)
Require Import SquidV.Bytes SquidV.RelayModel.
Require Import SquidV.gen.Relay_gen.
Require Import ZifyBool ZifyN ZifyNat.
Local Open Scope N_scope.

(* ---------- the framing decision functions agree with HttpReply.cc on the regenerated table ---------- *)
Definition enc_size (o : option N) : N := match o with None => 0 | Some n => n + 1 end.
Definition row_ok (r : (N * bool * bool * bool) * (bool * N * N)) : bool :=
  let '((st, hd, cl, ch), (eb, sz, bs)) := r in
  let h := {| h_status := st; h_head := hd; h_clen := if cl then Some 5 else None; h_chunked := ch |} in
  Bool.eqb (expecting_body h) eb &&
  (if eb then enc_size (expected_size h) =? sz else true) &&
  (enc_size (body_size h) =? bs).

Lemma framing_table_ok : forallb row_ok framing_table = true.
Proof. vm_compute. reflexivity. Qed.
