(* EventProofs.v — proofs about EventModel.v (C59). *)
Require Import SquidV.Bytes SquidV.EventModel.
Require Import SquidV.gen.Event_gen.
From Coq Require Import Sorting.Sorted Sorting.Permutation ZifyBool ZifyN ZifyNat.
Local Open Scope Z_scope.
Ltac Zify.zify_post_hook ::= Z.div_mod_to_equations.

(* ------------------------------------------------------------------------------------------------ *)
(* order of firing: due time first, scheduling sequence number among equal due times *)
Definition ev_lt (x y : ev) : Prop :=
  e_when x < e_when y \/ (e_when x = e_when y /\ (e_id x < e_id y)%N).

Definition ev_due (now : Z) (x : ev) : Prop := e_when x <= now.

(* ---- sublists ---------------------------------------------------------------------------------- *)
Inductive sub {A} : list A -> list A -> Prop :=
| sub_nil : sub [] []
| sub_skip x l1 l2 : sub l1 l2 -> sub l1 (x :: l2)
| sub_keep x l1 l2 : sub l1 l2 -> sub (x :: l1) (x :: l2).

Lemma sub_refl {A} (l : list A) : sub l l.
Proof. induction l; [apply sub_nil | apply sub_keep; assumption]. Qed.

Lemma sub_nil_l {A} (l : list A) : sub [] l.
Proof. induction l; [apply sub_nil | apply sub_skip; assumption]. Qed.

Lemma sub_In {A} (l1 l2 : list A) : sub l1 l2 -> forall x, In x l1 -> In x l2.
Proof. induction 1; cbn; intros y Hy; auto. destruct Hy; auto. Qed.

Lemma sub_app_l {A} (p l1 l2 : list A) : sub l1 l2 -> sub (p ++ l1) (p ++ l2).
Proof. intros H; induction p; cbn; [assumption | apply sub_keep; assumption]. Qed.

Lemma sub_app_drop {A} (d l : list A) : sub l (d ++ l).
Proof. induction d; cbn; [apply sub_refl | apply sub_skip; assumption]. Qed.

Lemma sub_app_mid {A} (l1 : list A) x l2 : sub (l1 ++ l2) (l1 ++ x :: l2).
Proof. apply sub_app_l. apply sub_skip. apply sub_refl. Qed.

Lemma sub_filter {A} (p : A -> bool) l : sub (filter p l) l.
Proof. induction l as [|x l IH]; cbn; [constructor|]. destruct (p x); [apply sub_keep | apply sub_skip]; assumption. Qed.

Lemma sub_Forall {A} (P : A -> Prop) l1 l2 : sub l1 l2 -> Forall P l2 -> Forall P l1.
Proof. intros Hs HF. rewrite Forall_forall in *. intros x Hx. apply HF. eapply sub_In; eauto. Qed.

Lemma sub_sorted {A} (R : A -> A -> Prop) l1 l2 : sub l1 l2 -> StronglySorted R l2 -> StronglySorted R l1.
Proof.
  induction 1 as [|x l1 l2 Hs IH|x l1 l2 Hs IH]; intros HS; [constructor| |].
  - inversion HS; subst. auto.
  - inversion HS as [|? ? HS' HF]; subst. constructor; [auto|]. eapply sub_Forall; eauto.
Qed.

Lemma sub_map {A B} (f : A -> B) l1 l2 : sub l1 l2 -> sub (map f l1) (map f l2).
Proof. induction 1; cbn; [apply sub_nil | apply sub_skip | apply sub_keep]; assumption. Qed.

Lemma sub_NoDup {A} (l1 l2 : list A) : sub l1 l2 -> NoDup l2 -> NoDup l1.
Proof.
  induction 1 as [|x l1 l2 Hs IH|x l1 l2 Hs IH]; intros HN; [constructor| |].
  - inversion HN; subst; auto.
  - inversion HN as [|? ? Hni HN']; subst. constructor; [|auto]. intros Hin. apply Hni. eapply sub_In; eauto.
Qed.

Lemma sorted_impl {A} (R S : A -> A -> Prop) l :
  (forall x y, R x y -> S x y) -> StronglySorted R l -> StronglySorted S l.
Proof.
  intros HRS; induction 1 as [|x l HS IH HF]; constructor; [assumption|].
  rewrite Forall_forall in *. auto.
Qed.

Lemma NoDup_map_inj {A B} (f : A -> B) l a b :
  NoDup (map f l) -> In a l -> In b l -> f a = f b -> a = b.
Proof.
  induction l as [|x l IH]; cbn; intros HN Ha Hb Hf; [contradiction|].
  inversion HN as [|? ? Hni HN']; subst.
  destruct Ha as [->|Ha], Hb as [->|Hb]; auto.
  - exfalso. apply Hni. rewrite Hf. apply in_map. assumption.
  - exfalso. apply Hni. rewrite <- Hf. apply in_map. assumption.
Qed.

(* ---- schedule ---------------------------------------------------------------------------------- *)
Lemma ev_lt_when x y : ev_lt x y -> e_when x <= e_when y.
Proof. unfold ev_lt; lia. Qed.

Lemma insert_In e q y : In y (ev_insert e q) <-> y = e \/ In y q.
Proof.
  induction q as [|x r IH]; cbn [ev_insert].
  - cbn. intuition.
  - destruct (e_when x >? e_when e); cbn [In]; [intuition|]. rewrite IH. intuition.
Qed.

Lemma insert_perm e q : Permutation (ev_insert e q) (e :: q).
Proof.
  induction q as [|x r IH]; cbn [ev_insert]; [reflexivity|].
  destruct (e_when x >? e_when e); [reflexivity|].
  rewrite IH. apply perm_swap.
Qed.

Lemma insert_sorted e q :
  StronglySorted ev_lt q -> Forall (fun x => (e_id x < e_id e)%N) q -> StronglySorted ev_lt (ev_insert e q).
Proof.
  induction 1 as [|x r HS IH HF]; intros Hid; cbn [ev_insert]; [repeat constructor|].
  inversion Hid as [|? ? Hx Hr]; subst.
  destruct (e_when x >? e_when e) eqn:E.
  - constructor; [constructor; assumption|].
    constructor; [unfold ev_lt; lia|].
    rewrite Forall_forall in *. intros y Hy. specialize (HF y Hy). apply ev_lt_when in HF. unfold ev_lt. lia.
  - constructor; [auto|].
    rewrite Forall_forall in *. intros y Hy. apply insert_In in Hy. destruct Hy as [->|Hy]; [|auto].
    unfold ev_lt. lia.
Qed.

(* schedule() inserts behind every event with the same or an earlier time, in front of all later ones *)
Lemma insert_spec e q :
  StronglySorted ev_lt q ->
  ev_insert e q = filter (fun x => e_when x <=? e_when e) q ++ e :: filter (fun x => e_when x >? e_when e) q.
Proof.
  induction 1 as [|x r HS IH HF]; cbn [ev_insert filter]; [reflexivity|].
  destruct (e_when x >? e_when e) eqn:E.
  - replace (e_when x <=? e_when e) with false by lia.
    assert (Hall : forall y, In y r -> e_when y > e_when e).
    { rewrite Forall_forall in HF. intros y Hy. specialize (HF y Hy). apply ev_lt_when in HF. lia. }
    replace (filter (fun x0 => e_when x0 <=? e_when e) r) with (@nil ev).
    2:{ symmetry. clear -Hall. induction r as [|y r IH]; cbn; [reflexivity|].
        replace (e_when y <=? e_when e) with false by (specialize (Hall y (or_introl eq_refl)); lia).
        apply IH. intros; apply Hall; right; assumption. }
    replace (filter (fun x0 => e_when x0 >? e_when e) r) with r; [reflexivity|].
    clear -Hall. induction r as [|y r IH]; cbn; [reflexivity|].
    replace (e_when y >? e_when e) with true by (specialize (Hall y (or_introl eq_refl)); lia).
    f_equal. apply IH. intros; apply Hall; right; assumption.
  - replace (e_when x <=? e_when e) with true by lia. cbn [app]. f_equal. apply IH.
Qed.

(* ---- cancel ------------------------------------------------------------------------------------ *)
Lemma cancel_loop_sub f a q : sub (fst (ev_cancel_loop f a q)) q.
Proof.
  induction q as [|x r IH]; cbn [ev_cancel_loop]; [constructor|].
  destruct (ev_nomatch f a x).
  - destruct (ev_cancel_loop f a r) as [r' ret]; cbn [fst] in *. apply sub_keep; assumption.
  - destruct (negb (a =? 0)%N); cbn [fst]; apply sub_skip; [apply sub_refl | assumption].
Qed.

Lemma cancel_sub f a q : sub (fst (ev_cancel f a q)) q.
Proof.
  unfold ev_cancel. pose proof (cancel_loop_sub f a q) as H.
  destruct (ev_cancel_loop f a q); assumption.
Qed.

(* cancel(func, nullptr): exactly the events of func go, no trap *)
Lemma cancel_all_spec f q :
  ev_cancel f 0%N q = (filter (fun x => negb (e_func x =? f)%N) q, false).
Proof.
  unfold ev_cancel.
  assert (H : ev_cancel_loop f 0%N q = (filter (fun x => negb (e_func x =? f)%N) q, false)).
  { induction q as [|x r IH]; cbn [ev_cancel_loop filter]; [reflexivity|].
    unfold ev_nomatch. cbn [N.eqb negb andb]. rewrite orb_false_r.
    destruct (negb (e_func x =? f)%N); [rewrite IH; reflexivity | apply IH]. }
  rewrite H. reflexivity.
Qed.

Lemma cancel_loop_one f a q : a <> 0%N ->
  (forallb (ev_nomatch f a) q = true /\ ev_cancel_loop f a q = (q, false)) \/
  (exists l1 x l2, q = l1 ++ x :: l2 /\ forallb (ev_nomatch f a) l1 = true /\ ev_nomatch f a x = false /\
                   ev_cancel_loop f a q = (l1 ++ l2, true)).
Proof.
  intros Ha.
  assert (Hn : negb (a =? 0)%N = true) by (destruct (N.eqb_spec a 0); [contradiction | reflexivity]).
  induction q as [|x r IH]; cbn [ev_cancel_loop forallb].
  - left. split; reflexivity.
  - destruct (ev_nomatch f a x) eqn:E.
    + destruct IH as [[Hall Hc] | (l1 & y & l2 & Hq & Hl1 & Hy & Hc)].
      * left. rewrite Hc. split; [assumption|reflexivity].
      * right. exists (x :: l1), y, l2. rewrite Hc. cbn [forallb app]. rewrite E, Hl1, Hq. repeat split; auto.
    + right. exists [], x, r. rewrite Hn. cbn. repeat split; auto.
Qed.

(* cancel(func, arg), arg != nullptr: exactly the first match goes; no match => the queue is untouched and
   debug_trap is called *)
Lemma cancel_one_spec f a q : a <> 0%N ->
  (forallb (ev_nomatch f a) q = true /\ ev_cancel f a q = (q, true)) \/
  (exists l1 x l2, q = l1 ++ x :: l2 /\ forallb (ev_nomatch f a) l1 = true /\ ev_nomatch f a x = false /\
                   ev_cancel f a q = (l1 ++ l2, false)).
Proof.
  intros Ha.
  assert (Hn : negb (a =? 0)%N = true) by (destruct (N.eqb_spec a 0); [contradiction | reflexivity]).
  unfold ev_cancel.
  destruct (cancel_loop_one f a q Ha) as [[Hall Hc] | (l1 & y & l2 & Hq & Hl1 & Hy & Hc)]; rewrite Hc, Hn.
  - left. split; [assumption|reflexivity].
  - right. exists l1, y, l2. repeat split; auto.
Qed.

(* ---- timeRemaining ----------------------------------------------------------------------------- *)
Lemma remaining_zero_iff now q :
  ev_time_remaining now q = CRes 0 <-> exists x r, q = x :: r /\ e_when x <= now.
Proof.
  unfold ev_time_remaining. destruct q as [|x r].
  - split; [intros H; inversion H | intros (x & r & H & _); discriminate].
  - destruct (e_when x <=? now) eqn:E.
    + split; [intros _; exists x, r; split; [reflexivity|lia] | reflexivity].
    + split.
      * destruct (_ >? ev_int_max); intros H; [discriminate|]. inversion H. lia.
      * intros (y & r' & Hq & Hle). inversion Hq; subst. lia.
Qed.

Lemma remaining_spec now q :
  match q with
  | [] => ev_time_remaining now q = CRes ev_idle
  | x :: _ =>
    (e_when x <= now /\ ev_time_remaining now q = CRes 0) \/
    (e_when x > now /\
     ((1000 * (e_when x - now) > 1024 * ev_int_max /\ ev_time_remaining now q = CUndef) \/
      (exists ms, ev_time_remaining now q = CRes ms /\ 1 <= ms <= ev_int_max /\
                  1024 * ms >= 1000 * (e_when x - now) /\            (* never shorter than the real distance *)
                  (ms = 1 \/ 1024 * (ms - 1) < 1000 * (e_when x - now)))))   (* rounded up, not further *)
  end.
Proof.
  destruct q as [|x r]; [reflexivity|]. unfold ev_time_remaining.
  destruct (e_when x <=? now) eqn:E; [left; split; [lia|reflexivity]|]. right. split; [lia|].
  unfold ev_int_max.
  destruct ((1000 * (e_when x - now) + 1023) / 1024 >? 2147483647) eqn:E2.
  - left. split; [lia|reflexivity].
  - right. eexists. split; [reflexivity|]. lia.
Qed.

(* ---- checkEvents ------------------------------------------------------------------------------- *)
Lemma check_loop_spec now inv q d q' r :
  q <> [] -> ev_check_loop now inv q = (d, q', r) ->
  q = d ++ q' /\ r = ev_time_remaining now q' /\
  exists d0 z, d = d0 ++ [z] /\ forallb (fun x => negb (ev_heavy inv x)) d0 = true /\
               (ev_heavy inv z = true \/ ev_time_remaining now q' <> CRes 0).
Proof.
  revert d q' r. induction q as [|x rest IH]; intros d q' r Hne H; [contradiction|].
  cbn [ev_check_loop] in H.
  destruct (ev_heavy inv x) eqn:Eh.
  - inversion H; subst. split; [reflexivity|]. split; [reflexivity|].
    exists [], x. cbn. repeat split; auto.
  - destruct (ev_time_remaining now rest) as [rz| |] eqn:Er.
    + destruct (Z.eq_dec rz 0) as [->|Hnz].
      * destruct (ev_check_loop now inv rest) as [[d1 q1] r1] eqn:El. inversion H; subst.
        assert (Hrest : rest <> []) by (apply remaining_zero_iff in Er; destruct Er as (? & ? & -> & _); discriminate).
        destruct (IH d1 q' r Hrest eq_refl) as (Hq & Hr & d0 & z & Hd & Hd0 & Hz).
        split; [cbn; f_equal; assumption|]. split; [assumption|].
        exists (x :: d0), z. subst d1. cbn [app forallb]. rewrite Eh, Hd0. repeat split; auto.
      * assert (H' : ([x], rest, CRes rz) = (d, q', r)) by (destruct rz; [contradiction| |]; assumption).
        inversion H'; subst. split; [reflexivity|]. split; [symmetry; assumption|].
        exists [], x. cbn. repeat split; auto. right. rewrite Er. intros Hc; inversion Hc; contradiction.
    + inversion H; subst. split; [reflexivity|]. split; [symmetry; assumption|].
      exists [], x. cbn. repeat split; auto. right. rewrite Er. discriminate.
    + inversion H; subst. split; [reflexivity|]. split; [symmetry; assumption|].
      exists [], x. cbn. repeat split; auto. right. rewrite Er. discriminate.
Qed.

Lemma check_loop_due now inv q d q' r :
  ev_time_remaining now q = CRes 0 -> ev_check_loop now inv q = (d, q', r) -> Forall (ev_due now) d.
Proof.
  revert d q' r. induction q as [|x rest IH]; intros d q' r H0 H.
  - cbn in H. inversion H. constructor.
  - assert (Hx : ev_due now x).
    { apply remaining_zero_iff in H0. destruct H0 as (y & r' & Hq & Hle). inversion Hq; subst. exact Hle. }
    cbn [ev_check_loop] in H.
    destruct (ev_heavy inv x); [inversion H; subst; repeat constructor; assumption|].
    destruct (ev_time_remaining now rest) as [rz| |] eqn:Er; try (inversion H; subst; repeat constructor; assumption).
    destruct (Z.eq_dec rz 0) as [->|Hnz].
    + destruct (ev_check_loop now inv rest) as [[d1 q1] r1] eqn:El. inversion H; subst.
      constructor; [assumption|]. eapply IH; eauto.
    + assert (H' : ([x], rest, CRes rz) = (d, q', r)) by (destruct rz; [contradiction| |]; assumption).
      inversion H'; subst. repeat constructor; assumption.
Qed.

(* checkEvents: what is dequeued is a prefix of the queue, every dequeued event is due, the result is the
   time remaining for what is left, assert(event) cannot fail, and the prefix is the longest one that is due
   and contains no heavy event before its last element *)
Lemma check_events_spec now inv q d q' r :
  ev_check_events now inv q = (d, q', r) ->
  q = d ++ q' /\ Forall (ev_due now) d /\ r = ev_time_remaining now q' /\ r <> CAssert /\
  ((d = [] /\ ev_time_remaining now q <> CRes 0) \/
   (exists d0 z, d = d0 ++ [z] /\ forallb (fun x => negb (ev_heavy inv x)) d0 = true /\
                 (ev_heavy inv z = true \/ ev_time_remaining now q' <> CRes 0))).
Proof.
  unfold ev_check_events. intros H.
  assert (Hna : forall l, ev_time_remaining now l <> CAssert).
  { intros l. unfold ev_time_remaining. destruct l as [|x l]; [discriminate|].
    destruct (e_when x <=? now); [discriminate|]. destruct (_ >? ev_int_max); discriminate. }
  destruct (ev_time_remaining now q) as [rz| |] eqn:Er.
  - destruct (Z.eq_dec rz 0) as [->|Hnz].
    + assert (Hne : q <> []) by (apply remaining_zero_iff in Er; destruct Er as (? & ? & -> & _); discriminate).
      destruct (check_loop_spec now inv q d q' r Hne H) as (Hq & Hr & d0 & z & Hd & Hd0 & Hz).
      split; [assumption|]. split; [eapply check_loop_due; eauto|]. split; [assumption|].
      split; [rewrite Hr; apply Hna|]. right. exists d0, z. auto.
    + assert (H' : ([], q, CRes rz) = (d, q', r)) by (destruct rz; [contradiction| |]; assumption).
      inversion H'; subst. split; [reflexivity|]. split; [constructor|]. split; [symmetry; assumption|].
      split; [discriminate|]. left. split; [reflexivity|]. congruence.
  - inversion H; subst. split; [reflexivity|]. split; [constructor|]. split; [symmetry; assumption|].
    split; [discriminate|]. left. split; [reflexivity|]. congruence.
  - exfalso. eapply Hna; eauto.
Qed.

(* ---- EventLoop::runOnce ------------------------------------------------------------------------ *)
Lemma loop_iter_spec fuel : forall now inv q pend idle delay fired,
  (length q + match pend with [] => 1 | _ => 2 end <= fuel)%nat ->
  ev_loop_iter fuel now inv q pend idle delay fired <> LFuel /\
  ev_loop_iter fuel now inv q pend idle delay fired <> LAssert /\
  forall q' i dl fr, ev_loop_iter fuel now inv q pend idle delay fired = LDone q' i dl fr -> exists dd, q = dd ++ q'.
Proof.
  induction fuel as [|k IH]; intros now inv q pend idle delay fired Hf.
  - exfalso. destruct pend; lia.
  - cbn [ev_loop_iter].
    destruct (ev_check_events now inv q) as [[d q1] r] eqn:Ec.
    destruct (check_events_spec now inv q d q1 r Ec) as (Hq & _ & _ & Hna & _).
    destruct r as [rz| |]; [|repeat split; try discriminate|contradiction].
    destruct (pend ++ d) as [|c cs] eqn:Ecalls.
    + repeat split; try discriminate. intros q' i dl fr H. inversion H; subst. exists d. reflexivity.
    + assert (Hk : (length q1 + 1 <= k)%nat).
      { subst q. rewrite app_length in Hf. destruct d as [|d0 d']; cbn [length] in *.
        - destruct pend; [discriminate|]. lia.
        - destruct pend; lia. }
      destruct (IH now inv q1 [] false
                   (if rz <? 0 then delay else if rz <? delay then rz else delay)
                   (fired ++ ev_dispatch inv (c :: cs)) Hk) as (H1 & H2 & H3).
      repeat split; [assumption|assumption|].
      intros q' i dl fr H. destruct (H3 q' i dl fr H) as [dd Hdd]. exists (d ++ dd). subst q q1. apply app_assoc.
Qed.

Lemma loop_once_spec now inv q pend :
  ev_loop_once now inv q pend <> LFuel /\ ev_loop_once now inv q pend <> LAssert /\
  forall q' i dl fr, ev_loop_once now inv q pend = LDone q' i dl fr -> exists dd, q = dd ++ q'.
Proof. unfold ev_loop_once. apply loop_iter_spec. destruct pend; lia. Qed.

(* ---- the invariant of all histories ------------------------------------------------------------ *)
Definition ev_inv (s : est) : Prop :=
  StronglySorted ev_lt (s_q s) /\
  Forall (fun x => (e_id x < s_next s)%N) (s_pend s ++ s_q s) /\
  NoDup (map e_id (s_pend s ++ s_q s)).

Definition ev_reachable (s : est) : Prop := exists t0 ops, snd (ev_run (ev_init t0) ops) = s.

Lemma run_cons s o r : ev_run s (o :: r) =
  (snd (ev_step s o) :: fst (ev_run (fst (ev_step s o)) r), snd (ev_run (fst (ev_step s o)) r)).
Proof. cbn [ev_run]. destruct (ev_step s o) as [s1 out]. cbn [fst snd]. destruct (ev_run s1 r); reflexivity. Qed.

Lemma inv_sub s pend' q' next' now' inv' :
  ev_inv s -> sub (pend' ++ q') (s_pend s ++ s_q s) -> sub q' (s_q s) -> (s_next s <= next')%N ->
  ev_inv (mkSt now' next' q' pend' inv').
Proof.
  intros (HS & HF & HN) Hsub Hq Hn. unfold ev_inv; cbn [s_q s_pend s_next]. repeat split.
  - eapply sub_sorted; eauto.
  - eapply sub_Forall; [eassumption|]. rewrite Forall_forall in *. intros x Hx. specialize (HF x Hx). lia.
  - eapply sub_NoDup; [apply sub_map; eassumption | assumption].
Qed.

Lemma step_inv s o s1 out : ev_inv s -> ev_step s o = (s1, out) -> ev_inv s1.
Proof.
  intros Hinv H. pose proof Hinv as (HS & HF & HN). destruct o; cbn [ev_step] in H.
  - (* schedule *)
    inversion H; subst; clear H. unfold ev_inv; cbn [s_q s_pend s_next].
    set (e := mkEv (s_next s) f a (ev_timestamp (s_now s) w) wt cb).
    assert (HFq : Forall (fun x => (e_id x < s_next s)%N) (s_q s)).
    { rewrite Forall_forall in *. intros x Hx. apply HF. apply in_or_app; right; assumption. }
    repeat split.
    + apply insert_sorted; assumption.
    + rewrite Forall_forall in *. intros x Hx. apply in_app_or in Hx. destruct Hx as [Hx|Hx].
      * specialize (HF x (in_or_app _ _ _ (or_introl Hx))). lia.
      * apply insert_In in Hx. destruct Hx as [->|Hx]; [cbn; lia|].
        specialize (HF x (in_or_app _ _ _ (or_intror Hx))). lia.
    + assert (Hp : Permutation (s_pend s ++ ev_insert e (s_q s)) (e :: s_pend s ++ s_q s)).
      { rewrite (insert_perm e (s_q s)). symmetry. apply Permutation_middle. }
      apply (Permutation_map e_id) in Hp. eapply Permutation_NoDup; [symmetry; exact Hp|].
      cbn [map]. constructor; [|assumption]. cbn [e_id e]. intros Hin. apply in_map_iff in Hin.
      destruct Hin as (y & Hy & Hin). rewrite Forall_forall in HF. specialize (HF y Hin). lia.
  - (* cancel *)
    destruct (ev_cancel f a (s_q s)) as [q' trap] eqn:Ec. inversion H; subst; clear H.
    pose proof (cancel_sub f a (s_q s)) as Hs. rewrite Ec in Hs. cbn [fst] in Hs.
    eapply inv_sub; eauto; [apply sub_app_l; assumption | lia].
  - inversion H; subst. eapply inv_sub; eauto; [apply sub_refl | apply sub_refl | lia].
  - (* checkEvents *)
    destruct (ev_check_events (s_now s) (s_inv s) (s_q s)) as [[d q'] r] eqn:Ec. inversion H; subst; clear H.
    destruct (check_events_spec _ _ _ _ _ _ Ec) as (Hq & _).
    eapply inv_sub; eauto; [|rewrite Hq; apply sub_app_drop | lia].
    rewrite <- app_assoc, <- Hq. apply sub_refl.
  - inversion H; subst. eapply inv_sub; eauto; [cbn [app]; apply sub_app_drop | apply sub_refl | lia].
  - inversion H; subst. assumption.
  - inversion H; subst. eapply inv_sub; eauto; [apply sub_refl | apply sub_refl | lia].
  - inversion H; subst. assumption.
  - (* runOnce *)
    destruct (loop_once_spec (s_now s) (s_inv s) (s_q s) (s_pend s)) as (_ & _ & Hd).
    destruct (ev_loop_once (s_now s) (s_inv s) (s_q s) (s_pend s)) as [q' i dl fr| | |] eqn:El;
      inversion H; subst; try assumption.
    destruct (Hd q' i dl fr eq_refl) as [dd Hdd].
    eapply inv_sub; eauto; [|rewrite Hdd; apply sub_app_drop | lia].
    cbn [app]. rewrite Hdd, app_assoc. apply sub_app_drop.
Qed.

Lemma run_inv ops : forall s, ev_inv s -> ev_inv (snd (ev_run s ops)).
Proof.
  induction ops as [|o r IH]; intros s Hs; [assumption|].
  rewrite run_cons. cbn [snd]. apply IH. destruct (ev_step s o) as [s1 out] eqn:E. eapply step_inv; eauto.
Qed.

Lemma init_inv t0 : ev_inv (ev_init t0).
Proof. unfold ev_inv, ev_init; cbn. repeat split; constructor. Qed.

Lemma reachable_inv s : ev_reachable s -> ev_inv s.
Proof. intros (t0 & ops & <-). apply run_inv, init_inv. Qed.

Lemma sorted_app_lt {A} (R : A -> A -> Prop) l1 l2 :
  StronglySorted R (l1 ++ l2) -> forall x y, In x l1 -> In y l2 -> R x y.
Proof.
  induction l1 as [|a l1 IH]; cbn; intros HS x y Hx Hy; [contradiction|].
  inversion HS as [|? ? HS' HF]; subst. destruct Hx as [->|Hx]; [|eauto].
  rewrite Forall_forall in HF. apply HF. apply in_or_app; right; assumption.
Qed.

(* ---- where queued events come from ------------------------------------------------------------- *)
Lemma step_members s o s1 out : ev_step s o = (s1, out) ->
  (s_next s <= s_next s1)%N /\
  forall y, In y (s_pend s1 ++ s_q s1) ->
    In y (s_pend s ++ s_q s) \/
    exists f a w wt cb, o = OSched f a w wt cb /\ y = mkEv (s_next s) f a (ev_timestamp (s_now s) w) wt cb.
Proof.
  intros H. destruct o; cbn [ev_step] in H.
  - inversion H; subst; clear H. cbn [s_next s_pend s_q]. split; [lia|]. intros y Hy.
    apply in_app_or in Hy. destruct Hy as [Hy|Hy]; [left; apply in_or_app; auto|].
    apply insert_In in Hy. destruct Hy as [->|Hy]; [right; repeat eexists | left; apply in_or_app; auto].
  - destruct (ev_cancel f a (s_q s)) as [q' trap] eqn:Ec. inversion H; subst; clear H.
    pose proof (cancel_sub f a (s_q s)) as Hs. rewrite Ec in Hs. cbn [fst] in Hs.
    cbn [s_next s_pend s_q]. split; [lia|]. intros y Hy. left.
    eapply sub_In; [apply sub_app_l; eassumption | assumption].
  - inversion H; subst. cbn. split; [lia|auto].
  - destruct (ev_check_events (s_now s) (s_inv s) (s_q s)) as [[d q'] r] eqn:Ec. inversion H; subst; clear H.
    destruct (check_events_spec _ _ _ _ _ _ Ec) as (Hq & _).
    cbn [s_next s_pend s_q]. split; [lia|]. intros y Hy. left. rewrite <- app_assoc, <- Hq in Hy. assumption.
  - inversion H; subst. cbn [s_next s_pend s_q app]. split; [lia|]. intros y Hy. left. apply in_or_app; auto.
  - inversion H; subst. split; [lia|auto].
  - inversion H; subst. cbn. split; [lia|auto].
  - inversion H; subst. split; [lia|auto].
  - destruct (loop_once_spec (s_now s) (s_inv s) (s_q s) (s_pend s)) as (_ & _ & Hd).
    destruct (ev_loop_once (s_now s) (s_inv s) (s_q s) (s_pend s)) as [q' i dl fr| | |] eqn:El;
      inversion H; subst; try (split; [lia|auto]).
    destruct (Hd q' i dl fr eq_refl) as [dd Hdd].
    cbn [s_next s_pend s_q app]. split; [lia|]. intros y Hy. left. rewrite Hdd.
    apply in_or_app; right. apply in_or_app; auto.
Qed.

(* the events created by the schedule() calls of a history, with the due time computed from the clock at
   the time of the call: now + when, or 0 for when <= 0 *)
Fixpoint ev_created (now : Z) (next : N) (ops : list eop) : list ev :=
  match ops with
  | [] => []
  | OSched f a w wt cb :: r => mkEv next f a (ev_timestamp now w) wt cb :: ev_created now (N.succ next) r
  | OClock t :: r => ev_created t next r
  | _ :: r => ev_created now next r
  end.

Lemma run_members ops : forall s y, In y (s_pend (snd (ev_run s ops)) ++ s_q (snd (ev_run s ops))) ->
  In y (s_pend s ++ s_q s) \/ In y (ev_created (s_now s) (s_next s) ops).
Proof.
  induction ops as [|o r IH]; intros s y Hy; [left; assumption|].
  rewrite run_cons in Hy. cbn [snd] in Hy.
  destruct (ev_step s o) as [s1 out] eqn:E. cbn [fst] in Hy.
  destruct (step_members s o s1 out E) as (_ & Hm).
  destruct (IH s1 y Hy) as [H1|H1].
  - destruct (Hm y H1) as [H2|(f & a & w & wt & cb & -> & ->)]; [left; assumption|].
    right. cbn [ev_created]. left. reflexivity.
  - right. destruct o; cbn [ev_step] in E; cbn [ev_created].
    + inversion E; subst. cbn [s_now s_next] in H1. right. assumption.
    + destruct (ev_cancel f a (s_q s)); inversion E; subst. assumption.
    + inversion E; subst. assumption.
    + destruct (ev_check_events (s_now s) (s_inv s) (s_q s)) as [[d q'] r0]; inversion E; subst. assumption.
    + inversion E; subst. assumption.
    + inversion E; subst. assumption.
    + inversion E; subst. assumption.
    + inversion E; subst. assumption.
    + destruct (ev_loop_once (s_now s) (s_inv s) (s_q s) (s_pend s)); inversion E; subst; assumption.
Qed.

(* ---- an id that is gone stays gone ------------------------------------------------------------- *)
Definition ev_absent (i : N) (s : est) : Prop :=
  (i < s_next s)%N /\ ~ In i (map e_id (s_pend s ++ s_q s)).

Lemma step_absent i s o s1 out : ev_absent i s -> ev_step s o = (s1, out) -> ev_absent i s1.
Proof.
  intros (Hlt & Hni) H. destruct (step_members s o s1 out H) as (Hn & Hm). split; [lia|].
  intros Hin. apply in_map_iff in Hin. destruct Hin as (y & Hy & Hin).
  destruct (Hm y Hin) as [H1|(f & a & w & wt & cb & _ & ->)].
  - apply Hni. rewrite <- Hy. apply in_map. assumption.
  - cbn in Hy. lia.
Qed.

Lemma run_absent i ops : forall s, ev_absent i s -> ev_absent i (snd (ev_run s ops)).
Proof.
  induction ops as [|o r IH]; intros s Hs; [assumption|].
  rewrite run_cons. cbn [snd]. apply IH. destruct (ev_step s o) as [s1 out] eqn:E. eapply step_absent; eauto.
Qed.

Lemma NoDup_map_app_disjoint {A B} (f : A -> B) l1 l2 x :
  NoDup (map f (l1 ++ l2)) -> In x l1 -> In x l2 -> False.
Proof.
  induction l1 as [|a l1 IH]; cbn; intros HN H1 H2; [contradiction|].
  inversion HN as [|? ? Hni HN']; subst. destruct H1 as [->|H1]; [|eauto].
  apply Hni. apply in_map. apply in_or_app; right; assumption.
Qed.

(* ================================================================================================ *)
(* the statements used by Properties_C59.v                                                           *)

(* 1. in every reachable state the queue is strictly ordered by (due time, sequence number) *)
Theorem queue_ordered s : ev_reachable s ->
  StronglySorted ev_lt (s_q s) /\ Forall (fun x => (e_id x < s_next s)%N) (s_q s).
Proof.
  intros H. destruct (reachable_inv s H) as (HS & HF & _). split; [assumption|].
  rewrite Forall_forall in *. intros x Hx. apply HF. apply in_or_app; right; assumption.
Qed.

(* 2. never early, in any state whatsoever *)
Theorem never_early s s1 r d : ev_step s OCheck = (s1, RCheck r d) ->
  Forall (fun x => e_when x <= s_now s) d /\ s_q s = d ++ s_q s1 /\ s_pend s1 = s_pend s ++ d /\ r <> CAssert.
Proof.
  cbn [ev_step]. destruct (ev_check_events (s_now s) (s_inv s) (s_q s)) as [[d' q'] r'] eqn:Ec.
  intros H; inversion H; subst; clear H. cbn [s_q s_pend].
  destruct (check_events_spec _ _ _ _ _ _ Ec) as (Hq & Hdue & _ & Hna & _). repeat split; assumption.
Qed.

(* 2b. ... and what is dequeued was created by an earlier schedule() with the due time it computed *)
Theorem never_early_history t0 ops s d q' r :
  snd (ev_run (ev_init t0) ops) = s -> ev_check_events (s_now s) (s_inv s) (s_q s) = (d, q', r) ->
  Forall (fun x => In x (ev_created t0 0%N ops) /\ e_when x <= s_now s) d.
Proof.
  intros Hs Hc. destruct (check_events_spec _ _ _ _ _ _ Hc) as (Hq & Hdue & _).
  rewrite Forall_forall in *. intros x Hx. split; [|apply Hdue; assumption].
  assert (Hin : In x (s_pend s ++ s_q s)) by (apply in_or_app; right; rewrite Hq; apply in_or_app; auto).
  rewrite <- Hs in Hin. apply run_members in Hin. cbn in Hin. destruct Hin; [contradiction|assumption].
Qed.

(* 3. due order, FIFO among equal due times *)
Theorem fires_in_order s s1 r d : ev_reachable s -> ev_step s OCheck = (s1, RCheck r d) ->
  StronglySorted ev_lt d /\ (forall x y, In x d -> In y (s_q s1) -> ev_lt x y).
Proof.
  intros Hr H. destruct (never_early s s1 r d H) as (_ & Hq & _).
  destruct (queue_ordered s Hr) as (HS & _). rewrite Hq in HS. split.
  - eapply sub_sorted; [|exact HS]. clear. induction d; cbn; [apply sub_nil_l | apply sub_keep; assumption].
  - intros x y Hx Hy. eapply sorted_app_lt; eauto.
Qed.

(* 4. nothing due is left behind, except behind a heavy event *)
Theorem check_takes_all_due s s1 r d : ev_reachable s -> ev_step s OCheck = (s1, RCheck r d) ->
  (d = [] /\ (forall y, In y (s_q s) -> e_when y > s_now s)) \/
  (exists d0 z, d = d0 ++ [z] /\ forallb (fun x => negb (ev_heavy (s_inv s) x)) d0 = true /\
                (ev_heavy (s_inv s) z = true \/ forall y, In y (s_q s1) -> e_when y > s_now s)).
Proof.
  intros Hr H. destruct (queue_ordered s Hr) as (HS & _). revert H. cbn [ev_step].
  destruct (ev_check_events (s_now s) (s_inv s) (s_q s)) as [[d' q'] r'] eqn:Ec.
  intros H; inversion H; subst; clear H. cbn [s_q].
  destruct (check_events_spec _ _ _ _ _ _ Ec) as (Hq & _ & _ & _ & Hmax).
  assert (Hnd : forall l, StronglySorted ev_lt l -> ev_time_remaining (s_now s) l <> CRes 0 ->
                          forall y, In y l -> e_when y > s_now s).
  { intros l Hl Hn y Hy. destruct l as [|x l]; [contradiction|].
    assert (Hx : e_when x > s_now s).
    { destruct (Z_le_gt_dec (e_when x) (s_now s)) as [Hle|]; [|assumption].
      exfalso. apply Hn. apply remaining_zero_iff. exists x, l. split; [reflexivity|assumption]. }
    destruct Hy as [->|Hy]; [assumption|].
    inversion Hl as [|? ? _ HF]; subst. rewrite Forall_forall in HF. specialize (HF y Hy).
    apply ev_lt_when in HF. lia. }
  destruct Hmax as [[Hd Hn] | (d0 & z & Hd & Hd0 & Hz)].
  - left. split; [assumption|]. apply Hnd; assumption.
  - right. exists d0, z. repeat split; try assumption. destruct Hz as [Hz|Hz]; [left; assumption|right].
    apply Hnd; [|assumption]. rewrite Hq in HS. eapply sub_sorted; [apply sub_app_drop | exact HS].
Qed.

(* 5. schedule() only inserts, behind everything with the same or an earlier time *)
Theorem schedule_inserts_stably s f a w wt cb s1 out : ev_reachable s ->
  ev_step s (OSched f a w wt cb) = (s1, out) ->
  let e := mkEv (s_next s) f a (ev_timestamp (s_now s) w) wt cb in
  out = RSched (s_next s) /\
  s_q s1 = filter (fun x => e_when x <=? e_when e) (s_q s) ++ e :: filter (fun x => e_when x >? e_when e) (s_q s) /\
  s_pend s1 = s_pend s /\ s_now s1 = s_now s.
Proof.
  intros Hr H e. cbn [ev_step] in H. inversion H; subst; clear H. cbn [s_q s_pend s_now].
  destruct (queue_ordered s Hr) as (HS & _). repeat split. apply insert_spec. assumption.
Qed.

(* 6. cancel leaves all others *)
Theorem cancel_all_leaves_others s f s1 out : ev_step s (OCancel f 0%N) = (s1, out) ->
  s_q s1 = filter (fun x => negb (e_func x =? f)%N) (s_q s) /\ out = RCancel false /\
  s_pend s1 = s_pend s /\ s_now s1 = s_now s /\ s_next s1 = s_next s.
Proof.
  cbn [ev_step]. rewrite cancel_all_spec. intros H; inversion H; subst. cbn. repeat split.
Qed.

Theorem cancel_one_leaves_others s f a s1 out : a <> 0%N -> ev_step s (OCancel f a) = (s1, out) ->
  s_pend s1 = s_pend s /\ s_now s1 = s_now s /\ s_next s1 = s_next s /\
  ((forallb (ev_nomatch f a) (s_q s) = true /\ s_q s1 = s_q s /\ out = RCancel true) \/
   (exists l1 x l2, s_q s = l1 ++ x :: l2 /\ forallb (ev_nomatch f a) l1 = true /\
                    e_func x = f /\ e_arg x = a /\ s_q s1 = l1 ++ l2 /\ out = RCancel false)).
Proof.
  intros Ha. cbn [ev_step].
  destruct (cancel_one_spec f a (s_q s) Ha) as [[Hall Hc] | (l1 & x & l2 & Hq & Hl1 & Hx & Hc)];
    rewrite Hc; intros H; inversion H; subst; cbn [s_q s_pend s_now s_next]; repeat split.
  - left. repeat split; assumption.
  - right. exists l1, x, l2. unfold ev_nomatch in Hx.
    assert (Hn : negb (a =? 0)%N = true) by (destruct (N.eqb_spec a 0); [contradiction | reflexivity]).
    rewrite Hn in Hx. cbn [andb] in Hx. apply orb_false_elim in Hx. destruct Hx as [Hf Hg].
    apply negb_false_iff in Hf, Hg. apply N.eqb_eq in Hf, Hg. repeat split; assumption.
Qed.

(* 7. an event removed by cancel() while still queued is never dequeued, queued or pending again *)
Theorem cancelled_never_fires_partial s f a s1 out x ops : ev_reachable s ->
  ev_step s (OCancel f a) = (s1, out) -> In x (s_q s) -> ~ In x (s_q s1) ->
  let s2 := snd (ev_run s1 ops) in
  ~ In (e_id x) (map e_id (s_pend s2 ++ s_q s2)) /\
  forall d q' r, ev_check_events (s_now s2) (s_inv s2) (s_q s2) = (d, q', r) -> ~ In (e_id x) (map e_id d).
Proof.
  intros Hr H Hx Hnx s2. pose proof (reachable_inv s Hr) as (HS & HF & HN).
  assert (Habs : ev_absent (e_id x) s1).
  { revert H. cbn [ev_step]. destruct (ev_cancel f a (s_q s)) as [q' trap] eqn:Ec.
    intros H; inversion H; subst; clear H. cbn [s_q] in Hnx.
    pose proof (cancel_sub f a (s_q s)) as Hs. rewrite Ec in Hs. cbn [fst] in Hs.
    split; cbn [s_next s_pend s_q].
    - rewrite Forall_forall in HF. apply HF. apply in_or_app; right; assumption.
    - intros Hin. apply in_map_iff in Hin. destruct Hin as (y & Hy & Hin).
      assert (Hy' : In y (s_pend s ++ s_q s)) by (eapply sub_In; [apply sub_app_l; eassumption | assumption]).
      assert (Hx' : In x (s_pend s ++ s_q s)) by (apply in_or_app; right; assumption).
      assert (y = x) by (eapply NoDup_map_inj; eauto). subst y.
      apply in_app_or in Hin. destruct Hin as [Hin|Hin]; [|contradiction].
      eapply NoDup_map_app_disjoint; eauto. }
  pose proof (run_absent (e_id x) ops s1 Habs) as (_ & Hni). fold s2 in Hni. split; [assumption|].
  intros d q' r Hc Hin. destruct (check_events_spec _ _ _ _ _ _ Hc) as (Hq & _).
  apply Hni. rewrite Hq, !map_app. apply in_or_app; right. apply in_or_app; left. assumption.
Qed.

(* 7b. after cancel(func, nullptr) every queued event of func was scheduled later *)
Theorem cancel_all_then_only_new s f s1 out ops : ev_reachable s -> ev_step s (OCancel f 0%N) = (s1, out) ->
  forall y, In y (s_q (snd (ev_run s1 ops))) -> e_func y = f ->
  In y (ev_created (s_now s1) (s_next s1) ops) \/ In y (s_pend s).
Proof.
  intros Hr H y Hy Hf. destruct (cancel_all_leaves_others s f s1 out H) as (Hq & _ & Hp & _).
  assert (Hin : In y (s_pend (snd (ev_run s1 ops)) ++ s_q (snd (ev_run s1 ops)))) by (apply in_or_app; auto).
  apply run_members in Hin. destruct Hin as [Hin|Hin]; [|left; assumption].
  apply in_app_or in Hin. destruct Hin as [Hin|Hin]; [right; rewrite <- Hp; assumption|].
  exfalso. rewrite Hq in Hin. apply filter_In in Hin. destruct Hin as (_ & Hn).
  rewrite Hf, N.eqb_refl in Hn. discriminate.
Qed.

(* 8. the literal statement "a cancelled event never fires" is false once checkEvents() has turned the
      event into an AsyncCall: cancel() does not find it (debug_trap) and the handler still runs *)
Theorem cancelled_never_fires_refuted :
  exists ops, fst (ev_run (ev_init 0) ops) =
    [RSched 0%N; RCheck (CRes ev_idle) [mkEv 0%N 1%N 1%N 0 0 false]; RCancel true; RDispatch [(1%N, 1%N)]].
Proof. exists [OSched 1%N 1%N 0 0 false; OCheck; OCancel 1%N 1%N; ODispatch]. vm_compute. reflexivity. Qed.

(* 9. timeRemaining *)
Theorem time_remaining_spec now q :
  match q with
  | [] => ev_time_remaining now q = CRes ev_idle
  | x :: _ =>
    (e_when x <= now /\ ev_time_remaining now q = CRes 0) \/
    (e_when x > now /\
     ((1000 * (e_when x - now) > 1024 * ev_int_max /\ ev_time_remaining now q = CUndef) \/
      (exists ms, ev_time_remaining now q = CRes ms /\ 1 <= ms <= ev_int_max /\
                  1024 * ms >= 1000 * (e_when x - now) /\
                  (ms = 1 \/ 1024 * (ms - 1) < 1000 * (e_when x - now)))))
  end.
Proof. exact (remaining_spec now q). Qed.

(* 10. EventLoop::runOnce terminates within len+2 rounds, never trips assert(event); what it leaves is a
       suffix of the queue *)
Theorem loop_pass_total s s1 out : ev_step s OLoop = (s1, out) ->
  out <> RLoop LFuel /\ out <> RLoop LAssert /\
  forall q' i dl fr, out = RLoop (LDone q' i dl fr) -> exists dd, s_q s = dd ++ q' /\ s_q s1 = q' /\ s_pend s1 = [].
Proof.
  cbn [ev_step]. destruct (loop_once_spec (s_now s) (s_inv s) (s_q s) (s_pend s)) as (H1 & H2 & H3).
  destruct (ev_loop_once (s_now s) (s_inv s) (s_q s) (s_pend s)) as [q' i dl fr| | |] eqn:El;
    intros H; inversion H; subst; repeat split; try discriminate; try congruence.
  intros q0 i0 dl0 fr0 Heq. inversion Heq; subst. destruct (H3 q0 i0 dl0 fr0 eq_refl) as [dd Hdd].
  exists dd. cbn. auto.
Qed.

(* 11. dispatch runs the pending calls in the order they were dequeued, skipping those whose cbdata
       argument has become invalid *)
Theorem dispatch_in_order s s1 out : ev_step s ODispatch = (s1, out) ->
  out = RDispatch (map (fun x => (e_func x, e_arg x)) (filter (ev_callable (s_inv s)) (s_pend s))) /\
  s_pend s1 = [] /\ s_q s1 = s_q s.
Proof. cbn [ev_step]. intros H; inversion H; subst. cbn. repeat split. Qed.
