// Harness: SBuf / MemBlob from /repo's working tree (C48).
// stdin: one case per line:  seq <nvars> <op> <op> ...   (op = name:arg:arg..., same syntax as ml/run_sbuf.ml)
// stdout: one line per case; one token per op:  <ret>/<content deltas>/<off.len.blobsize.cap.locks of the target>
//   ret: "-" (void), decimal number, hex bytes prefixed "x", "T" (threw), "SHORT" (rawAppendStart returned too little space)
//   content deltas: i=<hex> for every variable whose content differs from what was last printed for it
// After an operation that leaves some variable with off+len > blob size (broken object) the token ends in
// "/BROKEN:<var>" and the rest of the sequence is skipped (reading such an object would be out of bounds).
#include "squid.h"
#include "hcommon.h"
#include <cstring>
#include <cctype>
#define private public
#include "sbuf/SBuf.h"
#undef private
#include "base/CharacterSet.h"

// allocator policy used for this harness (wrapped with -Wl,--wrap=memAllocBuf over tests/stub_libmem.o):
// the size classes of src/mem/old_api.cc memFindBufSizeType(): 32,64,...,64K, exact above.
// memAllocBuf(size_t, size_t*) mangles to _Z11memAllocBufmPm; the wrapper has C linkage.
extern "C" void *__wrap__Z11memAllocBufmPm(size_t net_size, size_t *gross_size) {
    size_t g = net_size;
    for (size_t c = 32; c <= 64 * 1024; c *= 2)
        if (net_size <= c) { g = c; break; }
    if (gross_size) *gross_size = g;
    return xmalloc(g);
}

static const int MAXV = 8;
static uint32_t num(const std::string &s) { return static_cast<uint32_t>(std::stoull(s)); }

static std::vector<std::string> splitc(const std::string &s) {
    std::vector<std::string> v; std::string cur;
    for (char c : s) { if (c == ':') { v.push_back(cur); cur.clear(); } else cur.push_back(c); }
    v.push_back(cur);
    return v;
}
static CharacterSet setOf(const std::string &h) {
    CharacterSet s("h", "");
    for (int c = 0; c < 256; ++c) {
        int b = (hexval(h[2 * (c / 8)]) << 4) | hexval(h[2 * (c / 8) + 1]);
        if ((b >> (c % 8)) & 1) s.add(static_cast<unsigned char>(c));
    }
    return s;
}
static int sgn(int x) { return x < 0 ? -1 : (x > 0 ? 1 : 0); }
static bool broken(const SBuf &b) {
    return !b.store_ || static_cast<uint64_t>(b.off_) + b.len_ > b.store_->size || b.store_->size > b.store_->capacity;
}

static void runSeq(const std::vector<std::string> &a, std::ostream &o) {
    const int nv = std::stoi(a[1]);
    if (nv < 1 || nv > MAXV) { o << "ERR nvars"; return; }
    // every sequence starts from a pristine prototype store (as in a fresh process): the static
    // InitialStore blob is written in place by the first append to an empty SBuf
    SBuf::GetStorePrototype()->clear();
    std::vector<SBuf> v(nv);
    std::vector<std::string> last(nv);
    for (size_t k = 2; k < a.size(); ++k) {
        auto f = splitc(a[k]);
        const std::string &op = f[0];
        std::ostringstream r;
        int tgt = 0;
        auto V = [&](int idx) -> SBuf & { const int i = std::stoi(f[idx]); if (i < 0 || i >= nv) throw std::out_of_range("var"); return v[i]; };
        auto I = [&](int idx) { return std::stoi(f[idx]); };
        auto CS = [&](int idx) { return f[idx] == "1" ? caseInsensitive : caseSensitive; };
        try {
            tgt = I(1);
            if (tgt < 0 || tgt >= nv) throw std::out_of_range("var");
            if (op == "set") { std::string w = unhex(f[2]); V(1).assign(w.data(), w.size()); r << "-"; }
            else if (op == "asg") { V(1) = V(2); r << "-"; }
            else if (op == "app") { V(1).append(V(2)); r << "-"; }
            else if (op == "apl") { std::string w = unhex(f[2]); V(1).append(w.data(), w.size()); r << "-"; }
            else if (op == "apr" || op == "asr") {
                // pointer into another (or the same) SBuf's storage
                SBuf &src = V(2); const uint32_t off = num(f[3]), n = num(f[4]);
                if (static_cast<uint64_t>(off) + n > src.length()) r << "SKIP";
                else { const char *p = src.rawContent() + off;
                       if (op == "apr") V(1).append(p, n); else V(1).assign(p, n);
                       r << "-"; }
            }
            else if (op == "psh") { V(1).push_back(static_cast<char>(I(2))); r << "-"; }
            else if (op == "con") { V(1) = V(2).consume(num(f[3])); r << "-"; }
            else if (op == "chp") { V(1).chop(num(f[2]), num(f[3])); r << "-"; }
            else if (op == "sub") { V(1) = V(2).substr(num(f[3]), num(f[4])); r << "-"; }
            else if (op == "trm") { V(1).trim(V(2), f[3] == "1", f[4] == "1"); r << "-"; }
            else if (op == "sat") { V(1).setAt(num(f[2]), static_cast<char>(I(3))); r << "-"; }
            else if (op == "low") { V(1).toLower(); r << "-"; }
            else if (op == "upp") { V(1).toUpper(); r << "-"; }
            else if (op == "clr") { V(1).clear(); r << "-"; }
            else if (op == "rsv") { V(1).reserveSpace(num(f[2])); r << "-"; }
            else if (op == "rcp") { V(1).reserveCapacity(num(f[2])); r << "-"; }
            else if (op == "rsq") {
                SBufReservationRequirements q; q.idealSpace = num(f[2]); q.minSpace = num(f[3]);
                q.maxCapacity = num(f[4]); q.allowShared = f[5] == "1";
                r << V(1).reserve(q);
            }
            else if (op == "raw") {
                const uint32_t n = num(f[2]); std::string w = unhex(f[3]);
                SBuf &b = V(1);
                char *p = b.rawAppendStart(n);
                if (w.size() > n) r << "ERR raw-args";
                else if (static_cast<uint64_t>(b.store_->capacity) - b.off_ - b.len_ < n) r << "SHORT";
                else { if (!w.empty()) memcpy(p, w.data(), w.size()); b.rawAppendFinish(p, w.size()); r << "-"; }
            }
            else if (op == "cst") { const char *p = V(1).c_str(); r << "x" << tohex(p, strlen(p)); }
            else if (op == "len") { r << V(1).length(); }
            else if (op == "at") { r << (static_cast<int>(V(1).at(num(f[2]))) & 255); }
            else if (op == "cpy") { const uint32_t n = num(f[2]); std::vector<char> d(V(1).length() + 1);
                                    auto k2 = V(1).copy(d.data(), n); r << "x" << tohex(d.data(), k2); }
            else if (op == "fdc") { r << V(1).find(static_cast<char>(I(2)), num(f[3])); }
            else if (op == "fds") { r << V(1).find(V(2), num(f[3])); }
            else if (op == "rfc") { r << V(1).rfind(static_cast<char>(I(2)), num(f[3])); }
            else if (op == "rfs") { r << V(1).rfind(V(2), num(f[3])); }
            else if (op == "ffo") { r << V(1).findFirstOf(setOf(f[2]), num(f[3])); }
            else if (op == "ffn") { r << V(1).findFirstNotOf(setOf(f[2]), num(f[3])); }
            else if (op == "flo") { r << V(1).findLastOf(setOf(f[2]), num(f[3])); }
            else if (op == "fln") { r << V(1).findLastNotOf(setOf(f[2]), num(f[3])); }
            else if (op == "cmp") { r << sgn(V(1).compare(V(2), CS(3), num(f[4]))); }
            else if (op == "cmz") { std::string w = unhex(f[2]); r << sgn(V(1).compare(w.c_str(), CS(3), num(f[4]))); }
            else if (op == "stw") { r << (V(1).startsWith(V(2), CS(3)) ? 1 : 0); }
            else if (op == "eq") { r << ((V(1) == V(2)) ? 1 : 0); }
            else r << "ERR unknown-op-" << op;
        } catch (const std::exception &) { r.str(""); r << "T"; }
        // broken objects must not be read
        int bad = -1;
        for (int i = 0; i < nv; ++i) if (broken(v[i])) { bad = i; break; }
        if (k > 2) o << " ";
        if (bad >= 0) { o << r.str() << "/BROKEN:" << bad; return; }
        o << r.str() << "/";
        bool first = true;
        for (int i = 0; i < nv; ++i) {
            std::string cur = tohex(v[i].rawContent(), v[i].length());
            if (cur == "-") cur = "";
            if (cur != last[i]) { o << (first ? "" : ",") << i << "=" << cur; first = false; last[i] = cur; }
        }
        const SBuf &t = v[tgt];
        o << "/" << t.off_ << "." << t.len_ << "." << t.store_->size << "." << t.store_->capacity << "." << t.store_->LockCount();
    }
}

int main() {
    std::string line;
    while (std::getline(std::cin, line)) {
        auto a = splitws(line);
        if (a.empty()) { std::cout << "\n"; continue; }
        std::ostringstream o;
        try {
            if (a[0] == "seq" && a.size() >= 2) runSeq(a, o);
            else o << "ERR unknown-entry " << a[0];
        } catch (const std::exception &e) { o.str(""); o << "EXC " << e.what(); }
        catch (...) { o.str(""); o << "EXC"; }
        std::cout << o.str() << "\n" << std::flush;
    }
    return 0;
}
