(* Extract_quote.v — extraction of the quoting / escaping models (C31, C32) to OCaml.
   Only ExtrOcamlBasic is used; N, Z, positive and nat stay the extracted Coq datatypes. *)
Require Import ExtrOcamlBasic.
Require Import SquidV.Bytes SquidV.TokModel SquidV.QuoteModel.
Extraction "m_quote.ml"
  mem_tbl lenN takeN dropN cstr
  html_quote html_unquote mime_quote
  rfc1738_do_escape rfc1738_unescape rfc1738_roundtrip unesc_list
  uri_encode_userinfo uri_encode_path uri_encode_unreserved uri_encode_set uri_decode pct_decode.
