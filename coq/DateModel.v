(* DateModel.v — executable model of src/time/rfc1123.cc (Time::ParseRfc1123, Time::FormatRfc1123,
   parse_date, parse_date_elements, make_month, make_num, tmSaneValues) and of the C library
   functions it calls (strtok, atoi, strchr, strncmp, gmtime, timegm, strftime for the
   conversions the code uses).  Definitions only; proofs are in DateProofs.v.

   Bytes are N (0..255), C `int`/`time_t` values are Z.  The data the code depends on
   (month_names[], RFC1123_STRFTIME, the C locale's day/month names) is regenerated from
   /repo on every run: SquidV.gen.DateTabs_gen. *)
Require Import SquidV.Bytes.
Require Import SquidV.gen.DateTabs_gen.
Local Open Scope Z_scope.

(* ------------------------------------------------------------------ *)
(* calendar: glibc gmtime / timegm are modelled as the proleptic Gregorian
   civil-from-days / days-from-civil algorithms (validated by correspondence through the
   harness entries date.timegm / date.gmtime).  Z division is floor division. *)

(* day-of-era (0 = 1 March of a year divisible by 400) from March-based year-of-era 0..399 *)
Definition doe_of_civil (yoe m d : Z) : Z :=
  let mp := if m >? 2 then m - 3 else m + 9 in
  let doy := (153 * mp + 2) / 5 + d - 1 in
  yoe * 365 + yoe / 4 - yoe / 100 + doy.

Definition days_from_civil (y m d : Z) : Z :=
  let ys := if m <=? 2 then y - 1 else y in
  let era := ys / 400 in
  let yoe := ys mod 400 in
  era * 146097 + doe_of_civil yoe m d - 719468.

(* (January-based year-of-era 0..400, month 1..12, day 1..31) from day-of-era 0..146096 *)
Definition civil_of_doe (doe : Z) : Z * Z * Z :=
  let yoe := (doe - doe / 1460 + doe / 36524 - doe / 146096) / 365 in
  let doy := doe - (365 * yoe + yoe / 4 - yoe / 100) in
  let mp := (5 * doy + 2) / 153 in
  let d := doy - (153 * mp + 2) / 5 + 1 in
  let m := if mp <? 10 then mp + 3 else mp - 9 in
  (if m <=? 2 then yoe + 1 else yoe, m, d).

Definition civil_from_days (z : Z) : Z * Z * Z :=
  let z' := z + 719468 in
  let era := z' / 146097 in
  let doe := z' mod 146097 in
  let '(ye, m, d) := civil_of_doe doe in
  (ye + era * 400, m, d).

(* struct tm, the fields the code reads or writes *)
Record tm := mkTm { tm_year : Z; tm_mon : Z; tm_mday : Z; tm_hour : Z; tm_min : Z; tm_sec : Z; tm_wday : Z }.

Definition gmtime (t : Z) : tm :=
  let days := t / 86400 in
  let rem := t mod 86400 in
  let '(y, m, d) := civil_from_days days in
  mkTm (y - 1900) (m - 1) d (rem / 3600) ((rem mod 3600) / 60) (rem mod 60) ((4 + days) mod 7).

(* timegm on a struct tm whose tm_mon is 0..11 (tmSaneValues guarantees it); tm_mday,
   tm_hour, tm_min, tm_sec enter linearly (glibc normalises out-of-range days such as
   "31 Feb" into the following month; tmSaneValues now rejects them beforehand). *)
Definition timegm (g : tm) : Z :=
  days_from_civil (tm_year g + 1900) (tm_mon g + 1) (tm_mday g) * 86400
  + tm_hour g * 3600 + tm_min g * 60 + tm_sec g.

(* ------------------------------------------------------------------ *)
(* <cctype> in the "C" locale, applied to unsigned char values *)
Definition is_digit (c : N) : bool := ((48 <=? c) && (c <=? 57))%N.
Definition is_space (c : N) : bool := ((c =? 32) || ((9 <=? c) && (c <=? 13)))%N.
Definition to_upper (c : N) : N := if ((97 <=? c) && (c <=? 122))%N then (c - 32)%N else c.
Definition to_lower (c : N) : N := if ((65 <=? c) && (c <=? 90))%N then (c + 32)%N else c.
(* value of a plain (signed) char holding byte c *)
Definition schar (c : N) : Z := if (c <? 128)%N then Z.of_N c else Z.of_N c - 256.

(* s[i] of a NUL-terminated string whose contents are l (i <= length) *)
Definition byte_at (l : bytes) (i : N) : N := match nthN i l with Some c => c | None => 0%N end.

(* ------------------------------------------------------------------ *)
(* atoi = (int) strtol(s, NULL, 10): white space, optional sign, digits; the long result
   saturates, the conversion to int wraps *)
Fixpoint skip_space (l : bytes) : bytes :=
  match l with
  | c :: r => if is_space c then skip_space r else l
  | [] => []
  end.

Fixpoint atoi_digits (acc : Z) (l : bytes) : Z :=
  match l with
  | c :: r => if is_digit c then atoi_digits (acc * 10 + (Z.of_N c - 48)) r else acc
  | [] => acc
  end.

Definition LONG_MAX : Z := 9223372036854775807.
Definition LONG_MIN : Z := -9223372036854775808.

Definition strtol10 (l : bytes) : Z :=
  match skip_space l with
  | c :: r =>
      if (c =? 45)%N then Z.max (- atoi_digits 0 r) LONG_MIN
      else if (c =? 43)%N then Z.min (atoi_digits 0 r) LONG_MAX
      else Z.min (atoi_digits 0 (c :: r)) LONG_MAX
  | [] => 0
  end.

Definition to_int (v : Z) : Z :=
  let w := v mod 4294967296 in if w <? 2147483648 then w else w - 4294967296.

Definition atoi (l : bytes) : Z := to_int (strtol10 l).

(* strchr(s, ch) for ch <> 0: (bytes before the first ch, bytes after it) *)
Fixpoint split_at (ch : N) (l : bytes) : option (bytes * bytes) :=
  match l with
  | [] => None
  | c :: r =>
      if (c =? ch)%N then Some ([], r)
      else match split_at ch r with
           | Some (a, b) => Some (c :: a, b)
           | None => None
           end
  end.

(* strncmp(a, b, n) == 0 on NUL-terminated strings with contents a, b *)
Fixpoint strncmp_eq (n : nat) (a b : bytes) : bool :=
  match n with
  | O => true
  | S k =>
      let x := byte_at a 0 in
      let y := byte_at b 0 in
      if (x =? y)%N then (if (x =? 0)%N then true else strncmp_eq k (tl a) (tl b)) else false
  end.

(* ------------------------------------------------------------------ *)
(* make_num, make_month, tmSaneValues *)
Definition make_num (s : bytes) : Z :=
  let c0 := byte_at s 0 in
  let c1 := byte_at s 1 in
  if is_digit c0 then 10 * (schar c0 - 48) + schar c1 - 48 else schar c1 - 48.

Fixpoint find_month (key : bytes) (names : list bytes) (i : Z) : Z :=
  match names with
  | [] => -1
  | nm :: r => if strncmp_eq 3 nm key then i else find_month key r (i + 1)
  end.

Definition make_month (s : bytes) : Z :=
  let c0 := to_upper (byte_at s 0) in
  if (c0 =? 0)%N then -1 else
  let c1 := to_lower (byte_at s 1) in
  if (c1 =? 0)%N then -1 else
  let c2 := to_lower (byte_at s 2) in
  find_month [c0; c1; c2] month_names 0.

Definition in_range (lo hi v : Z) : bool := (lo <=? v) && (v <=? hi).

(* static const int monthDays[12] of tmSaneValues *)
Definition month_days : list Z := [31; 29; 31; 30; 31; 30; 31; 31; 30; 31; 30; 31].
Definition nth_z (l : list Z) (i : Z) : Z := match nthN (Z.to_N i) l with Some v => v | None => 0 end.

(* the leap-year test of tmSaneValues on `long year`; C's % truncates towards zero = Z.rem:
   !(year % 4 != 0 || (year % 100 == 0 && year % 400 != 0)) *)
Definition c_leap (year : Z) : bool :=
  negb (negb (Z.rem year 4 =? 0) || ((Z.rem year 100 =? 0) && negb (Z.rem year 400 =? 0))).

Definition tm_sane (g : tm) : bool :=
  in_range 0 59 (tm_sec g) && in_range 0 59 (tm_min g) && in_range 0 23 (tm_hour g) &&
  in_range 1 31 (tm_mday g) && in_range 0 11 (tm_mon g) &&
  (tm_mday g <=? nth_z month_days (tm_mon g)) &&
  negb ((tm_mon g =? 1) && (tm_mday g =? 29) && negb (c_leap (1900 + tm_year g))).

(* ------------------------------------------------------------------ *)
(* parse_date_elements: None = nullptr *)
Definition GMT : bytes := [71; 77; 84]%N.

Definition year_rule (year : bytes) : Z :=
  let v := atoi year in
  if (lenN year =? 4)%N then v - 1900
  else if v <? 70 then v + 100
  else if v >? 19000 then v - 19000
  else v.

Definition parse_date_elements (day month year atime zone : option bytes) : option tm :=
  match day, month, year, atime with
  | Some day, Some month, Some year, Some atime =>
      if match zone with Some z => negb (list_eqb z GMT) | None => false end then None else
      let mday := atoi day in
      let mon := make_month month in
      if mon <? 0 then None else
      let yr := year_rule year in
      let hour := make_num atime in
      match split_at 58 atime with
      | None => None
      | Some (_, t) =>
          let mi := atoi t in
          let se := match split_at 58 t with Some (_, t2) => atoi t2 | None => 0 end in
          let g := mkTm yr mon mday hour mi se 0 in
          if tm_sane g then Some g else None
      end
  | _, _, _, _ => None
  end.

(* ------------------------------------------------------------------ *)
(* strtok(tmp, ", ") called until it returns NULL: the maximal runs of non-delimiter bytes *)
Definition is_delim (c : N) : bool := ((c =? 44) || (c =? 32))%N.

Definition cons_ne (cur : bytes) (ts : list bytes) : list bytes :=
  match cur with [] => ts | _ :: _ => cur :: ts end.

(* (token being open at the front, complete tokens after it) *)
Fixpoint toks2 (l : bytes) : bytes * list bytes :=
  match l with
  | [] => ([], [])
  | c :: r =>
      let '(cur, ts) := toks2 r in
      if is_delim c then ([], cons_ne cur ts) else (c :: cur, ts)
  end.

Definition split_tokens (l : bytes) : list bytes :=
  let '(cur, ts) := toks2 l in cons_ne cur ts.

(* the pointer variables of parse_date; wday only matters as null / non-null *)
Record pd := mkPd { p_wday : bool; p_day : option bytes; p_month : option bytes;
                    p_year : option bytes; p_time : option bytes; p_zone : option bytes }.

Definition pd0 : pd := mkPd false None None None None None.

Definition first_is_digit (t : bytes) : bool := is_digit (byte_at t 0).

Definition is_some {A} (o : option A) : bool := match o with Some _ => true | None => false end.

(* one iteration of the for loop of parse_date; None = `return nullptr` *)
Definition pd_step (st : pd) (t : bytes) : option pd :=
  if first_is_digit t then
    if negb (is_some (p_day st)) then
      match split_at 45 t with
      | None => Some (mkPd (p_wday st) (Some t) (p_month st) (p_year st) (p_time st) (p_zone st))
      | Some (d, rest) =>
          match split_at 45 rest with
          | None => None
          | Some (m, y) => Some (mkPd (p_wday st) (Some d) (Some m) (Some y) (p_time st) (p_zone st))
          end
      end
    else if is_some (split_at 58 t) then
      Some (mkPd (p_wday st) (p_day st) (p_month st) (p_year st) (Some t) (p_zone st))
    else if negb (is_some (p_year st)) then
      Some (mkPd (p_wday st) (p_day st) (p_month st) (Some t) (p_time st) (p_zone st))
    else None
  else if negb (p_wday st) then
    Some (mkPd true (p_day st) (p_month st) (p_year st) (p_time st) (p_zone st))
  else if negb (is_some (p_month st)) then
    Some (mkPd (p_wday st) (p_day st) (Some t) (p_year st) (p_time st) (p_zone st))
  else if negb (is_some (p_zone st)) then
    Some (mkPd (p_wday st) (p_day st) (p_month st) (p_year st) (p_time st) (Some t))
  else None.

Fixpoint pd_loop (st : pd) (ts : list bytes) : option pd :=
  match ts with
  | [] => Some st
  | t :: r => match pd_step st t with Some st' => pd_loop st' r | None => None end
  end.

(* the C string a byte sequence is when passed as const char * *)
Fixpoint cstr (l : bytes) : bytes :=
  match l with
  | [] => []
  | c :: r => if (c =? 0)%N then [] else c :: cstr r
  end.

(* xstrncpy(tmp, str, 64): at most 63 bytes are kept *)
Definition parse_date (s : bytes) : option tm :=
  let tmp := takeN 63 (cstr s) in
  match pd_loop pd0 (split_tokens tmp) with
  | None => None
  | Some st => parse_date_elements (p_day st) (p_month st) (p_year st) (p_time st) (p_zone st)
  end.

(* Time::ParseRfc1123 (HAVE_TIMEGM branch): -1 on failure *)
Definition ParseRfc1123 (s : bytes) : Z :=
  match parse_date s with
  | None => -1
  | Some g => timegm g
  end.

(* ------------------------------------------------------------------ *)
(* strftime for the conversions used by RFC1123_STRFTIME / RFC850_STRFTIME *)
Definition dig (v : Z) : N := Z.to_N (48 + v).
Definition dec2 (v : Z) : bytes := [dig (v / 10); dig (v mod 10)].

(* decimal digits of v >= 0, most significant first; the fuel (20) covers every value below
   10^20, far above what int tm_year + 1900 can reach; out of fuel is marked by '?' *)
Fixpoint dec_aux (fuel : nat) (v : Z) (acc : bytes) : bytes :=
  match fuel with
  | O => 63%N :: acc
  | S f => let acc' := dig (v mod 10) :: acc in if v <? 10 then acc' else dec_aux f (v / 10) acc'
  end.
Definition dec_z (v : Z) : bytes := if v <? 0 then 45%N :: dec_aux 20 (- v) [] else dec_aux 20 v [].

Definition nth_name (names : list bytes) (i : Z) : bytes :=
  match nthN (Z.to_N i) names with Some nm => nm | None => [63%N] end.

Definition conv (k : N) (g : tm) : bytes :=
  if (k =? 97)%N then nth_name c_abday (tm_wday g)            (* %a *)
  else if (k =? 65)%N then nth_name c_day (tm_wday g)         (* %A *)
  else if (k =? 98)%N then nth_name c_abmon (tm_mon g)        (* %b *)
  else if (k =? 100)%N then dec2 (tm_mday g)                  (* %d *)
  else if (k =? 72)%N then dec2 (tm_hour g)                   (* %H *)
  else if (k =? 77)%N then dec2 (tm_min g)                    (* %M *)
  else if (k =? 83)%N then dec2 (tm_sec g)                    (* %S *)
  else if (k =? 121)%N then dec2 ((tm_year g + 1900) mod 100) (* %y, years >= 0 *)
  else if (k =? 89)%N then dec_z (tm_year g + 1900)           (* %Y *)
  else [37%N; k].                                             (* not used by the code *)

Fixpoint strftime (fmt : bytes) (g : tm) : bytes :=
  match fmt with
  | [] => []
  | c :: r =>
      if (c =? 37)%N then
        match r with
        | k :: r' => conv k g ++ strftime r' g
        | [] => [37%N]
        end
      else c :: strftime r g
  end.

(* Time::FormatRfc1123 *)
Definition FormatRfc1123 (t : Z) : bytes := strftime rfc1123_strftime (gmtime t).

(* ------------------------------------------------------------------ *)
(* the three HTTP-date forms of RFC 9110 section 5.6.7 as functions of their fields:
   every string of a form is the image of some field values (0..99 for 2DIGIT, 0..9999 for
   4DIGIT, a day-name index 0..6, a month index 0..11) *)
Definition dec4 (v : Z) : bytes := [dig (v / 1000); dig ((v / 100) mod 10); dig ((v / 10) mod 10); dig (v mod 10)].

Definition day_name (wd : Z) : bytes := nth_name c_abday wd.
Definition day_name_l (wd : Z) : bytes := nth_name c_day wd.
Definition mon_name (mon : Z) : bytes := nth_name c_abmon mon.
Definition time_of_day (hh mm ss : Z) : bytes := dec2 hh ++ [58%N] ++ dec2 mm ++ [58%N] ++ dec2 ss.

(* IMF-fixdate = day-name "," SP 2DIGIT SP month SP 4DIGIT SP time-of-day SP "GMT" *)
Definition imf_fixdate (wd d mon y hh mm ss : Z) : bytes :=
  day_name wd ++ [44; 32]%N ++ dec2 d ++ [32%N] ++ mon_name mon ++ [32%N] ++ dec4 y ++ [32%N] ++
  time_of_day hh mm ss ++ [32%N] ++ GMT.

(* rfc850-date = day-name-l "," SP 2DIGIT "-" month "-" 2DIGIT SP time-of-day SP "GMT" *)
Definition rfc850_date (wd d mon yy hh mm ss : Z) : bytes :=
  day_name_l wd ++ [44; 32]%N ++ dec2 d ++ [45%N] ++ mon_name mon ++ [45%N] ++ dec2 yy ++ [32%N] ++
  time_of_day hh mm ss ++ [32%N] ++ GMT.

(* asctime-date = day-name SP month SP ( 2DIGIT / ( SP 1DIGIT )) SP time-of-day SP 4DIGIT *)
Definition asctime_day (d : Z) (two : bool) : bytes := if two then dec2 d else [32%N; dig d].
Definition asctime_date (wd mon d : Z) (two : bool) (hh mm ss y : Z) : bytes :=
  day_name wd ++ [32%N] ++ mon_name mon ++ [32%N] ++ asctime_day d two ++ [32%N] ++
  time_of_day hh mm ss ++ [32%N] ++ dec4 y.

(* ------------------------------------------------------------------ *)
(* the specification side: the Gregorian calendar stated directly *)
Definition is_leap (y : Z) : bool := ((y mod 4 =? 0) && negb (y mod 100 =? 0)) || (y mod 400 =? 0).

Definition month_len (y m : Z) : Z :=
  if m =? 2 then (if is_leap y then 29 else 28)
  else if (m =? 4) || (m =? 6) || (m =? 9) || (m =? 11) then 30 else 31.

Definition valid_date (y m d : Z) : bool := in_range 1 12 m && in_range 1 (month_len y m) d.

Definition next_day (ymd : Z * Z * Z) : Z * Z * Z :=
  let '(y, m, d) := ymd in
  if d <? month_len y m then (y, m, d + 1)
  else if m <? 12 then (y, m + 1, 1)
  else (y + 1, 1, 1).

(* seconds from 1970-01-01 00:00:00 UTC to the given civil date and time of day; the day
   count days_from_civil is tied to the calendar by the theorems C35_epoch and
   C35_day_count_follows_calendar (it is 0 on 1 Jan 1970 and grows by one per calendar day) *)
Definition denoted_time (y m d hh mm ss : Z) : option Z :=
  if valid_date y m d && in_range 0 23 hh && in_range 0 59 mm && in_range 0 59 ss
  then Some (days_from_civil y m d * 86400 + hh * 3600 + mm * 60 + ss)
  else None.

(* what the parser answers on a string of one of the three forms (theorems C35_*_answer):
   the denoted time when the fields denote one, otherwise the error value *)
Definition form_answer (y m d hh mm ss : Z) : Z :=
  match denoted_time y m d hh mm ss with Some t => t | None => -1 end.

(* the century window the code applies to a two-digit year *)
Definition yy_year (yy : Z) : Z := if yy <? 70 then 2000 + yy else 1900 + yy.
