(* RefreshModel.v — freshness decisions of the proxy (C12). Executable definitions only.

   Transcribed branch for branch from
     HttpReply::hdrExpirationTime                          (src/HttpReply.cc)
     StoreEntry::timestampsSet, StoreEntry::lastModified   (src/store.cc, src/Store.h)
     refreshStaleness, refreshCheck, refreshIsCachable,
     refreshIsStaleIfHit, refreshCheckHTTP                 (src/refresh.cc)
     clientInterpretRequestHeaders (no-cache part)         (src/client_side_request.cc)
     clientReplyContext::identifyStoreObject / identifyFoundObject / cacheHit / processExpired /
     processMiss (only-if-cached part)                     (src/client_side_reply.cc)
     HttpStateData::haveParsedReplyHeaders / reusableReply / httpMaybeRemovePublic, for a 200 reply to a
     cachable GET without Vary, Authorization or Surrogate-Control (src/http.cc)
   Times are Z (seconds since the epoch, time_t); `int` results are wrapped to 32 bits where the code
   narrows a time_t difference to int (refreshStaleness' return value).  The reason codes, the implicit
   default refresh rule and CC max-stale's "any" value come from gen/RefreshConst_gen.v (regenerated
   from the code on every run).  The floating-point product of the last-modified-factor heuristic,
   static_cast<time_t>(lastmod_delta * R->pct), is the function parameter `lmf` (delta |-> product);
   `lm_default` is its value for the default rule's pct = 0.20 (checked against samples computed by the
   compiled code, RefreshProofs.lm_default_matches_code).

   Not modelled (outside the property; scenarios never use them): stale-if-error (it only sets
   request->flags.failOnValidationError), Vary, negative caching (negative_ttl is 0 by default),
   collapsed forwarding (off by default), send_hit, ICP/HTCP/digest wrappers, request no-store,
   internal and PURGE requests, 304 replies to revalidation (the scripted origin always answers a
   revalidation with a full 200 response). *)
Require Import SquidV.Bytes.
Require Import SquidV.gen.RefreshConst_gen.
Local Open Scope Z_scope.

(* ---------- C integer narrowing ---------- *)
Definition to_int32 (z : Z) : Z := (z + 2147483648) mod 4294967296 - 2147483648.

(* ---------- configuration ---------- *)
(* the refresh_pattern rule R that refreshLimits() finds for the URL, or DefaultRefresh *)
Record rule := mkRule {
  r_min : Z; r_max : Z;
  r_max_stale : Z;              (* R->max_stale, -1 = not given *)
  r_refresh_ims : bool; r_store_stale : bool;
  r_override_expire : bool; r_override_lastmod : bool;
  r_reload_into_ims : bool; r_ignore_reload : bool;
  r_ignore_no_store : bool; r_ignore_private : bool }.

Record config := mkConfig {
  c_rule : rule;
  c_max_stale : Z;              (* Config.maxStale (max_stale directive) *)
  c_min_expiry : Z;             (* Config.minimum_expiry_time *)
  c_refresh_all_ims : bool;     (* Config.onoff.refresh_all_ims *)
  c_reload_into_ims : bool;     (* Config.onoff.reload_into_ims *)
  c_offline : bool;             (* Config.onoff.offline *)
  c_nocache_hack : bool }.      (* refresh_nocache_hack: some refresh_pattern has ignore-reload or reload-into-ims *)

(* DefaultRefresh: static RefreshPattern DefaultRefresh(nullptr) — all flags clear *)
Definition default_rule : rule :=
  mkRule default_rule_min default_rule_max default_rule_max_stale
         default_rule_any_flag default_rule_any_flag default_rule_any_flag default_rule_any_flag
         default_rule_any_flag default_rule_any_flag default_rule_any_flag default_rule_any_flag.

(* a squid.conf without refresh_pattern, max_stale, minimum_expiry_time, refresh_all_ims, reload_into_ims,
   offline_mode lines: directive defaults of src/cf.data.pre (the check reads the same values back from
   the running proxy's cache manager, see checks/c12.py) *)
Definition default_config : config :=
  mkConfig default_rule 604800 60 false false false false.

(* ---------- a parsed reply header (HttpReply after hdrCacheInit) ---------- *)
Record reply := mkReply {
  rp_date : Z;                  (* HttpReply::date = header.getTime(DATE); -1 = absent or unparsable *)
  rp_has_cc : bool;             (* cache_control != nullptr *)
  rp_s_maxage : option Z;       (* hasSMaxAge(&v) *)
  rp_max_age : option Z;        (* hasMaxAge(&v) *)
  rp_has_expires : bool;        (* header.has(EXPIRES) *)
  rp_expires_hdr : Z;           (* header.getTime(EXPIRES); -1 = unparsable *)
  rp_age : Z;                   (* header.getInt(AGE); -1 = absent *)
  rp_last_modified : Z;         (* HttpReply::last_modified; -1 = absent *)
  rp_must_revalidate : bool; rp_proxy_revalidate : bool;
  rp_no_cache : bool;           (* hasNoCacheWithoutParameters() *)
  rp_no_cache_params : bool;    (* hasNoCacheWithParameters() *)
  rp_private : bool; rp_no_store : bool; rp_immutable : bool;
  rp_pragma_no_cache : bool;    (* Pragma: no-cache in the reply *)
  rp_strong_etag : bool;        (* hasEtag() && !etag.weak *)
  rp_content_length : Z }.      (* -1 = unknown *)

Definition cc_flag (rp : reply) (f : reply -> bool) : bool := rp_has_cc rp && f rp.

(* HttpReply::hdrExpirationTime(); vary_ignore_expire is off (and there is no Vary) *)
Definition reply_max_age (rp : reply) : option Z :=
  if rp_has_cc rp then
    match rp_s_maxage rp with
    | Some v => Some v
    | None => rp_max_age rp
    end
  else None.

Definition hdr_expiration_time (rp : reply) (now : Z) : Z :=
  match reply_max_age rp with
  | Some ma => if 0 <=? rp_date rp then rp_date rp + ma else now
  | None =>
      if rp_has_expires rp then
        (* a malformed Expires means "expires immediately": at the reply's own Date when it has one *)
        (if rp_expires_hdr rp <? 0 then (if 0 <=? rp_date rp then rp_date rp else now) else rp_expires_hdr rp)
      else -1
  end.

(* ---------- a store entry ---------- *)
Record entry := mkEntry {
  e_timestamp : Z; e_expires : Z;
  e_lastmod : Z;                (* lastModified_ *)
  e_reval_always : bool;        (* ENTRY_REVALIDATE_ALWAYS *)
  e_reval_stale : bool;         (* ENTRY_REVALIDATE_STALE *)
  e_reply : reply;              (* hasFreshestReply() *)
  e_rexpires : Z;               (* reply->expires *)
  e_recv : Z }.                 (* ghost: squid_curtime when the reply was received *)

(* StoreEntry::lastModified() *)
Definition last_modified (e : entry) : Z :=
  if e_lastmod e <? 0 then e_timestamp e else e_lastmod e.

(* StoreEntry::timestampsSet(): served_date; rt = hier.peerResponseTime seconds (0 when unavailable) *)
Definition served_date (rp : reply) (now rt : Z) : Z :=
  let sd0 := rp_date rp in
  let sd1 := if (sd0 <? 0) || (now <? sd0) then now
             else if sd0 <? now - 86400 then now
             else sd0 in
  let age := rp_age rp in
  let sd2 := if now - sd1 <? age then (if age <? now then now - age else sd1) else sd1 in
  sd2 - rt.

(* exp: relative to served_date when both reply->expires and Date are known, never negative in that case *)
Definition entry_expires (rp : reply) (rexp sd : Z) : Z :=
  if (0 <? rexp) && (-1 <? rp_date rp) then
    (let x := sd + (rexp - rp_date rp) in if x <? 0 then 0 else x)
  else rexp.

(* the entry as HttpStateData::haveParsedReplyHeaders leaves it after timestampsSet(), flags still clear *)
Definition new_entry (rp : reply) (now rt : Z) : entry :=
  let rexp := hdr_expiration_time rp now in
  let sd := served_date rp now rt in
  mkEntry sd (entry_expires rp rexp sd) (rp_last_modified rp) false false rp rexp now.

(* ---------- refreshStaleness ---------- *)
Record sflags := mkSf { sf_expires : bool; sf_min : bool; sf_lmfactor : bool; sf_max : bool }.
Definition sf0 := mkSf false false false false.

Definition refresh_staleness (lmf : Z -> Z) (e : entry) (check_time age : Z) (R : rule) : Z * sflags :=
  if -1 <? e_expires e then
    if check_time <? e_expires e then (-1, mkSf true false false false)
    else (to_int32 (check_time - e_expires e), mkSf true false false false)
  else if r_max R <? age then (to_int32 (age - r_max R), mkSf false false false true)
  else
    let lastmod_delta := e_timestamp e - last_modified e in
    if 0 <? lastmod_delta then
      let stale_age := lmf lastmod_delta in
      if stale_age <=? age then (to_int32 (age - stale_age), mkSf false false true false)
      else (-1, mkSf false false true false)
    else if age <? r_min R then (-1, mkSf false true false false)
    else (to_int32 (age - r_min R), sf0).

(* ---------- requests ---------- *)
Record request := mkReq {
  q_ignore_cc : bool;           (* request->flags.ignoreCc (http_port ignore-cc) *)
  q_has_cc : bool;              (* request->cache_control != nullptr *)
  q_no_cache : bool;            (* cc->hasNoCache() *)
  q_max_age : option Z;         (* cc->hasMaxAge(&v) *)
  q_max_stale : option Z;       (* cc->hasMaxStale(&v); a bare max-stale is CC_MAX_STALE_ANY *)
  q_min_fresh : option Z;       (* cc->hasMinFresh(&v) *)
  q_only_if_cached : bool;      (* cc->hasOnlyIfCached() *)
  q_pragma_no_cache : bool;     (* Pragma header lists no-cache *)
  q_ims : Z;                    (* request->ims, -1 = no If-Modified-Since *)
  q_has_inm : bool;             (* the client sent If-None-Match *)
  q_method_other : bool }.      (* request->method == METHOD_OTHER *)

Definition q_cc (q : request) (f : request -> bool) : bool := q_has_cc q && f q.
Definition q_cc_opt (q : request) (f : request -> option Z) : option Z := if q_has_cc q then f q else None.

(* clientInterpretRequestHeaders: (flags.noCache, flags.nocacheHack) *)
Definition interp_no_cache (cfg : config) (q : request) : bool * bool :=
  let no_cache :=
    (negb (q_ignore_cc q) && (if q_has_cc q then q_no_cache q else q_pragma_no_cache q))
    || q_method_other q in
  if no_cache then
    if use_http_violations && (c_reload_into_ims cfg || c_nocache_hack cfg) then (false, true)
    else (true, false)
  else (false, false).

(* ---------- refreshCheck ---------- *)
(* oq = None is the request == nullptr call of refreshIsCachable; the pair carried with the request is
   (flags.noCache, flags.nocacheHack) as clientInterpretRequestHeaders left them *)
Definition rq_live (oq : option (request * (bool * bool))) : bool :=      (* request && !request->flags.ignoreCc *)
  match oq with Some (q, _) => negb (q_ignore_cc q) | None => false end.
Definition rq_min_fresh (oq : option (request * (bool * bool))) : option Z :=
  match oq with
  | Some (q, _) => if negb (q_ignore_cc q) then q_cc_opt q q_min_fresh else None
  | None => None
  end.
(* age and check_time as refreshStaleness receives them (min-fresh already added) *)
Definition rc_age (e : entry) (oq : option (request * (bool * bool))) (now delta : Z) : Z :=
  let check_time0 := now + delta in
  let age0 := if e_timestamp e <? check_time0 then check_time0 - e_timestamp e else 0 in
  match rq_min_fresh oq with Some m => age0 + m | None => age0 end.
Definition rc_check_time (oq : option (request * (bool * bool))) (now delta : Z) : Z :=
  match rq_min_fresh oq with Some m => now + delta + m | None => now + delta end.

(* the second component of the result is the value of request->flags.noCache after the call
   (refreshCheck may set it) *)
Definition refresh_check (cfg : config) (lmf : Z -> Z) (e : entry) (oq : option (request * (bool * bool)))
           (now delta : Z) : Z * bool :=
  let R := c_rule cfg in
  let nc0 := match oq with Some (_, (nc, _)) => nc | None => false end in
  let live := rq_live oq in
  let age := rc_age e oq now delta in
  let check_time := rc_check_time oq now delta in
  let '(staleness, sf) := refresh_staleness lmf e check_time age R in
  if e_reval_always e || ((-1 <? staleness) && e_reval_stale e) then (STALE_MUST_REVALIDATE, nc0)
  else
    let tail (_ : unit) : Z * bool :=
      if staleness =? -1 then
        if sf_expires sf then (FRESH_EXPIRES, nc0)
        else if sf_lmfactor sf then (FRESH_LMFACTOR_RULE, nc0)
        else (FRESH_MIN_RULE, nc0)
      else
        let max_stale := if 0 <=? r_max_stale R then r_max_stale R else c_max_stale cfg in
        if (0 <=? max_stale) && (max_stale <? staleness) then (STALE_MAX_STALE, nc0)
        else if sf_expires sf then
          (if use_http_violations && r_override_expire R && (age <? r_min R) then (FRESH_OVERRIDE_EXPIRES, nc0)
           else (STALE_EXPIRES, nc0))
        else if sf_max sf then (STALE_MAX_RULE, nc0)
        else if sf_lmfactor sf then
          (if use_http_violations && r_override_lastmod R && (age <? r_min R) then (FRESH_OVERRIDE_LASTMOD, nc0)
           else (STALE_LMFACTOR_RULE, nc0))
        else (STALE_DEFAULT, nc0) in
    match oq with
    | Some (q, (_, hack)) =>
        if negb live then tail tt
        else if (0 <? q_ims q) && (r_refresh_ims R || c_refresh_all_ims cfg) then (STALE_FORCED_RELOAD, nc0)
        else
          let after_hack (_ : unit) : Z * bool :=
            (* if (nullptr != cc) *)
            let max_age_says_stale :=
              match q_cc_opt q q_max_age with
              | Some ma =>
                  if cc_flag (e_reply e) rp_immutable then false
                  else if use_http_violations && r_ignore_reload R && (ma =? 0) then false
                  else (ma <? age) || (ma =? 0)
              | None => false
              end in
            if max_age_says_stale then (STALE_EXCEEDS_REQUEST_MAX_AGE_VALUE, nc0)
            else
              match q_cc_opt q q_max_stale with
              | Some ms =>
                  if -1 <? staleness then
                    if ms =? CC_MAX_STALE_ANY then (FRESH_REQUEST_MAX_STALE_ALL, nc0)
                    else if staleness <? ms then (FRESH_REQUEST_MAX_STALE_VALUE, nc0)
                    else tail tt
                  else tail tt
              | None => tail tt
              end in
          if use_http_violations && hack then
            if r_ignore_reload R then after_hack tt
            else if r_reload_into_ims R || c_reload_into_ims cfg then (STALE_RELOAD_INTO_IMS, nc0)
            else (STALE_FORCED_RELOAD, true)
          else after_hack tt
    | None => tail tt
    end.

(* refreshIsStaleIfHit is only recorded in a request flag; refreshCheckHTTP's return value: *)
Definition refresh_check_http (cfg : config) (lmf : Z -> Z) (e : entry) (q : request) (fl : bool * bool)
           (now : Z) : bool * bool :=
  let '(reason, nc) := refresh_check cfg lmf e (Some (q, fl)) now 0 in
  (negb (c_offline cfg || (reason <? 200)), nc).

(* refreshIsCachable: called from reusableReply before the ENTRY_REVALIDATE_* flags are set *)
Definition refresh_is_cachable (cfg : config) (lmf : Z -> Z) (e : entry) (now : Z) : bool :=
  let '(reason, _) := refresh_check cfg lmf e None now (c_min_expiry cfg) in
  if reason <? STALE_MUST_REVALIDATE then true
  else if last_modified e <? 0 then false
  else if rp_content_length (e_reply e) =? 0 then false
  else true.

(* ---------- what the client side does with a request ---------- *)
Inductive action := AHit | AMiss | ARevalidate | AOnlyIfCached.

(* identifyStoreObject / identifyFoundObject / cacheHit / processExpired / processMiss *)
Definition decide (cfg : config) (lmf : Z -> Z) (st : option entry) (q : request) (now : Z) : action :=
  let fl := interp_no_cache cfg q in
  let miss := if q_cc q q_only_if_cached then AOnlyIfCached else AMiss in
  if fst fl then miss                                   (* "external" no-cache requests skip Store lookups *)
  else match st with
  | None => miss
  | Some e =>
      if c_offline cfg then AHit
      else
        let '(stale, nc) := refresh_check_http cfg lmf e q fl now in
        if stale then
          if last_modified e <? 0 then miss
          else if nc then miss
          else if q_cc q q_only_if_cached then AOnlyIfCached
          else ARevalidate
        else AHit
  end.

(* ---------- what the server side does with the origin's 200 reply ---------- *)
(* HttpReply::olderThan *)
Definition older_than (a b : reply) : bool :=
  negb (rp_date b =? 0) && negb (rp_date a =? 0) && (rp_date a <? rp_date b).

Definition set_flags (e : entry) : entry :=
  let rp := e_reply e in
  let always := if rp_has_cc rp then rp_no_cache rp || rp_private rp
                else use_http_violations && rp_pragma_no_cache rp in
  let stale := rp_has_cc rp && negb always &&
               (rp_proxy_revalidate rp || rp_must_revalidate rp ||
                match rp_s_maxage rp with Some _ => true | None => false end) in
  mkEntry (e_timestamp e) (e_expires e) (e_lastmod e) always stale rp (e_rexpires e) (e_recv e).

(* the store after the origin's reply rp arrived at `now` while `old` was the public entry:
   sawDateGoBack keeps the old entry and never stores the new one; otherwise httpMaybeRemovePublic
   releases the old entry and reusableReply decides whether the new one becomes public *)
Definition store_reply (cfg : config) (lmf : Z -> Z) (old : option entry) (rp : reply) (now rt : Z) : option entry :=
  let R := c_rule cfg in
  let saw_date_go_back := match old with Some o => older_than rp (e_reply o) | None => false end in
  if saw_date_go_back then old
  else
    let e := new_entry rp now rt in
    let viol (f : rule -> bool) := use_http_violations && f R in
    if cc_flag rp rp_no_cache_params then None
    else if cc_flag rp rp_no_store && negb (viol r_ignore_no_store) then None
    else if cc_flag rp rp_private && negb (viol r_ignore_private) then None
    else if refresh_is_cachable cfg lmf e now || viol r_store_stale then Some (set_flags e)
    else None.

(* ---------- histories ---------- *)
Record step := mkStep {
  s_now : Z;                    (* squid_curtime when the request is handled *)
  s_req : request;
  s_reply : reply;              (* the 200 reply the origin gives if it is contacted at this step *)
  s_rt : Z }.                   (* peer response time in whole seconds *)

Inductive obs :=
| OHit (age : option Z)         (* served from the cache, origin not contacted; Age header value if any *)
| OReval (ims : Z) (inm : bool) (* origin contacted with If-Modified-Since: ims (and If-None-Match iff inm) *)
| OMiss                         (* origin contacted with an unconditional request *)
| OOnlyIfCached.                (* 504, origin not contacted, nothing served from the cache *)

Definition do_step (cfg : config) (lmf : Z -> Z) (st : option entry) (s : step) : obs * option entry :=
  match decide cfg lmf st (s_req s) (s_now s) with
  | AHit =>
      (OHit match st with
            | Some e => if e_timestamp e <=? s_now s then Some (s_now s - e_timestamp e) else None
            | None => None end, st)
  | AOnlyIfCached => (OOnlyIfCached, st)
  | AMiss => (OMiss, store_reply cfg lmf st (s_reply s) (s_now s) (s_rt s))
  | ARevalidate =>
      (match st with
       | Some e => OReval (last_modified e) (rp_strong_etag (e_reply e) && negb (q_has_inm (s_req s)))
       | None => OMiss end,
       store_reply cfg lmf st (s_reply s) (s_now s) (s_rt s))
  end.

(* the trace: (store before the step, step, observation) *)
Fixpoint run_trace (cfg : config) (lmf : Z -> Z) (st : option entry) (steps : list step)
  : list (option entry * step * obs) :=
  match steps with
  | [] => []
  | s :: rest =>
      let '(o, st') := do_step cfg lmf st s in
      (st, s, o) :: run_trace cfg lmf st' rest
  end.

Definition run_history (cfg : config) (lmf : Z -> Z) (steps : list step) : list obs :=
  map (fun t => snd t) (run_trace cfg lmf None steps).

(* static_cast<time_t>(lastmod_delta * 0.20) for the default rule *)
Definition lm_default (d : Z) : Z := d / 5.

Definition run_default (steps : list step) : list obs := run_history default_config lm_default steps.
Definition run_with (cfg : config) (steps : list step) : list obs := run_history cfg lm_default steps.

(* refreshCheck alone, for the unit-level correspondence: entry fields given directly *)
Definition check_reason (cfg : config) (e : entry) (oq : option request) (now delta : Z) : Z * bool :=
  refresh_check cfg lm_default e
    (match oq with Some q => Some (q, interp_no_cache cfg q) | None => None end) now delta.
