(* IntrangeModel.v — C43: integer-range ACL data (port, localport).
   Transcribes, from /repo:
     src/acl/IntRange.cc   ACLIntRange::parse (token loop, strchr split at '-', xatos, port2 >= port1,
                           RangeType(port1, port2+1) pushed on a std::list), ACLIntRange::match
     src/Parsing.cc        xatos -> xatol -> xatoll(token, 10, '\0')    (strtoll = TokModel.strtoll10)
     src/base/Range.h      Range<int, size_t>::intersection / size
   The tokens are what ConfigParser::strtokFile() hands out: C strings.  self_destruct() (fatal
   configuration error) is the result None.  `int` arithmetic is explicit: wrapped value plus a flag
   raised when the mathematical result does not fit in 32 bits.
   Executable definitions only. *)
Require Import SquidV.Bytes SquidV.TokModel.
Local Open Scope Z_scope.

Definition int_max : Z := 2147483647.
Definition two32 : Z := 4294967296.
Definition wrap32 (x : Z) : Z := (x + two31) mod two32 - two31.
Definition fits32 (x : Z) : bool := (- two31 <=? x) && (x <=? int_max).
Definition add32 (a b : Z) : Z * bool := (wrap32 (a + b), negb (fits32 (a + b))).
Definition sub32 (a b : Z) : Z * bool := (wrap32 (a - b), negb (fits32 (a - b))).

(* xatoll(token, 10, '\0'): strtoll result (saturated on ERANGE, errno is not looked at);
   None = self_destruct() because no digits were found or characters follow the number *)
Definition xatoll (token : bytes) : option Z :=
  let '(v, n, _) := strtoll10 token in
  if (n =? 0)%N then None
  else match dropN n (c_string token) with
       | [] => Some v                                     (* *end == '\0' *)
       | _ :: _ => None
       end.

(* xatos: xatol (long is 64 bits: the narrowing check never fires), port < 0, port & ~0xFFFF *)
Definition xatos (token : bytes) : option Z :=
  match xatoll token with
  | None => None
  | Some port =>
      if port <? 0 then None
      else if negb (Z.land port (-65536) =? 0) then None
      else Some port                                      (* fits unsigned short *)
  end.

(* one iteration of ACLIntRange::parse: Some (start, end) pushed, None = self_destruct; UB flag *)
Definition ir_parse_token (tok : bytes) : option (Z * Z) * bool :=
  let '(a, rest) := span (fun c => negb (c =? 45)%N) (c_string tok) in       (* strchr(a, '-'), *b = 0, ++b *)
  match xatos a with
  | None => (None, false)
  | Some port1 =>
      let p2 := match rest with [] => Some port1 | _ :: b => xatos b end in
      match p2 with
      | None => (None, false)
      | Some port2 =>
          if port2 >=? port1 then
            let '(e, o) := add32 port2 1 in (Some (port1, e), o)      (* unsigned short promoted to int *)
          else (None, false)
      end
  end.

Fixpoint ir_parse (toks : list bytes) (acc : list (Z * Z)) (ub : bool) : option (list (Z * Z)) * bool :=
  match toks with
  | [] => (Some (rev acc), ub)
  | t :: r =>
      let '(x, o) := ir_parse_token t in
      match x with
      | None => (None, ub || o)
      | Some rg => ir_parse r (rg :: acc) (ub || o)
      end
  end.

(* Range<int>::intersection(...).size() != 0 *)
Definition ir_hit (element toFind : Z * Z) : bool * bool :=
  let s := Z.max (fst element) (fst toFind) in
  let e := Z.min (snd element) (snd toFind) in
  if e >? s then let '(d, o) := sub32 e s in (negb (d mod two64 =? 0), o)    (* (size_t)(end - start) *)
  else (false, false).

Fixpoint ir_scan (ranges : list (Z * Z)) (toFind : Z * Z) (ub : bool) : bool * bool :=
  match ranges with
  | [] => (false, ub)
  | el :: r =>
      let '(h, o) := ir_hit el toFind in
      if h then (true, ub || o) else ir_scan r toFind (ub || o)
  end.

(* ACLIntRange::match(int i): (answer, UB flag) *)
Definition ir_match (ranges : list (Z * Z)) (i : Z) : bool * bool :=
  let '(e, o) := add32 i 1 in
  ir_scan ranges (i, e) o.

(* what the harness drives: parse the tokens, then match every query *)
Definition ir_run (toks : list bytes) (qs : list Z) : option (list (Z * Z) * list bool) * bool :=
  let '(p, o) := ir_parse toks [] false in
  match p with
  | None => (None, o)
  | Some ranges =>
      let rs := map (ir_match ranges) qs in
      (Some (ranges, map fst rs), o || existsb snd rs)
  end.
