(* RangereplyProofs.v — proofs for C15 (Range replies carry exactly the requested bytes). *)
Require Import SquidV.Bytes SquidV.TokModel SquidV.HopModel SquidV.HopProofs SquidV.RangeModel SquidV.RangeProofs.
Require Import SquidV.RangereplyModel.
Require Import SquidV.gen.Rangereply_gen.
Require Import ZifyBool ZifyN ZifyNat.
Local Open Scope Z_scope.

(* ================= byte-string slicing ================= *)
Lemma lenN_dropN {A} n (l : list A) : lenN (dropN n l) = (lenN l - n)%N.
Proof.
  revert n; induction l as [|x l IH]; intros n; cbn [dropN lenN]; [lia|].
  destruct (n =? 0)%N eqn:E; cbn [lenN]; [lia|]. rewrite IH. lia.
Qed.

Lemma dropN_0 {A} (l : list A) : dropN 0 l = l.
Proof. destruct l; reflexivity. Qed.

Lemma takeN_0 {A} (l : list A) : takeN 0 l = [].
Proof. destruct l; reflexivity. Qed.

Lemma dropN_dropN {A} a b (l : list A) : dropN a (dropN b l) = dropN (a + b) l.
Proof.
  revert a b; induction l as [|x l IH]; intros a b; cbn [dropN]; [reflexivity|].
  destruct (b =? 0)%N eqn:Eb.
  - assert (b = 0%N) by lia. subst b. rewrite N.add_0_r. reflexivity.
  - destruct (a + b =? 0)%N eqn:Eab; [lia|]. rewrite IH. f_equal. lia.
Qed.

Lemma takeN_all {A} n (l : list A) : (lenN l <= n)%N -> takeN n l = l.
Proof.
  revert n; induction l as [|x l IH]; intros n H; cbn [takeN]; [reflexivity|].
  cbn [lenN] in H. destruct (n =? 0)%N eqn:E; [lia|]. rewrite IH; [reflexivity|lia].
Qed.

Lemma dropN_all {A} n (l : list A) : (lenN l <= n)%N -> dropN n l = [].
Proof.
  revert n; induction l as [|x l IH]; intros n H; cbn [dropN]; [reflexivity|].
  cbn [lenN] in H. destruct (n =? 0)%N eqn:E; [lia|]. apply IH. lia.
Qed.

Lemma takeN_add {A} a b (l : list A) : takeN (a + b) l = takeN a l ++ takeN b (dropN a l).
Proof.
  revert a b; induction l as [|x l IH]; intros a b; cbn [takeN dropN]; [reflexivity|].
  destruct (a =? 0)%N eqn:Ea.
  - assert (a = 0%N) by lia. subst a. rewrite N.add_0_l. cbn [app takeN]. reflexivity.
  - destruct (a + b =? 0)%N eqn:Eab; [lia|]. cbn [app]. f_equal.
    replace (N.pred (a + b)) with (N.pred a + b)%N by lia. apply IH.
Qed.

Lemma takeN_takeN {A} a b (l : list A) : (a <= b)%N -> takeN a (takeN b l) = takeN a l.
Proof.
  revert a b; induction l as [|x l IH]; intros a b H; cbn [takeN]; [reflexivity|].
  destruct (b =? 0)%N eqn:Eb.
  - assert (a = 0%N) by lia. subst a. reflexivity.
  - cbn [takeN]. destruct (a =? 0)%N eqn:Ea; [reflexivity|]. f_equal. apply IH. lia.
Qed.

Lemma dropN_takeN {A} a b (l : list A) : dropN a (takeN (a + b) l) = takeN b (dropN a l).
Proof.
  revert a b; induction l as [|x l IH]; intros a b; cbn [takeN dropN]; [reflexivity|].
  destruct (a =? 0)%N eqn:Ea.
  - assert (a = 0%N) by lia. subst a. rewrite N.add_0_l. rewrite dropN_0. reflexivity.
  - destruct (a + b =? 0)%N eqn:Eab; [lia|]. cbn [dropN]. rewrite Ea.
    replace (N.pred (a + b)) with (N.pred a + b)%N by lia. apply IH.
Qed.

Lemma zlen_nonneg l : 0 <= zlen l.
Proof. unfold zlen. lia. Qed.

Lemma zlen_app a b : zlen (a ++ b) = zlen a + zlen b.
Proof. unfold zlen. rewrite lenN_app. lia. Qed.

Lemma zlen_nil : zlen [] = 0.
Proof. reflexivity. Qed.

Lemma zlen_zero l : zlen l = 0 -> l = [].
Proof. unfold zlen. destruct l as [|x l]; [reflexivity|]. cbn [lenN]. lia. Qed.

Lemma zlen_take n l : 0 <= n -> zlen (rr_take n l) = Z.min n (zlen l).
Proof. intros H. unfold zlen, rr_take. rewrite lenN_takeN. lia. Qed.

Lemma zlen_drop n l : 0 <= n -> zlen (rr_drop n l) = Z.max 0 (zlen l - n).
Proof. intros H. unfold zlen, rr_drop. rewrite lenN_dropN. lia. Qed.

Lemma zlen_slice obj off len : 0 <= off -> 0 <= len -> off + len <= zlen obj -> zlen (rr_slice obj off len) = len.
Proof. intros H1 H2 H3. unfold rr_slice. rewrite zlen_take by lia. rewrite zlen_drop by lia. lia. Qed.

Lemma take_slice obj off len c : 0 <= c <= len -> rr_take c (rr_slice obj off len) = rr_slice obj off c.
Proof. intros H. unfold rr_slice, rr_take. apply takeN_takeN. lia. Qed.

Lemma drop_slice obj off len c : 0 <= off -> 0 <= c <= len ->
  rr_drop c (rr_slice obj off len) = rr_slice obj (off + c) (len - c).
Proof.
  intros H0 H. unfold rr_slice, rr_take, rr_drop.
  replace (Z.to_N len) with (Z.to_N c + Z.to_N (len - c))%N by lia.
  rewrite dropN_takeN. rewrite dropN_dropN. f_equal. f_equal. lia.
Qed.

Lemma slice_split obj off a b : 0 <= off -> 0 <= a -> 0 <= b ->
  rr_slice obj off (a + b) = rr_slice obj off a ++ rr_slice obj (off + a) b.
Proof.
  intros H0 Ha Hb. unfold rr_slice, rr_take, rr_drop.
  replace (Z.to_N (a + b)) with (Z.to_N a + Z.to_N b)%N by lia.
  rewrite takeN_add. f_equal. rewrite dropN_dropN. f_equal. f_equal. lia.
Qed.

Lemma slice_zero obj off : rr_slice obj off 0 = [].
Proof. unfold rr_slice, rr_take. apply takeN_0. Qed.

Lemma slice_whole obj : rr_slice obj 0 (zlen obj) = obj.
Proof. unfold rr_slice, rr_take, rr_drop. cbn [Z.to_N]. rewrite dropN_0. apply takeN_all. unfold zlen. lia. Qed.

Lemma take_zero l : rr_take 0 l = [].
Proof. apply takeN_0. Qed.

(* ================= the iterator primitives on concrete states ================= *)
Lemma cpm_busy r d o : d <> 0 -> r <> [] -> can_pack_more (mkIt r d o false) = (mkIt r d o false, true).
Proof.
  intros Hd Hr. unfold can_pack_more. cbn [it_debt it_rest it_out it_bad].
  destruct (d =? 0) eqn:E; [lia|]. destruct r as [|c r]; [contradiction|].
  cbn [at_end it_rest rflag it_debt it_out it_bad]. rewrite E. reflexivity.
Qed.

Lemma cpm_next c n r o : snd n <> 0 ->
  can_pack_more (mkIt (c :: n :: r) 0 o false) = (mkIt (n :: r) (snd n) o false, true).
Proof.
  intros Hn. unfold can_pack_more, update_spec.
  cbn [it_debt it_rest it_out it_bad set_rest rflag set_debt at_end Z.eqb negb orb].
  destruct (snd n =? 0) eqn:E; [lia|]. reflexivity.
Qed.

Lemma cpm_last c o : can_pack_more (mkIt [c] 0 o false) = (mkIt [] 0 o false, false).
Proof. reflexivity. Qed.

Lemma cpm_ended o : can_pack_more (mkIt [] 0 o false) = (mkIt [] 0 o false, false).
Proof. reflexivity. Qed.

Lemma gnro_busy co cl r d o : d <> 0 -> o <= co + cl - d ->
  get_next_range_offset (mkIt ((co, cl) :: r) d o false) = (mkIt ((co, cl) :: r) d o false, co + cl - d).
Proof.
  intros Hd Ho. unfold get_next_range_offset. rewrite cpm_busy by (try discriminate; assumption).
  cbn [negb rflag it_rest it_debt it_out it_bad orb current_spec].
  destruct (co + cl - d <? o) eqn:E; [lia|]. rewrite andb_false_r. reflexivity.
Qed.

Lemma lts_busy co cl r d o astart asize : 0 < d ->
  length_to_send (mkIt ((co, cl) :: r) d o false) astart asize =
  (mkIt ((co, cl) :: r) d o false, if astart <? co then 0 else Z.min d asize).
Proof.
  intros Hd. unfold length_to_send. rewrite cpm_busy by (try discriminate; lia).
  cbn [negb rflag it_rest it_debt it_out it_bad orb current_spec].
  destruct (d =? -1) eqn:E1; [lia|]. destruct (0 <? d) eqn:E2; [|lia].
  cbn [negb orb]. destruct (astart <? co); reflexivity.
Qed.

Lemma note_sent_ok r d o n : 0 < d -> 0 <= n <= d ->
  note_sent (mkIt r d o false) n = mkIt r (d - n) (o + n) false.
Proof.
  intros Hd Hn. unfold note_sent. cbn [set_out it_rest it_debt it_out it_bad].
  destruct (d =? -1) eqn:E1; [lia|]. cbn [set_debt rflag it_rest it_debt it_out it_bad orb].
  destruct (d - n <? 0) eqn:E2; [lia|]. destruct (d - n <? -1) eqn:E3; [lia|]. reflexivity.
Qed.

(* ================= what a 206 body has to be ================= *)
(* ascending, disjoint, non-empty, inside the body: the canonical non-complex lists *)
Fixpoint chain (clen lo : Z) (l : list rspec2) : Prop :=
  match l with
  | [] => True
  | c :: r => lo <= fst c /\ 0 < snd c /\ fst c + snd c <= clen /\ chain clen (fst c + snd c) r
  end.

Definition hdr_mp (e : renv) (c : rspec2) : bytes := if e_multipart e then pack_range_hdr e c else [].
Definition term_mp (e : renv) : bytes := if e_multipart e then pack_term_bound e else [].

(* the parts, in order: (part header) ++ object[offset, offset+length) *)
Fixpoint parts_body (e : renv) (obj : bytes) (cs : list rspec2) : bytes :=
  match cs with
  | [] => []
  | c :: r => hdr_mp e c ++ rr_slice obj (fst c) (snd c) ++ parts_body e obj r
  end.
Definition expected_body (e : renv) (obj : bytes) (cs : list rspec2) : bytes := parts_body e obj cs ++ term_mp e.

(* what is still to be written when d bytes of the current spec c are owed *)
Definition hdr_if (e : renv) (c : rspec2) (d : Z) : bytes :=
  if e_multipart e && (d =? snd c) then pack_range_hdr e c else [].
Definition remaining (e : renv) (obj : bytes) (c : rspec2) (r : list rspec2) (d : Z) : bytes :=
  hdr_if e c d ++ rr_slice obj (fst c + snd c - d) d ++ parts_body e obj r ++ term_mp e.

Fixpoint sum_len (l : list rspec2) : Z := match l with [] => 0 | c :: r => snd c + sum_len r end.

Lemma remaining_start e obj c r : remaining e obj c r (snd c) = expected_body e obj (c :: r).
Proof.
  unfold remaining, expected_body, hdr_if, hdr_mp. cbn [parts_body]. rewrite Z.eqb_refl, andb_true_r.
  replace (fst c + snd c - snd c) with (fst c) by lia. unfold hdr_mp. now rewrite <- !app_assoc.
Qed.

Lemma chain_sum_nonneg clen lo l : chain clen lo l -> 0 <= sum_len l.
Proof. revert lo; induction l as [|c r IH]; intros lo H; cbn [sum_len]; [lia|]. destruct H as (_ & H2 & _ & H4). specialize (IH _ H4). lia. Qed.

(* ================= packRange on a buffer that starts at the next wanted byte ================= *)
Definition ready_after (e : renv) (obj : bytes) (c : rspec2) (r : list rspec2) (d : Z) (s' : riter) (out : bytes) : Prop :=
  (s' = mkIt [] 0 (it_out s') false /\ out = remaining e obj c r d) \/
  (exists co' cl' r' d',
      s' = mkIt ((co', cl') :: r') d' (co' + cl' - d') false /\
      0 <= co' /\ 0 < cl' /\ co' + cl' <= zlen obj /\ chain (zlen obj) (co' + cl') r' /\ 0 < d' <= cl' /\
      out ++ remaining e obj (co', cl') r' d' = remaining e obj c r d /\
      d' + sum_len r' < d + sum_len r).

Lemma rflag_f r d o : rflag (mkIt r d o false) false = mkIt r d o false.
Proof. reflexivity. Qed.
Lemma set_out_mk r d o b x : set_out (mkIt r d o b) x = mkIt r d x b.
Proof. reflexivity. Qed.

Ltac simp_it := cbn [it_rest it_out it_debt it_bad orb negb andb current_spec at_end]; rewrite ?rflag_f, ?set_out_mk; cbn [it_rest it_out it_debt it_bad].

Lemma pack_range_ready e obj : e_multipart e = true ->
  forall r co cl d k fuel,
    0 <= co -> 0 < cl -> co + cl <= zlen obj -> chain (zlen obj) (co + cl) r ->
    0 < d <= cl -> 1 <= k -> co + cl - d + k <= zlen obj -> (length r < fuel)%nat ->
    exists s' out,
      pack_range fuel e (mkIt ((co, cl) :: r) d (co + cl - d) false) (co + cl - d) (rr_slice obj (co + cl - d) k) = (s', out) /\
      ready_after e obj (co, cl) r d s' out.
Proof.
  intros Hmp. induction r as [|[no nl] r' IH]; intros co cl d k fuel Hco Hcl Hend Hch Hd Hk Hfit Hfuel.
  - (* last spec *)
    destruct fuel as [|f]; [cbn [length] in Hfuel; lia|].
    set (o := co + cl - d) in *.
    assert (Hz : zlen (rr_slice obj o k) = k) by (apply zlen_slice; lia).
    cbn [pack_range]. cbn [at_end it_rest orb]. rewrite Hz. destruct (k =? 0) eqn:Ek; [lia|].
    rewrite lts_busy by lia. destruct (o <? co) eqn:Eo; [lia|].
    destruct (0 <? Z.min d k) eqn:Ec; [|lia].
    cbn [current_spec it_rest it_out it_debt it_bad]. rewrite Hmp.
    destruct (o <? co + cl) eqn:E1; [|lia]. destruct (o + k >? co) eqn:E2; [|lia].
    simp_it. rewrite note_sent_ok by lia.
    destruct (Z.le_gt_cases d k) as [Hdk|Hkd].
    + (* the spec is completed by this buffer *)
      replace (Z.min d k) with d by lia. replace (d - d) with 0 by lia.
      rewrite cpm_last. cbn [negb it_debt Z.eqb].
      eexists _, _. split; [reflexivity|]. left. split; [reflexivity|].
      unfold remaining, hdr_if, term_mp. cbn [fst snd parts_body app]. rewrite Hmp. cbn [andb].
      rewrite take_slice by lia. fold o. now rewrite <- !app_assoc.
    + replace (Z.min d k) with k by lia.
      rewrite cpm_busy by (try discriminate; lia). cbn [negb].
      rewrite gnro_busy by lia.
      simp_it.
      replace (co + cl - (d - k)) with (o + k) by (unfold o; lia).
      destruct (o + k <? o + k) eqn:E3; [lia|]. simp_it.
      rewrite drop_slice by lia. replace (k - k) with 0 by lia. rewrite slice_zero.
      cbn [zlen lenN Z.of_N]. replace (o + k - (o + k)) with 0 by lia. cbn [Z.leb Z.compare].
      eexists _, _. split; [reflexivity|]. right. exists co, cl, [], (d - k).
      split; [f_equal; unfold o; lia|]. repeat split; try lia; try exact I; try (cbn [sum_len snd length]; lia).
      * unfold remaining, hdr_if. cbn [fst snd]. rewrite Hmp. cbn [andb].
        destruct (d - k =? cl) eqn:E4; [lia|]. cbn [app].
        rewrite take_slice by lia. rewrite <- !app_assoc. f_equal. rewrite app_assoc. f_equal.
        fold o. replace (co + cl - (d - k)) with (o + k) by (unfold o; lia).
        rewrite <- slice_split by lia. f_equal. lia.
  - (* another spec follows *)
    destruct fuel as [|f]; [cbn [length] in Hfuel; lia|].
    cbn [chain fst snd] in Hch. destruct Hch as (Hno & Hnl & Hnend & Hch').
    set (o := co + cl - d) in *.
    assert (Hz : zlen (rr_slice obj o k) = k) by (apply zlen_slice; lia).
    cbn [pack_range]. cbn [at_end it_rest orb]. rewrite Hz. destruct (k =? 0) eqn:Ek; [lia|].
    rewrite lts_busy by lia. destruct (o <? co) eqn:Eo; [lia|].
    destruct (0 <? Z.min d k) eqn:Ec; [|lia].
    cbn [current_spec it_rest it_out it_debt it_bad]. rewrite Hmp.
    destruct (o <? co + cl) eqn:E1; [|lia]. destruct (o + k >? co) eqn:E2; [|lia].
    simp_it. rewrite note_sent_ok by lia.
    destruct (Z.le_gt_cases d k) as [Hdk|Hkd].
    + replace (Z.min d k) with d by lia. replace (d - d) with 0 by lia.
      rewrite cpm_next by (cbn [snd]; lia). cbn [negb snd].
      rewrite gnro_busy by lia. replace (no + nl - nl) with no by lia.
      simp_it.
      replace (o + d) with (co + cl) by (unfold o; lia).
      destruct (no <? co + cl) eqn:E3; [lia|]. simp_it.
      rewrite drop_slice by lia. replace (o + d) with (co + cl) by (unfold o; lia).
      rewrite zlen_slice by lia.
      destruct (k - d <=? no - (co + cl)) eqn:E4.
      * eexists _, _. split; [reflexivity|]. right. exists no, nl, r', nl.
        split; [f_equal; lia|]. repeat split; try lia; try assumption; try (cbn [sum_len snd length]; lia).
        -- rewrite remaining_start. unfold remaining, expected_body. cbn [fst snd]. fold o.
           rewrite take_slice by lia. unfold hdr_if. cbn [snd]. rewrite Hmp. cbn [andb]. now rewrite <- !app_assoc.
      * destruct (d =? 0) eqn:E5; [lia|].
        rewrite drop_slice by lia.
        replace (co + cl + (no - (co + cl))) with no by lia.
        specialize (IH no nl nl (k - d - (no - (co + cl))) f).
        replace (no + nl - nl) with no in IH by lia.
        destruct IH as (s' & out' & Hrun & Hafter); try lia; try assumption.
        { cbn [length] in Hfuel. apply Nat.succ_lt_mono. exact Hfuel. }
        rewrite Hrun. eexists _, _. split; [reflexivity|].
        assert (Hrem : (hdr_if e (co, cl) d ++ rr_take d (rr_slice obj o k)) ++ remaining e obj (no, nl) r' nl
                       = remaining e obj (co, cl) ((no, nl) :: r') d).
        { rewrite remaining_start. unfold remaining, expected_body. cbn [fst snd]. fold o.
          rewrite take_slice by lia. now rewrite <- !app_assoc. }
        unfold hdr_if in Hrem. cbn [snd] in Hrem. rewrite Hmp in Hrem. cbn [andb] in Hrem.
        destruct Hafter as [(Hs' & Hout)|(co' & cl' & r'' & d' & Hs' & H1 & H2 & H3 & H4 & H5 & H6 & H7)].
        -- left. split; [exact Hs'|]. rewrite Hout. exact Hrem.
        -- right. exists co', cl', r'', d'. split; [exact Hs'|]. repeat split; try lia; try assumption; try (cbn [sum_len snd length]; lia).
           ++ rewrite <- app_assoc. rewrite H6. exact Hrem.
    + replace (Z.min d k) with k by lia.
      rewrite cpm_busy by (try discriminate; lia). cbn [negb].
      rewrite gnro_busy by lia.
      simp_it.
      replace (co + cl - (d - k)) with (o + k) by (unfold o; lia).
      destruct (o + k <? o + k) eqn:E3; [lia|]. simp_it.
      rewrite drop_slice by lia. replace (k - k) with 0 by lia. rewrite slice_zero.
      cbn [zlen lenN Z.of_N]. replace (o + k - (o + k)) with 0 by lia. cbn [Z.leb Z.compare].
      eexists _, _. split; [reflexivity|]. right. exists co, cl, ((no, nl) :: r'), (d - k).
      split; [f_equal; unfold o; lia|]. repeat split; try lia; try assumption; try (cbn [sum_len snd length]; lia).
      * unfold remaining, hdr_if. cbn [fst snd]. rewrite Hmp. cbn [andb].
        destruct (d - k =? cl) eqn:E4; [lia|]. cbn [app].
        rewrite take_slice by lia. rewrite <- !app_assoc. f_equal. rewrite app_assoc. f_equal.
        fold o. replace (co + cl - (d - k)) with (o + k) by (unfold o; lia).
        rewrite <- slice_split by lia. f_equal. lia.
Qed.

(* ================= one store buffer at the wanted offset: sendBody + socketState ================= *)
Definition single_ok (e : renv) (r : list rspec2) : Prop := e_multipart e = false -> r = [].

Lemma step_ready e obj : e_clen e = zlen obj ->
  forall r co cl d k,
    single_ok e r ->
    0 <= co -> 0 < cl -> co + cl <= zlen obj -> chain (zlen obj) (co + cl) r ->
    0 < d <= cl -> 1 <= k -> co + cl - d + k <= zlen obj ->
    exists s2 out s3 fin,
      send_buffer e (mkIt ((co, cl) :: r) d (co + cl - d) false) (co + cl - d) (rr_slice obj (co + cl - d) k) = (s2, out) /\
      socket_state e s2 = (s3, fin) /\ it_bad s3 = false /\
      (if fin then out = remaining e obj (co, cl) r d
       else exists co' cl' r' d',
           s3 = mkIt ((co', cl') :: r') d' (co' + cl' - d') false /\ single_ok e r' /\
           0 <= co' /\ 0 < cl' /\ co' + cl' <= zlen obj /\ chain (zlen obj) (co' + cl') r' /\ 0 < d' <= cl' /\
           out ++ remaining e obj (co', cl') r' d' = remaining e obj (co, cl) r d /\
           d' + sum_len r' < d + sum_len r).
Proof.
  intros Hclen r co cl d k Hsingle Hco Hcl Hend Hch Hd Hk Hfit.
  set (o := co + cl - d) in *.
  destruct (e_multipart e) eqn:Hmp.
  - (* multipart: packRange *)
    destruct (pack_range_ready e obj Hmp r co cl d k (S (length ((co, cl) :: r))) Hco Hcl Hend Hch Hd Hk Hfit)
      as (s2 & out & Hrun & Hafter).
    { cbn [length]. apply Nat.lt_succ_r. apply Nat.le_succ_diag_r. }
    assert (Hsb : send_buffer e (mkIt ((co, cl) :: r) d o false) o (rr_slice obj o k) = (s2, out)).
    { unfold send_buffer. rewrite Hmp. cbn [it_rest]. exact Hrun. }
    exists s2, out.
    destruct Hafter as [(Hs2 & Hout)|(co' & cl' & r' & d' & Hs2 & H1 & H2 & H3 & H4 & H5 & H6 & H7)].
    + (* finished *)
      assert (Hss : exists s3, socket_state e s2 = (s3, true) /\ it_bad s3 = false).
      { rewrite Hs2. unfold socket_state. cbn [it_out].
        destruct (e_clen e <=? it_out s2) eqn:E; [eexists; split; reflexivity|].
        rewrite cpm_ended. eexists; split; reflexivity. }
      destruct Hss as (s3 & Hss & Hb). exists s3, true. repeat split; assumption.
    + assert (Hss : socket_state e s2 = (s2, false)).
      { rewrite Hs2. unfold socket_state. cbn [it_out]. rewrite Hclen.
        destruct (zlen obj <=? co' + cl' - d') eqn:E; [lia|].
        rewrite cpm_busy by (try discriminate; lia). reflexivity. }
      exists s2, false. repeat split; try assumption; [rewrite Hs2; reflexivity|].
      exists co', cl', r', d'. repeat split; try lia; try assumption. intros Hm. rewrite Hmp in Hm. discriminate.
  - (* single part *)
    rewrite (Hsingle Hmp) in *. clear Hsingle.
    assert (Hz : zlen (rr_slice obj o k) = k) by (apply zlen_slice; lia).
    assert (Hsb : send_buffer e (mkIt [(co, cl)] d o false) o (rr_slice obj o k) =
                  (mkIt [(co, cl)] (d - Z.min d k) (o + Z.min d k) false, rr_take (Z.min d k) (rr_slice obj o k))).
    { unfold send_buffer. rewrite Hmp. rewrite lts_busy by lia. rewrite Hz.
      destruct (o <? co) eqn:Eo; [lia|]. rewrite note_sent_ok by lia. reflexivity. }
    destruct (Z.le_gt_cases d k) as [Hdk|Hkd].
    + replace (Z.min d k) with d in Hsb by lia. replace (d - d) with 0 in Hsb by lia.
      assert (Hout : rr_take d (rr_slice obj o k) = remaining e obj (co, cl) [] d).
      { unfold remaining, hdr_if, term_mp. rewrite Hmp. cbn [andb app parts_body fst snd]. fold o.
        rewrite take_slice by lia. now rewrite !app_nil_r. }
      assert (Hss : exists s3, socket_state e (mkIt [(co, cl)] 0 (o + d) false) = (s3, true) /\ it_bad s3 = false).
      { unfold socket_state. cbn [it_out].
        destruct (e_clen e <=? o + d) eqn:E; [eexists; split; reflexivity|].
        rewrite cpm_last. eexists; split; reflexivity. }
      destruct Hss as (s3 & Hss & Hb). eexists _, _, s3, true. split; [exact Hsb|]. repeat split; assumption.
    + replace (Z.min d k) with k in Hsb by lia.
      assert (Hss : socket_state e (mkIt [(co, cl)] (d - k) (o + k) false) = (mkIt [(co, cl)] (d - k) (o + k) false, false)).
      { unfold socket_state. cbn [it_out]. rewrite Hclen.
        destruct (zlen obj <=? o + k) eqn:E; [lia|].
        rewrite cpm_busy by (try discriminate; lia). reflexivity. }
      eexists _, _, _, false. split; [exact Hsb|]. split; [exact Hss|]. split; [reflexivity|].
      exists co, cl, [], (d - k). split; [f_equal; unfold o; lia|].
      repeat split; try lia; try exact I; try (cbn [sum_len]; lia).
      unfold remaining, hdr_if, term_mp. rewrite Hmp. cbn [andb app parts_body fst snd]. fold o.
      rewrite take_slice by lia. rewrite !app_nil_r.
      replace (co + cl - (d - k)) with (o + k) by (unfold o; lia).
      rewrite <- slice_split by lia. f_equal. lia.
Qed.

(* ================= the pull loop ================= *)
Fixpoint n_chunks (l : list N) : Z := match l with [] => 0 | _ :: r => 1 + n_chunks r end.

Lemma clip_chunk_bounds k avail : 1 <= avail -> 1 <= clip_chunk k avail <= avail.
Proof. intros H. unfold clip_chunk. lia. Qed.

Lemma pull_loop_exact e obj : e_clen e = zlen obj ->
  forall chunks r co cl d acc,
    single_ok e r ->
    0 <= co -> 0 < cl -> co + cl <= zlen obj -> chain (zlen obj) (co + cl) r -> 0 < d <= cl ->
    d + sum_len r <= n_chunks chunks ->
    pull_loop e obj chunks (mkIt ((co, cl) :: r) d (co + cl - d) false) acc
    = RDone (acc ++ remaining e obj (co, cl) r d) false.
Proof.
  intros Hclen. induction chunks as [|k ks IH]; intros r co cl d acc Hsingle Hco Hcl Hend Hch Hd Hn.
  - cbn [n_chunks] in Hn. pose proof (chain_sum_nonneg _ _ _ Hch). lia.
  - cbn [n_chunks] in Hn. cbn [pull_loop]. rewrite gnro_busy by lia. rewrite Hclen.
    destruct (zlen obj <=? co + cl - d) eqn:E; [lia|].
    pose proof (clip_chunk_bounds k (zlen obj - (co + cl - d)) ltac:(lia)) as Hk.
    destruct (step_ready e obj Hclen r co cl d (clip_chunk k (zlen obj - (co + cl - d))) Hsingle Hco Hcl Hend Hch Hd
                ltac:(lia) ltac:(lia)) as (s2 & out & s3 & fin & Hsb & Hss & Hbad & Hres).
    rewrite Hsb, Hss. destruct fin.
    + rewrite Hbad, Hres. reflexivity.
    + destruct Hres as (co' & cl' & r' & d' & Hs3 & Hsing' & H1 & H2 & H3 & H4 & H5 & H6 & H7).
      rewrite Hs3. rewrite IH by (try assumption; lia). rewrite <- app_assoc, H6. reflexivity.
Qed.

(* ================= the buffer that arrives with the headers ================= *)
Lemma first_dropped e r co cl data : 0 < co -> 0 < cl -> zlen data <> 0 ->
  send_buffer e (mkIt ((co, cl) :: r) cl co false) 0 data = (mkIt ((co, cl) :: r) cl co false, []).
Proof.
  intros Hco Hcl Hz. unfold send_buffer. destruct (e_multipart e) eqn:Hmp.
  - cbn [it_rest length pack_range at_end orb]. destruct (zlen data =? 0) eqn:E; [lia|].
    rewrite lts_busy by lia. destruct (0 <? co) eqn:E1; [|lia]. cbn [Z.ltb Z.compare].
    rewrite cpm_busy by (try discriminate; lia). cbn [negb]. rewrite gnro_busy by lia.
    simp_it. replace (co + cl - cl) with co by lia. destruct (co <? co) eqn:E2; [lia|]. simp_it.
    replace (co - co) with 0 by lia. destruct (zlen data <=? 0) eqn:E3; [pose proof (zlen_nonneg data); lia|].
    cbn [Z.eqb]. reflexivity.
  - rewrite lts_busy by lia. destruct (0 <? co) eqn:E1; [|lia]. rewrite note_sent_ok by lia.
    rewrite take_zero. f_equal. f_equal; lia.
Qed.

Definition first_ok (obj : bytes) (co : Z) (data0 : bytes) : Prop :=
  zlen data0 = 0 \/ 0 < co \/ (exists k, 1 <= k <= zlen obj /\ data0 = rr_slice obj 0 k).

Definition mp_consistent (e : renv) (cs : list rspec2) : Prop := e_multipart e = false -> exists c, cs = [c].

(* ================= Content-Length of the 206 ================= *)
Lemma parts_len e obj : forall cs lo a, 0 <= lo -> chain (zlen obj) lo cs ->
  mrange_clen_loop e cs a = a + zlen (parts_body (mkEnv true (e_clen e) (e_ctype e) (e_boundary e)) obj cs).
Proof.
  induction cs as [|[co cl] r IH]; intros lo a Hlo Hch; cbn [mrange_clen_loop parts_body]; [cbn [zlen lenN Z.of_N]; lia|].
  cbn [chain fst snd] in Hch. destruct Hch as (H1 & H2 & H3 & H4).
  rewrite (IH (co + cl)) by (try assumption; lia). rewrite !zlen_app. cbn [fst snd].
  rewrite zlen_slice by lia. unfold hdr_mp. cbn [e_multipart]. unfold pack_range_hdr. cbn [e_boundary e_ctype e_clen]. lia.
Qed.

Lemma env_eta e : e_multipart e = true -> mkEnv true (e_clen e) (e_ctype e) (e_boundary e) = e.
Proof. destruct e as [m c t b]. cbn. intros ->. reflexivity. Qed.

Lemma declared_length e obj co cl r : e_multipart e = (match r with [] => false | _ => true end) ->
  0 <= co -> chain (zlen obj) 0 ((co, cl) :: r) ->
  snd (prep_partial e ((co, cl) :: r)) = zlen (expected_body e obj ((co, cl) :: r)).
Proof.
  intros Hmp Hco Hch. unfold prep_partial. cbn [snd fst].
  destruct (e_multipart e) eqn:Em.
  - unfold mrange_clen. rewrite (parts_len e obj _ 0 0) by (try assumption; lia). rewrite (env_eta e Em).
    unfold expected_body, term_mp. rewrite Em. rewrite zlen_app. lia.
  - destruct r; [|discriminate]. unfold expected_body, term_mp, hdr_mp. cbn [parts_body]. unfold hdr_mp. rewrite Em.
    cbn [app fst snd]. rewrite !app_nil_r. cbn [chain fst snd] in Hch. rewrite zlen_slice by lia. reflexivity.
Qed.

Lemma prep_partial_cons e co cl r :
  prep_partial e ((co, cl) :: r) = (mkIt ((co, cl) :: r) cl co false, if e_multipart e then mrange_clen e ((co, cl) :: r) else cl).
Proof. reflexivity. Qed.

(* ================= pack_range_exact ================= *)
Theorem run_partial_exact e obj co cl r data0 chunks :
  e_clen e = zlen obj -> single_ok e r -> chain (zlen obj) 0 ((co, cl) :: r) -> first_ok obj co data0 ->
  cl + sum_len r <= n_chunks chunks ->
  snd (run_partial e obj ((co, cl) :: r) data0 chunks) = RDone (expected_body e obj ((co, cl) :: r)) false.
Proof.
  intros Hclen Hsingle Hch Hfirst Hn.
  cbn [chain fst snd] in Hch. destruct Hch as (Hco & Hcl & Hend & Hch).
  unfold run_partial. rewrite prep_partial_cons.
  assert (Hss : socket_state e (mkIt ((co, cl) :: r) cl co false) = (mkIt ((co, cl) :: r) cl co false, false)).
  { unfold socket_state. cbn [it_out]. rewrite Hclen. destruct (zlen obj <=? co) eqn:E; [lia|].
    rewrite cpm_busy by (try discriminate; lia). reflexivity. }
  assert (Hpull : pull_loop e obj chunks (mkIt ((co, cl) :: r) cl co false) [] = RDone (expected_body e obj ((co, cl) :: r)) false).
  { replace co with (co + cl - cl) at 2 by lia. rewrite (pull_loop_exact e obj Hclen) by (try assumption; lia).
    cbn [app]. f_equal. apply (remaining_start e obj (co, cl) r). }
  destruct (zlen data0 =? 0) eqn:Ez.
  - rewrite Hss. cbn [snd]. exact Hpull.
  - destruct (Z.lt_ge_cases 0 co) as [Hpos|Hzero].
    + rewrite first_dropped by lia. rewrite Hss. cbn [snd]. exact Hpull.
    + assert (co = 0) by lia. subst co.
      destruct Hfirst as [Hf|[Hf|(k & Hk & Hdata)]]; [lia|lia|]. subst data0.
      destruct (step_ready e obj Hclen r 0 cl cl k Hsingle ltac:(lia) Hcl Hend Hch ltac:(lia) ltac:(lia) ltac:(lia))
        as (s2 & out & s3 & fin & Hsb & Hss' & Hbad & Hres).
      replace (0 + cl - cl) with 0 in Hsb by lia. rewrite Hsb, Hss'. cbn [snd]. destruct fin.
      * rewrite Hbad, Hres. f_equal. apply (remaining_start e obj (0, cl) r).
      * destruct Hres as (co' & cl' & r' & d' & Hs3 & Hsing' & H1 & H2 & H3 & H4 & H5 & H6 & H7).
        rewrite Hs3. rewrite (pull_loop_exact e obj Hclen) by (try assumption; lia).
        rewrite H6. f_equal. apply (remaining_start e obj (0, cl) r).
Qed.
