(* IcapProofs.v — proofs about the ICAP transaction model (C60). *)
Require Import SquidV.Bytes SquidV.IcapModel SquidV.gen.IcapConst_gen.
Require Import ZifyBool ZifyN ZifyNat.
Local Open Scope N_scope.

Lemma dispatch_table :
  icap_dispatch 100 = 1 /\ icap_dispatch 200 = 2 /\ icap_dispatch 201 = 2 /\ icap_dispatch 204 = 3 /\ icap_dispatch 206 = 4 /\
  forall s, s <> 100 -> s <> 200 -> s <> 201 -> s <> 204 -> s <> 206 -> icap_dispatch s = 0.
Proof.
  repeat split; try reflexivity. intros s H1 H2 H3 H4 H5. unfold icap_dispatch.
  repeat match goal with |- context[?a =? ?b] => destruct (N.eqb_spec a b); [congruence|] end. reflexivity.
Qed.
