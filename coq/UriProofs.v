(* UriProofs.v — lemmas and proofs about UriModel.v (property C30). *)
Require Import SquidV.Bytes SquidV.TokModel SquidV.TokProofs SquidV.QuoteModel SquidV.UriModel.
Require Import SquidV.gen.CharSets_gen SquidV.gen.ByteMaps_gen SquidV.gen.Uri_gen.
Require Import ZifyBool ZifyN ZifyNat.
Local Open Scope N_scope.

(* ------------------------------------------------------------------ *)
(* generic list facts                                                   *)

Lemma span_app_stop {A} (p : A -> bool) (a b : list A) :
  forallb p a = true -> match b with [] => True | y :: _ => p y = false end ->
  span p (a ++ b) = (a, b).
Proof.
  intros Ha Hb. induction a as [|x a IH]; cbn [app].
  - destruct b as [|y b]; cbn [span]; [reflexivity| rewrite Hb; reflexivity].
  - cbn [forallb] in Ha. apply andb_true_iff in Ha as [Hx Ha]. cbn [span]. rewrite Hx, (IH Ha). reflexivity.
Qed.

Lemma forallb_app' {A} (p : A -> bool) a b : forallb p (a ++ b) = forallb p a && forallb p b.
Proof. induction a as [|x a IH]; cbn [app forallb]; [reflexivity| rewrite IH, andb_assoc; reflexivity]. Qed.

Lemma forallb_filter {A} (p q : A -> bool) l : forallb p l = true -> forallb p (filter q l) = true.
Proof.
  induction l as [|x l IH]; cbn [filter forallb]; [reflexivity|]. intros H.
  apply andb_true_iff in H as [Hx Hl]. destruct (q x); cbn [forallb]; [rewrite Hx, (IH Hl); reflexivity| exact (IH Hl)].
Qed.

Lemma forallb_takeN {A} (p : A -> bool) n l : forallb p l = true -> forallb p (takeN n l) = true.
Proof.
  revert n; induction l as [|x l IH]; intros n H; cbn [takeN]; [reflexivity|].
  cbn [forallb] in H. apply andb_true_iff in H as [Hx Hl].
  destruct (n =? 0); cbn [forallb]; [reflexivity| rewrite Hx, (IH _ Hl); reflexivity].
Qed.

Lemma forallb_impl {A} (p q : A -> bool) l :
  (forall x, p x = true -> q x = true) -> forallb p l = true -> forallb q l = true.
Proof.
  intros Hpq. induction l as [|x l IH]; cbn [forallb]; [reflexivity|]. intros H.
  apply andb_true_iff in H as [Hx Hl]. rewrite (Hpq _ Hx), (IH Hl). reflexivity.
Qed.

Lemma takeN_short {A} n (l : list A) : lenN (takeN n l) < n -> takeN n l = l.
Proof. intros H. rewrite lenN_takeN in H. apply takeN_all. lia. Qed.

(* ------------------------------------------------------------------ *)
(* strip_td: removes exactly the trailing dots                          *)

Definition is_dot (c : N) : bool := c =? 46.

Lemma strip_td_spec l : exists t, l = strip_td l ++ t /\ forallb is_dot t = true.
Proof.
  induction l as [|c r IH]; cbn [strip_td].
  - exists []. split; reflexivity.
  - destruct IH as [t [E Ht]]. destruct (strip_td r) as [|y r'] eqn:S.
    + cbn [app] in E. subst r. destruct (c =? 46) eqn:Ec.
      * exists (c :: t). split; [reflexivity|]. cbn [forallb]. unfold is_dot at 1. rewrite Ec, Ht. reflexivity.
      * exists t. split; [reflexivity| exact Ht].
    + exists t. split; [cbn [app] in *; f_equal; exact E| exact Ht].
Qed.

Lemma strip_td_forallb p l : forallb p l = true -> forallb p (strip_td l) = true.
Proof.
  intros H. destruct (strip_td_spec l) as [t [E _]]. rewrite E, forallb_app' in H.
  apply andb_true_iff in H as [H _]. exact H.
Qed.

(* the result has no trailing dot: it is a fixed point *)
Lemma strip_td_idem l : strip_td (strip_td l) = strip_td l.
Proof.
  induction l as [|c r IH]; cbn [strip_td]; [reflexivity|].
  destruct (strip_td r) as [|y r'] eqn:S.
  - destruct (c =? 46) eqn:Ec; cbn [strip_td]; [reflexivity| rewrite Ec; reflexivity].
  - change (strip_td (c :: y :: r')) with
      (match strip_td (y :: r') with [] => if c =? 46 then [] else [c] | y' :: r'' => c :: y' :: r'' end).
    rewrite IH. reflexivity.
Qed.

(* ------------------------------------------------------------------ *)
(* labels: the spec side of "no empty labels"                           *)

Fixpoint split_dots (l : bytes) : list bytes :=
  match l with
  | [] => [[]]
  | c :: r => if c =? 46 then [] :: split_dots r
              else match split_dots r with x :: xs => (c :: x) :: xs | [] => [[c]] end
  end.
Definition nonempty (l : bytes) : bool := match l with [] => false | _ => true end.
Definition no_empty_label (h : bytes) : bool := forallb nonempty (split_dots h).

Lemma split_dots_cons l : exists x xs, split_dots l = x :: xs.
Proof.
  destruct l as [|c r]; cbn [split_dots]; [eexists; eexists; reflexivity|].
  destruct (c =? 46); [eexists; eexists; reflexivity|].
  destruct (split_dots r); eexists; eexists; reflexivity.
Qed.

Lemma strip_td_fix_tail c r : r <> [] -> strip_td (c :: r) = c :: r -> strip_td r = r.
Proof.
  intros Hr H. cbn [strip_td] in H. destruct (strip_td r) as [|y r'] eqn:S.
  - destruct (c =? 46); [discriminate|]. inversion H. subst r. contradiction.
  - inversion H. reflexivity.
Qed.

Lemma labels_aux l :
  l <> [] -> has_dotdot l = false -> strip_td l = l ->
  (starts_dot l = false -> forallb nonempty (split_dots l) = true) /\
  (starts_dot l = true -> forallb nonempty (tl (split_dots l)) = true).
Proof.
  induction l as [|c r IH]; intros Hne Hdd Hfix; [contradiction|].
  destruct r as [|d r'].
  - (* single byte *)
    cbn [strip_td] in Hfix. unfold starts_dot. cbn [starts_ch split_dots]. destruct (c =? 46) eqn:Ec; [discriminate|].
    split; intros H; [reflexivity| discriminate].
  - assert (Hr : d :: r' <> []) by discriminate.
    pose proof (strip_td_fix_tail c (d :: r') Hr Hfix) as Hfix'.
    cbn [has_dotdot] in Hdd. apply orb_false_iff in Hdd as [Hcd Hdd'].
    specialize (IH Hr Hdd' Hfix'). destruct IH as [IH1 IH2].
    change (starts_dot (c :: d :: r')) with (c =? 46). change (split_dots (c :: d :: r')) with
      (if c =? 46 then [] :: split_dots (d :: r')
       else match split_dots (d :: r') with x :: xs => (c :: x) :: xs | [] => [[c]] end).
    destruct (c =? 46) eqn:Ec.
    + split; intros H; [discriminate|]. cbn [tl]. apply IH1. change (starts_dot (d :: r')) with (d =? 46).
      cbn [andb] in Hcd. exact Hcd.
    + split; intros H; [|discriminate].
      destruct (split_dots_cons (d :: r')) as [x [xs E]]. rewrite E. cbn [forallb nonempty].
      destruct (starts_dot (d :: r')) eqn:Sd.
      * specialize (IH2 eq_refl). rewrite E in IH2. cbn [tl] in IH2. exact IH2.
      * specialize (IH1 eq_refl). rewrite E in IH1. cbn [forallb] in IH1.
        apply andb_true_iff in IH1 as [_ IH1]. exact IH1.
Qed.

Lemma labels_ok h :
  h <> [] -> has_dotdot h = false -> starts_dot h = false -> strip_td h = h -> no_empty_label h = true.
Proof. intros H1 H2 H3 H4. exact (proj1 (labels_aux h H1 H2 H4) H3). Qed.

(* ------------------------------------------------------------------ *)
(* per-byte table facts (finite sweeps over the regenerated tables)     *)

Definition upper (c : N) : bool := (65 <=? c) && (c <=? 90).
Definition no_upper (l : bytes) : Prop := forallb (fun c => negb (upper c)) l = true.

Lemma xtolower_not_upper_256 c : c < 256 -> negb (upper (xtolower c)) = true.
Proof. apply (forallb_bytes (fun c => negb (upper (xtolower c)))). vm_compute. reflexivity. Qed.

Lemma tbl_get_default {A} (d : A) t c : lenN t <= c -> tbl_get d t c = d.
Proof.
  revert c; induction t as [|x t IH]; intros c H; cbn [tbl_get]; [reflexivity|].
  cbn [lenN] in H. destruct (c =? 0) eqn:E; [lia|]. apply IH. lia.
Qed.

Lemma xtolower_not_upper c : negb (upper (xtolower c)) = true.
Proof.
  destruct (N.lt_ge_cases c 256) as [H|H]; [apply xtolower_not_upper_256, H|].
  assert (L : lenN uri_xtolower_tbl = 256) by (vm_compute; reflexivity).
  unfold xtolower. rewrite tbl_get_default by lia. unfold upper. lia.
Qed.

Lemma map_xtolower_no_upper l : no_upper (map xtolower l).
Proof.
  unfold no_upper. induction l as [|x l IH]; cbn [map forallb]; [reflexivity|].
  rewrite xtolower_not_upper, IH. reflexivity.
Qed.

(* ------------------------------------------------------------------ *)
(* finish(): what an accepted URI looks like                            *)

Lemma lower_host_no_upper c h : no_upper (lower_host c h).
Proof.
  unfold lower_host. destruct (existsb w_space (map xtolower h)); [|apply map_xtolower_no_upper].
  destruct (c_ws c); try apply map_xtolower_no_upper.
  apply forallb_filter, map_xtolower_no_upper.
Qed.

Lemma finish_inv c ipq sch login host port urlpath u :
  finish c ipq sch login host port urlpath = Some u ->
  let h3 := strip_td (lower_host c host) in
  u_scheme u = sch /\ u_login u = login /\ u_port u = Some port /\ 1 <= port <= 65535 /\
  ws_path c urlpath = Some (u_path u) /\
  (u_host u, u_num u) = set_host ipq h3 /\
  has_dotdot h3 = false /\ starts_dot h3 = false /\
  (c_check c = true -> forallb (hostchars c) (lower_host c host) = true) /\
  h3 <> [] /\ lenN h3 < uri_SQUIDHOSTNAMELEN.
Proof.
  intros H h3. unfold finish in H. fold h3 in H.
  destruct (c_check c && negb (forallb (hostchars c) (lower_host c host))) eqn:Hc; [discriminate|].
  destruct (is_nil h3 || (uri_SQUIDHOSTNAMELEN <=? lenN h3)) eqn:Hn; [discriminate|].
  apply orb_false_iff in Hn as [Hn1 Hn2].
  assert (Hne : h3 <> []) by (intros E; rewrite E in Hn1; discriminate).
  assert (Hlt : lenN h3 < uri_SQUIDHOSTNAMELEN) by (apply N.leb_gt; exact Hn2).
  clear Hn1 Hn2.
  destruct (has_dotdot h3 || starts_dot h3) eqn:Hd; [discriminate|].
  destruct ((port <? 1) || (65535 <? port)) eqn:Hp; [discriminate|].
  destruct (ws_path c urlpath) as [p|] eqn:Hw; [|discriminate].
  destruct (set_host ipq h3) as [h num] eqn:Hs.
  inversion H; subst u; clear H. cbn [u_scheme u_login u_port u_path u_host u_num].
  apply orb_false_iff in Hd as [Hd1 Hd2].
  repeat split; try reflexivity; try lia; try assumption.
Qed.

(* ------------------------------------------------------------------ *)
(* the IP oracle and its assumed contract                               *)

Definition ip_charset (c : N) : bool :=
  ((48 <=? c) && (c <=? 57)) || ((97 <=? c) && (c <=? 102)) || (c =? 58) || (c =? 46).

(* shape of a text that the hostname rules leave alone *)
Definition plain_host (h : bytes) : Prop :=
  h <> [] /\ forallb ip_charset h = true /\ strip_td h = h /\ has_dotdot h = false /\ starts_dot h = false.

Section WithOracle.
  (* Ip::Address::fromHost / isAnyAddr / toHostStr — not modelled.  Assumed contract:
     a canonical text (the IpAddr answer) is either
       - a dotted quad: digits and dots only, no empty label, and recognised as itself, or
       - "[" inner "]" with inner made of 0-9 a-f : . only, containing a ':', not ending in '.',
         and inner is recognised as the same address.
     The check's oracle re-validates both clauses on every answer the harness gives. *)
  Variable ipq : bytes -> ipres.

  Definition v4_text (c : bytes) : Prop :=
    plain_host c /\ existsb (N.eqb colon) c = false /\ ipq c = IpAddr c.
  Definition v6_text (c : bytes) : Prop :=
    exists inner, c = 91 :: inner ++ [93] /\ plain_host inner /\ existsb (N.eqb colon) inner = true /\
                  ipq inner = IpAddr c.
  Definition ipq_contract : Prop := forall q c, ipq q = IpAddr c -> v4_text c \/ v6_text c.

  Lemma ip_charset_no_upper l : forallb ip_charset l = true -> no_upper l.
  Proof.
    apply forallb_impl. intros x H. unfold ip_charset in H. unfold upper. lia.
  Qed.

  Lemma contract_no_upper q c : ipq_contract -> ipq q = IpAddr c -> no_upper c.
  Proof.
    intros HC Hq. destruct (HC q c Hq) as [[[_ [Hcs _]] _]|[inner [E [[_ [Hcs _]] _]]]].
    - apply ip_charset_no_upper, Hcs.
    - subst c. unfold no_upper. cbn [forallb]. rewrite forallb_app'. cbn [forallb].
      rewrite (ip_charset_no_upper _ Hcs). reflexivity.
  Qed.

  Lemma set_host_no_upper h : ipq_contract -> no_upper h -> no_upper (fst (set_host ipq h)).
  Proof.
    intros HC Hh. unfold set_host. destruct (ipq h) eqn:E; cbn [fst]; try (apply forallb_takeN, Hh).
    eapply contract_no_upper; eassumption.
  Qed.

  (* ---------------------------------------------------------------- *)
  (* every accepted URI comes out of finish(), the '*' special case or the urn: branch *)
  Definition star_uri : uri :=
    {| u_scheme := scheme_http; u_login := []; u_host := []; u_num := false;
       u_port := default_port scheme_http; u_path := uri_asterisk |}.

  Lemma parse_urn_scheme sch r u : parse_urn ipq sch r = Some u -> s_id (u_scheme u) = uri_PROTO_URN.
  Proof.
    unfold parse_urn. destruct (tok_prefix nidChars 32 r) as [[nid r1]|]; [|discriminate].
    destruct (tok_skipChar colon r1) as [[|] r2]; [|discriminate].
    destruct (lenN nid <? 2); [discriminate|].
    destruct nid as [|c0 nid']; [discriminate|]. destruct (last_of (c0 :: nid')); [|discriminate].
    destruct (alphanum c0 && alphanum n); [|discriminate].
    destruct (set_host ipq (c0 :: nid')). intros H. inversion H. reflexivity.
  Qed.

  Lemma after_login_inv c sch login fh1 urlpath u :
    after_login c ipq sch login fh1 urlpath = Some u ->
    exists h port, finish c ipq sch login h port urlpath = Some u.
  Proof.
    unfold after_login. destruct (split_host_port fh1) as [h ptxt].
    destruct (if starts_ch 91 fh1 then is_nil h else is_nil fh1); [discriminate|].
    destruct (match ptxt with Some p => port_digits p 0 | None => _ end) as [port|]; [|discriminate].
    intros H. exists h, port. exact H.
  Qed.

  Lemma parse_inv c m raw u :
    parse c ipq m raw = Some u ->
    (u = star_uri /\ list_eqb raw uri_asterisk = true) \/
    (exists sch login h port urlpath, finish c ipq sch login h port urlpath = Some u) \/
    s_id (u_scheme u) = uri_PROTO_URN.
  Proof.
    unfold parse. destruct (uri_MAX_URL - 1 <? lenN raw); [discriminate|].
    destruct (is_star_method m && list_eqb raw uri_asterisk) eqn:Est.
    { intros H. inversion H. left. apply andb_true_iff in Est as [_ Est]. split; [reflexivity| exact Est]. }
    destruct (is_connect m).
    - destruct (parse_host_connect ipq raw) as [[rawHost r1]|]; [|discriminate].
      destruct (tok_skipChar colon r1) as [[|] r2]; [|discriminate].
      destruct (parse_port_connect r2) as [[port r3]|]; [|discriminate].
      destruct r3; [|discriminate]. intros H. right. left. do 5 eexists. exact H.
    - destruct (parse_scheme raw) as [[sch rest]|]; [|discriminate].
      destruct (s_id sch =? uri_PROTO_NONE); [discriminate|].
      destruct (s_id sch =? uri_PROTO_URN).
      + intros H. right. right. eapply parse_urn_scheme. exact H.
      + unfold parse_url. destruct (tok_skip [slash; slash] rest) as [[|] B]; [|discriminate].
        destruct (span (fun c0 => negb (host_delim c0)) (cstr B)) as [fh0 src].
        destruct (split_last 64 fh0) as [[a b]|]; intros H;
          apply after_login_inv in H; destruct H as [h [port H]]; right; left; do 5 eexists; exact H.
  Qed.

  (* ---------------------------------------------------------------- *)
  (* (1a) accepted => host without upper-case letters                  *)
  Theorem accepted_host_lowercase c m raw u :
    ipq_contract -> parse c ipq m raw = Some u -> s_id (u_scheme u) <> uri_PROTO_URN ->
    no_upper (u_host u).
  Proof.
    intros HC H Hurn. apply parse_inv in H. destruct H as [H|[H|H]]; [| |contradiction].
    - destruct H as [-> _]. reflexivity.
    - destruct H as [sch [login [h [port [urlpath H]]]]]. apply finish_inv in H.
      destruct H as [_ [_ [_ [_ [_ [Hs _]]]]]].
      replace (u_host u) with (fst (set_host ipq (strip_td (lower_host c h)))) by (rewrite <- Hs; reflexivity).
      apply set_host_no_upper; [exact HC|]. apply strip_td_forallb, lower_host_no_upper.
  Qed.

  (* (1b) accepted => port in 1..65535 *)
  Lemma star_port : u_port star_uri = Some 80.
  Proof. vm_compute. reflexivity. Qed.

  Theorem accepted_port_in_range c m raw u :
    parse c ipq m raw = Some u -> s_id (u_scheme u) <> uri_PROTO_URN ->
    exists p, u_port u = Some p /\ 1 <= p <= 65535.
  Proof.
    intros H Hurn. apply parse_inv in H. destruct H as [H|[H|H]]; [| |contradiction].
    - destruct H as [-> _]. exists 80. split; [apply star_port| lia].
    - destruct H as [sch [login [h [port [urlpath H]]]]]. apply finish_inv in H.
      destruct H as [_ [_ [Hp [Hr _]]]]. exists port. split; assumption.
  Qed.

  (* (1c) accepted (not the asterisk-form), host not an IP literal => non-empty labels only *)
  Theorem accepted_host_labels c m raw u :
    parse c ipq m raw = Some u -> s_id (u_scheme u) <> uri_PROTO_URN ->
    list_eqb raw uri_asterisk = false -> u_num u = false ->
    u_host u <> [] /\ no_empty_label (u_host u) = true /\ lenN (u_host u) < uri_SQUIDHOSTNAMELEN.
  Proof.
    intros H Hurn Hstar Hnum. apply parse_inv in H. destruct H as [H|[H|H]]; [| |contradiction].
    - destruct H as [_ E]. rewrite E in Hstar. discriminate.
    - destruct H as [sch [login [h [port [urlpath H]]]]]. apply finish_inv in H.
      destruct H as [_ [_ [_ [_ [_ [Hs [Hdd [Hsd [_ [Hne Hlt]]]]]]]]]].
      set (h3 := strip_td (lower_host c h)) in *.
      unfold set_host in Hs.
      assert (E : u_host u = h3).
      { destruct (ipq h3); inversion Hs as [[Eh En]];
          [rewrite Eh; apply takeN_all; clear - Hlt; unfold uri_SQUIDHOSTNAMELEN in Hlt; lia
          |rewrite Eh; apply takeN_all; clear - Hlt; unfold uri_SQUIDHOSTNAMELEN in Hlt; lia |].
        rewrite Hnum in En. discriminate. }
      rewrite E. split; [exact Hne|]. split; [|exact Hlt].
      apply labels_ok; try assumption. unfold h3. apply strip_td_idem.
  Qed.
End WithOracle.

(* ------------------------------------------------------------------ *)
(* refutations (witnesses by computation; each confirmed on the real code, corpus/C30/known.txt) *)

Definition no_ip : bytes -> ipres := fun _ => IpNo.
Lemma no_ip_contract : ipq_contract no_ip.
Proof. intros q c H. discriminate. Qed.

Definition cfg_default : cfg := {| c_check := false; c_underscore := true; c_ws := WsStrip |}.
Definition m_get : N := 1.

(* "http://example.com/a#f": the fragment delimiter is still percent-encoded *)
Definition w_fragment : bytes :=
  [104;116;116;112;58;47;47;101;120;97;109;112;108;101;46;99;111;109;47;97;35;102].
Theorem canonical_reparse_refuted_fragment :
  exists ipq c m raw u u', ipq_contract ipq /\ parse c ipq m raw = Some u /\
    parse c ipq m (canonical m u) = Some u' /\ u_path u' <> u_path u.
Proof.
  exists no_ip, cfg_default, m_get, w_fragment. eexists. eexists.
  split; [exact no_ip_contract|]. split; [vm_compute; reflexivity|].
  split; [vm_compute; reflexivity| vm_compute; discriminate].
Qed.

(* the query delimiter is kept now: "http://example.com/a?b=c" re-parses to itself *)
Definition w_query : bytes :=
  [104;116;116;112;58;47;47;101;120;97;109;112;108;101;46;99;111;109;47;97;63;98;61;99].
Example query_roundtrip :
  exists u, parse cfg_default no_ip m_get w_query = Some u /\ canonical m_get u = w_query /\
            parse cfg_default no_ip m_get (canonical m_get u) = Some u.
Proof. eexists. split; [vm_compute; reflexivity|]. split; vm_compute; reflexivity. Qed.

(* "urn:12:xyz" with an oracle that reads "12" as 0.0.0.12 (as inet_aton does) and satisfies the
   contract: the canonical form "urn:0.0.0.12:xyz" is rejected *)
Definition t_12 : bytes := [49;50].
Definition t_00012 : bytes := [48;46;48;46;48;46;49;50].
Definition ip_12 : bytes -> ipres :=
  fun q => if list_eqb q t_12 || list_eqb q t_00012 then IpAddr t_00012 else IpNo.
Lemma ip_12_contract : ipq_contract ip_12.
Proof.
  intros q c H. unfold ip_12 in H. destruct (list_eqb q t_12 || list_eqb q t_00012); [|discriminate].
  inversion H. subst c. left. unfold v4_text, plain_host.
  split; [split; [discriminate| repeat split; vm_compute; reflexivity]|]. split; vm_compute; reflexivity.
Qed.
Definition w_urn : bytes := [117;114;110;58;49;50;58;120;121;122].
Theorem canonical_reparse_refuted_urn_nid :
  exists ipq c m raw u, ipq_contract ipq /\ parse c ipq m raw = Some u /\
    parse c ipq m (canonical m u) = None.
Proof.
  exists ip_12, cfg_default, m_get, w_urn. eexists.
  split; [exact ip_12_contract|]. split; [vm_compute; reflexivity|]. vm_compute. reflexivity.
Qed.

(* "http://[a:80/" : host "a:80", canonical form "http://a:80/" means host "a" *)
Definition w_colon_host : bytes := [104;116;116;112;58;47;47;91;97;58;56;48;47].
Theorem canonical_reparse_refuted_colon_host :
  exists ipq c m raw u u', ipq_contract ipq /\ parse c ipq m raw = Some u /\
    parse c ipq m (canonical m u) = Some u' /\ u_host u' <> u_host u.
Proof.
  exists no_ip, cfg_default, m_get, w_colon_host. eexists. eexists.
  split; [exact no_ip_contract|]. split; [vm_compute; reflexivity|].
  split; [vm_compute; reflexivity| vm_compute; discriminate].
Qed.


(* ================================================================== *)
(* RFC-shaped URIs: scheme "://" authority rest — what parse() computes *)

Lemma span_takeN_app {A} (p : A -> bool) a c x n :
  forallb p a = true -> p c = false -> lenN a <= n ->
  fst (span p (takeN n (a ++ c :: x))) = a.
Proof.
  revert n. induction a as [|y a IH]; intros n Ha Hc Hn; cbn [app takeN].
  - destruct (n =? 0); cbn [span fst]; [reflexivity| rewrite Hc; reflexivity].
  - cbn [forallb] in Ha. apply andb_true_iff in Ha as [Hy Ha]. cbn [lenN] in Hn.
    destruct (n =? 0) eqn:E; [lia|]. cbn [span]. rewrite Hy.
    specialize (IH (N.pred n) Ha Hc ltac:(lia)).
    destruct (span p (takeN (N.pred n) (a ++ c :: x))) as [s1 s2]. cbn [fst] in *. rewrite IH. reflexivity.
Qed.

Definition head_alpha (l : bytes) : bool := match l with c :: _ => cs_ALPHA c | [] => false end.

(* a scheme name as uriParseScheme accepts it *)
Definition scheme_text (s : bytes) : Prop :=
  forallb schemeChars s = true /\ lenN s <= 16 /\ head_alpha s = true.

Lemma parse_scheme_app s X : scheme_text s -> parse_scheme (s ++ colon :: X) = Some (scheme_of s, X).
Proof.
  intros [Hs [Hl Ha]]. unfold parse_scheme. rewrite tok_prefix_eq_spec. unfold prefix_spec.
  rewrite (span_takeN_app schemeChars s colon X 16 Hs eq_refl Hl).
  destruct s as [|c0 s']; [discriminate|].
  rewrite dropN_app_exact. unfold tok_skipChar. change (colon =? colon) with true. cbv iota.
  cbn [head_alpha] in Ha. rewrite Ha. reflexivity.
Qed.

Lemma tok_skip_slashes Y : tok_skip [slash; slash] (slash :: slash :: Y) = (true, Y).
Proof.
  unfold tok_skip.
  assert (E : starts_with (slash :: slash :: Y) [slash; slash] = true) by (cbn; destruct Y; reflexivity).
  rewrite E.
  change (lenN [slash; slash]) with 2. change (dropN 2 (slash :: slash :: Y)) with (dropN 0 Y).
  rewrite dropN_0. reflexivity.
Qed.

Definition nul_free_b (l : bytes) : bool := forallb (fun c => negb (c =? 0)) l.
Lemma cstr_app_nul_free a b : nul_free_b a = true -> cstr (a ++ b) = a ++ cstr b.
Proof.
  induction a as [|x a IH]; cbn [app]; [reflexivity|]. unfold nul_free_b. cbn [forallb]. intros H.
  apply andb_true_iff in H as [Hx Ha]. cbn [cstr]. apply negb_true_iff in Hx. rewrite Hx, (IH Ha). reflexivity.
Qed.

(* bytes that the authority loop copies into foundHost *)
Definition auth_char (c : N) : bool := negb (host_delim c) && negb (c =? 0).
(* the text after the authority: nothing, or it starts with a delimiter (or NUL) *)
Definition rest_ok (rest : bytes) : Prop :=
  match rest with [] => True | y :: _ => host_delim y = true \/ y = 0 end.

Lemma cstr_rest_stop rest : rest_ok rest ->
  match cstr rest with [] => True | y :: _ => negb (host_delim y) = false end.
Proof.
  destruct rest as [|y r]; cbn [cstr rest_ok]; [trivial|]. intros [H| ->].
  - destruct (y =? 0); [exact I|]. rewrite H. reflexivity.
  - exact I.
Qed.

Lemma list_eqb_long x y t (z : N) : list_eqb (x :: y :: t) [z] = false.
Proof. cbn [list_eqb]. apply andb_false_r. Qed.

Lemma split_last_none ch l : existsb (N.eqb ch) l = false -> split_last ch l = None.
Proof.
  induction l as [|x l IH]; cbn [existsb split_last]; [reflexivity|]. intros H.
  apply orb_false_iff in H as [Hx Hl]. rewrite (IH Hl). rewrite N.eqb_sym, Hx. reflexivity.
Qed.

Lemma split_last_app ch a b : existsb (N.eqb ch) b = false -> split_last ch (a ++ ch :: b) = Some (a, b).
Proof.
  intros Hb. induction a as [|x a IH]; cbn [app split_last].
  - rewrite (split_last_none ch b Hb), N.eqb_refl. reflexivity.
  - rewrite IH. reflexivity.
Qed.

Lemma split_first_app ch a b : existsb (N.eqb ch) a = false -> split_first ch (a ++ ch :: b) = Some (a, b).
Proof.
  induction a as [|x a IH]; cbn [app existsb split_first]; intros H.
  - rewrite N.eqb_refl. reflexivity.
  - apply orb_false_iff in H as [Hx Ha]. rewrite N.eqb_sym, Hx, (IH Ha). reflexivity.
Qed.

(* the two RFC shapes of host[:port] *)
Definition no_colon (l : bytes) : bool := negb (existsb (N.eqb colon) l).

Lemma split_host_port_name_port h P :
  starts_ch 91 h = false -> no_colon h = true -> no_colon P = true ->
  split_host_port (h ++ colon :: P) = (h, Some P).
Proof.
  unfold no_colon. intros Hb Hh HP. apply negb_true_iff in Hh, HP. unfold split_host_port.
  assert (E : starts_ch 91 (h ++ colon :: P) = false) by (destruct h; [reflexivity| exact Hb]).
  rewrite E, (split_last_app colon h P HP), Hh. reflexivity.
Qed.

Lemma split_host_port_name h :
  starts_ch 91 h = false -> no_colon h = true -> split_host_port h = (h, None).
Proof.
  unfold no_colon. intros Hb Hh. apply negb_true_iff in Hh. unfold split_host_port.
  rewrite Hb, (split_last_none colon h Hh). reflexivity.
Qed.

Definition no_rbracket (l : bytes) : bool := forallb (fun c => negb (c =? 93)) l.

Lemma split_host_port_literal_port inner P :
  no_rbracket inner = true ->
  split_host_port (91 :: inner ++ 93 :: colon :: P) = (inner, Some P).
Proof.
  intros Hi. unfold split_host_port. change (starts_ch 91 (91 :: inner ++ 93 :: colon :: P)) with true.
  cbv iota. cbn [tl]. rewrite (span_app_stop _ inner (93 :: colon :: P) Hi eq_refl).
  change (93 :: colon :: P) with ([93] ++ colon :: P). rewrite (split_first_app colon [93] P eq_refl). reflexivity.
Qed.

Lemma split_host_port_literal inner :
  no_rbracket inner = true -> split_host_port (91 :: inner ++ [93]) = (inner, None).
Proof.
  intros Hi. unfold split_host_port. change (starts_ch 91 (91 :: inner ++ [93])) with true.
  cbv iota. cbn [tl]. rewrite (span_app_stop _ inner [93] Hi eq_refl). reflexivity.
Qed.

(* the decimal reading of a digit string, the spec side of "the port written in the URI" *)
Definition dec_digit (c : N) : bool := (48 <=? c) && (c <=? 57).
Fixpoint dec_value (l : bytes) (acc : N) : N :=
  match l with [] => acc | c :: r => dec_value r (acc * 10 + (c - 48)) end.

Lemma xisdigit_is_dec_256 c : c < 256 -> Bool.eqb (xisdigit c) (dec_digit c) = true.
Proof. apply (forallb_bytes (fun c => Bool.eqb (xisdigit c) (dec_digit c))). vm_compute. reflexivity. Qed.
Lemma xisdigit_dec c : xisdigit c = true -> dec_digit c = true.
Proof.
  intros H. destruct (N.lt_ge_cases c 256) as [L|L].
  - pose proof (xisdigit_is_dec_256 c L) as E. rewrite H in E. destruct (dec_digit c); [reflexivity| discriminate].
  - unfold xisdigit, uri_xisdigit, mem_tbl in H. rewrite tbl_get_default in H; [discriminate|].
    assert (Len : lenN uri_xisdigit_tbl = 256) by (vm_compute; reflexivity). lia.
Qed.

Lemma port_digits_sound P : forall acc p,
  port_digits P acc = Some p -> forallb dec_digit P = true /\ p = dec_value P acc.
Proof.
  induction P as [|c r IH]; intros acc p; cbn [port_digits forallb dec_value].
  - intros H. inversion H. split; reflexivity.
  - destruct (negb (xisdigit c) || (65535 <? acc)) eqn:E; [discriminate|]. intros H.
    apply orb_false_iff in E as [Ed _]. apply negb_false_iff in Ed.
    destruct (IH _ _ H) as [Hr Hp]. rewrite (xisdigit_dec c Ed), Hr. split; [reflexivity| exact Hp].
Qed.

Section Shape.
  Variable ipq : bytes -> ipres.

  (* parse() on   scheme ":" "//" A rest   where A is what the authority loop copies *)
  Theorem parse_shape c m s A rest :
    is_connect m = false -> scheme_text s ->
    s_id (scheme_of s) <> uri_PROTO_NONE -> s_id (scheme_of s) <> uri_PROTO_URN ->
    forallb auth_char A = true -> rest_ok rest ->
    lenN (s ++ colon :: slash :: slash :: A ++ rest) <= uri_MAX_URL - 1 ->
    parse c ipq m (s ++ colon :: slash :: slash :: A ++ rest) =
      match split_last 64 A with
      | Some (a, b) => after_login c ipq (scheme_of s) (unesc_list a) b (urlpath_of (cstr rest))
      | None => after_login c ipq (scheme_of s) [] A (urlpath_of (cstr rest))
      end.
  Proof.
    intros Hm Hs Hnone Hurn HA Hrest Hlen. unfold parse.
    assert (L : (uri_MAX_URL - 1 <? lenN (s ++ colon :: slash :: slash :: A ++ rest)) = false) by (apply N.ltb_ge; exact Hlen).
    rewrite L, Hm.
    assert (St : list_eqb (s ++ colon :: slash :: slash :: A ++ rest) uri_asterisk = false).
    { destruct Hs as [_ [_ Ha]]. destruct s as [|c0 s']; [discriminate|].
      change uri_asterisk with [42]. destruct s'; apply list_eqb_long. }
    rewrite St, andb_false_r. rewrite (parse_scheme_app s _ Hs).
    apply N.eqb_neq in Hnone, Hurn. rewrite Hnone, Hurn.
    unfold parse_url. rewrite tok_skip_slashes.
    assert (HAn : nul_free_b A = true).
    { unfold nul_free_b. eapply forallb_impl; [|exact HA]. intros x Hx. unfold auth_char in Hx.
      apply andb_true_iff in Hx as [_ Hx]. exact Hx. }
    rewrite (cstr_app_nul_free A rest HAn).
    assert (HAd : forallb (fun c0 => negb (host_delim c0)) A = true).
    { eapply forallb_impl; [|exact HA]. intros x Hx. unfold auth_char in Hx.
      apply andb_true_iff in Hx as [Hx _]. exact Hx. }
    rewrite (span_app_stop _ A (cstr rest) HAd (cstr_rest_stop rest Hrest)). reflexivity.
  Qed.

  (* after_login on  name ":" P  and on  name  *)
  Lemma after_login_name_port c sch login h P urlpath :
    starts_ch 91 h = false -> no_colon h = true -> no_colon P = true ->
    after_login c ipq sch login (h ++ colon :: P) urlpath =
      match port_digits P 0 with
      | Some port => finish c ipq sch login h port urlpath
      | None => None
      end.
  Proof.
    intros Hb Hh HP. unfold after_login. rewrite (split_host_port_name_port h P Hb Hh HP).
    assert (E : starts_ch 91 (h ++ colon :: P) = false) by (destruct h; [reflexivity| exact Hb]).
    rewrite E. assert (N : is_nil (h ++ colon :: P) = false) by (destruct h; reflexivity).
    rewrite N. reflexivity.
  Qed.

  Lemma after_login_name c sch login h urlpath :
    starts_ch 91 h = false -> no_colon h = true -> h <> [] ->
    after_login c ipq sch login h urlpath =
      finish c ipq sch login h (match default_port sch with Some d => d | None => 0 end) urlpath.
  Proof.
    intros Hb Hh Hne. unfold after_login. rewrite (split_host_port_name h Hb Hh), Hb.
    destruct h; [contradiction| reflexivity].
  Qed.

  Lemma after_login_literal_port c sch login inner P urlpath :
    no_rbracket inner = true -> inner <> [] ->
    after_login c ipq sch login (91 :: inner ++ 93 :: colon :: P) urlpath =
      match port_digits P 0 with
      | Some port => finish c ipq sch login inner port urlpath
      | None => None
      end.
  Proof.
    intros Hi Hne. unfold after_login. rewrite (split_host_port_literal_port inner P Hi).
    change (starts_ch 91 (91 :: inner ++ 93 :: colon :: P)) with true. cbv iota.
    destruct inner; [contradiction| reflexivity].
  Qed.

  Lemma after_login_literal c sch login inner urlpath :
    no_rbracket inner = true -> inner <> [] ->
    after_login c ipq sch login (91 :: inner ++ [93]) urlpath =
      finish c ipq sch login inner (match default_port sch with Some d => d | None => 0 end) urlpath.
  Proof.
    intros Hi Hne. unfold after_login. rewrite (split_host_port_literal inner Hi).
    change (starts_ch 91 (91 :: inner ++ [93])) with true. cbv iota.
    destruct inner; [contradiction| reflexivity].
  Qed.

  (* ---------------------------------------------------------------- *)
  (* (3) and the port half of (1), for RFC-shaped URIs
         scheme "://" [userinfo "@"] reg-name ":" P rest
     P is the text between the colon and the end of the authority.  If the URI is accepted then
     P is a non-empty string of decimal digits, its value is in 1..65535 and it IS the port. *)
  Definition userinfo_at (ui : bytes) : Prop :=            (* "" or userinfo "@" *)
    ui = [] \/ exists a, ui = a ++ [64] /\ forallb auth_char a = true.
  Definition no_at (l : bytes) : bool := negb (existsb (N.eqb 64) l).

  Lemma userinfo_auth ui : userinfo_at ui -> forallb auth_char ui = true.
  Proof.
    intros [->|[a [-> Ha]]]; [reflexivity|]. rewrite forallb_app', Ha. reflexivity.
  Qed.

  Lemma split_login ui hp : userinfo_at ui -> no_at hp = true ->
    match split_last 64 (ui ++ hp) with Some (_, b) => b = hp | None => ui = [] end.
  Proof.
    unfold no_at. intros Hui Hhp. apply negb_true_iff in Hhp. destruct Hui as [->|[a [-> Ha]]].
    - cbn [app]. rewrite (split_last_none 64 hp Hhp). reflexivity.
    - rewrite <- app_assoc. cbn [app]. rewrite (split_last_app 64 a hp Hhp). reflexivity.
  Qed.

  Theorem shaped_port_is_written c m s ui h P rest u :
    is_connect m = false -> scheme_text s ->
    s_id (scheme_of s) <> uri_PROTO_NONE -> s_id (scheme_of s) <> uri_PROTO_URN ->
    userinfo_at ui ->
    forallb auth_char h = true -> no_at h = true -> no_colon h = true -> starts_ch 91 h = false ->
    forallb auth_char P = true -> no_at P = true -> no_colon P = true ->
    rest_ok rest ->
    parse c ipq m (s ++ colon :: slash :: slash :: (ui ++ h ++ colon :: P) ++ rest) = Some u ->
    P <> [] /\ forallb dec_digit P = true /\ 1 <= dec_value P 0 <= 65535 /\ u_port u = Some (dec_value P 0).
  Proof.
    intros Hm Hs Hnone Hurn Hui Hh Hha Hhc Hhb HP HPa HPc Hrest H.
    assert (Hlen : lenN (s ++ colon :: slash :: slash :: (ui ++ h ++ colon :: P) ++ rest) <= uri_MAX_URL - 1).
    { unfold parse in H. destruct (uri_MAX_URL - 1 <? lenN _) eqn:E; [discriminate| apply N.ltb_ge in E; exact E]. }
    assert (HA : forallb auth_char (ui ++ h ++ colon :: P) = true).
    { rewrite !forallb_app'. cbn [forallb]. rewrite (userinfo_auth ui Hui), Hh, HP. reflexivity. }
    rewrite (parse_shape c m s _ rest Hm Hs Hnone Hurn HA Hrest Hlen) in H.
    assert (Hhp : no_at (h ++ colon :: P) = true).
    { unfold no_at in *. rewrite existsb_app. cbn [existsb]. apply negb_true_iff in Hha, HPa.
      rewrite Hha, HPa. reflexivity. }
    pose proof (split_login ui (h ++ colon :: P) Hui Hhp) as Hsl.
    assert (exists login, after_login c ipq (scheme_of s) login (h ++ colon :: P) (urlpath_of (cstr rest)) = Some u) as [login Hal].
    { destruct (split_last 64 (ui ++ h ++ colon :: P)) as [[a b]|].
      - subst b. eexists. exact H.
      - subst ui. eexists. exact H. }
    rewrite (after_login_name_port c _ login h P _ Hhb Hhc HPc) in Hal.
    destruct (port_digits P 0) as [port|] eqn:Hpd; [|discriminate].
    destruct (port_digits_sound P 0 port Hpd) as [Hd Hv]. apply finish_inv in Hal.
    destruct Hal as [_ [_ [Hp [Hr _]]]]. subst port.
    split; [|split; [exact Hd| split; [exact Hr| exact Hp]]].
    intros ->. cbn [dec_value] in Hr. clear - Hr. lia.
  Qed.

  (* the same after an IP literal: P may contain anything but '@' and delimiters *)
  Theorem shaped_literal_port_is_written c m s ui inner P rest u :
    is_connect m = false -> scheme_text s ->
    s_id (scheme_of s) <> uri_PROTO_NONE -> s_id (scheme_of s) <> uri_PROTO_URN ->
    userinfo_at ui ->
    forallb auth_char inner = true -> no_at inner = true -> no_rbracket inner = true ->
    forallb auth_char P = true -> no_at P = true ->
    rest_ok rest ->
    parse c ipq m (s ++ colon :: slash :: slash :: (ui ++ 91 :: inner ++ 93 :: colon :: P) ++ rest) = Some u ->
    P <> [] /\ forallb dec_digit P = true /\ 1 <= dec_value P 0 <= 65535 /\ u_port u = Some (dec_value P 0).
  Proof.
    intros Hm Hs Hnone Hurn Hui Hi Hia Hib HP HPa Hrest H.
    assert (Hlen : lenN (s ++ colon :: slash :: slash :: (ui ++ 91 :: inner ++ 93 :: colon :: P) ++ rest) <= uri_MAX_URL - 1).
    { unfold parse in H. destruct (uri_MAX_URL - 1 <? lenN _) eqn:E; [discriminate| apply N.ltb_ge in E; exact E]. }
    assert (HA : forallb auth_char (ui ++ 91 :: inner ++ 93 :: colon :: P) = true).
    { rewrite forallb_app'. cbn [forallb]. rewrite forallb_app'. cbn [forallb].
      rewrite (userinfo_auth ui Hui), Hi, HP. reflexivity. }
    rewrite (parse_shape c m s _ rest Hm Hs Hnone Hurn HA Hrest Hlen) in H.
    assert (Hhp : no_at (91 :: inner ++ 93 :: colon :: P) = true).
    { unfold no_at in *. cbn [existsb]. rewrite existsb_app. cbn [existsb]. apply negb_true_iff in Hia, HPa.
      rewrite Hia, HPa. reflexivity. }
    pose proof (split_login ui _ Hui Hhp) as Hsl.
    assert (exists login, after_login c ipq (scheme_of s) login (91 :: inner ++ 93 :: colon :: P) (urlpath_of (cstr rest)) = Some u) as [login Hal].
    { destruct (split_last 64 (ui ++ 91 :: inner ++ 93 :: colon :: P)) as [[a b]|].
      - subst b. eexists. exact H.
      - subst ui. eexists. exact H. }
    destruct inner as [|i0 inner'] eqn:Ei.
    { (* "[]" : the host-must-be-present test rejects *)
      unfold after_login in Hal. cbn in Hal. discriminate. }
    rewrite <- Ei in *. assert (Hne : inner <> []) by (rewrite Ei; discriminate).
    rewrite (after_login_literal_port c _ login inner P _ Hib Hne) in Hal.
    destruct (port_digits P 0) as [port|] eqn:Hpd; [|discriminate].
    destruct (port_digits_sound P 0 port Hpd) as [Hd Hv]. apply finish_inv in Hal.
    destruct Hal as [_ [_ [Hp [Hr _]]]]. subst port.
    split; [|split; [exact Hd| split; [exact Hr| exact Hp]]].
    intros ->. cbn [dec_value] in Hr. clear - Hr. lia.
  Qed.

  (* without a port: the scheme's default port *)
  Theorem shaped_default_port c m s ui h rest u :
    is_connect m = false -> scheme_text s ->
    s_id (scheme_of s) <> uri_PROTO_NONE -> s_id (scheme_of s) <> uri_PROTO_URN ->
    userinfo_at ui ->
    forallb auth_char h = true -> no_at h = true -> no_colon h = true -> starts_ch 91 h = false ->
    rest_ok rest ->
    parse c ipq m (s ++ colon :: slash :: slash :: (ui ++ h) ++ rest) = Some u ->
    h <> [] /\ u_port u = default_port (scheme_of s) /\ u_scheme u = scheme_of s.
  Proof.
    intros Hm Hs Hnone Hurn Hui Hh Hha Hhc Hhb Hrest H.
    assert (Hlen : lenN (s ++ colon :: slash :: slash :: (ui ++ h) ++ rest) <= uri_MAX_URL - 1).
    { unfold parse in H. destruct (uri_MAX_URL - 1 <? lenN _) eqn:E; [discriminate| apply N.ltb_ge in E; exact E]. }
    assert (HA : forallb auth_char (ui ++ h) = true).
    { rewrite forallb_app', (userinfo_auth ui Hui), Hh. reflexivity. }
    rewrite (parse_shape c m s _ rest Hm Hs Hnone Hurn HA Hrest Hlen) in H.
    pose proof (split_login ui h Hui Hha) as Hsl.
    assert (exists login, after_login c ipq (scheme_of s) login h (urlpath_of (cstr rest)) = Some u) as [login Hal].
    { destruct (split_last 64 (ui ++ h)) as [[a b]|].
      - subst b. eexists. exact H.
      - subst ui. eexists. exact H. }
    destruct h as [|h0 h'] eqn:Eh.
    { unfold after_login in Hal. cbn in Hal. discriminate. }
    rewrite <- Eh in *. assert (Hne : h <> []) by (rewrite Eh; discriminate).
    split; [exact Hne|].
    rewrite (after_login_name c _ login h _ Hhb Hhc Hne) in Hal. apply finish_inv in Hal.
    destruct Hal as [Hsch [_ [Hp [Hr _]]]]. split; [|exact Hsch]. rewrite Hp.
    destruct (default_port (scheme_of s)) as [d|]; [reflexivity| clear - Hr; lia].
  Qed.
End Shape.

(* ================================================================== *)
(* canonical form -> parse: the fixed-point half of (2)                 *)

(* finite sweep over [base, base + 2^k) *)
Fixpoint all_below (k : nat) (base : N) (f : N -> bool) : bool :=
  match k with
  | O => f base
  | S k' => all_below k' base f && all_below k' (base + 2 ^ N.of_nat k') f
  end.
Lemma all_below_spec k : forall base f, all_below k base f = true ->
  forall p, base <= p < base + 2 ^ N.of_nat k -> f p = true.
Proof.
  induction k as [|k IH]; intros base f H p Hp.
  - cbn [all_below] in H. change (2 ^ N.of_nat 0) with 1 in Hp. replace p with base by lia. exact H.
  - cbn [all_below] in H. apply andb_true_iff in H as [H1 H2].
    rewrite Nat2N.inj_succ, N.pow_succ_r' in Hp.
    destruct (N.lt_ge_cases p (base + 2 ^ N.of_nat k)) as [L|L].
    + apply (IH base f H1). lia.
    + apply (IH _ f H2). lia.
Qed.

Definition port_text_ok (p : N) : bool :=
  (p =? 0) ||
  (match port_digits (dec16 p) 0 with Some q => q =? p | None => false end
   && no_colon (dec16 p) && negb (existsb (N.eqb 64) (dec16 p))
   && forallb (fun c => negb (host_delim c) && negb (c =? 0)) (dec16 p)).
Lemma port_text_sweep : all_below 16 0 port_text_ok = true.
Proof. vm_compute. reflexivity. Qed.
Lemma port_text p : 1 <= p <= 65535 ->
  port_digits (dec16 p) 0 = Some p /\ no_colon (dec16 p) = true /\
  negb (existsb (N.eqb 64) (dec16 p)) = true /\ forallb auth_char (dec16 p) = true.
Proof.
  intros Hp. pose proof (all_below_spec 16 0 port_text_ok port_text_sweep p) as H.
  change (2 ^ N.of_nat 16) with 65536 in H. specialize (H ltac:(lia)). unfold port_text_ok in H.
  apply orb_true_iff in H as [H|H]; [lia|].
  apply andb_true_iff in H as [H H4]. apply andb_true_iff in H as [H H3]. apply andb_true_iff in H as [H1 H2].
  destruct (port_digits (dec16 p) 0) as [q|]; [|discriminate]. apply N.eqb_eq in H1. subst q.
  repeat split; assumption.
Qed.

(* per-byte facts about the regenerated Encode tables and PathChars *)
(* the bytes absolutePath() leaves alone (regenerated: PathChars() plus, since 3db1355, '?') *)
Definition path_kept : cset := mem_tbl bm_uri_path_set.
Definition path_kept_is (c : N) : bool := Bool.eqb (path_kept c) (uri_PathChars c || (c =? 63)).
Lemma path_kept_spec c : c < 256 -> path_kept c = uri_PathChars c || (c =? 63).
Proof.
  intros H. apply Bool.eqb_prop. revert c H. apply (forallb_bytes path_kept_is). vm_compute. reflexivity.
Qed.
Definition path_byte_ok (c : N) : bool :=
  negb (path_kept c) ||
  (list_eqb (tbl_entry bm_uri_path c) [c] && negb (c =? 0) && negb (is_crlf c) && negb (w_space c)).
Lemma path_byte_sweep c : c < 256 -> path_byte_ok c = true.
Proof. apply (forallb_bytes path_byte_ok). vm_compute. reflexivity. Qed.
Lemma pathchars_small c : path_kept c = true -> c < 256.
Proof.
  intros H. destruct (N.lt_ge_cases c 256) as [L|L]; [exact L|].
  unfold path_kept, mem_tbl in H. rewrite tbl_get_default in H; [discriminate|].
  assert (Len : lenN bm_uri_path_set = 256) by (vm_compute; reflexivity). lia.
Qed.
Lemma list_eqb_true a : forall b, list_eqb a b = true -> a = b.
Proof.
  induction a as [|x a IH]; intros [|y b] H; cbn [list_eqb] in H; try discriminate; [reflexivity|].
  apply andb_true_iff in H as [Hx Hr]. apply N.eqb_eq in Hx. subst y. rewrite (IH b Hr). reflexivity.
Qed.
Lemma pathchar_facts c : path_kept c = true ->
  tbl_entry bm_uri_path c = [c] /\ (c =? 0) = false /\ is_crlf c = false /\ w_space c = false.
Proof.
  intros H. pose proof (path_byte_sweep c (pathchars_small c H)) as S. unfold path_byte_ok in S.
  rewrite H in S. cbn [negb orb] in S.
  apply andb_true_iff in S as [S S4]. apply andb_true_iff in S as [S S3]. apply andb_true_iff in S as [S1 S2].
  apply list_eqb_true in S1. apply negb_true_iff in S2, S3, S4. repeat split; assumption.
Qed.

Definition clean_path (p : bytes) : Prop := starts_ch slash p = true /\ forallb path_kept p = true.

Lemma clean_encode p : forallb path_kept p = true -> uri_encode_path p = p.
Proof.
  unfold uri_encode_path, map_bytes. induction p as [|x p IH]; cbn [forallb map concat]; [reflexivity|].
  intros H. apply andb_true_iff in H as [Hx Hp]. destruct (pathchar_facts x Hx) as [E _].
  rewrite E, (IH Hp). reflexivity.
Qed.
Lemma clean_cstr p : forallb path_kept p = true -> cstr p = p.
Proof.
  induction p as [|x p IH]; cbn [forallb cstr]; [reflexivity|]. intros H.
  apply andb_true_iff in H as [Hx Hp]. destruct (pathchar_facts x Hx) as [_ [E _]]. rewrite E, (IH Hp). reflexivity.
Qed.
Lemma clean_span p : forallb path_kept p = true -> fst (span (fun c => negb (is_crlf c)) p) = p.
Proof.
  induction p as [|x p IH]; cbn [forallb span]; [reflexivity|]. intros H.
  apply andb_true_iff in H as [Hx Hp]. destruct (pathchar_facts x Hx) as [_ [_ [E _]]]. rewrite E. cbn [negb].
  specialize (IH Hp). destruct (span (fun c => negb (is_crlf c)) p) as [a b]. cbn [fst] in *. rewrite IH. reflexivity.
Qed.
Lemma clean_no_ws p : forallb path_kept p = true -> existsb w_space p = false.
Proof.
  induction p as [|x p IH]; cbn [forallb existsb]; [reflexivity|]. intros H.
  apply andb_true_iff in H as [Hx Hp]. destruct (pathchar_facts x Hx) as [_ [_ [_ E]]]. rewrite E, (IH Hp). reflexivity.
Qed.

(* the userinfo encoder of absolute() emits only bytes the authority loop copies *)
Definition ui_entry_ok (c : N) : bool := forallb auth_char (tbl_entry bm_uri_userinfo c).
Lemma ui_entry_sweep c : c < 256 -> ui_entry_ok c = true.
Proof. apply (forallb_bytes ui_entry_ok). vm_compute. reflexivity. Qed.
Lemma ui_entry_auth c : forallb auth_char (tbl_entry bm_uri_userinfo c) = true.
Proof.
  destruct (N.lt_ge_cases c 256) as [L|L]; [exact (ui_entry_sweep c L)|].
  unfold tbl_entry. rewrite tbl_get_default; [reflexivity|].
  apply N.le_trans with 256; [|exact L]. vm_compute. discriminate.
Qed.
Lemma encode_userinfo_auth l : forallb auth_char (uri_encode_userinfo l) = true.
Proof.
  unfold uri_encode_userinfo, map_bytes. induction l as [|x l IH]; cbn [map concat]; [reflexivity|].
  rewrite forallb_app', ui_entry_auth, IH. reflexivity.
Qed.

(* a host text that the hostname rules of finish() leave exactly as it is *)
Definition settled_host (c : cfg) (h : bytes) : Prop :=
  h <> [] /\ forallb auth_char h = true /\ no_at h = true /\ no_colon h = true /\ starts_ch 91 h = false /\
  lower_host c h = h /\ strip_td h = h /\ has_dotdot h = false /\ starts_dot h = false /\
  (c_check c = true -> forallb (hostchars c) h = true) /\ lenN h < uri_SQUIDHOSTNAMELEN.

Section Reparse.
  Variable ipq : bytes -> ipres.

  (* Re-parsing the canonical form of a URI value whose host is a settled reg-name (or a dotted quad
     that Ip::Address recognises as itself: hypothesis Hhost covers both) and whose path needs no
     encoding gives back the same scheme, host, port and path.  The login is re-read from the
     encoded userinfo (dropped for http/https). *)
  Theorem reparse_canonical c m u port :
    is_connect m = false ->
    scheme_text (s_img (u_scheme u)) -> scheme_of (s_img (u_scheme u)) = u_scheme u ->
    s_id (u_scheme u) <> uri_PROTO_NONE -> s_id (u_scheme u) <> uri_PROTO_URN ->
    u_port u = Some port -> 1 <= port <= 65535 ->
    settled_host c (u_host u) -> set_host ipq (u_host u) = (u_host u, u_num u) ->
    clean_path (u_path u) ->
    lenN (absolute u) <= uri_MAX_URL - 1 ->
    exists login',
      parse c ipq m (absolute u) =
        Some {| u_scheme := u_scheme u; u_login := login'; u_host := u_host u; u_num := u_num u;
                u_port := Some port; u_path := u_path u |}.
  Proof.
    intros Hm Hst Hso Hnone Hurn Hport Hrange Hh Hset [Hp0 Hpc] Hlen.
    destruct Hh as [Hne [Hha [Hhat [Hhc [Hhb [Hlow [Htd [Hdd [Hsd [Hck Hhl]]]]]]]]]].
    set (sch := u_scheme u) in *. set (h := u_host u) in *. set (path := u_path u) in *.
    (* the three parts of absolute() *)
    assert (Epath : absolute_path u = path).
    { unfold absolute_path, path_acc. fold path. destruct path as [|p0 pr] eqn:Ep; [discriminate|].
      rewrite <- Ep. apply clean_encode. rewrite Ep. exact Hpc. }
    set (ui := if ((s_id sch =? uri_PROTO_FTP) || (s_id sch =? uri_PROTO_UNKNOWN)) && negb (is_nil (u_login u))
               then uri_encode_userinfo (u_login u) ++ [64] else []).
    assert (Hui : userinfo_at ui).
    { unfold ui. destruct (_ && _); [right; eexists; split; [reflexivity| apply encode_userinfo_auth]| left; reflexivity]. }
    destruct (port_text port Hrange) as [Hpd [Hpc' [Hpa Hpauth]]].
    set (pp := if opt_n_eqb (Some port) (default_port sch) then [] else colon :: dec16 port).
    assert (Eabs : absolute u = s_img sch ++ colon :: slash :: slash :: (ui ++ h ++ pp) ++ path).
    { unfold absolute. fold sch h. apply N.eqb_neq in Hurn. rewrite Hurn. cbn [negb]. rewrite Epath.
      unfold authority. fold h sch. rewrite Hport. cbn [orb]. fold ui. unfold pp.
      destruct (opt_n_eqb (Some port) (default_port sch)); cbn [negb];
        rewrite <- ?app_assoc; cbn [app]; rewrite ?app_nil_r; reflexivity. }
    rewrite Eabs in Hlen |- *.
    assert (Hrest : rest_ok path).
    { destruct path as [|p0 pr]; [exact I|]. cbn [starts_ch] in Hp0. apply N.eqb_eq in Hp0. subst p0.
      left. reflexivity. }
    assert (HA : forallb auth_char (ui ++ h ++ pp) = true).
    { rewrite !forallb_app', (userinfo_auth ui Hui), Hha. unfold pp.
      destruct (opt_n_eqb _ _); [reflexivity|]. cbn [forallb]. rewrite Hpauth. reflexivity. }
    rewrite (parse_shape ipq c m (s_img sch) _ path Hm Hst) by (try rewrite Hso; assumption).
    rewrite Hso.
    assert (Hhp : no_at (h ++ pp) = true).
    { unfold no_at in *. rewrite existsb_app. apply negb_true_iff in Hhat. rewrite Hhat. unfold pp.
      destruct (opt_n_eqb _ _); [reflexivity|]. cbn [existsb orb]. exact Hpa. }
    pose proof (split_login ui (h ++ pp) Hui Hhp) as Hsl.
    (* the tail of parse() on the re-read text *)
    assert (Hup : urlpath_of (cstr path) = path).
    { rewrite (clean_cstr path Hpc). unfold urlpath_of. rewrite Hp0. cbn [app]. apply clean_span, Hpc. }
    assert (Hfin : forall login',
               finish c ipq sch login' h port path =
               Some {| u_scheme := sch; u_login := login'; u_host := h; u_num := u_num u;
                       u_port := Some port; u_path := path |}).
    { intros login'. unfold finish. rewrite Hlow, Htd.
      assert (Nn : is_nil h || (uri_SQUIDHOSTNAMELEN <=? lenN h) = false).
      { destruct h as [|h0 h']; [contradiction|]. cbn [is_nil orb]. apply N.leb_gt. exact Hhl. }
      rewrite Nn, Hdd, Hsd. cbn [orb].
      assert (Ck : c_check c && negb (forallb (hostchars c) h) = false).
      { destruct (c_check c); [rewrite (Hck eq_refl); reflexivity| reflexivity]. }
      rewrite Ck. assert (Pr : (port <? 1) || (65535 <? port) = false) by (clear - Hrange; lia). rewrite Pr.
      unfold ws_path. rewrite (clean_no_ws path Hpc). rewrite Hset. reflexivity. }
    assert (Hal : forall login', after_login c ipq sch login' (h ++ pp) path =
               Some {| u_scheme := sch; u_login := login'; u_host := h; u_num := u_num u;
                       u_port := Some port; u_path := path |}).
    { intros login'. unfold pp. destruct (opt_n_eqb (Some port) (default_port sch)) eqn:Ed.
      - rewrite app_nil_r, (after_login_name ipq c sch login' h path Hhb Hhc Hne).
        destruct (default_port sch) as [d|]; [|discriminate]. cbn [opt_n_eqb] in Ed. apply N.eqb_eq in Ed.
        subst d. apply Hfin.
      - rewrite (after_login_name_port ipq c sch login' h (dec16 port) path Hhb Hhc Hpc'), Hpd. apply Hfin. }
    rewrite Hup. destruct (split_last 64 (ui ++ h ++ pp)) as [[a b]|].
    - subst b. eexists. apply Hal.
    - rewrite Hsl. cbn [app]. eexists. apply Hal.
  Qed.

  (* corollary: the canonical form of such a URI value is a fixed point *)
  Corollary canonical_fixed_point c m u port :
    is_connect m = false ->
    (s_id (u_scheme u) =? uri_PROTO_FTP) || (s_id (u_scheme u) =? uri_PROTO_UNKNOWN) = false ->
    scheme_text (s_img (u_scheme u)) -> scheme_of (s_img (u_scheme u)) = u_scheme u ->
    s_id (u_scheme u) <> uri_PROTO_NONE -> s_id (u_scheme u) <> uri_PROTO_URN ->
    u_port u = Some port -> 1 <= port <= 65535 ->
    settled_host c (u_host u) -> set_host ipq (u_host u) = (u_host u, u_num u) ->
    clean_path (u_path u) ->
    lenN (absolute u) <= uri_MAX_URL - 1 ->
    exists u', parse c ipq m (absolute u) = Some u' /\ absolute u' = absolute u.
  Proof.
    intros Hm Hnoui Hst Hso Hnone Hurn Hport Hrange Hh Hset Hp Hlen.
    destruct (reparse_canonical c m u port Hm Hst Hso Hnone Hurn Hport Hrange Hh Hset Hp Hlen) as [login' H].
    eexists. split; [exact H|]. unfold absolute, authority, absolute_path, path_acc.
    cbn [u_scheme u_login u_host u_port u_path]. rewrite Hnoui, Hport. cbn [andb]. reflexivity.
  Qed.
End Reparse.
