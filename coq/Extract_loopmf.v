(* Extract_loopmf.v — extraction of the loop-detection / Max-Forwards model (ExtrOcamlBasic only). *)
Require Import ExtrOcamlBasic.
Require Import SquidV.Bytes SquidV.HopModel SquidV.LoopmfModel.
Extraction "m_loopmf.ml" handle cfg_of loop_detected parse_offset via_value fwd_via is_substr str_list_is_substr mf_first dec_N this_cache2.
