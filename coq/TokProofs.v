Require Import SquidV.Bytes SquidV.TokModel.
Local Open Scope N_scope.

Lemma takeN_app_exact {A} (a b : list A) : takeN (lenN a) (a ++ b) = a.
Proof.
  induction a as [|x a IH]; cbn [lenN app takeN].
  - destruct b; [reflexivity|]. reflexivity.
  - destruct (N.succ (lenN a) =? 0) eqn:E; [apply N.eqb_eq in E; lia|].
    rewrite N.pred_succ, IH. reflexivity.
Qed.

Lemma dropN_app_exact {A} (a b : list A) : dropN (lenN a) (a ++ b) = b.
Proof.
  induction a as [|x a IH]; cbn [lenN app dropN].
  - destruct b; reflexivity.
  - destruct (N.succ (lenN a) =? 0) eqn:E; [apply N.eqb_eq in E; lia|].
    rewrite N.pred_succ, IH. reflexivity.
Qed.

Lemma takeN_all {A} n (l : list A) : lenN l <= n -> takeN n l = l.
Proof.
  revert n; induction l as [|x l IH]; intros n H; cbn [takeN lenN] in *; [reflexivity|].
  destruct (n =? 0) eqn:E; [apply N.eqb_eq in E; lia|]. rewrite IH by lia. reflexivity.
Qed.

Lemma dropN_all {A} n (l : list A) : lenN l <= n -> dropN n l = [].
Proof.
  revert n; induction l as [|x l IH]; intros n H; cbn [dropN lenN] in *; [reflexivity|].
  destruct (n =? 0) eqn:E; [apply N.eqb_eq in E; lia|]. apply IH. lia.
Qed.

Lemma takeN_0 {A} (l : list A) : takeN 0 l = [].
Proof. destruct l; reflexivity. Qed.
Lemma dropN_0 {A} (l : list A) : dropN 0 l = l.
Proof. destruct l; reflexivity. Qed.

Lemma find_first_span p l :
  find_first (fun c => negb (p c)) l =
  match snd (span p l) with [] => None | _ :: _ => Some (lenN (fst (span p l))) end.
Proof.
  induction l as [|x l IH]; cbn [find_first span]; [reflexivity|].
  destruct (p x) eqn:E; cbn [negb].
  - rewrite IH. destruct (span p l) as [a b]; cbn [fst snd lenN]. destruct b; reflexivity.
  - reflexivity.
Qed.

Lemma lenN_0_nil {A} (l : list A) : lenN l = 0 -> l = [].
Proof. destruct l; cbn [lenN]; [reflexivity| lia]. Qed.

(* ---- prefix ---- *)
Definition prefix_spec (set : cset) (limit : N) (buf : bytes) : option (bytes * bytes) :=
  let run := fst (span set (takeN limit buf)) in
  match run with [] => None | _ :: _ => Some (run, dropN (lenN run) buf) end.

Lemma tok_prefix_eq_spec set limit buf : tok_prefix set limit buf = prefix_spec set limit buf.
Proof.
  unfold tok_prefix, prefix_spec, findFirstNotOf, substr0.
  rewrite find_first_span.
  pose proof (span_app set (takeN limit buf)) as Happ.
  pose proof (takeN_dropN limit buf) as Htd.
  destruct (span set (takeN limit buf)) as [a b] eqn:S; cbn [fst snd] in *.
  destruct b as [|y b].
  - (* whole window matched *)
    rewrite app_nil_r in Happ. subst a.
    destruct buf as [|x buf]; [reflexivity|].
    destruct (limit =? 0) eqn:L.
    + apply N.eqb_eq in L; subst. reflexivity.
    + assert (Hne : takeN limit (x :: buf) <> []) by (cbn [takeN]; rewrite L; discriminate).
      destruct (takeN limit (x :: buf)) as [|t ts] eqn:T; [congruence|].
      f_equal. f_equal. rewrite <- T. rewrite lenN_takeN.
      destruct (N.min_spec limit (lenN (x :: buf))) as [[H1 H2]|[H1 H2]]; rewrite H2; [reflexivity|].
      rewrite !dropN_all by lia. reflexivity.
  - destruct a as [|t ts]; [reflexivity|].
    remember (lenN (t :: ts)) as k eqn:K.
    destruct k as [|kp]; [cbn [lenN] in K; lia|].
    f_equal. f_equal. rewrite K. rewrite <- Htd, <- Happ, <- app_assoc. apply takeN_app_exact.
Qed.

(* the consequences a caller relies on *)
Theorem tok_prefix_sound set limit buf t r :
  tok_prefix set limit buf = Some (t, r) ->
  t ++ r = buf /\ t <> [] /\ forallb set t = true /\ lenN t <= limit /\
  (lenN t = limit \/ match r with [] => True | y :: _ => set y = false end).
Proof.
  rewrite tok_prefix_eq_spec. unfold prefix_spec.
  pose proof (span_app set (takeN limit buf)) as Happ.
  pose proof (span_all set (takeN limit buf)) as Hall.
  pose proof (span_stop set (takeN limit buf)) as Hstop.
  pose proof (takeN_dropN limit buf) as Htd.
  pose proof (lenN_takeN limit buf) as Hlen.
  destruct (span set (takeN limit buf)) as [a b]; cbn [fst snd] in *.
  destruct a as [|x a]; [discriminate|]. intros H; inversion H; subst t r; clear H.
  assert (E : buf = (x :: a) ++ (b ++ dropN limit buf)) by (rewrite app_assoc, Happ, Htd; reflexivity).
  pose proof (dropN_app_exact (x :: a) (b ++ dropN limit buf)) as Hd. rewrite <- E in Hd.
  change (N.succ (lenN a)) with (lenN (x :: a)).
  split; [|split; [discriminate|split; [exact Hall|]]].
  - rewrite Hd. symmetry. exact E.
  - assert (Hle : lenN (x :: a) <= limit).
    { rewrite <- Happ, lenN_app in Hlen. lia. }
    split; [exact Hle|].
    rewrite Hd.
    destruct b as [|y b]; cbn [app].
    + destruct (N.eq_dec (lenN (x :: a)) limit) as [->|Hne]; [left; reflexivity|right].
      rewrite app_nil_r in Happ. rewrite <- Happ in Hlen.
      rewrite dropN_all by lia. exact I.
    + right. exact Hstop.
Qed.

Theorem tok_prefix_none set limit buf :
  tok_prefix set limit buf = None ->
  buf = [] \/ limit = 0 \/ match buf with y :: _ => set y = false | [] => True end.
Proof.
  rewrite tok_prefix_eq_spec. unfold prefix_spec.
  destruct buf as [|y buf]; [left; reflexivity|]. cbn [takeN].
  destruct (limit =? 0) eqn:L; [apply N.eqb_eq in L; right; left; exact L|].
  cbn [span]. destruct (set y) eqn:E; [|right; right; reflexivity].
  destruct (span set (takeN (N.pred limit) buf)); cbn [fst]. discriminate.
Qed.

(* ---- skipAll ---- *)
Theorem tok_skipAll_spec set buf :
  tok_skipAll set buf = (lenN (fst (span set buf)), snd (span set buf)).
Proof.
  unfold tok_skipAll, findFirstNotOf. rewrite find_first_span.
  pose proof (span_app set buf) as Happ.
  destruct (span set buf) as [a b]; cbn [fst snd] in *.
  destruct b as [|y b].
  - rewrite app_nil_r in Happ. subst. reflexivity.
  - destruct a as [|x a]; [cbn in *; subst; reflexivity|].
    remember (lenN (x :: a)) as k eqn:K. destruct k as [|kp]; [cbn [lenN] in K; lia|].
    f_equal. rewrite K, <- Happ. apply dropN_app_exact.
Qed.

(* ---- suffix / trailing ---- *)
Lemma lenN_rev {A} (l : list A) : lenN (rev l) = lenN l.
Proof. rewrite !lenN_length, rev_length. reflexivity. Qed.

Lemma takeN_dropN_len {A} (a b : list A) :
  takeN (lenN (a ++ b) - lenN b) (a ++ b) = a /\ dropN (lenN (a ++ b) - lenN b) (a ++ b) = b.
Proof.
  rewrite lenN_app. replace (lenN a + lenN b - lenN b) with (lenN a) by lia.
  split; [apply takeN_app_exact | apply dropN_app_exact].
Qed.

(* the maximal run of set members at the end of l, and what precedes it *)
Definition tail_run (set : cset) (l : bytes) : bytes := rev (fst (span set (rev l))).
Definition tail_rest (set : cset) (l : bytes) : bytes := rev (snd (span set (rev l))).

Lemma tail_split set l : tail_rest set l ++ tail_run set l = l.
Proof.
  unfold tail_rest, tail_run. rewrite <- rev_app_distr, span_app. apply rev_involutive.
Qed.

Lemma tail_run_all set l : forallb set (tail_run set l) = true.
Proof.
  unfold tail_run. rewrite forallb_forall. intros x Hx. apply in_rev in Hx.
  pose proof (span_all set (rev l)) as H. rewrite forallb_forall in H. apply H, Hx.
Qed.

Lemma tail_rest_stop set l :
  match rev (tail_rest set l) with [] => True | y :: _ => set y = false end.
Proof. unfold tail_rest. rewrite rev_involutive. apply span_stop. Qed.

Theorem tok_skipAllTrailing_spec set buf :
  tok_skipAllTrailing set buf = (lenN (tail_run set buf), tail_rest set buf).
Proof.
  unfold tok_skipAllTrailing.
  pose proof (tail_split set buf) as Hs.
  assert (Hl : lenN (fst (span set (rev buf))) = lenN (tail_run set buf)) by (unfold tail_run; now rewrite lenN_rev).
  rewrite Hl.
  destruct (lenN (tail_run set buf) =? 0) eqn:E.
  - apply N.eqb_eq in E. rewrite E. apply lenN_0_nil in E. rewrite E, app_nil_r in Hs. now rewrite Hs.
  - f_equal. destruct (takeN_dropN_len (tail_rest set buf) (tail_run set buf)) as [A _].
    rewrite Hs in A. exact A.
Qed.

Theorem tok_suffix_spec_nolimit set limit buf :
  lenN buf <= limit ->
  tok_suffix set limit buf =
  match tail_run set buf with [] => None | _ :: _ => Some (tail_run set buf, tail_rest set buf) end.
Proof.
  intros Hlim. unfold tok_suffix.
  replace (limit <? lenN buf) with false by (symmetry; apply N.ltb_ge; lia).
  pose proof (tail_split set buf) as Hs.
  assert (Hl : lenN (fst (span set (rev buf))) = lenN (tail_run set buf)) by (unfold tail_run; now rewrite lenN_rev).
  rewrite Hl.
  destruct (tail_run set buf) as [|x t] eqn:T; [reflexivity|].
  destruct (lenN (x :: t) =? 0) eqn:E; [apply N.eqb_eq in E; cbn [lenN] in E; lia|].
  destruct (takeN_dropN_len (tail_rest set buf) (x :: t)) as [A B].
  rewrite Hs in A, B. now rewrite A, B.
Qed.

Theorem tok_suffix_sound set limit buf t r :
  tok_suffix set limit buf = Some (t, r) ->
  r ++ t = buf /\ t <> [] /\ forallb set t = true /\ lenN t <= limit.
Proof.
  unfold tok_suffix. set (n := lenN buf).
  set (sp := if limit <? n then dropN (n - limit) buf else buf).
  set (found := lenN (fst (span set (rev sp)))).
  destruct (found =? 0) eqn:E; [discriminate|]. apply N.eqb_neq in E.
  intros H; inversion H; subst t r; clear H.
  assert (Hsp : exists pre, buf = pre ++ sp /\ lenN sp <= limit).
  { unfold sp. destruct (limit <? n) eqn:L.
    - exists (takeN (n - limit) buf). split; [now rewrite takeN_dropN|].
      apply N.ltb_lt in L. pose proof (takeN_dropN (n - limit) buf) as HH.
      assert (lenN (takeN (n - limit) buf) = n - limit) by (rewrite lenN_takeN; fold n; lia).
      assert (n = lenN (takeN (n - limit) buf) + lenN (dropN (n - limit) buf)) by (unfold n at 1; rewrite <- HH at 1; apply lenN_app).
      lia.
    - exists []. split; [reflexivity|]. apply N.ltb_ge in L. unfold n in L. exact L. }
  destruct Hsp as [pre [Hb Hsl]].
  pose proof (tail_split set sp) as Hs.
  assert (Hf : found = lenN (tail_run set sp)) by (unfold found, tail_run; now rewrite lenN_rev).
  assert (Hbuf : buf = (pre ++ tail_rest set sp) ++ tail_run set sp) by (rewrite <- app_assoc, Hs; exact Hb).
  assert (Hn : n - found = lenN (pre ++ tail_rest set sp)).
  { unfold n. rewrite Hbuf at 1. rewrite lenN_app, Hf. lia. }
  pose proof (takeN_app_exact (pre ++ tail_rest set sp) (tail_run set sp)) as Ht.
  pose proof (dropN_app_exact (pre ++ tail_rest set sp) (tail_run set sp)) as Hd.
  rewrite <- Hbuf, <- Hn in Ht, Hd. rewrite Ht, Hd.
  split; [symmetry; exact Hbuf|].
  split; [intros C; rewrite C in Hf; cbn [lenN] in Hf; lia|].
  split; [apply tail_run_all|].
  rewrite <- Hf. assert (lenN sp = lenN (tail_rest set sp) + found) by (rewrite <- Hs at 1; rewrite lenN_app, Hf; reflexivity). lia.
Qed.

(* ---- token ---- *)
Lemma find_first_pos p l k :
  find_first p l = Some k -> takeN k l = fst (span (fun c => negb (p c)) l) /\ dropN k l = snd (span (fun c => negb (p c)) l).
Proof.
  revert k; induction l as [|x l IH]; intros k; cbn [find_first span]; [discriminate|].
  destruct (p x) eqn:E; cbn [negb].
  - intros H; inversion H; subst. cbn. split; reflexivity.
  - destruct (find_first p l) as [j|] eqn:F; cbn [option_map]; [|discriminate].
    intros H; inversion H; subst. destruct (IH j eq_refl) as [A B].
    cbn [takeN dropN]. destruct (N.succ j =? 0) eqn:Z; [apply N.eqb_eq in Z; lia|].
    rewrite N.pred_succ. destruct (span (fun c => negb (p c)) l) as [a b]; cbn [fst snd] in *. now rewrite A, B.
Qed.

Lemma find_first_hit p l k : find_first p l = Some k -> exists y r, dropN k l = y :: r /\ p y = true.
Proof.
  revert k; induction l as [|x l IH]; intros k; cbn [find_first]; [discriminate|].
  destruct (p x) eqn:E.
  - intros H; inversion H; subst. exists x, l. split; [reflexivity|exact E].
  - destruct (find_first p l) as [j|] eqn:G; cbn [option_map]; [|discriminate].
    intros H; inversion H; subst k. cbn [dropN].
    destruct (N.succ j =? 0) eqn:Z; [apply N.eqb_eq in Z; lia|]. rewrite N.pred_succ. apply IH. reflexivity.
Qed.

Theorem tok_token_sound delims buf t r :
  tok_token delims buf = Some (t, r) ->
  exists d1 d2,
    buf = d1 ++ t ++ d2 ++ r /\
    forallb delims d1 = true /\ forallb delims d2 = true /\ d2 <> [] /\
    forallb (fun c => negb (delims c)) t = true /\ t <> [] /\
    match r with [] => True | y :: _ => delims y = false end.
Proof.
  unfold tok_token. rewrite tok_skipAll_spec. cbn [snd].
  pose proof (span_app delims buf) as H1. pose proof (span_all delims buf) as A1.
  pose proof (span_stop delims buf) as S1.
  destruct (span delims buf) as [d1 b1]; cbn [fst snd] in *.
  unfold findFirstOf. destruct (find_first delims b1) as [k|] eqn:F; [|discriminate].
  destruct (find_first_pos _ _ _ F) as [T D].
  pose proof (span_app (fun c => negb (delims c)) b1) as H2.
  pose proof (span_all (fun c => negb (delims c)) b1) as A2.
  pose proof (span_stop (fun c => negb (delims c)) b1) as S2.
  rewrite T, D. destruct (span (fun c => negb (delims c)) b1) as [tk b2]; cbn [fst snd] in *.
  rewrite tok_skipAll_spec. cbn [snd].
  pose proof (span_app delims b2) as H3. pose proof (span_all delims b2) as A3.
  pose proof (span_stop delims b2) as S3.
  destruct (span delims b2) as [d2 b3]; cbn [fst snd] in *.
  intros H; inversion H; subst t r; clear H.
  exists d1, d2. split; [rewrite H3, H2; symmetry; exact H1|].
  split; [exact A1|]. split; [exact A3|].
  (* b2 is non-empty and starts with a delimiter because find_first succeeded *)
  assert (Hb2 : exists y b2', b2 = y :: b2' /\ delims y = true).
  { destruct (find_first_hit _ _ _ F) as [y [r' [Hd Hy]]]. rewrite D in Hd. eauto. }
  destruct Hb2 as [y [b2' [-> Hy]]].
  split.
  { intros C; subst d2. cbn [app] in H3. subst b3. rewrite Hy in S3. discriminate. }
  split; [exact A2|]. split; [|exact S3].
  intros C. rewrite C in H2. cbn [app] in H2. rewrite <- H2 in S1. cbn in S1. congruence.
Qed.
