(* handlers for the hits area (C10).
   hits.seq <kind> <nslots> <nanchors> <op>... / <url>...
       op = G:<u>:<keyhex>:<mlen>:<hlen>:<ver>:<blen>:<sizes>   plain request (origin would send version ver)
            R:<u>:<keyhex>:<mlen>:<hlen>:<ver>:<blen>:<sizes>   forced refetch
            P:<u>                                               purge
            U:<u>:<keyhex>:<mlen>:<oldhlen>:<newhlen>           revalidation answered by a 304 that changes the stored
                                                                header length (Rock::HeaderUpdater / MemStore::updateHeaders)
       sizes = comma separated append sizes or "-"
     prints one token per op (M:<len>:<adler> | H:<len>:<adler> | U:<len>:<adler> | F | P), then " | " and for every listed url
     the slot sizes of its chain (u=<n>,<n>,.. or u=-)
   hits.tuples <kind> <keyhex> <mlen> <ver>:<hlen>:<blen>...   store + hit of each version: T <ver>:<len>:<adler>... *)
let kind_of = function
  | "mem" -> KMem | "shm" -> KShm | "rock" -> KRock | "ufs" -> KUfs | _ -> failwith "kind"
let rec nat_of_int i = if i <= 0 then O else S (nat_of_int (i - 1))
let sizes_of s = if s = "-" then [] else List.map n_of_string (String.split_on_char ',' s)
let sop_of (s : string) : sop =
  match String.split_on_char ':' s with
  | ["G"; u; key; mlen; hlen; v; blen; sizes] ->
    SGet (n_of_string u, bytes_of_hex key, n_of_string mlen, n_of_string hlen, n_of_string v, n_of_string blen, sizes_of sizes)
  | ["R"; u; key; mlen; hlen; v; blen; sizes] ->
    SReload (n_of_string u, bytes_of_hex key, n_of_string mlen, n_of_string hlen, n_of_string v, n_of_string blen, sizes_of sizes)
  | ["P"; u] -> SPurge (n_of_string u)
  | ["U"; u; key; mlen; oldh; newh] ->
    SUpdate (n_of_string u, bytes_of_hex key, n_of_string mlen, n_of_string oldh, n_of_string newh)
  | _ -> failwith "op"
let sres_str = function
  | RHit (h, l, s) -> "H:" ^ string_of_n l ^ ":" ^ string_of_n s
  | RMiss (l, s) -> "M:" ^ string_of_n l ^ ":" ^ string_of_n s
  | RSwapFail -> "F"
  | RPurged -> "P"
  | RReval (l, s) -> "U:" ^ string_of_n l ^ ":" ^ string_of_n s
let rec split_at_slash acc = function
  | "/" :: rest -> (List.rev acc, rest)
  | x :: rest -> split_at_slash (x :: acc) rest
  | [] -> (List.rev acc, [])

let () =
  reg "hits.seq" (fun (k :: nslots :: nanch :: rest) ->
      let kind = kind_of k in
      let (ops, urls) = split_at_slash [] rest in
      let q0 = seq_init kind (nat_of_int (int_of_string nslots)) (nat_of_int (int_of_string nanch)) in
      let (q, res) = seq_run kind q0 (List.map sop_of ops) in
      let lay u = match layout_of q (n_of_string u) with
        | Some l when l <> [] -> u ^ "=" ^ String.concat "," (List.map string_of_n l)
        | _ -> u ^ "=-" in
      String.concat " " (List.map sres_str res) ^ " | " ^ String.concat " " (List.map lay urls));
  reg "hits.none" (fun _ -> "no-plan");
  reg "hits.tuples" (fun (k :: key :: mlen :: vers) ->
      let kind = kind_of k in
      let keyb = bytes_of_hex key in
      let one s = match String.split_on_char ':' s with
        | [v; hlen; blen] ->
          let q0 = seq_init kind (nat_of_int 64) (nat_of_int 4) in
          let o r = (N0, keyb, n_of_string mlen, n_of_string hlen, n_of_string v, n_of_string blen, []) in
          let (u, kb, ml, hl, vv, bl, sz) = o () in
          let (_, res) = seq_run kind q0 [SReload (u, kb, ml, hl, vv, bl, sz); SGet (u, kb, ml, hl, vv, bl, sz)] in
          (match res with
           | [_; RHit (h, l, sm)] when h = hl -> v ^ ":" ^ string_of_n l ^ ":" ^ string_of_n sm
           | _ -> v ^ ":?")
        | _ -> failwith "ver" in
      "T " ^ String.concat " " (List.map one vers))
