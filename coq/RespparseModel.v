(* RespparseModel.v — src/http/one/ResponseParser.cc and the parts of
   src/http/one/Parser.cc + src/mime_header.cc it runs (skipLineTerminator,
   grabMimeBlock, cleanMimePrefix, unfoldMime, headersEnd), over list N.

   The parser object is the record [pst]; buf_ is threaded explicitly.
   Constants and per-byte sets come from the regenerated tables
   (gen/RespTabs_gen.v, gen/CharSets_gen.v).

   Arithmetic note: SBuf::size_type sums (firstLineSize() + mimeHeaderBytes,
   buf_.length() + firstLineSize()) are modelled in N without the 2^32 wrap;
   an SBuf holds at most SBuf::maxSize = 0x0fffffff bytes, so they cannot wrap. *)
Require Import SquidV.Bytes SquidV.TokModel.
Require Import SquidV.gen.CharSets_gen SquidV.gen.RespTabs_gen.
Local Open Scope N_scope.

(* Http::One::ParseState values used by the response parser *)
Inductive stage_t := SNone | SFirst | SMime | SDone.
(* AnyP::ProtocolType values the response parser can store *)
Inductive proto_t := PNone | PHttp | PIcy.

Record pst := {
  p_stage : stage_t;        (* parsingStage_ *)
  p_proto : proto_t;        (* msgProtocol_.protocol *)
  p_major : N;              (* msgProtocol_.major *)
  p_minor : N;              (* msgProtocol_.minor *)
  p_completed : bool;       (* completedStatus_ *)
  p_status : N;             (* statusCode_ *)
  p_reason : bytes;         (* reasonPhrase_ *)
  p_mime : bytes;           (* mimeHeaderBlock_ *)
  p_code : N                (* parseStatusCode *)
}.

(* a freshly constructed ResponseParser *)
Definition pst0 : pst :=
  {| p_stage := SNone; p_proto := PNone; p_major := 0; p_minor := 0; p_completed := false;
     p_status := sc_none; p_reason := []; p_mime := []; p_code := sc_none |}.

Definition set_stage (s : pst) (x : stage_t) : pst :=
  {| p_stage := x; p_proto := p_proto s; p_major := p_major s; p_minor := p_minor s;
     p_completed := p_completed s; p_status := p_status s; p_reason := p_reason s;
     p_mime := p_mime s; p_code := p_code s |}.
Definition set_proto (s : pst) (p : proto_t) (ma mi : N) : pst :=
  {| p_stage := p_stage s; p_proto := p; p_major := ma; p_minor := mi;
     p_completed := p_completed s; p_status := p_status s; p_reason := p_reason s;
     p_mime := p_mime s; p_code := p_code s |}.
Definition set_completed (s : pst) (b : bool) : pst :=
  {| p_stage := p_stage s; p_proto := p_proto s; p_major := p_major s; p_minor := p_minor s;
     p_completed := b; p_status := p_status s; p_reason := p_reason s;
     p_mime := p_mime s; p_code := p_code s |}.
Definition set_status (s : pst) (v : N) : pst :=
  {| p_stage := p_stage s; p_proto := p_proto s; p_major := p_major s; p_minor := p_minor s;
     p_completed := p_completed s; p_status := v; p_reason := p_reason s;
     p_mime := p_mime s; p_code := p_code s |}.
Definition set_reason (s : pst) (r : bytes) : pst :=
  {| p_stage := p_stage s; p_proto := p_proto s; p_major := p_major s; p_minor := p_minor s;
     p_completed := p_completed s; p_status := p_status s; p_reason := r;
     p_mime := p_mime s; p_code := p_code s |}.
Definition set_mime (s : pst) (m : bytes) : pst :=
  {| p_stage := p_stage s; p_proto := p_proto s; p_major := p_major s; p_minor := p_minor s;
     p_completed := p_completed s; p_status := p_status s; p_reason := p_reason s;
     p_mime := m; p_code := p_code s |}.
Definition set_code (s : pst) (c : N) : pst :=
  {| p_stage := p_stage s; p_proto := p_proto s; p_major := p_major s; p_minor := p_minor s;
     p_completed := p_completed s; p_status := p_status s; p_reason := p_reason s;
     p_mime := p_mime s; p_code := c |}.

Definition stage_eqb (a b : stage_t) : bool :=
  match a, b with
  | SNone, SNone | SFirst, SFirst | SMime, SMime | SDone, SDone => true
  | _, _ => false
  end.
Definition proto_eqb (a b : proto_t) : bool :=
  match a, b with
  | PNone, PNone | PHttp, PHttp | PIcy, PIcy => true
  | _, _ => false
  end.

(* Parser::needsMoreData() *)
Definition needs_more (s : pst) : bool := negb (stage_eqb (p_stage s) SDone).

(* Parser::DelimiterCharacters() under Config.onoff.relaxed_header_parser *)
Definition delim (relaxed : bool) : cset :=
  if relaxed then cs_relaxed_Delimiter else cs_strict_Delimiter.

(* ---------- Tokenizer::skipRequired / Parser::skipLineTerminator ---------- *)
Inductive skres := SkOk (rest : bytes) | SkMore | SkBad.

(* Tokenizer::skipRequired(description, tokenToSkip):
   returns / throws InsufficientInput / throws TextException *)
Definition skip_required (t : bytes) (buf : bytes) : skres :=
  let '(ok, r) := tok_skip t buf in
  if ok || (lenN t =? 0) then SkOk r
  else if starts_with t buf then SkMore      (* tokenToSkip.startsWith(buf_) *)
  else SkBad.

Definition skip_line_terminator (relaxed : bool) (buf : bytes) : skres :=
  let '(ok, r) := tok_skipOne cs_LF buf in
  if relaxed && ok then SkOk r
  else skip_required resp_crlf buf.

(* ---------- ResponseParser::ParseResponseStatus ---------- *)
(* PSbad carries the value stored into `code` before the throw, if any *)
Inductive psres := PSok (code : N) (rest : bytes) | PSmore | PSbad (stored : option N).

Definition parse_status (relaxed : bool) (buf : bytes) : psres :=
  match tok_int64 10 false 3 buf with
  | Some (v, k) =>
      let b1 := dropN k buf in
      let '(ok, b2) := tok_skipOne (delim relaxed) b1 in
      if ok then
        let code := Z.to_N v in
        if code <=? 99 then PSbad (Some code)
        else if 600 <=? code then PSbad (Some code)
        else PSok code b2
      else match b1 with [] => PSmore | _ :: _ => PSbad None end    (* tok.atEnd() *)
  | None => match buf with [] => PSmore | _ :: _ => PSbad None end
  end.

(* ---------- ResponseParser::parseResponseStatusAndReason ---------- *)
(* result: (retcode, parser state, buf_) *)
Definition reason_and_eol (relaxed : bool) (s : pst) (t : bytes) (buf : bytes) : Z * pst * bytes :=
  let '(s1, t1) :=
    match tok_prefix resp_phraseChars npos t with
    | Some (tk, r) => (set_reason s tk, r)
    | None => (s, t)                       (* optional, no error if missing *)
    end in
  match skip_line_terminator relaxed t1 with
  | SkOk t2 => (1%Z, s1, t2)               (* buf_ = tok.remaining() *)
  | SkMore => (0%Z, set_reason s1 [], buf) (* catch InsufficientInput: reasonPhrase_.clear() *)
  | SkBad => ((-1)%Z, s1, buf)
  end.

Definition status_and_reason (relaxed : bool) (s : pst) (t : bytes) (buf : bytes) : Z * pst * bytes :=
  if p_completed s then reason_and_eol relaxed s t buf
  else
    match parse_status relaxed t with
    | PSok v t1 => reason_and_eol relaxed (set_completed (set_status s v) true) t1 t1
    | PSmore => (0%Z, set_reason s [], buf)
    | PSbad (Some v) => ((-1)%Z, set_status s v, buf)
    | PSbad None => ((-1)%Z, s, buf)
    end.

(* ---------- ResponseParser::parseResponseFirstLine ---------- *)
Definition gateway09 (s : pst) : pst :=
  set_stage (set_mime (set_reason (set_status
     (set_proto s PHttp resp_gateway_major resp_gateway_minor) resp_gateway_status)
     resp_gateway_phrase) resp_fake_mime) SDone.

Definition first_line (relaxed : bool) (s : pst) (buf : bytes) : Z * pst * bytes :=
  if negb (proto_eqb (p_proto s) PNone) then status_and_reason relaxed s buf buf
  else
    let '(okh, t1) := tok_skip resp_http1magic buf in
    if okh then
      match tok_int64 10 false 1 t1 with
      | Some (v, k) =>
          let t2 := dropN k t1 in
          let '(okd, t3) := tok_skipOne (delim relaxed) t2 in
          if okd then status_and_reason relaxed (set_proto s PHttp 1 (Z.to_N v)) t3 t3
          else match t2 with [] => (0%Z, s, buf) | _ :: _ => ((-1)%Z, s, buf) end
      | None => match t1 with [] => (0%Z, s, buf) | _ :: _ => ((-1)%Z, s, buf) end
      end
    else
      let '(oki, u1) := tok_skip resp_icymagic buf in
      if oki then status_and_reason relaxed (set_proto s PIcy (p_major s) (p_minor s)) u1 u1
      else if (lenN buf <? lenN resp_http1magic) && starts_with resp_http1magic buf then (0%Z, s, buf)
      else if (lenN buf <? lenN resp_icymagic) && starts_with resp_icymagic buf then (0%Z, s, buf)
      else (1%Z, gateway09 s, buf).

(* ---------- headersEnd (mime_header.cc) ---------- *)
(* state machine; returns (bytes scanned up to and including the terminator, containsObsFold);
   0 = no end of headers *)
Fixpoint headers_end_go (l : bytes) (state : N) (e : N) (fold : bool) : N * bool :=
  match l with
  | [] => (0, fold)
  | c :: r =>
      if state =? 0 then
        headers_end_go r (if c =? 10 then 1 else 0) (N.succ e) fold
      else if state =? 1 then
        if c =? 13 then headers_end_go r 2 (N.succ e) fold
        else if c =? 10 then (N.succ e, fold)
        else if (c =? 32) || (c =? 9) then headers_end_go r 0 (N.succ e) true
        else headers_end_go r 0 (N.succ e) fold
      else (* state 2 *)
        if c =? 10 then (N.succ e, fold)
        else headers_end_go r 0 (N.succ e) fold
  end.
Definition headers_end (l : bytes) : N * bool := headers_end_go l 1 0 false.

(* ---------- Parser::cleanMimePrefix ---------- *)
(* while (tok.skipOne(RelaxedDelimiterCharacters())) { skipAll(non-LF); skipOne(LF); } *)
Fixpoint clean_go (l : bytes) : bytes :=
  match l with
  | [] => []
  | c :: r => if cs_relaxed_Delimiter c then clean_line r else l
  end
with clean_line (l : bytes) : bytes :=
  match l with
  | [] => []
  | c :: r => if cs_LF c then clean_go r else clean_line r
  end.
Definition clean_mime_prefix (m : bytes) : bytes :=
  match clean_go m with [] => resp_crlf | x => x end.

(* ---------- Parser::unfoldMime ---------- *)
(* The loop { blob = skipAll(nonCRLF); cr = skipAll(CR); lf = skipOne(LF);
   if (lf && skipAll(WSP)) emit blob ++ " " else emit blob ++ cr ++ lf } unrolled per byte:
   UBlob: copying blob bytes; UCr n: n CRs pending; ULf n: n CRs and one LF pending;
   UWsp: skipping the WSP run of an obs-fold. *)
Inductive ustate := UBlob | UCr (n : nat) | ULf (n : nat) | UWsp.
Definition crs (n : nat) : bytes := repeat 13 n.
Fixpoint unfold_go (l : bytes) (u : ustate) : bytes :=
  match l with
  | [] => match u with
          | UBlob | UWsp => []
          | UCr n => crs n
          | ULf n => crs n ++ [10]
          end
  | c :: r =>
      let fresh (pre : bytes) :=     (* a new loop iteration starts at c after emitting pre *)
        if cs_CR c then pre ++ unfold_go r (UCr 1)
        else if cs_LF c then pre ++ unfold_go r (ULf 0)
        else pre ++ c :: unfold_go r UBlob in
      match u with
      | UBlob => fresh []
      | UCr n => if cs_CR c then unfold_go r (UCr (S n))
                 else if cs_LF c then unfold_go r (ULf n)
                 else fresh (crs n)
      | ULf n => if cs_WSP c then 32 :: unfold_go r UWsp
                 else fresh (crs n ++ [10])
      | UWsp => if cs_WSP c then unfold_go r UWsp else fresh []
      end
  end.
Definition unfold_mime (m : bytes) : bytes := unfold_go m UBlob.

(* ---------- ResponseParser::firstLineSize ---------- *)
Definition first_line_size (s : pst) : N :=
  match p_proto s with
  | PNone => 0
  | PHttp => lenN resp_http1magic + (if 9 <? p_minor s then 2 else 1) + 5 + lenN (p_reason s) + 2
  | PIcy => lenN resp_icymagic + (if 9 <? p_minor s then 2 else 1) + 5 + lenN (p_reason s) + 2
  end.

(* ---------- Parser::grabMimeBlock(which, limit) ---------- *)
Definition grab_mime (limit : N) (s : pst) (buf : bytes) : bool * pst * bytes :=
  let expectMime := (proto_eqb (p_proto s) PHttp && (p_major s =? 1)) || proto_eqb (p_proto s) PIcy in
  if expectMime then
    let '(e, fold) := headers_end buf in
    if e =? 0 then
      if limit <=? lenN buf + first_line_size s
      then (false, set_stage (set_code s sc_header_too_large) SDone, buf)
      else (false, s, buf)
    else
      if limit <=? first_line_size s + e
      then (false, set_stage (set_code s sc_header_too_large) SDone, dropN e buf)
      else
        let m1 := clean_mime_prefix (takeN e buf) in
        let m2 := if fold then unfold_mime m1 else m1 in
        (true, set_stage (set_mime s m2) SDone, dropN e buf)
  else (true, set_stage s SDone, buf).

(* ---------- ResponseParser::parse(aBuf) ---------- *)
(* result: (return value, parser state, buf_ = remaining()) *)
Definition parse_tail (limit : N) (s : pst) (buf : bytes) : bool * pst * bytes :=
  if stage_eqb (p_stage s) SMime then
    let '(ok, s1, b1) := grab_mime limit s buf in
    if ok then (negb (needs_more s1), s1, b1) else (false, s1, b1)
  else (negb (needs_more s), s, buf).

Definition parse_first (relaxed : bool) (limit : N) (s : pst) (buf : bytes) : bool * pst * bytes :=
  if stage_eqb (p_stage s) SFirst then
    let '(ret, s1, b1) := first_line relaxed s buf in
    let s2 := if (0 <? ret)%Z && stage_eqb (p_stage s1) SFirst then set_stage s1 SMime else s1 in
    if (ret <? 0)%Z then (false, set_code (set_stage s2 SDone) sc_invalid_header, b1)
    else parse_tail limit s2 b1
  else parse_tail limit s buf.

Definition parse (relaxed : bool) (limit : N) (s : pst) (aBuf : bytes) : bool * pst * bytes :=
  if stage_eqb (p_stage s) SNone then
    match aBuf with
    | [] => (false, s, aBuf)
    | _ :: _ => parse_first relaxed limit (set_stage s SFirst) aBuf
    end
  else parse_first relaxed limit s aBuf.

(* ---------- what callers see ---------- *)
(* the fields a caller reads after a completed parse *)
Record fields := {
  f_proto : proto_t; f_major : N; f_minor : N; f_status : N; f_reason : bytes; f_mime : bytes }.
Definition fields_of (s : pst) : fields :=
  {| f_proto := p_proto s; f_major := p_major s; f_minor := p_minor s;
     f_status := p_status s; f_reason := p_reason s; f_mime := p_mime s |}.

(* outcome of one parse() call as used by HttpStateData::processReplyHeader and
   Http::Tunneler::handleResponse:
   More  = needsMoreData(): keep = remaining() is retained and extended by the next read;
   Done  = parse() returned true: message fields + unconsumed bytes (body);
   Bad   = parse() returned false without needsMoreData(): (parseStatusCode, messageStatus()) *)
Inductive outcome :=
| More (s : pst) (keep : bytes)
| Done (f : fields) (rest : bytes)
| Bad (code : N) (status : N).

Definition step (relaxed : bool) (limit : N) (s : pst) (b : bytes) : outcome :=
  let '(ok, s1, rest) := parse relaxed limit s b in
  if needs_more s1 then More s1 rest
  else if ok then Done (fields_of s1) rest
  else Bad (p_code s1) (p_status s1).

(* the callers' read loop: append the next segment to the retained bytes, parse,
   keep remaining(); stop as soon as the parser no longer needs data (later
   segments stay unconsumed behind the rest) *)
Fixpoint drive (relaxed : bool) (limit : N) (s : pst) (buf : bytes) (segs : list bytes) : outcome :=
  match segs with
  | [] => More s buf
  | x :: more =>
      match step relaxed limit s (buf ++ x) with
      | More s1 keep => drive relaxed limit s1 keep more
      | Done f rest => Done f (rest ++ concat more)
      | Bad c st => Bad c st
      end
  end.

(* the same loop recording every call, for the correspondence run:
   each entry = (return value, state after the call, remaining()) *)
Fixpoint drive_trace (relaxed : bool) (limit : N) (s : pst) (buf : bytes) (segs : list bytes)
  : list (bool * pst * bytes) :=
  match segs with
  | [] => []
  | x :: more =>
      let '(ok, s1, rest) := parse relaxed limit s (buf ++ x) in
      (ok, s1, rest) :: (if needs_more s1 then drive_trace relaxed limit s1 rest more else [])
  end.
