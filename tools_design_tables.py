#!/usr/bin/env python3
"""Regenerates DESIGN.md sections 10.3 (repairs) and 10.4 (known findings) from known_findings.json."""
import json, os, subprocess
here = os.path.dirname(os.path.abspath(__file__))
k = json.load(open(os.path.join(here, "known_findings.json")))
fixed = [e for e in k if e.get("status") == "fixed"]
known = [e for e in k if e.get("status") == "known"]
claimed = set(json.load(open(os.path.join(here, "claimed.json"))))
def esc(t): return t.replace("|", "\\|").replace("\n", " ")
out = ["### 10.3 Repairs made in /repo (each one `fix:` commit; recorded as `fixed` in known_findings.json)", "",
       "Every repair below was found by attempting the corresponding proof against a faithful model (the", 
       "`_refuted` witness came first, then the confirmation on the real code through the harness or the running",
       "proxy, then the repair, then the model of the repaired code and the stronger theorem). The unit-test suite",
       "was re-run with the repairs applied (`make -k check` in a scratch copy: 81 suites, 0 failures).", "",
       "| commit | property | what failed before the repair |", "|---|---|---|"]
seen = set()
for e in fixed:
    key = (e.get("commit"), e["property"])
    if key in seen: continue
    seen.add(key)
    out.append("| %s | %s | %s |" % (e.get("commit", "?"), e["property"], esc(e["description"])))
out += ["", "### 10.4 Known findings (genuine deviations from the properties, not repaired; known_findings.json)", "",
        "Each is reproduced on every run from `corpus/<id>/known.*` (the check prints its KNOWN-FINDING line) and has",
        "a `_refuted` witness theorem next to the `_partial` theorem it forces. They are not repaired because the",
        "repair is not small, changes deliberate behaviour, or lies outside the tree; candidate patches, where one",
        "exists, are under `fixes/`.", "",
        "| id | property | what fails |", "|---|---|---|"]
for e in sorted(known, key=lambda e: e["id"]):
    if e["property"] not in claimed: continue
    out.append("| %s | %s | %s |" % (e["id"], e["property"], esc(e["description"])[:700]))
out.append("")
s = open(os.path.join(here, "DESIGN.md")).read()
b = s.index("<!-- BEGIN-FINDINGS")
b2 = s.index("-->", b) + 4
e = s.index("<!-- END-FINDINGS -->")
s = s[:b2] + "\n".join(out) + "\n" + s[e:]
open(os.path.join(here, "DESIGN.md"), "w").write(s)
print("repairs:", len(seen), "known (claimed properties):", sum(1 for e in known if e["property"] in claimed))
