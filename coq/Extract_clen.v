(* Extract_clen.v — extraction of the Content-Length models (C26) to OCaml; ExtrOcamlBasic only. *)
Require Import ExtrOcamlBasic.
Require Import SquidV.Bytes SquidV.ClenModel.
Extraction "m_clen.ml"
  parse_offset relaxed_of cl_init check_fields hdr_parse content_length first_cl has_id
  cl_value cl_problem cl_sawBad cl_needsSan cl_sawGood
  h_entries h_conflicting h_teUnsupported h_cl e_id e_value.
