(* handlers for the tok area (CharacterSet, Tokenizer, integer parsing) *)
let cset_of_hex h = mem_tbl (storage_of_hex h)

let () =
  reg "cs.plus" (fun [a; b] -> hex_of_storage (cs_plus (storage_of_hex a) (storage_of_hex b)));
  reg "cs.minus" (fun [a; b] -> hex_of_storage (cs_minus (storage_of_hex a) (storage_of_hex b)));
  reg "cs.complement" (fun [a] -> hex_of_storage (cs_complement (storage_of_hex a)));
  reg "cs.add" (fun [a; c] -> hex_of_storage (cs_add (storage_of_hex a) (n_of_string c)));
  reg "cs.remove" (fun [a; c] -> hex_of_storage (cs_remove (storage_of_hex a) (n_of_string c)));
  reg "cs.addRange" (fun [a; lo; hi] -> hex_of_storage (cs_addRange (storage_of_hex a) (n_of_string lo) (n_of_string hi)));
  reg "cs.ofString" (fun [s] -> hex_of_storage (cs_of_string (bytes_of_hex s)));
  reg "cs.mem" (fun [a; c] -> b2s (cs_mem (storage_of_hex a) (n_of_string c)));
  reg "tok.prefix" (fun [set; lim; inp] -> tokres (tok_prefix (cset_of_hex set) (n_of_string lim) (bytes_of_hex inp)));
  reg "tok.suffix" (fun [set; lim; inp] -> tokres (tok_suffix (cset_of_hex set) (n_of_string lim) (bytes_of_hex inp)));
  reg "tok.skipAll" (fun [set; inp] -> let (k, r) = tok_skipAll (cset_of_hex set) (bytes_of_hex inp) in
                      string_of_n k ^ " " ^ hex_of_bytes r);
  reg "tok.skipAllTrailing" (fun [set; inp] -> let (k, r) = tok_skipAllTrailing (cset_of_hex set) (bytes_of_hex inp) in
                      string_of_n k ^ " " ^ hex_of_bytes r);
  reg "tok.skipOne" (fun [set; inp] -> let (k, r) = tok_skipOne (cset_of_hex set) (bytes_of_hex inp) in
                      b2s k ^ " " ^ hex_of_bytes r);
  reg "tok.skipOneTrailing" (fun [set; inp] -> let (k, r) = tok_skipOneTrailing (cset_of_hex set) (bytes_of_hex inp) in
                      b2s k ^ " " ^ hex_of_bytes r);
  reg "tok.skipChar" (fun [c; inp] -> let (k, r) = tok_skipChar (n_of_string c) (bytes_of_hex inp) in
                      b2s k ^ " " ^ hex_of_bytes r);
  reg "tok.skip" (fun [t; inp] -> let (k, r) = tok_skip (bytes_of_hex t) (bytes_of_hex inp) in
                      b2s k ^ " " ^ hex_of_bytes r);
  reg "tok.skipSuffix" (fun [t; inp] -> let (k, r) = tok_skipSuffix (bytes_of_hex t) (bytes_of_hex inp) in
                      b2s k ^ " " ^ hex_of_bytes r);
  reg "tok.token" (fun [set; inp] -> tokres (tok_token (cset_of_hex set) (bytes_of_hex inp)));
  reg "tok.int64" (fun [base; sign; lim; inp] ->
      match tok_int64 (z_of_string base) (sign = "1") (n_of_string lim) (bytes_of_hex inp) with
      | None -> "fail"
      | Some (v, k) -> "ok " ^ string_of_z v ^ " " ^ string_of_n k);
  reg "hdr.offset" (fun [inp] -> match parse_offset (bytes_of_hex inp) with
      | None -> "fail" | Some (v, k) -> "ok " ^ string_of_z v ^ " " ^ string_of_n k);
  reg "hdr.int" (fun [inp] -> match parse_int (bytes_of_hex inp) with
      | None -> "fail" | Some v -> "ok " ^ string_of_z v)
