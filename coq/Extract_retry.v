(* Extract_retry.v — extraction of the FwdState retry machine (C07) (ExtrOcamlBasic only). *)
Require Import ExtrOcamlBasic.
Require Import SquidV.Bytes SquidV.RetryModel SquidV.gen.RetryMethods_gen.
Extraction "m_retry.ml" method_of_image method_safe method_idem check_retriable reforwardable init step run drive
  result_of sends reforwards rm_methods.
