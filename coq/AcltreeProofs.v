(* AcltreeProofs.v — C44: the ACLChecklist state machine of AcltreeModel.v answers the recursive
   first-match evaluation, for all trees, leaf scripts and suspend/resume schedules.

   Plan of the proof
   1. a scripted leaf invocation either answers its reference value or suspends on a Real lookup
      without changing that value (leaf_loop_ok, leaf_ok);
   2. [evalp v pi n]: the value of the interrupted recursion of node n when it is resumed along the
      breadcrumb path pi (pi = [] is a fresh evaluation, evalp v [] n = eval v n);
   3. matchChild/doMatch/node_run started in a quiet state whose matchPath encodes pi either
      complete with evalp, or suspend leaving a matchPath that encodes a path pi' with the SAME
      evalp (node_ok, by structural induction on the tree): resuming from breadcrumbs equals
      continuing the interrupted recursion; SD: a leaf object shared by several places of the
      tree must have no lookups left (its value is then unaffected by evaluating it);
   4. the same for the root Acl::Tree, which also yields lastMatch_ (matchAndFinish_fresh, matchAndFinish_resume);
   5. nonBlockingCheck/resumeNonBlockingCheck preserve "suspended with the same first match" and
      the number of outstanding lookups decreases (nb_loop_ok, fuel induction); fastCheck never suspends. *)
Require Import SquidV.Bytes SquidV.AcltreeModel.
Require Import ZifyBool ZifyN ZifyNat.
Local Open Scope N_scope.

(* ---------- projections of field updates (generated) ---------- *)
Ltac st := cbn [asyncCaller finished ans stg matchLoc asyncLoc depth path banned lastName lastMatch cbk err lrem pending trace starts susp set_asyncCaller set_finished set_ans set_stg set_matchLoc set_asyncLoc set_depth set_path set_banned set_lastName set_lastMatch set_cbk set_err set_lrem set_pending set_trace set_starts set_susp] in *.
Ltac stg := cbn [asyncCaller finished ans stg matchLoc asyncLoc depth path banned lastName lastMatch cbk err lrem pending trace starts susp set_asyncCaller set_finished set_ans set_stg set_matchLoc set_asyncLoc set_depth set_path set_banned set_lastName set_lastMatch set_cbk set_err set_lrem set_pending set_trace set_starts set_susp].



(* ---------- small list facts ---------- *)
Lemma nthN_split {A} (l : list A) p x :
  nthN p l = Some x -> l = takeN p l ++ x :: dropN (p + 1) l /\ lenN (takeN p l) = p.
Proof.
  revert p; induction l as [|y l IH]; intros p H; cbn [nthN] in H; [discriminate|].
  cbn [takeN dropN]. destruct (p =? 0) eqn:E.
  - apply N.eqb_eq in E. subst p. inversion H; subst. cbn [app lenN N.add].
    replace (0 + 1 =? 0) with false by (symmetry; apply N.eqb_neq; lia).
    replace (N.pred (0 + 1)) with 0 by lia.
    split; [|reflexivity]. f_equal. destruct l; reflexivity.
  - apply N.eqb_neq in E.
    replace (p + 1 =? 0) with false by (symmetry; apply N.eqb_neq; lia).
    replace (N.pred (p + 1)) with (N.pred p + 1) by lia.
    destruct (IH _ H) as [H1 H2]. cbn [app lenN]. split; [f_equal; exact H1| lia].
Qed.

Lemma dropN_0 {A} (l : list A) : dropN 0 l = l.
Proof. destruct l; reflexivity. Qed.

Lemma nthN_in {A} (l : list A) p x : nthN p l = Some x -> In x l.
Proof.
  intros H. destruct (nthN_split _ _ _ H) as [E _]. rewrite E. apply in_or_app. right. left. reflexivity.
Qed.

Lemma node_ind2 (P : node -> Prop) :
  (forall i, P (Leaf i)) -> (forall i k cs, Forall P cs -> P (Inner i k cs)) -> forall n, P n.
Proof.
  intros HL HI. fix IH 1. intros [i|i k cs]; [apply HL|]. apply HI.
  induction cs as [|x cs IHcs]; constructor; [apply IH | exact IHcs].
Qed.

(* ---------- evaluation depends only on the leaves of the expression ---------- *)
Lemma eval_ext v w n : (forall j, In j (leaf_ids n) -> v j = w j) -> eval v n = eval w n.
Proof.
  induction n as [i|i k cs IH] using node_ind2; intros H; cbn [eval].
  - apply H. left. reflexivity.
  - cbn [leaf_ids] in H.
    assert (HH : Forall (fun x => eval v x = eval w x) cs).
    { clear k. induction cs as [|x cs IHcs]; constructor.
      - inversion IH; subst. apply H2. intros j Hj. apply H. cbn [flat_map]. apply in_or_app. left. exact Hj.
      - inversion IH; subst. apply IHcs; [assumption|]. intros j Hj. apply H. cbn [flat_map]. apply in_or_app. right. exact Hj. }
    assert (Hf : forallb (eval v) cs = forallb (eval w) cs).
    { clear -HH. induction HH as [|x l E _ IHl]; cbn [forallb]; [reflexivity| now rewrite E, IHl]. }
    assert (He : existsb (eval v) cs = existsb (eval w) cs).
    { clear -HH. induction HH as [|x l E _ IHl]; cbn [existsb]; [reflexivity| now rewrite E, IHl]. }
    destruct k; try assumption; destruct cs as [|x cs']; try reflexivity; inversion HH; subst; congruence.
Qed.

Lemma forallb_eval_ext v w l :
  (forall j, In j (flat_map leaf_ids l) -> v j = w j) -> forallb (eval v) l = forallb (eval w) l.
Proof.
  induction l as [|x l IH]; intros H; cbn [forallb]; [reflexivity|].
  rewrite (eval_ext v w x), IH; [reflexivity| |]; intros j Hj; apply H; cbn [flat_map]; apply in_or_app; [right|left]; exact Hj.
Qed.

Lemma existsb_eval_ext v w l :
  (forall j, In j (flat_map leaf_ids l) -> v j = w j) -> existsb (eval v) l = existsb (eval w) l.
Proof.
  induction l as [|x l IH]; intros H; cbn [existsb]; [reflexivity|].
  rewrite (eval_ext v w x), IH; [reflexivity| |]; intros j Hj; apply H; cbn [flat_map]; apply in_or_app; [right|left]; exact Hj.
Qed.

Lemma first_from_ext v w isb idx l :
  (forall j, In j (flat_map leaf_ids l) -> v j = w j) -> first_from v isb idx l = first_from w isb idx l.
Proof.
  revert idx; induction l as [|x l IH]; intros idx H; cbn [first_from]; [reflexivity|].
  rewrite (eval_ext v w x), IH; [reflexivity| |]; intros j Hj; apply H; cbn [flat_map]; apply in_or_app; [right|left]; exact Hj.
Qed.

Lemma existsb_first_from v idx l :
  existsb (eval v) l = match first_from v (fun _ => false) idx l with Some _ => true | None => false end.
Proof.
  revert idx; induction l as [|x l IH]; intros idx; cbn [existsb first_from]; [reflexivity|].
  cbn [negb andb]. destruct (eval v x); cbn [orb]; [reflexivity| apply IH].
Qed.

(* ---------- breadcrumb paths ---------- *)
(* a path is the list of child positions from a node down to the parent of the suspended leaf *)
Fixpoint crumbs (pi : list N) (n : node) {struct pi} : list crumb :=
  match pi with
  | [] => []
  | p :: pi' =>
      match n with
      | Leaf _ => []
      | Inner i _ cs => (i, p) :: match nthN p cs with Some x => crumbs pi' x | None => [] end
      end
  end.

Fixpoint vpath (pi : list N) (n : node) {struct pi} : Prop :=
  match pi with
  | [] => True
  | p :: pi' =>
      match n with
      | Leaf _ => False
      | Inner _ k cs =>
          match nthN p cs with
          | None => False
          | Some x => (match k with KNot | KAllOf => p = 0 | _ => True end) /\ vpath pi' x
          end
      end
  end.

(* value of the recursion of n interrupted at (resumed along) pi *)
Fixpoint evalp (v : N -> bool) (pi : list N) (n : node) {struct pi} : bool :=
  match pi with
  | [] => eval v n
  | p :: pi' =>
      match n with
      | Leaf _ => false
      | Inner _ k cs =>
          match nthN p cs with
          | None => false
          | Some x =>
              let b := evalp v pi' x in
              match k with
              | KNot => negb b
              | KAllOf => b
              | KAnd => b && forallb (eval v) (dropN (p + 1) cs)
              | KOr | KAnyOf => b || existsb (eval v) (dropN (p + 1) cs)
              end
          end
      end
  end.

Lemma evalp_ext v w pi : forall n, (forall j, In j (leaf_ids n) -> v j = w j) -> evalp v pi n = evalp w pi n.
Proof.
  induction pi as [|p pi IH]; intros n H; cbn [evalp]; [apply eval_ext; exact H|].
  destruct n as [i|i k cs]; [reflexivity|].
  destruct (nthN p cs) as [x|] eqn:E; [|reflexivity].
  destruct (nthN_split _ _ _ E) as [Es _].
  assert (Hx : forall j, In j (leaf_ids x) -> v j = w j).
  { intros j Hj. apply H. cbn [leaf_ids]. rewrite Es, flat_map_app. apply in_or_app. right.
    cbn [flat_map]. apply in_or_app. left. exact Hj. }
  assert (Hr : forall j, In j (flat_map leaf_ids (dropN (p + 1) cs)) -> v j = w j).
  { intros j Hj. apply H. cbn [leaf_ids]. rewrite Es, flat_map_app. apply in_or_app. right.
    cbn [flat_map]. apply in_or_app. right. exact Hj. }
  rewrite (IH x Hx), (forallb_eval_ext v w _ Hr), (existsb_eval_ext v w _ Hr). reflexivity.
Qed.

(* outstanding lookups *)
Definition total (l : list N) (c : st) : nat := fold_right (fun i acc => (length (lrem c i) + acc)%nat) O l.

Lemma total_le l c c' : (forall j, (length (lrem c' j) <= length (lrem c j))%nat) -> (total l c' <= total l c)%nat.
Proof. intros H. induction l as [|i l IH]; cbn [total fold_right]; [lia|]. specialize (H i). fold (total l c') (total l c). lia. Qed.

Lemma total_lt l c c' j :
  (forall j, (length (lrem c' j) <= length (lrem c j))%nat) -> In j l ->
  (length (lrem c' j) < length (lrem c j))%nat -> (total l c' < total l c)%nat.
Proof.
  intros H IN LT. induction l as [|i l IH]; [destruct IN|]. cbn [total fold_right]. fold (total l c') (total l c).
  pose proof (total_le l c c' H). destruct IN as [->|IN]; [lia|]. specialize (IH IN). specialize (H i). lia.
Qed.


Lemma first_from_bound v isb : forall l idx q, first_from v isb idx l = Some q -> idx <= q /\ q < idx + lenN l.
Proof.
  induction l as [|x l IH]; intros idx q H; cbn [first_from] in H; [discriminate|].
  cbn [lenN]. destruct (negb (isb idx) && eval v x).
  - inversion H; subst. lia.
  - apply IH in H. lia.
Qed.


(* ---------- shared leaves ---------- *)
(* SD c l: a leaf id that occurs in two different segments of l has no lookups left in state c
   (a shared ACL object is tolerated when it is synchronous) *)
Definition SD (c : st) (l : list N) : Prop :=
  forall l1 l2 j, l = l1 ++ l2 -> In j l1 -> In j l2 -> lrem c j = [].

Lemma SD_app_l c a b : SD c (a ++ b) -> SD c a.
Proof. intros H l1 l2 j E H1 H2. apply (H l1 (l2 ++ b) j); [rewrite E, app_assoc; reflexivity| exact H1| apply in_or_app; left; exact H2]. Qed.
Lemma SD_app_r c a b : SD c (a ++ b) -> SD c b.
Proof. intros H l1 l2 j E H1 H2. apply (H (a ++ l1) l2 j); [rewrite E, app_assoc; reflexivity| apply in_or_app; right; exact H1| exact H2]. Qed.
Lemma SD_app_both c a b j : SD c (a ++ b) -> In j a -> In j b -> lrem c j = [].
Proof. intros H H1 H2. exact (H a b j eq_refl H1 H2). Qed.
Lemma SD_mono c c' l : SD c l -> (forall j, (length (lrem c' j) <= length (lrem c j))%nat) -> SD c' l.
Proof.
  intros H LE l1 l2 j E H1 H2. specialize (H l1 l2 j E H1 H2). specialize (LE j). rewrite H in LE.
  destruct (lrem c' j); [reflexivity| cbn in LE; lia].
Qed.
Lemma SD_lrem c c' l : lrem c' = lrem c -> SD c l -> SD c' l.
Proof. intros E H l1 l2 j E1 H1 H2. rewrite E. exact (H l1 l2 j E1 H1 H2). Qed.
Lemma NoDup_SD c l : NoDup l -> SD c l.
Proof.
  intros ND l1 l2 j E H1 H2. exfalso. subst l. revert H2. clear -ND H1.
  induction l1 as [|x l1 IH]; [destruct H1|]. cbn [app] in ND. inversion ND as [|x' l' NI ND']; subst. intros HJ.
  destruct H1 as [->|H1]; [apply NI, in_or_app; right; exact HJ| exact (IH ND' H1 HJ)].
Qed.

(* ---------- invariants ---------- *)
Section Proofs.
Variable scr : N -> lscript.

(* the current worth of leaf i: reference value of what is left of its script *)
Definition lv (c : st) (i : N) : bool :=
  lval_k (asyncCaller c) (retry (scr i)) (truth (scr i)) 0 (lrem c i).

Definition quiet (c : st) : Prop := stg c = SNone /\ finished c = false /\ err c = false.

(* what every piece of matching preserves; ids = the leaves it may touch *)
Definition inv (ids : list N) (c c' : st) : Prop :=
  err c' = false /\ finished c' = false /\ asyncCaller c' = asyncCaller c /\ banned c' = banned c /\
  cbk c' = cbk c /\
  (forall j, ~ In j ids -> lrem c' j = lrem c j) /\
  (forall j, (length (lrem c' j) <= length (lrem c j))%nat).

Definition pend (ids : list N) (c' : st) : Prop :=
  exists j rest, pending c' = Some j /\ In j ids /\ lrem c' j = Real :: rest.

Lemma inv_refl ids c : err c = false -> finished c = false -> inv ids c c.
Proof. intros; unfold inv; repeat split; auto. Qed.

Lemma inv_trans ids1 ids2 ids c1 c2 c3 :
  inv ids1 c1 c2 -> inv ids2 c2 c3 -> incl ids1 ids -> incl ids2 ids -> inv ids c1 c3.
Proof.
  intros (A1 & A2 & A3 & A4 & A5 & A6 & A7) (B1 & B2 & B3 & B4 & B5 & B6 & B7) I1 I2.
  unfold inv; repeat split; try congruence.
  - intros j Hj. rewrite B6, A6; auto.
  - intros j. specialize (A7 j). specialize (B7 j). lia.
Qed.

Lemma inv_weaken ids ids' c c' : inv ids c c' -> incl ids ids' -> inv ids' c c'.
Proof.
  intros (A1 & A2 & A3 & A4 & A5 & A6 & A7) I. unfold inv; repeat split; auto.
Qed.

Lemma lv_same c c' j : asyncCaller c' = asyncCaller c -> lrem c' j = lrem c j -> lv c' j = lv c j.
Proof. intros A B. unfold lv. now rewrite A, B. Qed.

Lemma inv_lv ids c c' j : inv ids c c' -> ~ In j ids -> lv c' j = lv c j.
Proof. intros (_ & _ & A & _ & _ & B & _) H. apply lv_same; auto. Qed.

Lemma crumb_eqb_refl l : crumb_eqb (Some l) (Some l) = true.
Proof. destruct l as [p i]. cbn. now rewrite !N.eqb_refl. Qed.

Lemma upd_same {A} (f : N -> A) i v : upd f i v i = v.
Proof. unfold upd. now rewrite N.eqb_refl. Qed.
Lemma upd_other {A} (f : N -> A) i v j : j <> i -> upd f i v j = f j.
Proof. intros H. unfold upd. apply N.eqb_neq in H. now rewrite H. Qed.

(* ---------- 1. one invocation of a scripted leaf ---------- *)
(* the checklist after goAsync() on a Real / Fake lookup *)
Definition c_real (i : N) (c : st) : st :=
  set_stg SRunning (set_pending (Some i) (set_starts (starts c + 1)
    (set_stg SStarting (set_depth (depth c + 1) (set_asyncLoc (matchLoc c) c))))).
Definition c_fake (i : N) (c : st) : st :=
  set_stg SNone (set_stg SFailed (set_lrem (upd (lrem c) i (tl (lrem c i))) (set_starts (starts c + 1)
    (set_stg SStarting (set_depth (depth c + 1) (set_asyncLoc (matchLoc c) c)))))).

Lemma goAsync_refused i a c loc :
  stg c = SNone -> matchLoc c = Some loc ->
  asyncCaller c = false \/ crumb_eqb (Some loc) (asyncLoc c) && (5 <? depth c) = true ->
  goAsync i a c = (false, c).
Proof.
  intros Q ML H. unfold goAsync, asyncInProgress. rewrite Q, ML. cbn [stage_eqb negb is_none orb].
  destruct (asyncCaller c); cbn [negb]; [|reflexivity].
  destruct H as [H|H]; [discriminate|]. rewrite H. reflexivity.
Qed.

Lemma goAsync_go i a c loc :
  stg c = SNone -> matchLoc c = Some loc -> asyncCaller c = true ->
  crumb_eqb (Some loc) (asyncLoc c) && (5 <? depth c) = false ->
  goAsync i a c = match a with Real => (true, c_real i c) | Fake => (false, c_fake i c) end.
Proof.
  intros Q ML AC T. unfold goAsync, asyncInProgress. rewrite Q, ML, AC, T. cbn [stage_eqb negb is_none orb].
  destruct a; unfold c_real, c_fake; rewrite ?ML; reflexivity.
Qed.

Lemma leaf_loop_ok i : forall atts c k loc r c',
  quiet c -> matchLoc c = Some loc -> lrem c i = atts -> depth c = N.of_nat k -> (k <= 6)%nat ->
  ((0 < k)%nat -> asyncLoc c = Some loc) ->
  leaf_loop i (scr i) atts c = (r, c') ->
  inv [i] c c' /\ path c' = path c /\
  ((stg c' = SNone /\ (r =? 1)%Z = lval_k (asyncCaller c) (retry (scr i)) (truth (scr i)) k atts)
   \/ (stg c' = SRunning /\ (r =? 1)%Z = false /\ asyncCaller c' = true /\
       exists rest, pending c' = Some i /\ lrem c' i = Real :: rest /\
         lval_k true (retry (scr i)) (truth (scr i)) 0 rest
         = lval_k (asyncCaller c) (retry (scr i)) (truth (scr i)) k atts)).
Proof.
  induction atts as [|a rest IH]; intros c k loc r c' Q ML LR DK K6 AL E; cbn [leaf_loop] in E.
  - inversion E; subst r c'. destruct Q as (Q1 & Q2 & Q3).
    split; [apply inv_refl; assumption|]. split; [reflexivity|]. left. split; [assumption|].
    cbn [lval_k]. destruct (truth (scr i)); reflexivity.
  - destruct Q as (Q1 & Q2 & Q3).
    assert (NOGO : goAsync i a c = (false, c) ->
              lval_k (asyncCaller c) (retry (scr i)) (truth (scr i)) k (a :: rest) = false ->
              inv [i] c c' /\ path c' = path c /\
              ((stg c' = SNone /\ (r =? 1)%Z = lval_k (asyncCaller c) (retry (scr i)) (truth (scr i)) k (a :: rest)) \/
               (stg c' = SRunning /\ (r =? 1)%Z = false /\ asyncCaller c' = true /\
                exists rest0, pending c' = Some i /\ lrem c' i = Real :: rest0 /\
                  lval_k true (retry (scr i)) (truth (scr i)) 0 rest0
                  = lval_k (asyncCaller c) (retry (scr i)) (truth (scr i)) k (a :: rest)))).
    { intros G V. rewrite G in E. rewrite N.eqb_refl in E.
      assert (E' : (0%Z, c) = (r, c')) by (destruct (retry (scr i)); cbn [negb] in E; exact E).
      inversion E'; subst r c'. split; [apply inv_refl; assumption|]. split; [reflexivity|].
      left. split; [assumption|]. rewrite V. reflexivity. }
    destruct (asyncCaller c) eqn:AC.
    2:{ apply NOGO; [eapply goAsync_refused; eauto | reflexivity]. }
    destruct (crumb_eqb (Some loc) (asyncLoc c) && (5 <? depth c)) eqn:T.
    { apply NOGO; [eapply goAsync_refused; eauto |].
      cbn [lval_k negb]. apply andb_prop in T. destruct T as [_ T].
      replace (6 <=? k)%nat with true by (symmetry; apply Nat.leb_le; lia). reflexivity. }
    assert (K5 : (k < 6)%nat).
    { destruct k as [|k']; [lia|]. rewrite (AL ltac:(lia)), crumb_eqb_refl in T. cbn [andb] in T. lia. }
    assert (K5b : (6 <=? k)%nat = false) by (apply Nat.leb_gt; lia).
    rewrite (goAsync_go i a c loc Q1 ML AC T) in E.
    destruct a.
    + (* Real: the lookup goes asynchronous *)
      inversion E; subst r c'.
      split.
      { unfold inv, c_real; stg. repeat split; auto. }
      split; [reflexivity|]. right. split; [reflexivity|]. split; [reflexivity|]. split; [exact AC|].
      exists rest. split; [reflexivity|]. split; [exact LR|].
      cbn [lval_k negb]. rewrite K5b. reflexivity.
    + (* Fake: the lookup completes inside the starter; goAsync() reports failure *)
      assert (LR1 : lrem (c_fake i c) i = rest).
      { unfold c_fake; stg. rewrite upd_same, LR. reflexivity. }
      assert (I1 : inv [i] c (c_fake i c)).
      { unfold inv, c_fake; stg. repeat split; auto.
        - intros j Hj. apply upd_other. intros ->. apply Hj. left. reflexivity.
        - intros j. unfold upd. destruct (j =? i) eqn:EJ; [apply N.eqb_eq in EJ; subst j; rewrite LR; cbn [tl length]; lia| lia]. }
      assert (P1 : path (c_fake i c) = path c) by reflexivity.
      destruct (retry (scr i)) eqn:RT; cbn [negb] in E.
      2:{ inversion E; subst r c'. split; [exact I1|]. split; [exact P1|]. left.
          split; [reflexivity|]. cbn [lval_k negb]. rewrite K5b. reflexivity. }
      rewrite LR1, LR in E. cbn [lenN] in E.
      replace (lenN rest =? N.succ (lenN rest)) with false in E by (symmetry; apply N.eqb_neq; lia).
      assert (Q' : quiet (c_fake i c)) by (unfold quiet, c_fake; stg; auto).
      specialize (IH (c_fake i c) (S k) loc r c' Q').
      destruct IH as (I2 & P2 & H2).
      { unfold c_fake; stg. exact ML. }
      { exact LR1. }
      { unfold c_fake; stg. lia. }
      { lia. }
      { intros _. unfold c_fake; stg. exact ML. }
      { exact E. }
      split; [eapply inv_trans; [exact I1| exact I2| apply incl_refl| apply incl_refl]|].
      split; [congruence|].
      assert (AC1 : asyncCaller (c_fake i c) = true) by exact AC.
      rewrite AC1 in H2. cbn [lval_k negb]. rewrite K5b. exact H2.
Qed.

(* ---------- 2./3. nodes: pre- and postconditions ---------- *)
Definition startof (pi : list N) : option N := match pi with [] => None | p :: _ => Some p end.
Definition tailcrumbs (pi : list N) (n : node) : list crumb :=
  match pi with
  | [] => []
  | p :: pi' =>
      match n with
      | Inner _ _ cs => match nthN p cs with Some x => crumbs pi' x | None => [] end
      | Leaf _ => []
      end
  end.

(* outcome of matching (a part of) node n whose expected value is V: either it completed in a quiet
   state with r = V, or it suspended with a matchPath that encodes a valid path of n whose value is V *)
Definition gpost (ids : list N) (n : node) (V : bool) (c : st) (r : bool) (c' : st) : Prop :=
  inv ids c c' /\
  ((stg c' = SNone /\ path c' = [] /\ r = V)
   \/ (stg c' = SRunning /\ r = false /\ asyncCaller c' = true /\ pend ids c' /\
       exists pi', vpath pi' n /\ path c' = crumbs pi' n /\ evalp (lv c') pi' n = V)).

Definition npre (x : node) (pi : list N) (c : st) : Prop :=
  quiet c /\ depth c = 0 /\ (exists loc, matchLoc c = Some loc) /\ vpath pi x /\ path c = tailcrumbs pi x.

Definition run_ok (x : node) : Prop :=
  forall pi c r c', SD c (leaf_ids x) -> npre x pi c ->
  node_run scr x (startof pi) c = (r, c') -> gpost (leaf_ids x) x (evalp (lv c) pi x) c r c'.

Definition mcpre (x : node) (pi : list N) (c : st) : Prop :=
  quiet c /\ vpath pi x /\ path c = crumbs pi x.

Definition mcpost (cur idx : N) (x : node) (V : bool) (c : st) (r : bool) (c' : st) : Prop :=
  inv (leaf_ids x) c c' /\
  ((stg c' = SNone /\ path c' = [] /\ r = V)
   \/ (stg c' = SRunning /\ r = false /\ asyncCaller c' = true /\ pend (leaf_ids x) c' /\
       exists pi', vpath pi' x /\ path c' = (cur, idx) :: crumbs pi' x /\ evalp (lv c') pi' x = V)).

Lemma pend_weaken ids ids' c : pend ids c -> incl ids ids' -> pend ids' c.
Proof. intros (j & rest & A & B & C) I. exists j, rest. auto. Qed.

(* a leaf *)
Lemma leaf_ok i : run_ok (Leaf i).
Proof.
  intros pi c r c' _ (Q & D0 & (loc & ML) & VP & PT) E.
  destruct pi as [|p pi]; [|destruct VP].
  cbn [startof node_run] in E. unfold leaf_matches in E.
  destruct (leaf_loop i (scr i) (lrem (set_trace (i :: trace c) (set_lastName (Some i) c)) i)
              (set_trace (i :: trace c) (set_lastName (Some i) c))) as [z c1] eqn:EL.
  inversion E; subst r c'. clear E.
  set (c0 := set_trace (i :: trace c) (set_lastName (Some i) c)) in *.
  destruct Q as (Q1 & Q2 & Q3).
  destruct (leaf_loop_ok i (lrem c0 i) c0 0%nat loc z c1) as (IV & P & H); try assumption; try reflexivity.
  { unfold quiet, c0; stg. auto. }
  { lia. }
  { intros; lia. }
  assert (I' : inv [i] c c1).
  { destruct IV as (A1 & A2 & A3 & A4 & A5 & A6 & A7). unfold inv. repeat split; auto. }
  cbn [leaf_ids tailcrumbs] in *. split; [exact I'|].
  destruct H as [(S1 & S2)|(S1 & S2 & S3 & rest & S4 & S5 & S6)].
  - left. split; [exact S1|]. split; [rewrite P; exact PT|]. rewrite S2. cbn [evalp eval]. reflexivity.
  - right. split; [exact S1|]. split; [exact S2|]. split; [exact S3|]. split.
    { exists i, rest. split; [exact S4|]. split; [left; reflexivity| exact S5]. }
    exists []. split; [exact I|]. split; [rewrite P; exact PT|].
    cbn [evalp eval]. unfold lv at 1. rewrite S3, S5. cbn [lval_k negb Nat.leb]. rewrite S6. reflexivity.
Qed.

(* ACLChecklist::matchChild over a child that behaves *)
Lemma matchChild_ok cur idx x pi c r c' :
  run_ok x -> SD c (leaf_ids x) -> mcpre x pi c ->
  matchChild cur idx (node_id x) (node_run scr x) c = (r, c') ->
  mcpost cur idx x (evalp (lv c) pi x) c r c'.
Proof.
  intros OK ND (Q & VP & PT) E. destruct Q as (Q1 & Q2 & Q3).
  unfold matchChild in E.
  set (c1 := set_depth 0 (set_matchLoc (Some (cur, idx)) c)) in *.
  assert (Q' : quiet c1) by (unfold quiet, c1; stg; auto).
  assert (EV : evalp (lv c1) pi x = evalp (lv c) pi x) by reflexivity.
  assert (RUN : exists r2 c2, (r, c') = (r2, set_matchLoc None
                   (if asyncInProgress c2 then set_path ((cur, idx) :: path c2) c2 else set_asyncLoc None c2))
                 /\ gpost (leaf_ids x) x (evalp (lv c) pi x) c1 r2 c2).
  { destruct pi as [|q pit].
    - cbn [crumbs] in PT. replace (path c1) with (@nil crumb) in E by (unfold c1; stg; congruence).
      destruct (node_run scr x None c1) as [r2 c2] eqn:ER. exists r2, c2. split; [congruence|].
      rewrite <- EV. apply (OK [] c1 r2 c2); [exact ND| |exact ER].
      split; [exact Q'|]. split; [reflexivity|]. split; [eexists; reflexivity|]. split; [exact I|].
      unfold c1; stg. cbn [tailcrumbs]. congruence.
    - destruct x as [i|i k cs]; [destruct VP|]. cbn [vpath crumbs] in VP, PT.
      destruct (nthN q cs) as [y|] eqn:EN; [|destruct VP].
      replace (path c1) with ((i, q) :: crumbs pit y) in E by (unfold c1; stg; congruence).
      cbn [fst snd node_id] in E. rewrite N.eqb_refl in E.
      destruct (node_run scr (Inner i k cs) (Some q) (set_path (crumbs pit y) c1)) as [r2 c2] eqn:ER.
      exists r2, c2. split; [congruence|].
      rewrite <- EV.
      assert (G := OK (q :: pit) (set_path (crumbs pit y) c1) r2 c2 ND).
      cbn [startof] in G.
      assert (PRE : npre (Inner i k cs) (q :: pit) (set_path (crumbs pit y) c1)).
      { split; [unfold quiet, c1; stg; auto|]. split; [reflexivity|]. split; [eexists; reflexivity|].
        split; [cbn [vpath]; rewrite EN; exact VP|]. cbn [tailcrumbs]. rewrite EN. reflexivity. }
      specialize (G PRE ER).
      destruct G as (IV & G). split.
      { destruct IV as (A1 & A2 & A3 & A4 & A5 & A6 & A7). unfold inv. repeat split; auto. }
      exact G. }
  destruct RUN as (r2 & c2 & ER & (IV & G)). inversion ER; subst r c'. clear ER E.
  assert (I' : inv (leaf_ids x) c c2).
  { destruct IV as (A1 & A2 & A3 & A4 & A5 & A6 & A7). unfold inv. repeat split; auto. }
  destruct G as [(S1 & S2 & S3)|(S1 & S2 & S3 & S4 & pi' & S5 & S6 & S7)].
  - unfold asyncInProgress. rewrite S1. cbn [stage_eqb negb].
    split.
    { destruct I' as (A1 & A2 & A3 & A4 & A5 & A6 & A7). unfold inv; stg. repeat split; auto. }
    left. stg. auto.
  - unfold asyncInProgress. rewrite S1. cbn [stage_eqb negb].
    split.
    { destruct I' as (A1 & A2 & A3 & A4 & A5 & A6 & A7). unfold inv; stg. repeat split; auto. }
    right. stg. split; [exact S1|]. split; [exact S2|]. split; [exact S3|]. split.
    { destruct S4 as (j & rest & B1 & B2 & B3). exists j, rest. stg. auto. }
    exists pi'. split; [exact S5|]. split; [rewrite S6; reflexivity|]. exact S7.
Qed.

(* ---------- list positions ---------- *)
Lemma nthN_app_len {A} (pre : list A) x suf : nthN (lenN pre) (pre ++ x :: suf) = Some x.
Proof.
  induction pre as [|y pre IH]; cbn [lenN app nthN]; [reflexivity|].
  replace (N.succ (lenN pre) =? 0) with false by (symmetry; apply N.eqb_neq; lia).
  rewrite N.pred_succ. exact IH.
Qed.

Lemma dropN_app_len {A} (pre : list A) x suf : dropN (lenN pre + 1) (pre ++ x :: suf) = suf.
Proof.
  induction pre as [|y pre IH]; cbn [lenN app dropN].
  - cbn. destruct suf; reflexivity.
  - replace (N.succ (lenN pre) + 1 =? 0) with false by (symmetry; apply N.eqb_neq; lia).
    replace (N.pred (N.succ (lenN pre) + 1)) with (lenN pre + 1) by lia. exact IH.
Qed.

Lemma lenN_map {A B} (f : A -> B) l : lenN (map f l) = lenN l.
Proof. induction l as [|x l IH]; cbn [map lenN]; congruence. Qed.

Lemma NoDup_app_l {A} (a b : list A) : NoDup (a ++ b) -> NoDup a.
Proof. induction a as [|x a IH]; intros H; [constructor|]. inversion H; subst. constructor; [intros C; apply H2, in_or_app; left; exact C| apply IH; assumption]. Qed.
Lemma NoDup_app_r {A} (a b : list A) : NoDup (a ++ b) -> NoDup b.
Proof. induction a as [|x a IH]; intros H; [exact H|]. inversion H; subst. apply IH; assumption. Qed.
Lemma NoDup_app_disj {A} (a b : list A) : NoDup (a ++ b) -> forall j, In j a -> ~ In j b.
Proof.
  induction a as [|x a IH]; intros H j Hj; [destruct Hj|]. inversion H; subst.
  destruct Hj as [->|Hj]; [intros C; apply H2, in_or_app; right; exact C| apply IH; assumption].
Qed.

Definition kmap (l : list node) : kids := map (fun x => (node_id x, node_run scr x)) l.

Lemma quiet_keep c : stg c = SNone -> finished c = false -> keepMatching c = true.
Proof. intros A B. unfold keepMatching, asyncInProgress. rewrite A, B. reflexivity. Qed.
Lemma running_stop c : stg c = SRunning -> keepMatching c = false.
Proof. intros A. unfold keepMatching, asyncInProgress. rewrite A. cbn. apply andb_false_r. Qed.

(* values of later siblings are not disturbed by matching x *)
Lemma frame_lv x l c c1 :
  SD c (leaf_ids x ++ flat_map leaf_ids l) -> inv (leaf_ids x) c c1 ->
  forall j, In j (flat_map leaf_ids l) -> lv c1 j = lv c j.
Proof.
  intros ND IV j Hj. destruct (in_dec N.eq_dec j (leaf_ids x)) as [C|C].
  - (* a shared leaf: it has no lookups left, so matching x did not change it *)
    pose proof (SD_app_both _ _ _ _ ND C Hj) as E0.
    destruct IV as (_ & _ & A3 & _ & _ & _ & A7). apply lv_same; [exact A3|].
    specialize (A7 j). rewrite E0 in A7 |- *. destruct (lrem c1 j); [reflexivity| cbn in A7; lia].
  - eapply inv_lv; [exact IV| exact C].
Qed.

Lemma SD_after x l c c1 : SD c (leaf_ids x ++ flat_map leaf_ids l) -> inv (leaf_ids x) c c1 -> SD c1 (flat_map leaf_ids l).
Proof. intros ND IV. eapply SD_mono; [eapply SD_app_r; exact ND| apply IV]. Qed.

(* ---------- Acl::AndNode::doMatch ---------- *)
Lemma and_loop_cons cur start idx cid run l c :
  and_loop cur start idx ((cid, run) :: l) c =
  if idx <? start then and_loop cur start (idx + 1) l c
  else let '(b, c1) := matchChild cur idx cid run c in
       if negb b then ((if keepMatching c1 then 0 else -1)%Z, c1)
       else and_loop cur start (idx + 1) l c1.
Proof. reflexivity. Qed.

Lemma and_loop_skip cur start c : forall l1 l2 idx,
  idx + lenN l1 <= start -> and_loop cur start idx (l1 ++ l2) c = and_loop cur start (idx + lenN l1) l2 c.
Proof.
  induction l1 as [|[cid run] l1 IH]; intros l2 idx H; cbn [app lenN].
  - now rewrite N.add_0_r.
  - cbn [lenN] in H. rewrite and_loop_cons.
    replace (idx <? start) with true by (symmetry; apply N.ltb_lt; lia).
    rewrite IH by lia. f_equal. lia.
Qed.

Section AndNode.
Variables (cur : N) (cs : list node).
Let n := Inner cur KAnd cs.

Lemma and_step pre x suf pit start c r c' :
  cs = pre ++ x :: suf -> run_ok x -> SD c (flat_map leaf_ids (x :: suf)) -> start <= lenN pre ->
  mcpre x pit c ->
  (forall c1 r c', quiet c1 -> path c1 = [] -> SD c1 (flat_map leaf_ids suf) ->
     and_loop cur start (lenN pre + 1) (kmap suf) c1 = (r, c') ->
     gpost (flat_map leaf_ids suf) n (forallb (eval (lv c1)) suf) c1 (r =? 1)%Z c') ->
  and_loop cur start (lenN pre) (kmap (x :: suf)) c = (r, c') ->
  gpost (flat_map leaf_ids (x :: suf)) n (evalp (lv c) pit x && forallb (eval (lv c)) suf) c (r =? 1)%Z c'.
Proof.
  intros CS OK ND ST PRE K E. cbn [flat_map] in *.
  cbn [kmap map] in E. rewrite and_loop_cons in E.
  replace (lenN pre <? start) with false in E by (symmetry; apply N.ltb_ge; lia).
  destruct (matchChild cur (lenN pre) (node_id x) (node_run scr x) c) as [b c1] eqn:EM.
  assert (NX : nthN (lenN pre) cs = Some x) by (rewrite CS; apply nthN_app_len).
  assert (DX : dropN (lenN pre + 1) cs = suf) by (rewrite CS; apply dropN_app_len).
  destruct (matchChild_ok _ _ _ _ _ _ _ OK (SD_app_l _ _ _ ND) PRE EM) as (IV & G).
  assert (FR : forall j, In j (flat_map leaf_ids suf) -> lv c1 j = lv c j) by (eapply frame_lv; eassumption).
  assert (SD1 : SD c1 (flat_map leaf_ids suf)) by (eapply SD_after; eassumption).
  destruct G as [(S1 & S2 & S3)|(S1 & S2 & S3 & S4 & pi' & S5 & S6 & S7)].
  - (* the child completed *)
    destruct IV as (A1 & A2 & A3 & A4 & A5 & A6 & A7).
    assert (IV : inv (leaf_ids x) c c1) by (unfold inv; repeat split; auto).
    destruct b; cbn [negb] in E.
    + fold (kmap suf) in E.
      destruct (K c1 r c' (conj S1 (conj A2 A1)) S2 SD1 E) as (IV2 & G2).
      rewrite <- S3. cbn [andb]. rewrite (forallb_eval_ext _ _ _ FR) in G2.
      split; [eapply inv_trans; [exact IV| exact IV2| apply incl_appl, incl_refl| apply incl_appr, incl_refl]|].
      destruct G2 as [G2|(T1 & T2 & T3 & T4 & T5)]; [left; exact G2|].
      right. split; [exact T1|]. split; [exact T2|]. split; [exact T3|].
      split; [eapply pend_weaken; [exact T4| apply incl_appr, incl_refl]| exact T5].
    + rewrite (quiet_keep c1 S1 A2) in E. inversion E; subst r c'.
      rewrite <- S3. cbn [andb]. split; [eapply inv_weaken; [exact IV| apply incl_appl, incl_refl]|].
      left. auto.
  - (* the child suspended *)
    subst b. cbn [negb] in E. rewrite (running_stop c1 S1) in E. inversion E; subst r c'.
    split; [eapply inv_weaken; [exact IV| apply incl_appl, incl_refl]|].
    right. split; [exact S1|]. split; [reflexivity|]. split; [exact S3|].
    split; [eapply pend_weaken; [exact S4| apply incl_appl, incl_refl]|].
    exists (lenN pre :: pi'). unfold n. cbn [vpath crumbs evalp]. rewrite NX, DX.
    split; [split; [exact Logic.I| exact S5]|]. split; [exact S6|].
    rewrite S7. f_equal. apply forallb_eval_ext. exact FR.
Qed.

Lemma and_fresh start : forall suf pre c r c',
  cs = pre ++ suf -> Forall run_ok suf -> SD c (flat_map leaf_ids suf) -> start <= lenN pre ->
  quiet c -> path c = [] ->
  and_loop cur start (lenN pre) (kmap suf) c = (r, c') ->
  gpost (flat_map leaf_ids suf) n (forallb (eval (lv c)) suf) c (r =? 1)%Z c'.
Proof.
  induction suf as [|x suf IH]; intros pre c r c' CS OK ND ST Q PT E.
  - cbn in E. inversion E; subst r c'. destruct Q as (Q1 & Q2 & Q3).
    split; [apply inv_refl; assumption|]. left. auto.
  - pose proof (Forall_inv OK) as H1. pose proof (Forall_inv_tail OK) as H2.
    assert (G := and_step pre x suf [] start c r c' CS H1 ND ST).
    cbn [evalp] in G. apply G; [split; [exact Q|]; split; [exact Logic.I| exact PT] | | exact E].
    intros c1 r1 c1' Q1 P1 D1 E1.
    apply (IH (pre ++ [x]) c1 r1 c1').
    + rewrite <- app_assoc. exact CS.
    + assumption.
    + exact D1.
    + rewrite lenN_app. cbn [lenN]. lia.
    + exact Q1.
    + exact P1.
    + rewrite lenN_app. cbn [lenN]. exact E1.
Qed.

Lemma and_node_ok : Forall run_ok cs -> run_ok n.
Proof.
  intros OK pi c r c' ND (Q & _ & _ & VP & PT) E. unfold n in *. cbn [leaf_ids] in *.
  destruct pi as [|p pit].
  - (* fresh: Acl::Node::matches *)
    cbn [startof node_run doMatch] in E. fold (kmap cs) in E.
    destruct (and_loop cur 0 0 (kmap cs) (set_lastName (Some cur) c)) as [z c1] eqn:EL.
    inversion E; subst r c'. cbn [evalp eval].
    destruct Q as (Q1 & Q2 & Q3).
    destruct (and_fresh 0 cs [] (set_lastName (Some cur) c) z c1 eq_refl OK (SD_lrem c _ _ eq_refl ND)) as (IV & G).
    { cbn [lenN]. lia. }
    { unfold quiet; stg; auto. }
    { exact PT. }
    { exact EL. }
    split; [|exact G].
    destruct IV as (A1 & A2 & A3 & A4 & A5 & A6 & A7). unfold inv. repeat split; auto.
  - (* resumeMatchingAt(p) *)
    cbn [startof node_run doMatch] in E. fold (kmap cs) in E.
    cbn [vpath tailcrumbs] in VP, PT. destruct (nthN p cs) as [x|] eqn:EN; [|destruct VP].
    destruct VP as (_ & VP).
    destruct (nthN_split _ _ _ EN) as (CS & LP).
    destruct (and_loop cur p 0 (kmap cs) c) as [z c1] eqn:EL.
    inversion E; subst r c'.
    rewrite CS in EL. unfold kmap in EL. rewrite map_app in EL. fold (kmap (takeN p cs)) in EL.
    fold (kmap (x :: dropN (p + 1) cs)) in EL.
    rewrite and_loop_skip in EL by (unfold kmap; rewrite lenN_map; lia).
    unfold kmap at 1 in EL. rewrite lenN_map in EL. cbn [N.add] in EL.
    rewrite CS in ND. rewrite flat_map_app in ND. apply SD_app_r in ND.
    assert (OK' : Forall run_ok (x :: dropN (p + 1) cs)).
    { rewrite CS in OK. apply Forall_app in OK. exact (proj2 OK). }
    pose proof (Forall_inv OK') as H1. pose proof (Forall_inv_tail OK') as H2.
    assert (G := and_step (takeN p cs) x (dropN (p + 1) cs) pit p c z c1 CS H1 ND ltac:(lia)).
    rewrite LP in G, EL.
    destruct G as (IV & G).
    + split; [exact Q|]. split; assumption.
    + intros c2 r2 c2' Q2 P2 D2 E2.
      assert (G2 := and_fresh p (dropN (p + 1) cs) (takeN p cs ++ [x]) c2 r2 c2').
      rewrite lenN_app, LP in G2. cbn [lenN] in G2. apply G2; try assumption.
      * rewrite <- app_assoc. exact CS.
      * lia.
    + exact EL.
    + cbn [evalp]. rewrite EN.
      split; [eapply inv_weaken; [exact IV|]|].
      { rewrite CS at 2. rewrite flat_map_app. apply incl_appr, incl_refl. }
      destruct G as [G|(T1 & T2 & T3 & T4 & T5)]; [left; exact G|].
      right. split; [exact T1|]. split; [exact T2|]. split; [exact T3|]. split; [|exact T5].
      eapply pend_weaken; [exact T4|]. rewrite CS at 2. rewrite flat_map_app. apply incl_appr, incl_refl.
Qed.
End AndNode.

(* ---------- Acl::OrNode::doMatch (inner any-of nodes and the root Acl::Tree) ---------- *)
Definition is_some {A} (o : option A) : bool := match o with Some _ => true | None => false end.

Lemma or_loop_cons isbanned record cur start idx cid run l c :
  or_loop isbanned record cur start idx ((cid, run) :: l) c =
  if idx <? start then or_loop isbanned record cur start (idx + 1) l c
  else if isbanned c idx then or_loop isbanned record cur start (idx + 1) l c
  else let '(b, c1) := matchChild cur idx cid run c in
       if b then (1%Z, if record then set_lastMatch (Some idx) c1 else c1)
       else if negb (keepMatching c1) then ((-1)%Z, c1)
       else or_loop isbanned record cur start (idx + 1) l c1.
Proof. reflexivity. Qed.

Lemma or_loop_skip isbanned record cur start c : forall l1 l2 idx,
  idx + lenN l1 <= start ->
  or_loop isbanned record cur start idx (l1 ++ l2) c = or_loop isbanned record cur start (idx + lenN l1) l2 c.
Proof.
  induction l1 as [|[cid run] l1 IH]; intros l2 idx H; cbn [app lenN].
  - now rewrite N.add_0_r.
  - cbn [lenN] in H. rewrite or_loop_cons.
    replace (idx <? start) with true by (symmetry; apply N.ltb_lt; lia).
    rewrite IH by lia. f_equal. lia.
Qed.

Section OrLoop.
Variables (cur : N) (cs : list node) (isbanned : st -> N -> bool) (record : bool) (isb : N -> bool)
          (bans : list answer).
Hypothesis HB : forall c q, banned c = bans -> isbanned c q = isb q.

Definition opost (ids : list N) (V : option N) (c : st) (r : Z) (c' : st) : Prop :=
  inv ids c c' /\
  ((stg c' = SNone /\ path c' = [] /\ (r =? 1)%Z = is_some V /\
      (record = true -> forall q, V = Some q -> lastMatch c' = Some q))
   \/ (stg c' = SRunning /\ (r =? 1)%Z = false /\ asyncCaller c' = true /\ pend ids c' /\
       exists q x pi', nthN q cs = Some x /\ isb q = false /\ vpath pi' x /\
         path c' = (cur, q) :: crumbs pi' x /\
         (if evalp (lv c') pi' x then Some q else first_from (lv c') isb (q + 1) (dropN (q + 1) cs)) = V)).

Lemma opost_weaken ids ids' V c r c' : opost ids V c r c' -> incl ids ids' -> opost ids' V c r c'.
Proof.
  intros (IV & G) IN. split; [eapply inv_weaken; eassumption|].
  destruct G as [G|(T1 & T2 & T3 & T4 & T5)]; [left; exact G|].
  right. split; [exact T1|]. split; [exact T2|]. split; [exact T3|]. split; [|exact T5].
  eapply pend_weaken; eassumption.
Qed.

Lemma or_step pre x suf pit start c r c' :
  cs = pre ++ x :: suf -> run_ok x -> SD c (flat_map leaf_ids (x :: suf)) -> start <= lenN pre ->
  banned c = bans -> isb (lenN pre) = false -> mcpre x pit c ->
  (forall c1 r c', quiet c1 -> path c1 = [] -> banned c1 = bans -> SD c1 (flat_map leaf_ids suf) ->
     or_loop isbanned record cur start (lenN pre + 1) (kmap suf) c1 = (r, c') ->
     opost (flat_map leaf_ids suf) (first_from (lv c1) isb (lenN pre + 1) suf) c1 r c') ->
  or_loop isbanned record cur start (lenN pre) (kmap (x :: suf)) c = (r, c') ->
  opost (flat_map leaf_ids (x :: suf))
        (if evalp (lv c) pit x then Some (lenN pre) else first_from (lv c) isb (lenN pre + 1) suf) c r c'.
Proof.
  intros CS OK ND ST BN NB PRE K E. cbn [flat_map] in *.
  cbn [kmap map] in E. rewrite or_loop_cons in E.
  replace (lenN pre <? start) with false in E by (symmetry; apply N.ltb_ge; lia).
  rewrite (HB c _ BN), NB in E.
  destruct (matchChild cur (lenN pre) (node_id x) (node_run scr x) c) as [b c1] eqn:EM.
  assert (NX : nthN (lenN pre) cs = Some x) by (rewrite CS; apply nthN_app_len).
  assert (DX : dropN (lenN pre + 1) cs = suf) by (rewrite CS; apply dropN_app_len).
  destruct (matchChild_ok _ _ _ _ _ _ _ OK (SD_app_l _ _ _ ND) PRE EM) as (IV & G).
  assert (FR : forall j, In j (flat_map leaf_ids suf) -> lv c1 j = lv c j) by (eapply frame_lv; eassumption).
  assert (SD1 : SD c1 (flat_map leaf_ids suf)) by (eapply SD_after; eassumption).
  destruct G as [(S1 & S2 & S3)|(S1 & S2 & S3 & S4 & pi' & S5 & S6 & S7)].
  - (* the child completed *)
    destruct IV as (A1 & A2 & A3 & A4 & A5 & A6 & A7).
    assert (IV : inv (leaf_ids x) c c1) by (unfold inv; repeat split; auto).
    rewrite <- S3. destruct b.
    + inversion E; subst r c'. split.
      { eapply inv_weaken; [|apply incl_appl, incl_refl].
        destruct record; [unfold inv; stg; repeat split; auto| exact IV]. }
      left. destruct record; stg; (split; [exact S1|]); (split; [exact S2|]); (split; [reflexivity|]).
      * intros _ q Hq. inversion Hq; reflexivity.
      * intros C; discriminate.
    + rewrite (quiet_keep c1 S1 A2) in E. cbn [negb] in E. fold (kmap suf) in E.
      assert (BN1 : banned c1 = bans) by congruence.
      destruct (K c1 r c' (conj S1 (conj A2 A1)) S2 BN1 SD1 E) as (IV2 & G2).
      rewrite (first_from_ext _ _ _ _ _ FR) in G2.
      split; [eapply inv_trans; [exact IV| exact IV2| apply incl_appl, incl_refl| apply incl_appr, incl_refl]|].
      destruct G2 as [G2|(T1 & T2 & T3 & T4 & T5)]; [left; exact G2|].
      right. split; [exact T1|]. split; [exact T2|]. split; [exact T3|].
      split; [eapply pend_weaken; [exact T4| apply incl_appr, incl_refl]| exact T5].
  - (* the child suspended *)
    subst b. rewrite (running_stop c1 S1) in E. cbn [negb] in E. inversion E; subst r c'.
    split; [eapply inv_weaken; [exact IV| apply incl_appl, incl_refl]|].
    right. split; [exact S1|]. split; [reflexivity|]. split; [exact S3|].
    split; [eapply pend_weaken; [exact S4| apply incl_appl, incl_refl]|].
    exists (lenN pre), x, pi'. rewrite DX.
    split; [exact NX|]. split; [exact NB|]. split; [exact S5|]. split; [exact S6|].
    rewrite S7. rewrite (first_from_ext _ _ _ _ _ FR). reflexivity.
Qed.

Lemma or_fresh start : forall suf pre c r c',
  cs = pre ++ suf -> Forall run_ok suf -> SD c (flat_map leaf_ids suf) -> start <= lenN pre ->
  quiet c -> path c = [] -> banned c = bans ->
  or_loop isbanned record cur start (lenN pre) (kmap suf) c = (r, c') ->
  opost (flat_map leaf_ids suf) (first_from (lv c) isb (lenN pre) suf) c r c'.
Proof.
  induction suf as [|x suf IH]; intros pre c r c' CS OK ND ST Q PT BN E.
  - cbn in E. inversion E; subst r c'. destruct Q as (Q1 & Q2 & Q3).
    split; [apply inv_refl; assumption|]. left. cbn [first_from is_some].
    split; [exact Q1|]. split; [exact PT|]. split; [reflexivity|]. intros _ q C; discriminate.
  - pose proof (Forall_inv OK) as H1. pose proof (Forall_inv_tail OK) as H2.
    assert (REC : forall c1 r1 c1', quiet c1 -> path c1 = [] -> banned c1 = bans ->
              SD c1 (flat_map leaf_ids suf) ->
              or_loop isbanned record cur start (lenN pre + 1) (kmap suf) c1 = (r1, c1') ->
              opost (flat_map leaf_ids suf) (first_from (lv c1) isb (lenN pre + 1) suf) c1 r1 c1').
    { intros c1 r1 c1' Q1 P1 B1 D1 E1.
      assert (G := IH (pre ++ [x]) c1 r1 c1'). rewrite lenN_app in G. cbn [lenN] in G.
      replace (lenN pre + N.succ 0) with (lenN pre + 1) in G by lia.
      apply G; try assumption.
      - rewrite <- app_assoc. exact CS.
      - lia. }
    cbn [first_from]. destruct (isb (lenN pre)) eqn:NB; cbn [negb andb].
    + (* banned rule: skipped *)
      cbn [kmap map] in E. rewrite or_loop_cons in E.
      replace (lenN pre <? start) with false in E by (symmetry; apply N.ltb_ge; lia).
      rewrite (HB c _ BN), NB in E. fold (kmap suf) in E.
      eapply opost_weaken; [apply REC; try eassumption; cbn [flat_map] in ND; eapply SD_app_r; exact ND|]. cbn [flat_map]. apply incl_appr, incl_refl.
    + assert (G := or_step pre x suf [] start c r c' CS H1 ND ST BN NB).
      cbn [evalp] in G. apply G; [split; [exact Q|]; split; [exact Logic.I| exact PT] | exact REC | exact E].
Qed.

(* matching from position p along the path pit of child p *)
Lemma or_resume p x pit c r c' :
  nthN p cs = Some x -> Forall run_ok cs -> SD c (flat_map leaf_ids cs) ->
  banned c = bans -> isb p = false -> mcpre x pit c ->
  or_loop isbanned record cur p 0 (kmap cs) c = (r, c') ->
  opost (flat_map leaf_ids cs)
        (if evalp (lv c) pit x then Some p else first_from (lv c) isb (p + 1) (dropN (p + 1) cs)) c r c'.
Proof.
  intros EN OK ND BN NB PRE EL.
  destruct (nthN_split _ _ _ EN) as (CS & LP).
  rewrite CS in EL. unfold kmap in EL. rewrite map_app in EL. fold (kmap (takeN p cs)) in EL.
  fold (kmap (x :: dropN (p + 1) cs)) in EL.
  rewrite or_loop_skip in EL by (unfold kmap; rewrite lenN_map; lia).
  unfold kmap at 1 in EL. rewrite lenN_map in EL. cbn [N.add] in EL.
  assert (ND' := ND). rewrite CS in ND'. rewrite flat_map_app in ND'. apply SD_app_r in ND'.
  assert (OK' : Forall run_ok (x :: dropN (p + 1) cs)).
  { rewrite CS in OK. apply Forall_app in OK. exact (proj2 OK). }
  pose proof (Forall_inv OK') as H1. pose proof (Forall_inv_tail OK') as H2.
  assert (G := or_step (takeN p cs) x (dropN (p + 1) cs) pit p c r c' CS H1 ND' ltac:(lia) BN).
  rewrite LP in G, EL.
  eapply opost_weaken.
  - apply G; [exact NB| exact PRE| | exact EL].
    intros c2 r2 c2' Q2 P2 B2 D2 E2.
    assert (G2 := or_fresh p (dropN (p + 1) cs) (takeN p cs ++ [x]) c2 r2 c2').
    rewrite lenN_app, LP in G2. cbn [lenN] in G2.
    replace (p + N.succ 0) with (p + 1) in G2 by lia. apply G2; try assumption.
    + rewrite <- app_assoc. exact CS.
    + lia.
  - rewrite CS at 2. rewrite flat_map_app. apply incl_appr, incl_refl.
Qed.
End OrLoop.

(* inner OrNode / Acl::AnyOf *)
Lemma or_node_ok cur k cs : k = KOr \/ k = KAnyOf -> Forall run_ok cs -> run_ok (Inner cur k cs).
Proof.
  intros HK OK pi c r c' ND (Q & _ & _ & VP & PT) E. cbn [leaf_ids] in *.
  set (isbanned := fun (_ : st) (_ : N) => false) in *.
  assert (HB : forall (c0 : st) (q : N), banned c0 = banned c -> isbanned c0 q = (fun _ : N => false) q) by reflexivity.
  assert (DM : forall s l c0, doMatch k cur s l c0 = or_loop isbanned false cur s 0 l c0)
    by (intros; destruct HK; subst k; reflexivity).
  assert (CONV : forall z c1 V, 
            opost cur cs false (fun _ => false) (flat_map leaf_ids cs) V c z c1 ->
            gpost (flat_map leaf_ids cs) (Inner cur k cs) (is_some V) c (z =? 1)%Z c1).
  { intros z c1 V (IV & G). split; [exact IV|].
    destruct G as [(S1 & S2 & S3 & _)|(S1 & S2 & S3 & S4 & q & x & pi' & T1 & T2 & T3 & T4 & T5)]; [left; auto|].
    right. split; [exact S1|]. split; [exact S2|]. split; [exact S3|]. split; [exact S4|].
    exists (q :: pi'). cbn [vpath crumbs evalp]. rewrite T1.
    split; [split; [destruct HK; subst k; exact Logic.I| exact T3]|]. split; [exact T4|].
    rewrite <- T5. rewrite (existsb_first_from _ (q + 1)).
    destruct HK; subst k; destruct (evalp (lv c1) pi' x); reflexivity. }
  destruct pi as [|p pit].
  - cbn [startof node_run] in E. fold (kmap cs) in E. rewrite DM in E.
    destruct (or_loop isbanned false cur 0 0 (kmap cs) (set_lastName (Some cur) c)) as [z c1] eqn:EL.
    inversion E; subst r c'. destruct Q as (Q1 & Q2 & Q3).
    assert (G := or_fresh cur cs isbanned false (fun _ => false) (banned c) HB 0 cs []
                   (set_lastName (Some cur) c) z c1 eq_refl OK (SD_lrem c _ _ eq_refl ND)).
    cbn [lenN] in G.
    assert (G' : opost cur cs false (fun _ => false) (flat_map leaf_ids cs)
                   (first_from (lv c) (fun _ => false) 0 cs) c z c1).
    { destruct G as (IV & G); [lia| unfold quiet; stg; auto| exact PT| reflexivity| exact EL|].
      split; [|exact G]. destruct IV as (A1 & A2 & A3 & A4 & A5 & A6 & A7). unfold inv. repeat split; auto. }
    apply CONV in G'. cbn [evalp eval].
    replace (match k with KNot => _ | KAnd => _ | KOr | KAnyOf => existsb (eval (lv c)) cs | KAllOf => _ end)
      with (existsb (eval (lv c)) cs) by (destruct HK; subst k; reflexivity).
    rewrite (existsb_first_from _ 0). exact G'.
  - cbn [startof node_run] in E. fold (kmap cs) in E. rewrite DM in E.
    cbn [vpath tailcrumbs] in VP, PT. destruct (nthN p cs) as [x|] eqn:EN; [|destruct VP].
    destruct VP as (_ & VP).
    destruct (or_loop isbanned false cur p 0 (kmap cs) c) as [z c1] eqn:EL.
    inversion E; subst r c'.
    assert (G := or_resume cur cs isbanned false (fun _ => false) (banned c) HB p x pit c z c1 EN OK ND
                   eq_refl eq_refl (conj Q (conj VP PT)) EL).
    apply CONV in G. cbn [evalp]. rewrite EN. rewrite (existsb_first_from _ (p + 1)).
    destruct HK; subst k; destruct (evalp (lv c) pit x); exact G.
Qed.

(* ---------- Acl::NotNode::doMatch and Acl::AllOf::doMatch: one child at nodes.begin() ---------- *)
Lemma single_step cur k x rest pit c z c' :
  k = KNot \/ k = KAllOf -> run_ok x -> SD c (leaf_ids x) -> mcpre x pit c ->
  doMatch k cur 0 (kmap (x :: rest)) c = (z, c') ->
  gpost (leaf_ids x) (Inner cur k (x :: rest))
        (match k with KNot => negb (evalp (lv c) pit x) | _ => evalp (lv c) pit x end) c (z =? 1)%Z c'.
Proof.
  intros HK OK ND PRE E.
  assert (E' : (let '(b, c1) := matchChild cur 0 (node_id x) (node_run scr x) c in
                match k with
                | KNot => if b then (0%Z, c1) else if negb (keepMatching c1) then ((-1)%Z, c1) else (1%Z, c1)
                | _ => if b then (1%Z, c1) else ((if keepMatching c1 then 0 else -1)%Z, c1)
                end) = (z, c')).
  { destruct HK; subst k; exact E. }
  clear E. destruct (matchChild cur 0 (node_id x) (node_run scr x) c) as [b c1] eqn:EM.
  destruct (matchChild_ok _ _ _ _ _ _ _ OK ND PRE EM) as (IV & G).
  destruct G as [(S1 & S2 & S3)|(S1 & S2 & S3 & S4 & pi' & S5 & S6 & S7)].
  - assert (KM : keepMatching c1 = true) by (apply quiet_keep; [exact S1| apply IV]).
    rewrite KM in E'. rewrite <- S3.
    assert (EZ : c' = c1 /\ (z =? 1)%Z = match k with KNot => negb b | _ => b end).
    { destruct HK; subst k; destruct b; cbn [negb] in E'; inversion E'; subst; split; reflexivity. }
    destruct EZ as (-> & ->). split; [exact IV|]. left. auto.
  - subst b. rewrite (running_stop c1 S1) in E'.
    assert (EZ : c' = c1 /\ (z =? 1)%Z = false).
    { destruct HK; subst k; cbn [negb] in E'; inversion E'; subst; split; reflexivity. }
    destruct EZ as (-> & ->). split; [exact IV|].
    right. split; [exact S1|]. split; [reflexivity|]. split; [exact S3|]. split; [exact S4|].
    exists (0 :: pi'). cbn [vpath crumbs evalp nthN N.eqb].
    split; [split; [destruct HK; subst k; reflexivity| exact S5]|]. split; [exact S6|].
    rewrite S7. destruct HK; subst k; reflexivity.
Qed.

Lemma single_node_ok cur k cs :
  k = KNot \/ k = KAllOf -> (k = KNot -> cs <> []) -> Forall run_ok cs -> run_ok (Inner cur k cs).
Proof.
  intros HK NE OK pi c r c' ND (Q & _ & _ & VP & PT) E. cbn [leaf_ids] in *.
  destruct cs as [|x rest].
  { (* an all-of without lines matches *)
    destruct HK as [->| ->]; [exfalso; apply NE; reflexivity|].
    destruct pi as [|p pit]; [|cbn [vpath nthN] in VP; destruct VP].
    cbn in E. inversion E; subst r c'. destruct Q as (Q1 & Q2 & Q3).
    split; [unfold inv; stg; repeat split; auto|]. left. stg. auto. }
  pose proof (Forall_inv OK) as OKx. cbn [flat_map] in ND.
  assert (NDx := SD_app_l _ _ _ ND).
  assert (WK : forall V c0 z c1, inv (leaf_ids x) c c0 -> lv c0 = lv c -> 
             gpost (leaf_ids x) (Inner cur k (x :: rest)) V c0 z c1 ->
             gpost (flat_map leaf_ids (x :: rest)) (Inner cur k (x :: rest)) V c z c1).
  { intros V c0 z c1 IV0 LV (IV & G). cbn [flat_map].
    split; [eapply inv_trans; [exact IV0| exact IV| apply incl_appl, incl_refl| apply incl_appl, incl_refl]|].
    destruct G as [G|(T1 & T2 & T3 & T4 & T5)]; [left; exact G|].
    right. split; [exact T1|]. split; [exact T2|]. split; [exact T3|]. split; [|exact T5].
    eapply pend_weaken; [exact T4| apply incl_appl, incl_refl]. }
  destruct Q as (Q1 & Q2 & Q3).
  destruct pi as [|p pit].
  - cbn [startof node_run] in E. fold (kmap (x :: rest)) in E.
    destruct (doMatch k cur 0 (kmap (x :: rest)) (set_lastName (Some cur) c)) as [z c1] eqn:ED.
    inversion E; subst r c'.
    assert (G := single_step cur k x rest [] (set_lastName (Some cur) c) z c1 HK OKx (SD_lrem c _ _ eq_refl NDx)).
    cbn [evalp] in G.
    replace (evalp (lv c) [] (Inner cur k (x :: rest)))
      with (match k with KNot => negb (eval (lv c) x) | _ => eval (lv c) x end)
      by (destruct HK; subst k; reflexivity).
    apply (WK _ (set_lastName (Some cur) c)); [unfold inv; stg; repeat split; auto| reflexivity|].
    apply G; [|exact ED]. split; [unfold quiet; stg; auto|]. split; [exact Logic.I| exact PT].
  - cbn [vpath tailcrumbs] in VP, PT.
    destruct (nthN p (x :: rest)) as [y|] eqn:EN; [|destruct VP]. destruct VP as (P0 & VP).
    assert (p = 0) by (destruct HK; subst k; exact P0). subst p. cbn in EN. inversion EN; subst y.
    cbn [startof node_run] in E. fold (kmap (x :: rest)) in E.
    destruct (doMatch k cur 0 (kmap (x :: rest)) c) as [z c1] eqn:ED.
    inversion E; subst r c'.
    assert (G := single_step cur k x rest pit c z c1 HK OKx NDx (conj (conj Q1 (conj Q2 Q3)) (conj VP PT)) ED).
    replace (evalp (lv c) (0 :: pit) (Inner cur k (x :: rest)))
      with (match k with KNot => negb (evalp (lv c) pit x) | _ => evalp (lv c) pit x end)
      by (destruct HK; subst k; reflexivity).
    apply (WK _ c); [apply inv_refl; assumption| reflexivity| exact G].
Qed.

(* ---------- 3. every well-formed node behaves ---------- *)
Lemma node_ok : forall n, wf_node n = true -> run_ok n.
Proof.
  induction n as [i|i k cs IH] using node_ind2; intros WF; [apply leaf_ok|].
  cbn [wf_node] in WF. apply andb_prop in WF. destruct WF as (WF1 & WF2).
  assert (OK : Forall run_ok cs).
  { rewrite forallb_forall in WF2. rewrite Forall_forall in IH |- *. intros x Hx. apply IH; [exact Hx| apply WF2; exact Hx]. }
  destruct k.
  - apply single_node_ok; [left; reflexivity| | exact OK]. intros _ ->. discriminate.
  - apply and_node_ok; exact OK.
  - apply or_node_ok; [left; reflexivity| exact OK].
  - apply single_node_ok; [right; reflexivity| | exact OK]. intros C; discriminate.
  - apply or_node_ok; [right; reflexivity| exact OK].
Qed.

(* ---------- 4. the root Acl::Tree and matchAndFinish ---------- *)
Definition decide_V (m : mode) (t : tree) (V : option N) : code * N * bool :=
  match V with
  | Some pos =>
      match actions t with
      | [] => (Allowed, 0, false)
      | _ => (acode (nth_action t pos), akind (nth_action t pos), false)
      end
  | None =>
      match m with
      | MFastList => (Denied, 0, false)
      | _ => (opposite (acode (last (actions t) (action Dunno 0))), 0, true)
      end
  end.

Lemma decide_eq m v t bans : decide m v t bans = decide_V m t (first_from v (rule_banned t bans) 0 (rules t)).
Proof. reflexivity. Qed.


Lemma nth_action_explicit t pos : explicit_actions t = true -> aimplicit (nth_action t pos) = false.
Proof.
  unfold explicit_actions, nth_action. intros H.
  destruct (nthN pos (actions t)) as [a|] eqn:E; [|reflexivity].
  rewrite forallb_forall in H. apply nthN_in in E. apply H in E. now apply negb_true_iff in E.
Qed.

Section Root.
Variables (t : tree) (bans : list answer).
Hypothesis WF : forallb wf_node (rules t) = true.
Hypothesis EX : explicit_actions t = true.
Let rb := rule_banned t bans.
Let ids := tree_leaf_ids t.

Lemma tree_banned_rb c q : banned c = bans -> tree_banned t c q = rb q.
Proof. intros B. unfold tree_banned, rb, rule_banned, bannedAction. rewrite B. reflexivity. Qed.

Lemma rules_ok : Forall run_ok (rules t).
Proof.
  rewrite forallb_forall in WF. rewrite Forall_forall. intros x Hx. apply node_ok, WF, Hx.
Qed.

(* the value of the suspended root recursion *)
Definition susp_core (V : option N) (c' : st) : Prop :=
  stg c' = SRunning /\ finished c' = false /\ asyncCaller c' = true /\ pend ids c' /\
  exists q x pi', nthN q (rules t) = Some x /\ rb q = false /\ vpath pi' x /\
    path c' = (tid t, q) :: crumbs pi' x /\
    (if evalp (lv c') pi' x then Some q else first_from (lv c') rb (q + 1) (dropN (q + 1) (rules t))) = V.

Definition mfpost (V : option N) (c c' : st) : Prop :=
  (forall j, (length (lrem c' j) <= length (lrem c j))%nat) /\
  err c' = false /\ cbk c' = cbk c /\ asyncCaller c' = asyncCaller c /\ banned c' = banned c /\
  ((stg c' = SNone /\ finished c' = true /\ exists q, V = Some q /\
      forall m, (acode (ans c'), akind (ans c'), aimplicit (ans c')) = decide_V m t V)
   \/ (stg c' = SNone /\ finished c' = false /\ V = None)
   \/ susp_core V c').

(* what matchAndFinish does with the outcome of the root OrNode loop *)
Lemma finish_ok V c0 z c1 :
  (forall q, V = Some q -> q < lenN (rules t)) ->
  opost (tid t) (rules t) true rb ids V c0 z c1 ->
  mfpost V c0 (if (z =? 1)%Z then
                 let '(a, bad) := winningAction t c1 in markFinished a (if bad then set_err true c1 else c1)
               else c1).
Proof.
  intros BD ((A1 & A2 & A3 & A4 & A5 & A6 & A7) & G).
  destruct G as [(S1 & S2 & S3 & S4)|(S1 & S2 & S3 & S4 & S5)].
  - rewrite S3. destruct V as [q|]; cbn [is_some].
    + specialize (S4 eq_refl q eq_refl). specialize (BD q eq_refl).
      assert (QB : lenN (rules t) <=? q = false) by (apply N.leb_gt; exact BD).
      assert (WA : winningAction t c1 =
                   (match actions t with [] => action Allowed 0 | _ => nth_action t q end, false)).
      { unfold winningAction. rewrite S4, QB. destruct (actions t); reflexivity. }
      rewrite WA. unfold markFinished, asyncInProgress. rewrite A2, S1. cbn [stage_eqb negb orb].
      unfold mfpost. stg. refine (conj A7 (conj A1 (conj A5 (conj A3 (conj A4 _))))).
      left. split; [exact S1|]. split; [reflexivity|].
      exists q. split; [reflexivity|]. intros m. cbn [decide_V].
      destruct (actions t) eqn:EA; [reflexivity|]. rewrite (nth_action_explicit t q EX). reflexivity.
    + refine (conj A7 (conj A1 (conj A5 (conj A3 (conj A4 _))))). right. left. auto.
  - rewrite S2. refine (conj A7 (conj A1 (conj A5 (conj A3 (conj A4 _))))). right. right.
    unfold susp_core. auto.
Qed.

Lemma nthN_lt {A} (l : list A) p x : nthN p l = Some x -> p < lenN l.
Proof.
  intros H. destruct (nthN_split _ _ _ H) as (E & L). rewrite E, lenN_app. cbn [lenN]. lia.
Qed.

Lemma matchAndFinish_fresh c :
  SD c (tree_leaf_ids t) -> quiet c -> path c = [] -> banned c = bans ->
  mfpost (first_from (lv c) rb 0 (rules t)) c (matchAndFinish scr t c).
Proof.
  intros ND Q PT BN. unfold matchAndFinish. rewrite PT. unfold tree_run. fold (kmap (rules t)).
  destruct (or_loop (tree_banned t) true (tid t) 0 0 (kmap (rules t))
              (set_lastMatch None (set_lastName (Some (tid t)) c))) as [z c1] eqn:EL.
  set (c0 := set_lastMatch None (set_lastName (Some (tid t)) c)) in *.
  destruct Q as (Q1 & Q2 & Q3).
  assert (G := or_fresh (tid t) (rules t) (tree_banned t) true rb bans tree_banned_rb 0 (rules t) [] c0 z c1
                 eq_refl rules_ok (SD_lrem c c0 _ eq_refl ND)).
  cbn [lenN] in G.
  assert (G' : opost (tid t) (rules t) true rb ids (first_from (lv c0) rb 0 (rules t)) c0 z c1).
  { apply G; [lia| unfold quiet, c0; stg; auto| exact PT| exact BN| exact EL]. }
  assert (BD : forall q, first_from (lv c0) rb 0 (rules t) = Some q -> q < lenN (rules t)).
  { intros q H. apply first_from_bound in H. lia. }
  assert (M := finish_ok _ c0 z c1 BD G').
  destruct M as (M1 & M2 & M3 & M4 & M5 & M6). exact (conj M1 (conj M2 (conj M3 (conj M4 (conj M5 M6))))).
Qed.

Lemma matchAndFinish_resume V c q x pi' :
  SD c (tree_leaf_ids t) -> quiet c -> banned c = bans ->
  nthN q (rules t) = Some x -> rb q = false -> vpath pi' x -> path c = (tid t, q) :: crumbs pi' x ->
  (if evalp (lv c) pi' x then Some q else first_from (lv c) rb (q + 1) (dropN (q + 1) (rules t))) = V ->
  mfpost V c (matchAndFinish scr t c).
Proof.
  intros ND Q BN EN NB VP PT EV. unfold matchAndFinish. rewrite PT. cbn [fst snd]. rewrite N.eqb_refl.
  unfold tree_run. fold (kmap (rules t)).
  set (c0 := set_lastMatch None (set_path (crumbs pi' x) c)).
  destruct (or_loop (tree_banned t) true (tid t) q 0 (kmap (rules t)) c0) as [z c1] eqn:EL.
  destruct Q as (Q1 & Q2 & Q3).
  assert (G := or_resume (tid t) (rules t) (tree_banned t) true rb bans tree_banned_rb q x pi' c0 z c1
                 EN rules_ok (SD_lrem c c0 _ eq_refl ND) BN NB).
  assert (G' : opost (tid t) (rules t) true rb ids V c0 z c1).
  { rewrite <- EV. apply G; [|exact EL]. split; [unfold quiet, c0; stg; auto|]. split; [exact VP| reflexivity]. }
  assert (BD : forall q0, V = Some q0 -> q0 < lenN (rules t)).
  { intros q0 H. rewrite <- EV in H. pose proof (nthN_lt _ _ _ EN) as LT.
    destruct (evalp (lv c) pi' x); [inversion H; subst; exact LT|].
    apply first_from_bound in H. destruct (nthN_split _ _ _ EN) as (ES & LP).
    assert (lenN (rules t) = q + 1 + lenN (dropN (q + 1) (rules t))).
    { rewrite ES at 1. rewrite lenN_app, LP. cbn [lenN]. lia. }
    lia. }
  assert (M := finish_ok V c0 z c1 BD G').
  destruct M as (M1 & M2 & M3 & M4 & M5 & M6). exact (conj M1 (conj M2 (conj M3 (conj M4 (conj M5 M6))))).
Qed.
End Root.

(* ---------- 5. the checks ---------- *)
Section Top.
Variables (t : tree) (bans : list answer).
Hypothesis WF : forallb wf_node (rules t) = true.
Hypothesis EX : explicit_actions t = true.
Let rb := rule_banned t bans.
Let ids := tree_leaf_ids t.

Definition answered (V : option N) (c : st) : Prop :=
  err c = false /\ exists a, cbk c = Some a /\ (acode a, akind a, aimplicit a) = decide_V MNonBlocking t V.

Definition suspended (V : option N) (c : st) : Prop :=
  err c = false /\ cbk c = None /\ banned c = bans /\ SD c ids /\ susp_core t bans V c.

Lemma opposite_eq c : match c with Denied => Allowed | Allowed => Denied | _ => Dunno end = opposite c.
Proof. destruct c; reflexivity. Qed.

Lemma complete_finished c :
  stg c = SNone -> finished c = true -> completeNonBlocking t c = set_cbk (Some (ans c)) c.
Proof.
  intros S1 S2. unfold completeNonBlocking, asyncInProgress. rewrite S1. cbn [stage_eqb negb].
  rewrite S2. unfold checkCallback. rewrite S2. reflexivity.
Qed.

Lemma complete_unfinished c :
  stg c = SNone -> finished c = false ->
  completeNonBlocking t c =
  set_cbk (Some (mkAns (opposite (acode (lastAction t))) 0 true (lastName c)))
    (set_ans (mkAns (opposite (acode (lastAction t))) 0 true (lastName c)) (set_finished true c)).
Proof.
  intros S1 S2. unfold completeNonBlocking, asyncInProgress. rewrite S1. cbn [stage_eqb negb].
  rewrite S2. unfold calcImplicitAnswer, markFinished, asyncInProgress. rewrite S1, S2. cbn [stage_eqb negb orb].
  unfold checkCallback. stg. rewrite opposite_eq. reflexivity.
Qed.

Lemma lrem_markFinished a c : lrem (markFinished a c) = lrem c.
Proof. unfold markFinished. destruct (finished c || asyncInProgress c); reflexivity. Qed.
Lemma lrem_checkCallback c : lrem (checkCallback c) = lrem c.
Proof. unfold checkCallback. destruct (finished c); reflexivity. Qed.
Lemma lrem_complete c : lrem (completeNonBlocking t c) = lrem c.
Proof.
  unfold completeNonBlocking. rewrite lrem_checkCallback.
  destruct (asyncInProgress c);
    (destruct (finished _); [reflexivity| unfold calcImplicitAnswer; rewrite lrem_markFinished; reflexivity]).
Qed.

(* after matchAndFinish: completeNonBlocking, or stay suspended *)
Lemma complete_ok V c c' :
  SD c ids -> mfpost t bans V c c' -> cbk c = None -> banned c = bans ->
  (asyncInProgress c' = false /\ answered V (completeNonBlocking t c'))
  \/ (asyncInProgress c' = true /\ suspended V c').
Proof.
  intros SDc (M1 & M2 & M3 & M4 & M5 & M6) CB BN.
  destruct M6 as [(S1 & S2 & q & S3 & S4)|[(S1 & S2 & S3)|S]].
  - left. unfold asyncInProgress. rewrite S1. split; [reflexivity|].
    rewrite (complete_finished c' S1 S2).
    unfold answered. stg. split; [exact M2|]. exists (ans c'). split; [reflexivity| apply S4].
  - left. unfold asyncInProgress. rewrite S1. split; [reflexivity|].
    rewrite (complete_unfinished c' S1 S2).
    unfold answered. stg. split; [exact M2|].
    eexists. split; [reflexivity|]. cbn [acode akind aimplicit]. subst V. cbn [decide_V].
    unfold lastAction. reflexivity.
  - right. destruct S as (S1 & S'). unfold asyncInProgress. rewrite S1. split; [reflexivity|].
    unfold suspended. split; [exact M2|]. split; [congruence|]. split; [congruence|].
    split; [eapply SD_mono; [exact SDc| exact M1]|]. exact (conj S1 S').
Qed.

Lemma nonBlockingCheck_ok c0 :
  SD c0 ids -> stg c0 = SNone -> err c0 = false -> path c0 = [] -> cbk c0 = None -> banned c0 = bans ->
  let V := first_from (fun i => lval_k true (retry (scr i)) (truth (scr i)) 0 (lrem c0 i)) rb 0 (rules t) in
  let c' := nonBlockingCheck scr t c0 in
  (answered V c' \/ suspended V c') /\ (forall j, (length (lrem c' j) <= length (lrem c0 j))%nat).
Proof.
  intros SD0 S0 E0 P0 C0 B0 V c'. unfold c', nonBlockingCheck.
  set (c1 := set_asyncCaller true (preCheck c0)).
  assert (SD1 : SD c1 ids) by (eapply SD_lrem; [|exact SD0]; reflexivity).
  assert (M := matchAndFinish_fresh t bans WF EX c1 SD1).
  assert (M' : mfpost t bans V c1 (matchAndFinish scr t c1)).
  { apply M; unfold quiet, c1, preCheck; stg; auto. }
  destruct (complete_ok V c1 _ SD1 M') as [(A & B)|(A & B)]; try (unfold c1, preCheck; stg; assumption).
  - rewrite A. split; [left; exact B|].
    intros j. destruct M' as (M1 & _). specialize (M1 j). rewrite lrem_complete. exact M1.
  - rewrite A. split; [right; exact B|]. destruct M' as (M1 & _). exact M1.
Qed.

Lemma lv_deliver c j rest :
  asyncCaller c = true -> lrem c j = Real :: rest ->
  forall i, lv (set_stg SNone (deliver j c)) i = lv c i.
Proof.
  intros AC LR i. unfold lv, deliver. stg. rewrite AC. unfold upd.
  destruct (i =? j) eqn:E; [|reflexivity]. apply N.eqb_eq in E. subst i. rewrite LR. reflexivity.
Qed.

Lemma resume_ok V c :
  suspended V c ->
  exists j, pending c = Some j /\
    let c' := resumeNonBlockingCheck scr t (deliver j c) in
    (answered V c' \/ suspended V c') /\ (total ids c' < total ids c)%nat.
Proof.
  intros (E0 & C0 & B0 & SDc & S1 & S2 & S3 & (j & rest & P1 & P2 & P3) & q & x & pi' & T1 & T2 & T3 & T4 & T5).
  exists j. split; [exact P1|]. intros c'. unfold c', resumeNonBlockingCheck.
  assert (D1 : stg (deliver j c) = SRunning) by exact S1.
  rewrite D1. cbn [stage_eqb]. 
  set (c2 := set_stg SNone (deliver j c)).
  assert (P2' : path c2 = (tid t, q) :: crumbs pi' x) by exact T4.
  rewrite P2'.
  assert (F2 : finished c2 = false) by exact S2. rewrite F2.
  assert (LV := lv_deliver c j rest S3 P3). fold c2 in LV.
  assert (LE2 : forall i, (length (lrem c2 i) <= length (lrem c i))%nat).
  { intros i. unfold c2, deliver; stg. unfold upd. destruct (i =? j) eqn:E; [|lia].
    apply N.eqb_eq in E. subst i. rewrite P3. cbn [tl length]. lia. }
  assert (SD2 : SD c2 ids) by (eapply SD_mono; [exact SDc| exact LE2]).
  assert (M := matchAndFinish_resume t bans WF EX V c2 q x pi' SD2).
  assert (M' : mfpost t bans V c2 (matchAndFinish scr t c2)).
  { apply M; try assumption.
    - unfold quiet, c2, deliver; stg; auto.
    - rewrite <- T5. rewrite (evalp_ext _ _ pi' x (fun i _ => LV i)).
      rewrite (first_from_ext _ _ rb (q + 1) _ (fun i _ => LV i)). reflexivity. }
  assert (LT : (total ids (matchAndFinish scr t c2) < total ids c)%nat).
  { destruct M' as (M1 & _). apply (Nat.le_lt_trans _ (total ids c2)); [apply total_le; exact M1|].
    apply (total_lt ids c c2 j); [| exact P2|].
    - intros i. unfold c2, deliver; stg. unfold upd. destruct (i =? j) eqn:E; [|lia].
      apply N.eqb_eq in E. subst i. rewrite P3. cbn [tl length]. lia.
    - unfold c2, deliver; stg. rewrite upd_same, P3. cbn [tl length]. lia. }
  destruct (complete_ok V c2 _ SD2 M') as [(A & B)|(A & B)]; try assumption.
  - rewrite A. split; [left; exact B|].
    unfold total. rewrite lrem_complete. exact LT.
  - rewrite A. destruct B as (B1 & B2 & B3 & BSD & B4 & B5 & B6 & B7 & q' & x' & pi2 & B8 & B9 & B10 & B11 & B12).
    rewrite B11. split; [right|exact LT].
    unfold suspended, susp_core. split; [exact B1|]. split; [exact B2|]. split; [exact B3|]. split; [exact BSD|].
    split; [exact B4|]. split; [exact B5|]. split; [exact B6|]. split; [exact B7|].
    exists q', x', pi2. auto.
Qed.

Lemma nb_loop_ok V : forall fuel c,
  answered V c \/ (suspended V c /\ (total ids c < fuel)%nat) ->
  exists c', nb_loop scr fuel t c = Some c' /\ answered V c'.
Proof.
  induction fuel as [|f IH]; intros c [A|(S & LT)].
  - exists c. destruct A as (A1 & a & A2 & A3). cbn [nb_loop]. rewrite A2. split; [reflexivity|].
    split; [exact A1|]. exists a. auto.
  - lia.
  - exists c. destruct A as (A1 & a & A2 & A3). cbn [nb_loop]. rewrite A2. split; [reflexivity|].
    split; [exact A1|]. exists a. auto.
  - destruct (resume_ok V c S) as (j & PJ & G). cbn zeta in G. destruct G as (G & LT2).
    cbn [nb_loop]. destruct S as (_ & CB & _). rewrite CB, PJ.
    apply IH. destruct G as [G|G]; [left; exact G| right; split; [exact G| lia]].
Qed.

(* fastCheck() and fastCheck(list): goAsync() is refused, so matching never suspends *)
Lemma fast_ok (m : mode) c0 :
  m <> MNonBlocking -> SD c0 ids ->
  stg c0 = SNone -> err c0 = false -> path c0 = [] -> banned c0 = bans ->
  let V := first_from (fun i => lval_k false (retry (scr i)) (truth (scr i)) 0 (lrem c0 i)) rb 0 (rules t) in
  let c' := match m with MFastList => fastCheckList scr t c0 | _ => fastCheck scr t c0 end in
  err c' = false /\ (acode (ans c'), akind (ans c'), aimplicit (ans c')) = decide_V m t V.
Proof.
  intros NM SD0 S0 E0 P0 B0 V c'.
  set (c1 := set_asyncCaller false (preCheck c0)).
  assert (SD1 : SD c1 ids) by (eapply SD_lrem; [|exact SD0]; reflexivity).
  assert (M := matchAndFinish_fresh t bans WF EX c1 SD1).
  assert (M' : mfpost t bans V c1 (matchAndFinish scr t c1)).
  { apply M; unfold quiet, c1, preCheck; stg; auto. }
  assert (EQ : c' = let c2 := matchAndFinish scr t c1 in
                    if finished c2 then c2
                    else match m with MFastList => markFinished (action Denied 0) c2
                                    | _ => calcImplicitAnswer t c2 end).
  { unfold c'. destruct m; [congruence| |]; cbn zeta; unfold fastCheck, fastCheckList; fold c1;
      destruct (finished (matchAndFinish scr t c1)); reflexivity. }
  rewrite EQ. cbn zeta. clear EQ.
  destruct M' as (M1 & M2 & M3 & M4 & M5 & M6).
  destruct M6 as [(S1 & S2 & q & S3 & S4)|[(S1 & S2 & S3)|S]].
  - rewrite S2. split; [exact M2| apply S4].
  - rewrite S2. subst V. rewrite S3.
    assert (MK : forall a, err (markFinished a (matchAndFinish scr t c1)) = false /\
              ans (markFinished a (matchAndFinish scr t c1)) =
              mkAns (acode a) (akind a) (aimplicit a) (lastName (matchAndFinish scr t c1))).
    { intros a. unfold markFinished, asyncInProgress. rewrite S1, S2. cbn [stage_eqb negb orb]. stg. auto. }
    destruct m; [congruence| |].
    + unfold calcImplicitAnswer. destruct (MK (mkAns (match acode (lastAction t) with Denied => Allowed | Allowed => Denied | _ => Dunno end) 0 true None)) as (K1 & K2).
      rewrite K2. split; [exact K1|]. cbn [acode akind aimplicit decide_V]. rewrite opposite_eq. reflexivity.
    + destruct (MK (action Denied 0)) as (K1 & K2). rewrite K2. split; [exact K1|]. reflexivity.
  - destruct S as (_ & _ & AC & _). rewrite M4 in AC. unfold c1 in AC. cbn in AC. discriminate.
Qed.
End Top.

Lemma total_init t tbl bans :
  total (tree_leaf_ids t) (init_st bans (fun i => attempts (lookup_script tbl i))) = tree_attempts (lookup_script tbl) t.
Proof. reflexivity. Qed.
End Proofs.

(* ---------- the theorems ---------- *)
Lemma NoDup_shared_leaves_sync t tbl : NoDup (tree_leaf_ids t) -> shared_leaves_sync t tbl.
Proof.
  intros ND l1 l2 j E H1 H2.
  exact (NoDup_SD (init_st [] (fun i => attempts (lookup_script tbl i))) _ ND l1 l2 j E H1 H2).
Qed.


Theorem nonblocking_first_match t bans tbl :
  tree_ok t = true -> forallb wf_node (rules t) = true -> explicit_actions t = true ->
  shared_leaves_sync t tbl ->
  exists c a, run_check MNonBlocking t bans tbl = Some c /\ err c = false /\ cbk c = Some a /\
    result a = decide MNonBlocking (fun i => leaf_value true (lookup_script tbl i)) t bans.
Proof.
  intros TK WF EX ND. unfold run_check. rewrite TK. cbn [negb].
  set (scr := lookup_script tbl). set (c0 := init_st bans (fun i => attempts (scr i))).
  destruct (nonBlockingCheck_ok scr t bans WF EX c0 ND) as (G & LE); try reflexivity.
  cbn zeta in G, LE.
  set (V := first_from (fun i => lval_k true (retry (scr i)) (truth (scr i)) 0 (lrem c0 i))
              (rule_banned t bans) 0 (rules t)) in *.
  destruct (nb_loop_ok scr t bans WF EX V (S (tree_attempts scr t)) (nonBlockingCheck scr t c0))
    as (c' & RUN & A1 & a & A2 & A3).
  { destruct G as [G|G]; [left; exact G| right; split; [exact G|]].
    pose proof (total_le (tree_leaf_ids t) c0 _ LE) as TL.
    assert (TI : total (tree_leaf_ids t) c0 = tree_attempts scr t) by apply total_init.
    lia. }
  exists c', a. split; [exact RUN|]. split; [exact A1|]. split; [exact A2|].
  unfold result. rewrite A3, decide_eq. reflexivity.
Qed.

Theorem fast_first_match m t bans tbl :
  m <> MNonBlocking ->
  tree_ok t = true -> forallb wf_node (rules t) = true -> explicit_actions t = true ->
  shared_leaves_sync t tbl ->
  exists c, run_check m t bans tbl = Some c /\ err c = false /\
    result (ans c) = decide m (fun i => leaf_value false (lookup_script tbl i)) t bans.
Proof.
  intros NM TK WF EX ND. unfold run_check. rewrite TK. cbn [negb].
  set (scr := lookup_script tbl). set (c0 := init_st bans (fun i => attempts (scr i))).
  destruct (fast_ok scr t bans WF EX m c0 NM ND) as (G1 & G2); try reflexivity.
  cbn zeta in G1, G2. rewrite decide_eq.
  destruct m; [congruence| |]; eexists; (split; [reflexivity|]); (split; [exact G1| exact G2]).
Qed.

(* ---------- corollaries: what the reference value of a leaf is ---------- *)

Lemma lval_all_real rt tr : forall atts, forallb is_real atts = true -> lval_k true rt tr 0 atts = tr.
Proof.
  induction atts as [|a atts IH]; intros H; [reflexivity|]. cbn [forallb] in H. apply andb_prop in H.
  destruct H as (H1 & H2). destruct a; [|discriminate]. cbn. apply IH, H2.
Qed.

(* every lookup really goes asynchronous (any number of times): the leaves are worth their truth values *)
Theorem nonblocking_async_invisible t bans tbl :
  tree_ok t = true -> forallb wf_node (rules t) = true -> explicit_actions t = true ->
  shared_leaves_sync t tbl ->
  (forall i, In i (tree_leaf_ids t) -> forallb is_real (attempts (lookup_script tbl i)) = true) ->
  exists c a, run_check MNonBlocking t bans tbl = Some c /\ err c = false /\ cbk c = Some a /\
    result a = decide MNonBlocking (fun i => truth (lookup_script tbl i)) t bans.
Proof.
  intros TK WF EX ND AR.
  destruct (nonblocking_first_match t bans tbl TK WF EX ND) as (c & a & R1 & R2 & R3 & R4).
  exists c, a. split; [exact R1|]. split; [exact R2|]. split; [exact R3|]. rewrite R4.
  unfold decide. erewrite first_from_ext; [reflexivity|].
  intros j Hj. unfold leaf_value. apply lval_all_real, AR, Hj.
Qed.

(* the decision does not depend on how often (or whether) the leaves go asynchronous *)
Theorem schedule_independent t bans tbl tbl' :
  tree_ok t = true -> forallb wf_node (rules t) = true -> explicit_actions t = true ->
  shared_leaves_sync t tbl -> shared_leaves_sync t tbl' ->
  (forall i, In i (tree_leaf_ids t) ->
     truth (lookup_script tbl i) = truth (lookup_script tbl' i) /\
     forallb is_real (attempts (lookup_script tbl i)) = true /\
     forallb is_real (attempts (lookup_script tbl' i)) = true) ->
  exists c a c' a', run_check MNonBlocking t bans tbl = Some c /\ cbk c = Some a /\
    run_check MNonBlocking t bans tbl' = Some c' /\ cbk c' = Some a' /\ result a = result a'.
Proof.
  intros TK WF EX ND ND' H.
  destruct (nonblocking_async_invisible t bans tbl TK WF EX ND) as (c & a & R1 & _ & R3 & R4).
  { intros i Hi. apply (H i Hi). }
  destruct (nonblocking_async_invisible t bans tbl' TK WF EX ND') as (c' & a' & R1' & _ & R3' & R4').
  { intros i Hi. apply (H i Hi). }
  exists c, a, c', a'. repeat (split; [assumption|]). rewrite R4, R4'. unfold decide.
  erewrite first_from_ext; [reflexivity|]. intros j Hj. apply (H j Hj).
Qed.

(* with synchronous leaves the fast checks decide like the non-blocking check *)
Theorem fast_sync_truth m t bans tbl :
  m <> MNonBlocking ->
  tree_ok t = true -> forallb wf_node (rules t) = true -> explicit_actions t = true ->
  shared_leaves_sync t tbl ->
  (forall i, In i (tree_leaf_ids t) -> attempts (lookup_script tbl i) = []) ->
  exists c, run_check m t bans tbl = Some c /\ err c = false /\
    result (ans c) = decide m (fun i => truth (lookup_script tbl i)) t bans.
Proof.
  intros NM TK WF EX ND SY.
  destruct (fast_first_match m t bans tbl NM TK WF EX ND) as (c & R1 & R2 & R3).
  exists c. split; [exact R1|]. split; [exact R2|]. rewrite R3. unfold decide.
  erewrite first_from_ext; [reflexivity|]. intros j Hj. unfold leaf_value. rewrite (SY j Hj). reflexivity.
Qed.

(* ---------- the reference evaluation picks the least matching, non-banned rule ---------- *)
Lemma first_from_least v isb : forall l idx q,
  first_from v isb idx l = Some q ->
  (exists x, nthN (q - idx) l = Some x /\ isb q = false /\ eval v x = true) /\
  (forall p y, p < q - idx -> nthN p l = Some y -> isb (idx + p) = true \/ eval v y = false).
Proof.
  induction l as [|x l IH]; intros idx q H; cbn [first_from] in H; [discriminate|].
  destruct (negb (isb idx) && eval v x) eqn:E.
  - inversion H; subst q. apply andb_prop in E. destruct E as (E1 & E2). apply negb_true_iff in E1.
    split.
    + exists x. replace (idx - idx) with 0 by lia. cbn. auto.
    + intros p y Hp. lia.
  - pose proof H as HB. apply first_from_bound in HB. destruct HB as (B1 & B2).
    destruct (IH _ _ H) as ((y & Y1 & Y2 & Y3) & L).
    split.
    + exists y. cbn [nthN]. replace (q - idx =? 0) with false by (symmetry; apply N.eqb_neq; lia).
      replace (N.pred (q - idx)) with (q - (idx + 1)) by lia. auto.
    + intros p z Hp Hz. cbn [nthN] in Hz. destruct (p =? 0) eqn:P0.
      * apply N.eqb_eq in P0. subst p. inversion Hz; subst z. rewrite N.add_0_r.
        apply andb_false_iff in E. destruct E as [E|E]; [left; now apply negb_false_iff in E| right; exact E].
      * apply N.eqb_neq in P0. replace (idx + p) with (idx + 1 + N.pred p) by lia.
        apply L; [lia| exact Hz].
Qed.

Lemma first_from_none v isb : forall l idx,
  first_from v isb idx l = None ->
  forall p y, nthN p l = Some y -> isb (idx + p) = true \/ eval v y = false.
Proof.
  induction l as [|x l IH]; intros idx H p y Hy; cbn [nthN] in Hy; [discriminate|].
  cbn [first_from] in H. destruct (negb (isb idx) && eval v x) eqn:E; [discriminate|].
  destruct (p =? 0) eqn:P0.
  - apply N.eqb_eq in P0. subst p. inversion Hy; subst y. rewrite N.add_0_r.
    apply andb_false_iff in E. destruct E as [E|E]; [left; now apply negb_false_iff in E| right; exact E].
  - apply N.eqb_neq in P0. replace (idx + p) with (idx + 1 + N.pred p) by lia. apply (IH _ H). exact Hy.
Qed.

Theorem decide_is_first_match m v t bans :
  match first_from v (rule_banned t bans) 0 (rules t) with
  | Some q =>
      (exists x, nthN q (rules t) = Some x /\ rule_banned t bans q = false /\ eval v x = true) /\
      (forall p y, p < q -> nthN p (rules t) = Some y -> rule_banned t bans p = true \/ eval v y = false) /\
      decide m v t bans = match actions t with
                          | [] => (Allowed, 0, false)
                          | _ => (acode (nth_action t q), akind (nth_action t q), false)
                          end
  | None =>
      (forall p y, nthN p (rules t) = Some y -> rule_banned t bans p = true \/ eval v y = false) /\
      decide m v t bans = match m with
                          | MFastList => (Denied, 0, false)
                          | _ => (opposite (acode (last (actions t) (action Dunno 0))), 0, true)
                          end
  end.
Proof.
  unfold decide. destruct (first_from v (rule_banned t bans) 0 (rules t)) as [q|] eqn:E.
  - destruct (first_from_least _ _ _ _ _ E) as (A & B). rewrite N.sub_0_r in A, B.
    split; [exact A|]. split; [|reflexivity]. intros p y Hp Hy. exact (B p y Hp Hy).
  - split; [|reflexivity]. intros p y Hy. exact (first_from_none _ _ _ _ E p y Hy).
Qed.

Theorem empty_list_is_dunno i bans tbl :
  exists c a, run_check MNonBlocking (mkTree i [] []) bans tbl = Some c /\ err c = false /\ cbk c = Some a /\
    result a = (Dunno, 0, true).
Proof.
  destruct (nonblocking_first_match (mkTree i [] []) bans tbl eq_refl eq_refl eq_refl (NoDup_shared_leaves_sync (mkTree i [] []) tbl (NoDup_nil N)))
    as (c & a & H1 & H2 & H3 & H4).
  exists c, a. auto.
Qed.

Lemma shared_leaves_check t tbl : shared_leaves_sync_b t tbl = true -> shared_leaves_sync t tbl.
Proof.
  unfold shared_leaves_sync_b, shared_leaves_sync. intros H l1 l2 j E H1 H2.
  rewrite forallb_forall in H.
  assert (IN : In j (tree_leaf_ids t)) by (rewrite E; apply in_or_app; left; exact H1).
  specialize (H j IN). apply orb_prop in H. destruct H as [H|H].
  - exfalso. apply Nat.leb_le in H. rewrite E, count_occ_app in H.
    apply (count_occ_In N.eq_dec) in H1. apply (count_occ_In N.eq_dec) in H2. lia.
  - destruct (attempts (lookup_script tbl j)); [reflexivity| discriminate].
Qed.
