(* RockrebuildProofs.v — proofs about the rock rebuild model (C57). *)
Require Import SquidV.Bytes SquidV.RockrebuildModel.
Require Import SquidV.gen.RockRebuild_gen.
Require Import ZifyBool.
Local Open Scope Z_scope.

(* ================================================================ 1. termination: the fuel is enough *)

(* number of slot ids k < n whose LoadingSlot/slice satisfies p *)
Fixpoint cnt (p : sl -> bool) (g : Z -> sl) (n : nat) : nat :=
  match n with
  | O => O
  | S k => (if p (g (Z.of_nat k)) then 1 else 0) + cnt p g k
  end.

Lemma cnt_le : forall p g n, (cnt p g n <= n)%nat.
Proof. induction n; cbn [cnt]; [lia|]. destruct (p (g (Z.of_nat n))); lia. Qed.

Lemma cnt_upd_out : forall p g n i x, ~ (0 <= i < Z.of_nat n) -> cnt p (upd g i x) n = cnt p g n.
Proof.
  induction n; intros i x Hi; cbn [cnt]; [reflexivity|].
  unfold upd at 1. destruct (Z.of_nat n =? i) eqn:E; [lia|].
  rewrite IHn by lia. reflexivity.
Qed.

(* turning one p-slot inside the range into a non-p slot lowers the count by one *)
Lemma cnt_upd_dec : forall p g n i x, 0 <= i < Z.of_nat n -> p (g i) = true -> p x = false ->
  S (cnt p (upd g i x) n) = cnt p g n.
Proof.
  induction n; intros i x Hi Hp Hx; [lia|]. cbn [cnt].
  unfold upd at 1. destruct (Z.of_nat n =? i) eqn:E.
  - assert (Z.of_nat n = i) by lia. subst i. rewrite Hx, Hp.
    rewrite cnt_upd_out by lia. lia.
  - rewrite <- (IHn i x) by (try lia; assumption).
    destruct (p (g (Z.of_nat n))); lia.
Qed.

Definition nonfinal (x : sl) : bool := negb (s_final x).
Definition unfreed (x : sl) : bool := negb (s_freed x).
Definition linked (x : sl) : bool := 0 <=? s_next x.

Lemma bind_nofuel : forall r k, bind r k = NoFuel -> r = NoFuel \/ exists s, r = Ok s /\ k s = NoFuel.
Proof. intros [s| s | |] k H; cbn in H; try discriminate; eauto. Qed.

Lemma push_free_nofuel : forall i s, push_free i s <> NoFuel.
Proof. intros i s. unfold push_free. destruct (memZ i (free s)); discriminate. Qed.

Lemma push_free_sls : forall i s s', push_free i s = Ok s' -> sls s' = sls s /\ ents s' = ents s.
Proof. intros i s s'. unfold push_free. destruct (memZ i (free s)); [discriminate|]. intros H; inversion H; auto. Qed.

Lemma free_slot_nofuel : forall N pos inv i s, free_slot N pos inv i s <> NoFuel.
Proof.
  intros. unfold free_slot. destruct (negb (ls_ok N pos i)); [discriminate|].
  destruct (s_freed (sls s i)); [discriminate|]. apply push_free_nofuel.
Qed.

Lemma free_slot_sls : forall N pos inv i s s', free_slot N pos inv i s = Ok s' ->
  ls_ok N pos i = true /\ s_freed (sls s i) = false /\
  sls s' = upd (sls s) i (s_set_freed (sls s i) true) /\ ents s' = ents s.
Proof.
  intros N pos inv i s s'. unfold free_slot.
  destruct (ls_ok N pos i) eqn:L; cbn [negb]; [|discriminate].
  destruct (s_freed (sls s i)) eqn:F; [discriminate|].
  intros H. apply push_free_sls in H. destruct H as [H1 H2].
  destruct inv; cbn in H1, H2; auto.
Qed.

Lemma free_more_chain_fuel : forall N pos fuel i s,
  0 <= N -> (cnt unfreed (sls s) (Z.to_nat N) < fuel)%nat ->
  free_more_chain N pos fuel i s <> NoFuel.
Proof.
  induction fuel; intros i s HN Hc; [lia|].
  cbn [free_more_chain]. destruct (i <? 0); [discriminate|].
  destruct (ls_ok N pos i) eqn:L; cbn [negb]; [|discriminate].
  intros H. apply bind_nofuel in H. destruct H as [H|[s1 [H1 H2]]].
  - eapply free_slot_nofuel; eauto.
  - revert H2. apply IHfuel; [assumption|].
    apply free_slot_sls in H1. destruct H1 as (_ & F & S1 & _). rewrite S1.
    unfold ls_ok in L.
    pose proof (cnt_upd_dec unfreed (sls s) (Z.to_nat N) i (s_set_freed (sls s i) true)) as D.
    rewrite Z2Nat.id in D by assumption.
    assert (S (cnt unfreed (upd (sls s) i (s_set_freed (sls s i) true)) (Z.to_nat N)) = cnt unfreed (sls s) (Z.to_nat N)).
    { apply D; [lia| unfold unfreed; rewrite F; reflexivity | reflexivity]. }
    lia.
Qed.

Lemma free_more_chain_total : forall N pos i s, 0 <= N -> free_more_chain N pos (fuel_of N) i s <> NoFuel.
Proof.
  intros. apply free_more_chain_fuel; [assumption|]. unfold fuel_of.
  pose proof (cnt_le unfreed (sls s) (Z.to_nat N)). lia.
Qed.

Lemma forget_writing_nofuel : forall f s, forget_writing f s <> NoFuel.
Proof. intros. unfold forget_writing. destruct (negb (a_writing (ents s f))); discriminate. Qed.

Lemma free_bad_entry_total : forall N pos f s, 0 <= N -> free_bad_entry N pos f s <> NoFuel.
Proof.
  intros N pos f s HN. unfold free_bad_entry.
  match goal with |- context [negb (a_writing ?e)] => destruct (negb (a_writing e)) end; [discriminate|].
  match goal with |- context [negb ?c] => destruct (negb c) end; [discriminate|].
  intros H. apply bind_nofuel in H. destruct H as [H|[s1 [_ H2]]].
  - eapply free_more_chain_total; eauto.
  - eapply forget_writing_nofuel; eauto.
Qed.

Lemma fin_walk_fuel : forall N pos f lesz fuel i msz s,
  0 <= N -> (cnt nonfinal (sls s) (Z.to_nat N) < fuel)%nat ->
  fin_walk N pos f lesz fuel i msz s <> WNoFuel.
Proof.
  induction fuel; intros i msz s HN Hc; [lia|].
  cbn [fin_walk]. destruct ((0 <=? i) && (msz <? lesz)); [|discriminate].
  destruct (ls_ok N pos i) eqn:L; cbn [negb]; [|discriminate].
  destruct (s_final (sls s i)) eqn:F; [discriminate|].
  destruct (negb (s_mapped (sls s i))); [discriminate|].
  destruct (s_freed (sls s i)); [discriminate|].
  match goal with |- context [negb (a_writing ?e)] => destruct (negb (a_writing e)) end; [discriminate|].
  destruct (negb (0 <? s_size (sls s i))); [discriminate|].
  apply IHfuel; [assumption|]. cbn [sls set_sl].
  unfold ls_ok in L.
  pose proof (cnt_upd_dec nonfinal (sls s) (Z.to_nat N) i (s_set_final (sls s i) true)) as D.
  rewrite Z2Nat.id in D by assumption.
  assert (S (cnt nonfinal (upd (sls s) i (s_set_final (sls s i) true)) (Z.to_nat N)) = cnt nonfinal (sls s) (Z.to_nat N)).
  { apply D; [lia| unfold nonfinal; rewrite F; reflexivity | reflexivity]. }
  lia.
Qed.

Lemma finalize_or_throw_total : forall N pos f s, 0 <= N -> finalize_or_throw N pos f s <> NoFuel.
Proof.
  intros N pos f s HN. unfold finalize_or_throw.
  destruct (negb (a_writing (ents s f))); [discriminate|].
  destruct (negb (0 <? e_size (ents s f))); [discriminate|].
  destruct (negb (e_anch (ents s f))); [discriminate|].
  destruct (fin_walk N pos f (e_size (ents s f)) (fuel_of N) (a_start (ents s f)) 0 s) eqn:W; try discriminate.
  - destruct (negb (slotId <? 0)); [discriminate|].
    destruct (negb (mapped =? e_size (ents s f))); [discriminate|].
    match goal with |- context [negb (?a || ?b)] => destruct (negb (a || b)) end; [discriminate|].
    match goal with |- context [negb (a_writing ?e)] => destruct (negb (a_writing e)) end; discriminate.
  - exfalso. revert W. apply fin_walk_fuel; [assumption|]. unfold fuel_of.
    pose proof (cnt_le nonfinal (sls s) (Z.to_nat N)). lia.
Qed.

Lemma finalize_or_free_total : forall N pos f s, 0 <= N -> finalize_or_free N pos f s <> NoFuel.
Proof.
  intros N pos f s HN. unfold finalize_or_free.
  destruct (finalize_or_throw N pos f s) eqn:E; try discriminate.
  - apply free_bad_entry_total; assumption.
  - exfalso. revert E. apply finalize_or_throw_total; assumption.
Qed.

(* freeChainAt: every continuing step clears a slice that was still linked *)
Lemma free_chain_at_fuel : forall N fuel i s,
  0 <= N -> (cnt linked (sls s) (Z.to_nat N) < fuel)%nat ->
  free_chain_at N fuel i s <> NoFuel.
Proof.
  induction fuel; intros i s HN Hc; [lia|].
  cbn [free_chain_at]. destruct (i <? 0) eqn:I0; [discriminate|].
  destruct ((0 <=? i) && (i <? N)) eqn:R; cbn [negb]; [|discriminate].
  intros H. apply bind_nofuel in H. destruct H as [H|[s1 [H1 H2]]].
  - eapply push_free_nofuel; eauto.
  - apply push_free_sls in H1. destruct H1 as [S1 _]. cbn [sls set_sl] in S1.
    destruct (0 <=? s_next (sls s i)) eqn:Lk.
    + revert H2. apply IHfuel; [assumption|]. rewrite S1.
      pose proof (cnt_upd_dec linked (sls s) (Z.to_nat N) i (s_set_slice (sls s i) 0 (-1))) as D.
      rewrite Z2Nat.id in D by assumption.
      assert (S (cnt linked (upd (sls s) i (s_set_slice (sls s i) 0 (-1))) (Z.to_nat N)) = cnt linked (sls s) (Z.to_nat N)).
      { apply D; [lia| unfold linked; exact Lk | reflexivity]. }
      lia.
    + (* the chain ends here: the next call returns at once *)
      destruct fuel; cbn [free_chain_at] in H2.
      * destruct (s_next (sls s i) <? 0) eqn:Q; [discriminate| lia].
      * destruct (s_next (sls s i) <? 0) eqn:Q; [discriminate| lia].
Qed.

Lemma free_chain_at_total : forall N i s, 0 <= N -> free_chain_at N (fuel_of N) i s <> NoFuel.
Proof.
  intros. apply free_chain_at_fuel; [assumption|]. unfold fuel_of.
  pose proof (cnt_le linked (sls s) (Z.to_nat N)). lia.
Qed.

Lemma free_chain_total : forall N f k s, 0 <= N -> free_chain N f k s <> NoFuel.
Proof.
  intros N f k s HN. unfold free_chain. intros H. apply bind_nofuel in H.
  destruct H as [H|[s1 [_ H2]]]; [|discriminate].
  destruct (a_empty (ents s f)); [discriminate|]. revert H. apply free_chain_at_total; assumption.
Qed.

Lemma free_entry_total : forall N f s, 0 <= N -> free_entry N f s <> NoFuel.
Proof.
  intros N f s HN. unfold free_entry. destruct (a_writing (ents s f)); [discriminate|].
  apply free_chain_total; assumption.
Qed.

Lemma free_unused_slot_nofuel : forall N pos inv i s, free_unused_slot N pos inv i s <> NoFuel.
Proof.
  intros. unfold free_unused_slot. destruct (negb (ls_ok N pos i)); [discriminate|].
  destruct (s_mapped (sls s i)); [discriminate|]. apply free_slot_nofuel.
Qed.

Lemma map_slot_nofuel : forall N pos i h s, map_slot N pos i h s <> NoFuel.
Proof.
  intros. unfold map_slot. destruct (negb (ls_ok N pos i)); [discriminate|].
  destruct (s_mapped (sls s i)); [discriminate|]. destruct (s_freed (sls s i)); discriminate.
Qed.

Lemma add_tail_total : forall N pos f i h s, 0 <= N -> add_tail N pos f i h s <> NoFuel.
Proof.
  intros N pos f i h s HN. unfold add_tail.
  match goal with |- context [if ?c then free_bad_entry _ _ _ _ else _] => destruct c end.
  - apply free_bad_entry_total; assumption.
  - intros H. apply bind_nofuel in H. destruct H as [H|[s1 [_ H2]]].
    + eapply map_slot_nofuel; eauto.
    + revert H2. match goal with |- context [if ?c then _ else _] => destruct c end; [|discriminate].
      apply finalize_or_free_total; assumption.
Qed.

Lemma add_slot_to_entry_total : forall N pos f i h m s, 0 <= N -> add_slot_to_entry N pos f i h m s <> NoFuel.
Proof.
  intros N pos f i h m s HN. unfold add_slot_to_entry.
  destruct (negb (a_writing (ents s f))); [discriminate|].
  intros H. apply bind_nofuel in H. destruct H as [H|[s2 [_ H2]]].
  - revert H. destruct (e_anch (ents s f)).
    + destruct (negb (ls_ok N pos (a_start (ents s f)))); [discriminate|].
      destruct (negb (ls_ok N pos i)); [discriminate|].
      destruct (negb (s_more (sls s i) <? 0)); discriminate.
    + destruct (negb (ls_ok N pos i)); [discriminate|].
      destruct (negb (s_more (sls s i) <? 0)); discriminate.
  - revert H2. cbv zeta.
    destruct (h_first h =? i); [|apply add_tail_total; assumption].
    match goal with |- context [if e_anch ?e then _ else _] => destruct (e_anch e) end.
    + intros H. apply bind_nofuel in H. destruct H as [H|[s4 [_ H4]]]; [|discriminate].
      revert H. apply free_bad_entry_total; assumption.
    + match goal with |- context [import_entry ?a ?b ?c] => destruct (import_entry a b c) end.
      * apply free_bad_entry_total; assumption.
      * destruct (negb (h_esz h =? 0)); [|apply add_tail_total; assumption].
        destruct (h_esz h =? rr_entry_size_max); [apply free_bad_entry_total; assumption|].
        destruct (a_swapsz e =? 0); [apply add_tail_total; assumption|].
        destruct (negb (h_esz h =? a_swapsz e)); [apply free_bad_entry_total | apply add_tail_total]; assumption.
Qed.

Lemma start_new_entry_total : forall N pos f i h m s, 0 <= N -> start_new_entry N pos f i h m s <> NoFuel.
Proof.
  intros N pos f i h m s HN. unfold start_new_entry.
  destruct (a_writing (ents s f)); [apply free_unused_slot_nofuel|].
  destruct (negb (a_wtbf (ents s f)) && negb (a_empty (ents s f))); [apply free_unused_slot_nofuel|].
  intros H. apply bind_nofuel in H. destruct H as [H|[s1 [_ H2]]].
  - revert H. destruct (a_wtbf (ents s f) || negb (a_empty (ents s f))); [|discriminate].
    apply free_chain_total; assumption.
  - revert H2. cbv zeta. destruct (negb (a_empty (ents s1 f))); [discriminate|].
    match goal with |- context [if ?c then Abort else _] => destruct c end; [discriminate|].
    intros H. apply bind_nofuel in H. destruct H as [H|[s3 [_ H3]]].
    + revert H. apply add_slot_to_entry_total; assumption.
    + revert H3. match goal with |- context [if ?c then Abort else _] => destruct c end; discriminate.
Qed.

Lemma use_new_slot_total : forall N pos i h m s, 0 <= N -> use_new_slot N pos i h m s <> NoFuel.
Proof.
  intros N pos i h m s HN. unfold use_new_slot. cbv zeta.
  match goal with |- context [if negb ?c then Abort else _] => destruct (negb c) end; [discriminate|].
  match goal with |- context [match e_state ?e with _ => _ end] => destruct (e_state e) end.
  - apply start_new_entry_total; assumption.
  - match goal with |- context [if negb ?c then Abort else _] => destruct (negb c) end; [discriminate|].
    match goal with |- context [if ?c then add_slot_to_entry _ _ _ _ _ _ _ else _] => destruct c end.
    + apply add_slot_to_entry_total; assumption.
    + intros H. apply bind_nofuel in H. destruct H as [H|[s1 [_ H1]]].
      * revert H. apply free_bad_entry_total; assumption.
      * apply bind_nofuel in H1. destruct H1 as [H1|[s2 [_ H2]]]; [|discriminate].
        revert H1. apply free_unused_slot_nofuel.
  - intros H. apply bind_nofuel in H. destruct H as [H|[s1 [_ H1]]].
    + revert H. apply free_entry_total; assumption.
    + apply bind_nofuel in H1. destruct H1 as [H1|[s2 [_ H2]]]; [|discriminate].
      revert H1. apply free_unused_slot_nofuel.
  - apply free_unused_slot_nofuel.
  - apply free_unused_slot_nofuel.
Qed.

Lemma load_one_slot_total : forall ssz N pos d s, 0 <= N -> load_one_slot ssz N pos d s <> NoFuel.
Proof.
  intros ssz N pos d s HN. unfold load_one_slot. destruct d as [|h m].
  - apply free_unused_slot_nofuel.
  - destruct (hdr_empty h); [apply free_unused_slot_nofuel|].
    destruct (negb (hdr_sane ssz N h)); [apply free_unused_slot_nofuel|].
    apply use_new_slot_total; assumption.
Qed.

Lemma load_all_total : forall ssz N img pos s, 0 <= N -> load_all ssz N pos img s <> NoFuel.
Proof.
  induction img as [|d r IH]; intros pos s HN; cbn [load_all]; [discriminate|].
  intros H. apply bind_nofuel in H. destruct H as [H|[s1 [_ H1]]].
  - revert H. apply load_one_slot_total; assumption.
  - revert H1. apply IH; assumption.
Qed.

Lemma for_range_total : forall step, (forall k s, step k s <> NoFuel) ->
  forall n k s, for_range n k step s <> NoFuel.
Proof.
  intros step Hs. induction n; intros k s; cbn [for_range]; [discriminate|].
  intros H. apply bind_nofuel in H. destruct H as [H|[s1 [_ H1]]].
  - eapply Hs; eauto.
  - eapply IHn; eauto.
Qed.

Lemma validate_one_entry_total : forall N f s, 0 <= N -> validate_one_entry N f s <> NoFuel.
Proof.
  intros N f s HN. unfold validate_one_entry. cbv zeta.
  match goal with |- context [match e_state ?e with _ => _ end] => destruct (e_state e) end; try discriminate.
  apply finalize_or_free_total; assumption.
Qed.

Lemma validate_one_slot_total : forall N i s, validate_one_slot N i s <> NoFuel.
Proof.
  intros. unfold validate_one_slot. cbv zeta. destruct (negb (ls_ok N N i)); [discriminate|].
  match goal with |- context [if ?c then Ok _ else _] => destruct c end; discriminate.
Qed.

(* the rebuild of ANY image ends: the fuel given to the three link-following loops always suffices *)
Theorem rebuild_terminates : forall slotSize doublecheck img, rebuild slotSize doublecheck img <> NoFuel.
Proof.
  intros ssz dbl img. unfold rebuild. cbv zeta.
  assert (HN : 0 <= Z.of_nat (length img)) by lia.
  intros H. apply bind_nofuel in H. destruct H as [H|[s1 [_ H1]]].
  - revert H. apply load_all_total; assumption.
  - apply bind_nofuel in H1. destruct H1 as [H1|[s2 [_ H2]]].
    + revert H1. apply for_range_total. intros; apply validate_one_entry_total; assumption.
    + destruct dbl; [|discriminate]. revert H2. apply for_range_total. intros; apply validate_one_slot_total.
Qed.

(* ================================================================ 2. what "readable" and "chain" mean *)

(* StoreMap::openForReadingAt succeeds: nobody writes, not marked for removal, a key is present *)
Definition readable (e : entry) : bool := negb (a_writing e) && negb (a_wtbf e) && negb (a_empty e).

(* l is the list of slots visited from slot id i through the map's slice links, ending at a negative id *)
Fixpoint chain_of (s : st) (i : Z) (l : list Z) : Prop :=
  match l with
  | [] => i < 0
  | x :: r => i = x /\ 0 <= x /\ chain_of s (s_next (sls s x)) r
  end.

Fixpoint sumsz (s : st) (l : list Z) : Z :=
  match l with [] => 0 | x :: r => s_size (sls s x) + sumsz s r end.

Definition holds_after (slotSize : Z) (dbl : bool) (img : list dslot) (P : st -> Prop) : Prop :=
  match rebuild slotSize dbl img with Ok s => P s | _ => False end.

Definition dE : dslot := DHdr (mkHdr 0 0 0 0 0 0 0) MZero.

(* ---- witnesses (each confirmed against the real code through the harness, corpus/C57/known.txt) ---- *)

(* repaired in /repo (e9a49c7): a cell whose entrySize field, or whose swap metadata size, is all ones is
   dropped instead of tripping an assert; nothing is indexed *)
Lemma allones_entry_size_regress :
  holds_after 131072 false
    [DHdr (mkHdr 5 7 rr_entry_size_max 200 1 0 (-1)) (MOk true 5 7 0 false 75); dE; dE; dE; dE; dE; dE]
    (fun s => forall f, 0 <= f < 7 -> readable (ents s f) = false).
Proof.
  unfold holds_after. set (r := rebuild _ _ _). vm_compute in r. subst r. cbv beta iota.
  intros f Hf. assert (f = 0 \/ f = 1 \/ f = 2 \/ f = 3 \/ f = 4 \/ f = 5 \/ f = 6) as X by lia.
  destruct X as [->|[->|[->|[->|[->|[->| ->]]]]]]; reflexivity.
Qed.

Lemma allones_meta_size_regress :
  holds_after 131072 false
    [DHdr (mkHdr 5 7 0 100 1 0 (-1)) (MOk true 5 7 rr_entry_size_max false 75); dE; dE; dE; dE; dE; dE]
    (fun s => forall f, 0 <= f < 7 -> readable (ents s f) = false).
Proof.
  unfold holds_after. set (r := rebuild _ _ _). vm_compute in r. subst r. cbv beta iota.
  intros f Hf. assert (f = 0 \/ f = 1 \/ f = 2 \/ f = 3 \/ f = 4 \/ f = 5 \/ f = 6) as X by lia.
  destruct X as [->|[->|[->|[->|[->|[->| ->]]]]]]; reflexivity.
Qed.

(* cross-linked chains: entry A absorbs slot 0 of entry B, B's later validation failure frees slot 0, a third
   cell of A's key then frees A's chain again: the free-slot index asserts on the second push of slot 0 *)
Definition img_double_free : list dslot :=
  [DHdr (mkHdr 2 0 0 100 1 4 (-1)) MBad;
   DHdr (mkHdr 1 0 200 100 1 1 0) (MOk true 1 0 0 false 75);
   DHdr (mkHdr 1 0 0 100 1 1 (-1)) MBad;
   dE;
   DHdr (mkHdr 2 0 200 100 1 4 0) (MOk true 2 0 0 false 75);
   DHdr (mkHdr 1 0 0 100 1 1 (-1)) MBad;
   dE].

Lemma crash_double_free_witness : rebuild 131072 false img_double_free = Abort.
Proof. vm_compute. reflexivity. Qed.

(* the same image without the sixth cell: entry 1 stays readable although its slot 0 is in the free-slot index *)
Definition img_freed_slot_in_use : list dslot :=
  [DHdr (mkHdr 2 0 0 100 1 4 (-1)) MBad;
   DHdr (mkHdr 1 0 200 100 1 1 0) (MOk true 1 0 0 false 75);
   DHdr (mkHdr 1 0 0 100 1 1 (-1)) MBad;
   dE;
   DHdr (mkHdr 2 0 200 100 1 4 0) (MOk true 2 0 0 false 75);
   dE; dE].

Lemma freed_slot_in_use_witness :
  holds_after 131072 false img_freed_slot_in_use (fun s =>
    readable (ents s 1) = true /\ chain_of s (a_start (ents s 1)) [1; 0] /\ In 0 (free s)).
Proof.
  unfold holds_after. set (r := rebuild _ _ _). vm_compute in r. subst r. cbv beta iota.
  split; [reflexivity|]. split; [cbn; lia|]. cbn. tauto.
Qed.

(* with squid -S the leftover slot 2 of that image makes validateOneSlot throw out of the job *)
Lemma crash_doublecheck_witness : exists s, rebuild 131072 true img_freed_slot_in_use = Thrown s.
Proof. eexists. vm_compute. reflexivity. Qed.

(* two chains with swapped nextSlot links: both entries end up readable, each with a slot of the other key *)
Definition img_hodgepodge : list dslot :=
  [DHdr (mkHdr 2 0 0 100 1 4 (-1)) MBad;
   DHdr (mkHdr 1 0 200 100 1 1 0) (MOk true 1 0 0 false 75);
   DHdr (mkHdr 1 0 0 100 1 1 (-1)) MBad;
   dE;
   DHdr (mkHdr 2 0 200 100 1 4 2) (MOk true 2 0 0 false 75);
   dE; dE].

Lemma hodgepodge_witness :
  holds_after 131072 false img_hodgepodge (fun s =>
    readable (ents s 1) = true /\ a_k0 (ents s 1) = 1 /\ chain_of s (a_start (ents s 1)) [1; 0] /\
    readable (ents s 2) = true /\ a_k0 (ents s 2) = 2 /\ chain_of s (a_start (ents s 2)) [4; 2]).
Proof.
  unfold holds_after. set (r := rebuild _ _ _). vm_compute in r. subst r. cbv beta iota.
  repeat split; cbn; lia.
Qed.

(* same key, two versions (an old tail cell, version 1, left where the new chain's link points) *)
Lemma version_mix_witness :
  holds_after 131072 false
    [DHdr (mkHdr 5 7 0 100 2 0 1) (MOk true 5 7 0 false 75); DHdr (mkHdr 5 7 0 100 1 0 (-1)) MBad; dE; dE; dE; dE; dE]
    (fun s => readable (ents s 5) = true /\ chain_of s (a_start (ents s 5)) [0; 1] /\ a_swapsz (ents s 5) = 200).
Proof.
  unfold holds_after. set (r := rebuild _ _ _). vm_compute in r. subst r. cbv beta iota.
  repeat split; cbn; lia.
Qed.

(* ================================================================ 3. every readable entry has a sound chain *)

(* y is x, except that the finalized flag (and more/freed, which no chain property mentions) may have been set *)
Definition core_le (x y : sl) : Prop :=
  s_mapped y = s_mapped x /\ s_size y = s_size x /\ s_next y = s_next x /\ (s_final x = true -> s_final y = true).

Lemma core_le_refl : forall x, core_le x x.
Proof. intros; unfold core_le; auto. Qed.

Lemma core_le_trans : forall x y z, core_le x y -> core_le y z -> core_le x z.
Proof. unfold core_le; intros x y z (A1&A2&A3&A4) (B1&B2&B3&B4); repeat split; try congruence; auto. Qed.

Definition member_ok (N : Z) (s : st) (x : Z) : Prop :=
  0 <= x < N /\ s_mapped (sls s x) = true /\ s_final (sls s x) = true /\ 0 < s_size (sls s x).

Definition good_chain (N : Z) (s : st) (f : Z) (l : list Z) : Prop :=
  chain_of s (a_start (ents s f)) l /\ NoDup l /\ (forall x, In x l -> member_ok N s x) /\
  sumsz s l = e_size (ents s f).

Definition loaded (s : st) (f : Z) : Prop := e_state (ents s f) = LeLoaded.

Definition ent_ok (e : entry) : Prop :=
  match e_state e with
  | LeEmpty => e = entry0
  | LeLoading => a_writing e = true
  | LeLoaded => a_writing e = false /\ e_anch e = true /\ a_swapsz e = e_size e
  | LeCorrupted => a_writing e = false /\ a_empty e = true
  | LeIgnored => False
  end.

Record Inv (N : Z) (s : st) : Prop := mkInv {
  iv_ent : forall f, ent_ok (ents s f);
  iv_chain : forall f, loaded s f -> exists l, good_chain N s f l;
  iv_disj : forall f g l1 l2 x, f <> g -> loaded s f -> loaded s g ->
            good_chain N s f l1 -> good_chain N s g l2 -> In x l1 -> In x l2 -> False }.

Lemma chain_of_det : forall s l1 l2 i, chain_of s i l1 -> chain_of s i l2 -> l1 = l2.
Proof.
  induction l1 as [|x r IH]; intros l2 i H1 H2; destruct l2 as [|y r2]; cbn in *; try reflexivity; try lia.
  destruct H1 as (E1 & P1 & C1). destruct H2 as (E2 & P2 & C2). subst x y. f_equal. eapply IH; eauto.
Qed.

Lemma chain_of_frame : forall s s' l i,
  (forall x, In x l -> s_next (sls s' x) = s_next (sls s x)) -> chain_of s i l -> chain_of s' i l.
Proof.
  induction l as [|x r IH]; intros i Hn H; cbn in *; [assumption|].
  destruct H as (E & P & C). repeat split; try assumption.
  rewrite (Hn x) by auto. apply IH; auto.
Qed.

Lemma sumsz_frame : forall s s' l,
  (forall x, In x l -> s_size (sls s' x) = s_size (sls s x)) -> sumsz s' l = sumsz s l.
Proof.
  induction l as [|x r IH]; intros Hn; cbn; [reflexivity|].
  rewrite (Hn x) by (cbn; auto). rewrite IH; [reflexivity|]. intros; apply Hn; cbn; auto.
Qed.

Lemma good_chain_frame : forall N s s' f l,
  ents s' f = ents s f -> (forall x, In x l -> core_le (sls s x) (sls s' x)) ->
  good_chain N s f l -> good_chain N s' f l.
Proof.
  intros N s s' f l He Hc (C & ND & M & S). unfold good_chain. rewrite He.
  split; [|split; [assumption|split]].
  - eapply chain_of_frame; [|eassumption]. intros x Hx. apply Hc in Hx. destruct Hx as (_&_&Hx&_). exact Hx.
  - intros x Hx. specialize (M x Hx). specialize (Hc x Hx). destruct M as (R&M1&M2&M3).
    destruct Hc as (C1&C2&C3&C4). unfold member_ok. rewrite C1, C2. auto.
  - rewrite <- S. apply sumsz_frame. intros x Hx. apply Hc in Hx. destruct Hx as (_&Hx&_). exact Hx.
Qed.

(* the master preservation lemma: entry f and the slots in P may change arbitrarily *)
Lemma Inv_step : forall N s s' f (P : Z -> Prop),
  Inv N s ->
  (forall g, g <> f -> ents s' g = ents s g) ->
  (forall x, P x \/ core_le (sls s x) (sls s' x)) ->
  (forall g l x, g <> f -> loaded s g -> good_chain N s g l -> In x l -> ~ P x) ->
  ent_ok (ents s' f) ->
  (loaded s' f -> exists l, good_chain N s' f l /\
      forall g l2 x, g <> f -> loaded s g -> good_chain N s g l2 -> In x l -> In x l2 -> False) ->
  Inv N s'.
Proof.
  intros N s s' f P I He Hs HP Hf Hl.
  assert (T : forall g l, g <> f -> loaded s g -> good_chain N s g l -> good_chain N s' g l).
  { intros g l Hg Lg G. eapply good_chain_frame; [apply He; assumption| |exact G].
    intros x Hx. destruct (Hs x) as [Px|C]; [|exact C]. exfalso. eapply HP; eauto. }
  assert (B : forall g l, g <> f -> loaded s' g -> good_chain N s' g l -> loaded s g /\ good_chain N s g l).
  { intros g l Hg Lg G. assert (Lg' : loaded s g) by (unfold loaded in *; rewrite <- (He g Hg); exact Lg).
    split; [exact Lg'|]. destruct (iv_chain N s I g Lg') as [l0 G0].
    pose proof (T g l0 Hg Lg' G0) as G0'.
    assert (l = l0). { destruct G as (C&_). destruct G0' as (C0&_). eapply chain_of_det; eauto. }
    subst l0. exact G0. }
  constructor.
  - intros g. destruct (Z.eq_dec g f) as [->|Hg]; [exact Hf|]. rewrite He by assumption. apply (iv_ent N s I).
  - intros g Lg. destruct (Z.eq_dec g f) as [->|Hg].
    + destruct (Hl Lg) as [l [G _]]. eauto.
    + assert (Lg' : loaded s g) by (unfold loaded in *; rewrite <- (He g Hg); exact Lg).
      destruct (iv_chain N s I g Lg') as [l0 G0]. exists l0. apply T; assumption.
  - intros g1 g2 l1 l2 x Hne L1 L2 G1 G2 X1 X2.
    destruct (Z.eq_dec g1 f) as [E1|N1]; destruct (Z.eq_dec g2 f) as [E2|N2].
    + congruence.
    + subst g1. destruct (Hl L1) as [l [G D]].
      assert (l1 = l). { destruct G1 as (C&_). destruct G as (C0&_). eapply chain_of_det; eauto. } subst l1.
      destruct (B g2 l2 N2 L2 G2) as [L2' G2']. eapply D; eauto.
    + subst g2. destruct (Hl L2) as [l [G D]].
      assert (l2 = l). { destruct G2 as (C&_). destruct G as (C0&_). eapply chain_of_det; eauto. } subst l2.
      destruct (B g1 l1 N1 L1 G1) as [L1' G1']. eapply D; eauto.
    + destruct (B g1 l1 N1 L1 G1) as [L1' G1']. destruct (B g2 l2 N2 L2 G2) as [L2' G2'].
      eapply (iv_disj N s I g1 g2); eauto.
Qed.

(* entry f changes but is not (and does not become) loaded; no slice, mapped or finalized flag is taken back *)
Lemma Inv_keep : forall N s s' f,
  Inv N s ->
  (forall g, g <> f -> ents s' g = ents s g) ->
  (forall x, core_le (sls s x) (sls s' x)) ->
  ent_ok (ents s' f) -> e_state (ents s' f) <> LeLoaded ->
  Inv N s'.
Proof.
  intros N s s' f I He Hs Hf Hn.
  apply (Inv_step N s s' f (fun _ => False)); auto.
  intros L. exfalso. apply Hn. exact L.
Qed.

Ltac st_simp := cbn [ents sls free acount c_scan c_obj c_invalid c_clash c_dup c_badflags c_valid
                     set_ent set_sl set_free set_acount inc_scan inc_obj inc_invalid inc_clash inc_dup
                     inc_badflags inc_valid] in *.

Lemma upd_same : forall A (g : Z -> A) k v, upd g k v k = v.
Proof. intros. unfold upd. rewrite Z.eqb_refl. reflexivity. Qed.

Lemma upd_other : forall A (g : Z -> A) k v x, x <> k -> upd g k v x = g x.
Proof. intros. unfold upd. destruct (x =? k) eqn:E; [lia|reflexivity]. Qed.

(* --- footprints of the slot-level helpers: entries untouched, slices/mapped/finalized untouched --- *)
Definition quiet (s s' : st) : Prop :=
  ents s' = ents s /\ forall x, core_le (sls s x) (sls s' x).

Lemma quiet_refl : forall s, quiet s s.
Proof. intros; split; [reflexivity|intros; apply core_le_refl]. Qed.

Lemma quiet_trans : forall a b c, quiet a b -> quiet b c -> quiet a c.
Proof. intros a b c [E1 C1] [E2 C2]. split; [congruence|]. intros x. eapply core_le_trans; eauto. Qed.

Lemma push_free_quiet : forall i s s', push_free i s = Ok s' -> quiet s s'.
Proof. intros i s s' H. apply push_free_sls in H. destruct H as [A B]. split; [exact B|]. intros x. rewrite A. apply core_le_refl. Qed.

Lemma free_slot_quiet : forall N pos inv i s s', free_slot N pos inv i s = Ok s' -> quiet s s'.
Proof.
  intros N pos inv i s s' H. apply free_slot_sls in H. destruct H as (_&_&A&B). split; [exact B|].
  intros x. rewrite A. unfold upd. destruct (x =? i) eqn:E; [|apply core_le_refl].
  assert (x = i) by lia. subst x. unfold core_le; cbn; auto.
Qed.

Lemma free_unused_slot_quiet : forall N pos inv i s s', free_unused_slot N pos inv i s = Ok s' -> quiet s s'.
Proof.
  intros N pos inv i s s'. unfold free_unused_slot. destruct (negb (ls_ok N pos i)); [discriminate|].
  destruct (s_mapped (sls s i)); [discriminate|]. apply free_slot_quiet.
Qed.

Lemma bind_ok : forall r k s', bind r k = Ok s' -> exists s1, r = Ok s1 /\ k s1 = Ok s'.
Proof. intros [s| s | |] k s' H; cbn in H; try discriminate; eauto. Qed.

Lemma free_more_chain_quiet : forall N pos fuel i s s', free_more_chain N pos fuel i s = Ok s' -> quiet s s'.
Proof.
  induction fuel; intros i s s' H; cbn [free_more_chain] in H.
  - destruct (i <? 0); [|discriminate]. inversion H; subst. apply quiet_refl.
  - destruct (i <? 0); [inversion H; subst; apply quiet_refl|].
    destruct (negb (ls_ok N pos i)); [discriminate|].
    apply bind_ok in H. destruct H as [s1 [H1 H2]].
    eapply quiet_trans; [eapply free_slot_quiet; eauto|eapply IHfuel; eauto].
Qed.

Lemma ent_ok_corrupted : forall e, ent_ok (e_set_writing (rewind (e_set_state e LeCorrupted)) false).
Proof. intros. unfold ent_ok. cbn. auto. Qed.

(* freeBadEntry: entry f ends up Corrupted, unlocked, keyless; nothing else that matters changes *)
Lemma free_bad_entry_inv : forall N pos f s s',
  Inv N s -> e_state (ents s f) <> LeLoaded -> free_bad_entry N pos f s = Ok s' -> Inv N s'.
Proof.
  intros N pos f s s' I NL H. unfold free_bad_entry in H. st_simp. rewrite upd_same in H.
  cbn [a_writing e_set_state a_start e_size] in H.
  destruct (negb (a_writing (ents s f))); [discriminate|].
  match type of H with context [if negb ?c then Abort else _] => destruct (negb c) end; [discriminate|].
  apply bind_ok in H. destruct H as [s1 [H1 H2]].
  apply free_more_chain_quiet in H1. destruct H1 as [E1 C1]. st_simp.
  unfold forget_writing in H2. destruct (negb (a_writing (ents s1 f))); [discriminate|].
  inversion H2; subst s'; clear H2.
  apply (Inv_keep N s _ f I); st_simp.
  - intros g Hg. rewrite upd_other by assumption. rewrite E1. rewrite upd_other by assumption. reflexivity.
  - exact C1.
  - rewrite upd_same. rewrite E1. rewrite upd_same. apply ent_ok_corrupted.
  - rewrite upd_same. rewrite E1. rewrite upd_same. cbn. discriminate.
Qed.

Lemma Inv_quiet : forall N s s', Inv N s -> quiet s s' -> Inv N s'.
Proof.
  intros N s s' I [E C].
  apply (Inv_step N s s' 0 (fun _ => False)); auto.
  - intros; rewrite E; reflexivity.
  - rewrite E. apply (iv_ent N s I).
  - intros L. assert (L0 : loaded s 0) by (unfold loaded in *; rewrite <- E; exact L).
    destruct (iv_chain N s I 0 L0) as [l G]. exists l. split.
    + eapply good_chain_frame; [rewrite E; reflexivity| |exact G]. intros; apply C.
    + intros g l2 x Hg Lg G2 X1 X2. eapply (iv_disj N s I 0 g); eauto.
Qed.

(* the slots visited from i through the slice links up to (not including) j *)
Fixpoint path (s : st) (i : Z) (l : list Z) (j : Z) : Prop :=
  match l with
  | [] => i = j
  | x :: r => i = x /\ 0 <= x /\ path s (s_next (sls s x)) r j
  end.

Lemma path_chain : forall s l i j, path s i l j -> j < 0 -> chain_of s i l.
Proof. induction l as [|x r IH]; intros i j H Hj; cbn in *; [lia|]. destruct H as (A&B&C). eauto. Qed.

Lemma path_frame : forall s s' l i j,
  (forall x, In x l -> s_next (sls s' x) = s_next (sls s x)) -> path s i l j -> path s' i l j.
Proof.
  induction l as [|x r IH]; intros i j Hn H; cbn in *; [assumption|].
  destruct H as (E & P & C). repeat split; try assumption.
  rewrite (Hn x) by auto. apply IH; auto.
Qed.

Definition walk_post (N : Z) (s : st) (i msz : Z) (s' : st) (j m : Z) : Prop :=
  exists l, path s i l j /\ NoDup l /\
    (forall x, In x l -> 0 <= x < N /\ s_final (sls s x) = false /\ s_mapped (sls s x) = true /\ 0 < s_size (sls s x)) /\
    m = msz + sumsz s l /\ ents s' = ents s /\
    (forall x, In x l -> sls s' x = s_set_final (sls s x) true) /\
    (forall x, ~ In x l -> sls s' x = sls s x).

Lemma fin_walk_spec : forall N pos f lesz fuel i msz s,
  match fin_walk N pos f lesz fuel i msz s with
  | WOk s' j m => walk_post N s i msz s' j m
  | WThrown s' => quiet s s'
  | _ => True
  end.
Proof.
  induction fuel; intros i msz s; cbn [fin_walk].
  - destruct ((0 <=? i) && (msz <? lesz)); [exact I|].
    exists []. cbn. repeat split; auto; try lia. constructor.
  - destruct ((0 <=? i) && (msz <? lesz)) eqn:G.
    2:{ exists []. cbn. repeat split; auto; try lia. constructor. }
    destruct (ls_ok N pos i) eqn:L; cbn [negb]; [|apply quiet_refl].
    destruct (s_final (sls s i)) eqn:F; [apply quiet_refl|].
    destruct (s_mapped (sls s i)) eqn:M; cbn [negb]; [|apply quiet_refl].
    destruct (s_freed (sls s i)) eqn:Fr; [apply quiet_refl|].
    set (s1 := set_sl s i (s_set_final (sls s i) true)).
    assert (Q1 : quiet s s1).
    { split; [reflexivity|]. intros x. subst s1. st_simp. unfold upd. destruct (x =? i) eqn:E; [|apply core_le_refl].
      assert (x = i) by lia. subst x. unfold core_le; cbn; auto. }
    destruct (negb (a_writing (ents s1 f))); [exact I|].
    destruct (0 <? s_size (sls s i)) eqn:Sz; cbn [negb]; [|exact Q1].
    specialize (IHfuel (s_next (sls s i)) (msz + s_size (sls s i)) s1).
    destruct (fin_walk N pos f lesz fuel (s_next (sls s i)) (msz + s_size (sls s i)) s1) as [s' j m|s'| |]; auto.
    + destruct IHfuel as (l & P & ND & Mem & Sum & En & In1 & Out1).
      assert (NI : ~ In i l).
      { intros Hi. destruct (Mem i Hi) as (_&Fi&_). subst s1. st_simp. rewrite upd_same in Fi. cbn in Fi. discriminate. }
      assert (Same : forall x, In x l -> sls s1 x = sls s x).
      { intros x Hx. subst s1. st_simp. apply upd_other. intros ->. contradiction. }
      exists (i :: l). unfold ls_ok in L.
      split. { cbn [path]. split; [reflexivity|]. split; [lia|].
               eapply path_frame; [|exact P]. intros x Hx. rewrite Same by assumption. reflexivity. }
      split. { constructor; assumption. }
      split. { intros x [<-|Hx]; [repeat split; try assumption; lia|].
               rewrite <- (Same x Hx). apply Mem; assumption. }
      split. { cbn [sumsz]. rewrite Sum. rewrite (sumsz_frame s s1 l); [lia|].
               intros x Hx. rewrite Same by assumption. reflexivity. }
      split. { rewrite En. reflexivity. }
      split. { intros x [<-|Hx].
               - rewrite Out1 by assumption. subst s1. st_simp. apply upd_same.
               - rewrite In1 by assumption. rewrite Same by assumption. reflexivity. }
      intros x Hx. rewrite Out1 by (intros Hc; apply Hx; right; exact Hc).
      subst s1. st_simp. apply upd_other. intros ->. apply Hx. left; reflexivity.
    + eapply quiet_trans; eauto.
Qed.

Lemma walk_post_quiet : forall N s i msz s' j m, walk_post N s i msz s' j m -> quiet s s'.
Proof.
  intros N s i msz s' j m (l & P & ND & Mem & Sum & En & In1 & Out1). split; [exact En|].
  intros x. destruct (in_dec Z.eq_dec x l) as [Hx|Hx].
  - rewrite In1 by assumption. unfold core_le; cbn; auto.
  - rewrite Out1 by assumption. apply core_le_refl.
Qed.

(* finalizeOrThrow: success makes f a loaded entry with a sound chain that no other loaded entry uses;
   an exception leaves everything that matters as it was *)
Lemma finalize_or_throw_inv : forall N pos f s,
  Inv N s ->
  match finalize_or_throw N pos f s with
  | Ok s' => Inv N s'
  | Thrown s' => quiet s s'
  | _ => True
  end.
Proof.
  intros N pos f s I. unfold finalize_or_throw.
  destruct (a_writing (ents s f)) eqn:W; cbn [negb]; [|exact Logic.I].
  destruct (negb (0 <? e_size (ents s f))); [apply quiet_refl|].
  destruct (e_anch (ents s f)) eqn:An; cbn [negb]; [|apply quiet_refl].
  pose proof (fin_walk_spec N pos f (e_size (ents s f)) (fuel_of N) (a_start (ents s f)) 0 s) as WS.
  destruct (fin_walk N pos f (e_size (ents s f)) (fuel_of N) (a_start (ents s f)) 0 s) as [s1 j m|s1| |]; auto.
  pose proof (walk_post_quiet _ _ _ _ _ _ _ WS) as Q.
  destruct (j <? 0) eqn:J; cbn [negb]; [|exact Q].
  destruct (m =? e_size (ents s f)) eqn:Mq; cbn [negb]; [|exact Q].
  destruct WS as (l & P & ND & Mem & Sum & En & In1 & Out1).
  rewrite En.
  destruct ((a_swapsz (ents s f) =? 0) || (a_swapsz (ents s f) =? e_size (ents s f))) eqn:Szq; cbn [negb]; [|exact Q].
  match goal with |- context [negb (a_writing ?e)] => destruct (negb (a_writing e)) end; [exact Logic.I|].
  destruct Q as [_ C].
  match goal with |- Inv N (inc_obj (set_ent s1 f ?e)) => set (e' := e) end.
  assert (St : e_state e' = LeLoaded) by (subst e'; destruct (a_swapsz (ents s f) =? 0); reflexivity).
  assert (Wr : a_writing e' = false) by (subst e'; destruct (a_swapsz (ents s f) =? 0); reflexivity).
  assert (Sz : e_size e' = e_size (ents s f)) by (subst e'; destruct (a_swapsz (ents s f) =? 0); reflexivity).
  assert (Sa : a_start e' = a_start (ents s f)) by (subst e'; destruct (a_swapsz (ents s f) =? 0); reflexivity).
  assert (Ea : e_anch e' = true) by (subst e'; destruct (a_swapsz (ents s f) =? 0); cbn; exact An).
  assert (Sw : a_swapsz e' = e_size (ents s f)).
  { subst e'. destruct (a_swapsz (ents s f) =? 0) eqn:Z0; cbn; [reflexivity|]. cbn in Szq. lia. }
  apply (Inv_step N s _ f (fun _ => False)); st_simp; auto.
  - intros g Hg. rewrite upd_other by assumption. rewrite En. reflexivity.
  - rewrite upd_same. unfold ent_ok. rewrite St. rewrite Sw, Sz. auto.
  - intros _. exists l. split.
    + unfold good_chain. st_simp. rewrite upd_same. rewrite Sa, Sz. split; [|split; [exact ND|split]].
      * eapply chain_of_frame; [|eapply path_chain; [exact P|lia]].
        intros x Hx. st_simp. rewrite In1 by assumption. reflexivity.
      * intros x Hx. destruct (Mem x Hx) as (R&Fi&Ma&Si). unfold member_ok. st_simp. rewrite In1 by assumption. cbn. auto.
      * rewrite (sumsz_frame s _ l); [lia|]. intros x Hx. st_simp. rewrite In1 by assumption. reflexivity.
    + intros g l2 x Hg Lg G2 X1 X2. destruct (Mem x X1) as (_&Fi&_).
      destruct G2 as (_&_&M2&_). destruct (M2 x X2) as (_&_&Fi2&_). congruence.
Qed.

Lemma finalize_or_free_inv : forall N pos f s s',
  Inv N s -> e_state (ents s f) <> LeLoaded -> finalize_or_free N pos f s = Ok s' -> Inv N s'.
Proof.
  intros N pos f s s' I NL H. unfold finalize_or_free in H.
  pose proof (finalize_or_throw_inv N pos f s I) as F.
  destruct (finalize_or_throw N pos f s) as [s1|s1| |]; try discriminate.
  - inversion H; subst; exact F.
  - eapply free_bad_entry_inv; [eapply Inv_quiet; eauto| |exact H].
    destruct F as [E _]. rewrite E. exact NL.
Qed.

(* slots that are not mapped belong to no loaded chain and may change freely *)
Lemma Inv_slots : forall N s s', Inv N s -> ents s' = ents s ->
  (forall x, s_mapped (sls s x) = false \/ core_le (sls s x) (sls s' x)) -> Inv N s'.
Proof.
  intros N s s' I E C.
  apply (Inv_step N s s' 0 (fun x => s_mapped (sls s x) = false)); auto.
  - intros; rewrite E; reflexivity.
  - intros g l x Hg Lg (_&_&M&_) Hx Hm. destruct (M x Hx) as (_&Mx&_). congruence.
  - rewrite E. apply (iv_ent N s I).
  - intros L. assert (L0 : loaded s 0) by (unfold loaded in *; rewrite <- E; exact L).
    destruct (iv_chain N s I 0 L0) as [l G]. exists l. split.
    + eapply good_chain_frame; [rewrite E; reflexivity| |exact G].
      intros x Hx. destruct (C x) as [Mf|Cx]; [|exact Cx].
      destruct G as (_&_&M&_). destruct (M x Hx) as (_&Mx&_). congruence.
    + intros g l2 x Hg Lg G2 X1 X2. eapply (iv_disj N s I 0 g); eauto.
Qed.

Lemma map_slot_inv : forall N pos i h s s', Inv N s -> map_slot N pos i h s = Ok s' ->
  Inv N s' /\ ents s' = ents s.
Proof.
  intros N pos i h s s' I H. unfold map_slot in H.
  destruct (negb (ls_ok N pos i)); [discriminate|].
  destruct (s_mapped (sls s i)) eqn:M; [discriminate|].
  destruct (s_freed (sls s i)); [discriminate|]. inversion H; subst s'; clear H.
  split; [|reflexivity]. apply (Inv_slots N s); [exact I|reflexivity|].
  intros x. st_simp. unfold upd. destruct (x =? i) eqn:E; [left; assert (x = i) by lia; subst; exact M|right; apply core_le_refl].
Qed.

(* "f is being loaded, and compared with s only entry f and bookkeeping fields of slots differ" *)
Definition tw (f : Z) (s s' : st) : Prop :=
  (forall x, core_le (sls s x) (sls s' x)) /\ (forall g, g <> f -> ents s' g = ents s g) /\
  e_state (ents s' f) = LeLoading /\ a_writing (ents s' f) = true.

Lemma Inv_tw : forall N f s s', Inv N s -> tw f s s' -> Inv N s'.
Proof.
  intros N f s s' I (C&E&St&W). apply (Inv_keep N s s' f); auto.
  - unfold ent_ok. rewrite St. exact W.
  - rewrite St. discriminate.
Qed.

Lemma tw_set_ent : forall f s s' e, tw f s s' -> e_state e = LeLoading -> a_writing e = true -> tw f s (set_ent s' f e).
Proof.
  intros f s s' e (C&E&St&W) Se We. unfold tw. st_simp. rewrite upd_same.
  split; [exact C|]. split; [|split; assumption].
  intros g Hg. rewrite upd_other by assumption. auto.
Qed.

Lemma tw_set_more : forall f s s' i v, tw f s s' -> tw f s (set_sl s' i (s_set_more (sls s' i) v)).
Proof.
  intros f s s' i v (C&E&St&W). unfold tw. st_simp.
  split; [|split; [exact E|split; assumption]].
  intros x. unfold upd. destruct (x =? i) eqn:Q; [|apply C].
  assert (x = i) by lia. subst x. eapply core_le_trans; [apply C|]. unfold core_le; cbn; auto.
Qed.

Lemma import_ok_state : forall h m e e5, import_entry h m e = ImpOk e5 ->
  e_state e5 = e_state e /\ a_writing e5 = a_writing e.
Proof.
  intros h m e e5 H. unfold import_entry in H. destruct m as [| |hk mk0 mk1 ssz pr hl]; try discriminate.
  destruct (negb hk); [discriminate|].
  match type of H with context [match ?o with Some _ => _ | None => _ end] => destruct o end; [|discriminate].
  destruct pr; [discriminate|].
  match type of H with context [if ?c then ImpFail false else _] => destruct c end; [discriminate|].
  inversion H; subst. cbn. auto.
Qed.

Lemma add_tail_inv : forall N pos f i h s s',
  Inv N s -> e_state (ents s f) = LeLoading -> add_tail N pos f i h s = Ok s' -> Inv N s'.
Proof.
  intros N pos f i h s s' I L H. unfold add_tail in H.
  match type of H with context [if ?c then free_bad_entry _ _ _ _ else _] => destruct c end.
  - eapply free_bad_entry_inv; [exact I| |exact H]. rewrite L; discriminate.
  - apply bind_ok in H. destruct H as [s1 [H1 H2]].
    apply map_slot_inv in H1; [|exact I]. destruct H1 as [I1 E1].
    match type of H2 with context [if ?c then _ else _] => destruct c end.
    + eapply finalize_or_free_inv; [exact I1| |exact H2]. rewrite E1, L. discriminate.
    + inversion H2; subst; exact I1.
Qed.

Lemma add_slot_to_entry_inv : forall N pos f i h m s s',
  Inv N s -> e_state (ents s f) = LeLoading -> add_slot_to_entry N pos f i h m s = Ok s' -> Inv N s'.
Proof.
  intros N pos f i h m s s' I L H. unfold add_slot_to_entry in H.
  destruct (a_writing (ents s f)) eqn:W; cbn [negb] in H; [|discriminate].
  assert (T0 : tw f s s). { split; [intros; apply core_le_refl|]. split; [reflexivity|split; assumption]. }
  apply bind_ok in H. destruct H as [s2 [Hc H]].
  assert (T2 : tw f s s2).
  { destruct (e_anch (ents s f)).
    - destruct (negb (ls_ok N pos (a_start (ents s f)))); [discriminate|].
      destruct (negb (ls_ok N pos i)); [discriminate|].
      destruct (negb (s_more (sls s i) <? 0)); [discriminate|]. inversion Hc; subst s2; clear Hc.
      apply tw_set_more. apply tw_set_more. exact T0.
    - destruct (negb (ls_ok N pos i)); [discriminate|].
      destruct (negb (s_more (sls s i) <? 0)); [discriminate|]. inversion Hc; subst s2; clear Hc.
      pose proof (tw_set_more f s s i (a_start (ents s f)) T0) as T1.
      apply tw_set_ent; [exact T1| |]; st_simp; cbn; assumption. }
  clear Hc. cbv zeta in H.
  destruct T2 as (C2&E2&S2&W2).
  assert (T3 : tw f s (set_ent s2 f (e_set_size (ents s2 f) (e_size (ents s2 f) + h_psz h)))).
  { apply tw_set_ent; [split; [exact C2|split; [exact E2|split; assumption]]|cbn; assumption|cbn; assumption]. }
  set (s3 := set_ent s2 f (e_set_size (ents s2 f) (e_size (ents s2 f) + h_psz h))) in *.
  assert (L3 : e_state (ents s3 f) = LeLoading) by (destruct T3 as (_&_&X&_); exact X).
  destruct (h_first h =? i).
  - destruct (e_anch (ents s3 f)).
    + apply bind_ok in H. destruct H as [s4 [H4 H5]]. inversion H5; subst s'; clear H5.
      apply (Inv_quiet N s4); [|split; [reflexivity|intros; apply core_le_refl]].
      eapply free_bad_entry_inv; [eapply Inv_tw; [exact I|exact T3]| |exact H4]. rewrite L3; discriminate.
    + assert (T4 : tw f s (set_ent s3 f (e_set_anch (ents s3 f) true))).
      { destruct T3 as (A&B&C&D). apply tw_set_ent; [split; [exact A|split; [exact B|split; assumption]]|cbn; assumption|cbn; assumption]. }
      set (s4 := set_ent s3 f (e_set_anch (ents s3 f) true)) in *.
      destruct (import_entry h m (ents s4 f)) as [bf|e5] eqn:Imp.
      * eapply free_bad_entry_inv; [| |exact H].
        -- destruct bf; [|eapply Inv_tw; eauto].
           apply (Inv_quiet N s4); [eapply Inv_tw; [exact I|exact T4]|split; [reflexivity|intros; apply core_le_refl]].
        -- destruct T4 as (_&_&X&_). destruct bf; st_simp; rewrite X; discriminate.
      * apply import_ok_state in Imp. destruct Imp as [Se We].
        destruct T4 as (A4&B4&C4&D4).
        assert (T5 : tw f s (set_ent s4 f e5)).
        { apply tw_set_ent; [split; [exact A4|split; [exact B4|split; assumption]]|congruence|congruence]. }
        assert (T6 : tw f s (set_ent (set_ent s4 f e5) f (e_set_swapsz e5 (h_esz h)))).
        { apply tw_set_ent; [exact T5|cbn; congruence|cbn; congruence]. }
        assert (L5 : e_state (ents (set_ent s4 f e5) f) = LeLoading) by (destruct T5 as (_&_&X&_); exact X).
        assert (L6 : e_state (ents (set_ent (set_ent s4 f e5) f (e_set_swapsz e5 (h_esz h))) f) = LeLoading)
          by (destruct T6 as (_&_&X&_); exact X).
        destruct (negb (h_esz h =? 0)).
        -- destruct (h_esz h =? rr_entry_size_max).
           { eapply free_bad_entry_inv; [eapply Inv_tw; [exact I|exact T5]| |exact H]. rewrite L5; discriminate. }
           destruct (a_swapsz e5 =? 0).
           ++ eapply add_tail_inv; [eapply Inv_tw; [exact I|exact T6]|exact L6|exact H].
           ++ destruct (negb (h_esz h =? a_swapsz e5)).
              ** eapply free_bad_entry_inv; [eapply Inv_tw; [exact I|exact T5]| |exact H]. rewrite L5; discriminate.
              ** eapply add_tail_inv; [eapply Inv_tw; [exact I|exact T5]|exact L5|exact H].
        -- eapply add_tail_inv; [eapply Inv_tw; [exact I|exact T5]|exact L5|exact H].
  - eapply add_tail_inv; [eapply Inv_tw; [exact I|exact T3]|exact L3|exact H].
Qed.

(* freeChainAt over a duplicate-free chain touches the slots of that chain only *)
Lemma free_chain_at_spec : forall N fuel l i s s',
  chain_of s i l -> NoDup l -> free_chain_at N fuel i s = Ok s' ->
  ents s' = ents s /\ forall x, ~ In x l -> sls s' x = sls s x.
Proof.
  induction fuel; intros l i s s' C ND H; cbn [free_chain_at] in H.
  - destruct (i <? 0); [|discriminate]. inversion H; subst. auto.
  - destruct (i <? 0) eqn:I0; [inversion H; subst; auto|].
    destruct l as [|x r]; cbn in C; [lia|]. destruct C as (E & P & C). subst x.
    destruct (negb ((0 <=? i) && (i <? N))); [discriminate|].
    apply bind_ok in H. destruct H as [s1 [H1 H2]].
    apply push_free_sls in H1. destruct H1 as [S1 E1]. st_simp.
    inversion ND as [|? ? NI ND']; subst.
    assert (C1 : chain_of s1 (s_next (sls s i)) r).
    { eapply chain_of_frame; [|exact C]. intros y Hy. rewrite S1. rewrite upd_other; [reflexivity|].
      intros ->. contradiction. }
    destruct (IHfuel r _ s1 s' C1 ND' H2) as [E2 O2]. split; [congruence|].
    intros y Hy. rewrite O2 by (intros Hc; apply Hy; right; exact Hc).
    rewrite S1. apply upd_other. intros ->. apply Hy. left; reflexivity.
Qed.

(* a further cell for an already loaded entry: the entry is dropped from the index *)
Lemma loaded_dup_inv : forall N f s s',
  Inv N s -> e_state (ents s f) = LeLoaded ->
  free_entry N f (set_ent s f (e_set_state (ents s f) LeCorrupted)) = Ok s' -> Inv N s'.
Proof.
  intros N f s s' I L H.
  pose proof (iv_ent N s I f) as Ef. unfold ent_ok in Ef. rewrite L in Ef. destruct Ef as [Ef _].
  destruct (iv_chain N s I f L) as [l G].
  unfold free_entry in H. st_simp. rewrite upd_same in H. cbn [a_writing e_set_state] in H. rewrite Ef in H.
  unfold free_chain in H. st_simp. rewrite upd_same in H.
  apply bind_ok in H. destruct H as [s1 [H1 H2]]. inversion H2; subst s'; clear H2.
  set (s0 := set_ent (set_ent s f (e_set_state (ents s f) LeCorrupted)) f
                 (e_set_writing (e_set_state (ents s f) LeCorrupted) true)) in *.
  assert (F1 : ents s1 = ents s0 /\ forall x, ~ In x l -> sls s1 x = sls s x).
  { destruct (a_empty (e_set_writing (e_set_state (ents s f) LeCorrupted) true)).
    - inversion H1; subst s1. split; [reflexivity|]. intros; reflexivity.
    - destruct G as (C&ND&_&_).
      assert (C0 : chain_of s0 (a_start (e_set_writing (e_set_state (ents s f) LeCorrupted) true)) l).
      { eapply chain_of_frame; [|exact C]. intros; reflexivity. }
      destruct (free_chain_at_spec N _ l _ s0 s1 C0 ND H1) as [A B]. split; [exact A|exact B]. }
  destruct F1 as [E1 O1].
  apply (Inv_step N s _ f (fun x => In x l)); st_simp; auto.
  - intros g Hg. rewrite upd_other by assumption. rewrite E1. subst s0. st_simp.
    rewrite upd_other by assumption. rewrite upd_other by assumption. reflexivity.
  - intros x. destruct (in_dec Z.eq_dec x l) as [Hx|Hx]; [left; exact Hx|right].
    rewrite O1 by assumption. apply core_le_refl.
  - intros g l2 x Hg Lg G2 X2 X1. eapply (iv_disj N s I f g); eauto.
  - rewrite upd_same. rewrite E1. subst s0. st_simp. rewrite upd_same. unfold ent_ok. cbn. auto.
  - unfold loaded. st_simp. rewrite upd_same. rewrite E1. subst s0. st_simp. rewrite upd_same. cbn. discriminate.
Qed.

Lemma start_new_entry_inv : forall N pos f i h m s s',
  Inv N s -> e_state (ents s f) = LeEmpty -> start_new_entry N pos f i h m s = Ok s' -> Inv N s'.
Proof.
  intros N pos f i h m s s' I L H.
  pose proof (iv_ent N s I f) as Ef. unfold ent_ok in Ef. rewrite L in Ef.
  unfold start_new_entry in H. rewrite Ef in H. cbn [a_writing a_wtbf a_empty entry0 a_k0 a_k1 negb andb orb Z.eqb] in H.
  cbv zeta in H. apply bind_ok in H. destruct H as [s1 [H1 H]]. inversion H1; subst s1; clear H1.
  st_simp. rewrite upd_same in H. cbn [a_empty e_set_writing a_k0 a_k1 entry0 Z.eqb andb negb] in H.
  match type of H with context [if ?c then Abort else _] => destruct c end; [discriminate|].
  apply bind_ok in H. destruct H as [s3 [H3 H4]].
  match type of H4 with context [if ?c then Abort else _] => destruct c end; [discriminate|]. inversion H4; subst s'; clear H4.
  eapply add_slot_to_entry_inv; [| |exact H3].
  - apply (Inv_keep N s _ f I); st_simp.
    + intros g Hg. repeat rewrite upd_other by assumption. reflexivity.
    + intros; apply core_le_refl.
    + repeat rewrite upd_same. unfold ent_ok. cbn. reflexivity.
    + repeat rewrite upd_same. cbn. discriminate.
  - st_simp. repeat rewrite upd_same. reflexivity.
Qed.

Lemma quiet_inc : forall s s', ents s' = ents s -> sls s' = sls s -> quiet s s'.
Proof. intros s s' E S. split; [exact E|]. intros x; rewrite S; apply core_le_refl. Qed.

Lemma use_new_slot_inv : forall N pos i h m s s',
  Inv N s -> use_new_slot N pos i h m s = Ok s' -> Inv N s'.
Proof.
  intros N pos i h m s s' I H. unfold use_new_slot in H. cbv zeta in H.
  match type of H with context [if negb ?c then Abort else _] => destruct (negb c) end; [discriminate|].
  set (f := fileno_of N (h_k0 h) (h_k1 h)) in *.
  destruct (e_state (ents s f)) eqn:St.
  - eapply start_new_entry_inv; eauto.
  - destruct (negb (a_writing (ents s f))); [discriminate|].
    match type of H with context [if ?c then add_slot_to_entry _ _ _ _ _ _ _ else _] => destruct c end.
    + eapply add_slot_to_entry_inv; eauto.
    + apply bind_ok in H. destruct H as [s1 [H1 H]]. apply bind_ok in H. destruct H as [s2 [H2 H3]].
      inversion H3; subst s'; clear H3.
      apply (Inv_quiet N s2); [|apply quiet_inc; reflexivity].
      apply (Inv_quiet N s1); [|eapply free_unused_slot_quiet; eauto].
      eapply free_bad_entry_inv; [exact I| |exact H1]. rewrite St; discriminate.
  - apply bind_ok in H. destruct H as [s1 [H1 H]]. apply bind_ok in H. destruct H as [s2 [H2 H3]].
    inversion H3; subst s'; clear H3.
    apply (Inv_quiet N s2); [|apply quiet_inc; reflexivity].
    apply (Inv_quiet N s1); [|eapply free_unused_slot_quiet; eauto].
    eapply loaded_dup_inv; eauto.
  - eapply Inv_quiet; [exact I|eapply free_unused_slot_quiet; eauto].
  - eapply Inv_quiet; [exact I|eapply free_unused_slot_quiet; eauto].
Qed.

Lemma load_one_slot_inv : forall ssz N pos d s s',
  Inv N s -> load_one_slot ssz N pos d s = Ok s' -> Inv N s'.
Proof.
  intros ssz N pos d s s' I H. unfold load_one_slot in H. cbv zeta in H.
  assert (I1 : Inv N (inc_scan s)) by (eapply Inv_quiet; [exact I|apply quiet_inc; reflexivity]).
  destruct d as [|h m].
  - eapply Inv_quiet; [exact I1|eapply free_unused_slot_quiet; eauto].
  - destruct (hdr_empty h); [eapply Inv_quiet; [exact I1|eapply free_unused_slot_quiet; eauto]|].
    destruct (negb (hdr_sane ssz N h)); [eapply Inv_quiet; [exact I1|eapply free_unused_slot_quiet; eauto]|].
    eapply use_new_slot_inv; eauto.
Qed.

Lemma load_all_inv : forall ssz N img pos s s', Inv N s -> load_all ssz N pos img s = Ok s' -> Inv N s'.
Proof.
  induction img as [|d r IH]; intros pos s s' I H; cbn [load_all] in H.
  - inversion H; subst; exact I.
  - apply bind_ok in H. destruct H as [s1 [H1 H2]]. eapply IH; [|exact H2]. eapply load_one_slot_inv; eauto.
Qed.

Lemma for_range_inv : forall N step, (forall k s s', Inv N s -> step k s = Ok s' -> Inv N s') ->
  forall n k s s', Inv N s -> for_range n k step s = Ok s' -> Inv N s'.
Proof.
  intros N step Hs. induction n; intros k s s' I H; cbn [for_range] in H.
  - inversion H; subst; exact I.
  - apply bind_ok in H. destruct H as [s1 [H1 H2]]. eapply IHn; [|exact H2]. eapply Hs; eauto.
Qed.

Lemma validate_one_entry_inv : forall N f s s', Inv N s -> validate_one_entry N f s = Ok s' -> Inv N s'.
Proof.
  intros N f s s' I H. unfold validate_one_entry in H. cbv zeta in H.
  assert (I1 : Inv N (inc_valid s)) by (eapply Inv_quiet; [exact I|apply quiet_inc; reflexivity]).
  destruct (e_state (ents (inc_valid s) f)) eqn:St; try (inversion H; subst; exact I1).
  eapply finalize_or_free_inv; [exact I1| |exact H]. rewrite St; discriminate.
Qed.

Lemma validate_one_slot_inv : forall N i s s', Inv N s -> validate_one_slot N i s = Ok s' -> Inv N s'.
Proof.
  intros N i s s' I H. unfold validate_one_slot in H. cbv zeta in H.
  destruct (negb (ls_ok N N i)); [discriminate|].
  match type of H with context [if ?c then Ok _ else _] => destruct c end; [|discriminate].
  inversion H; subst. eapply Inv_quiet; [exact I|apply quiet_inc; reflexivity].
Qed.

Lemma Inv_st0 : forall N, Inv N st0.
Proof.
  intros N. constructor.
  - intros f. unfold ent_ok. cbn. reflexivity.
  - intros f L. unfold loaded in L. cbn in L. discriminate.
  - intros f g l1 l2 x _ L. unfold loaded in L. cbn in L. discriminate.
Qed.

Lemma rebuild_inv : forall ssz dbl img s, rebuild ssz dbl img = Ok s -> Inv (Z.of_nat (length img)) s.
Proof.
  intros ssz dbl img s H. unfold rebuild in H. cbv zeta in H.
  apply bind_ok in H. destruct H as [s1 [H1 H]]. apply bind_ok in H. destruct H as [s2 [H2 H3]].
  assert (I1 : Inv (Z.of_nat (length img)) s1) by (eapply load_all_inv; [apply Inv_st0|exact H1]).
  assert (I2 : Inv (Z.of_nat (length img)) s2).
  { eapply for_range_inv; [|exact I1|exact H2]. intros; eapply validate_one_entry_inv; eauto. }
  destruct dbl; [|inversion H3; subst; exact I2].
  eapply for_range_inv; [|exact I2|exact H3]. intros; eapply validate_one_slot_inv; eauto.
Qed.

Lemma readable_loaded : forall e, ent_ok e -> readable e = true -> e_state e = LeLoaded.
Proof.
  intros e Ok R. unfold readable in R. unfold ent_ok in Ok.
  destruct (e_state e); try reflexivity.
  - subst e. cbn in R. discriminate.
  - rewrite Ok in R. cbn in R. discriminate.
  - destruct Ok as [_ Em]. rewrite Em in R. cbn in R. rewrite andb_false_r in R. discriminate.
  - contradiction.
Qed.

(* MAIN: whatever the image, every entry the finished rebuild leaves readable has a chain (the slots reached
   from its first slot through the index's links) that ends, visits no slot twice, consists of loaded
   (mapped, finalized) slots of the db with positive payload sizes adding up to the bytes recorded for the
   entry, and shares no slot with the chain of any other readable entry. *)
Theorem readable_chains_sound : forall slotSize dbl img s,
  rebuild slotSize dbl img = Ok s ->
  (forall f, readable (ents s f) = true ->
     exists l, chain_of s (a_start (ents s f)) l /\ NoDup l /\
       (forall x, In x l -> 0 <= x < Z.of_nat (length img) /\ s_mapped (sls s x) = true /\
                             s_final (sls s x) = true /\ 0 < s_size (sls s x)) /\
       sumsz s l = e_size (ents s f)) /\
  (forall f g l1 l2 x, f <> g -> readable (ents s f) = true -> readable (ents s g) = true ->
     chain_of s (a_start (ents s f)) l1 -> chain_of s (a_start (ents s g)) l2 -> In x l1 -> In x l2 -> False).
Proof.
  intros ssz dbl img s H. apply rebuild_inv in H. split.
  - intros f R. apply readable_loaded in R; [|apply (iv_ent _ s H)].
    destruct (iv_chain _ s H f R) as [l (C&ND&M&S)]. exists l. auto.
  - intros f g l1 l2 x Hne Rf Rg C1 C2 X1 X2.
    apply readable_loaded in Rf; [|apply (iv_ent _ s H)]. apply readable_loaded in Rg; [|apply (iv_ent _ s H)].
    destruct (iv_chain _ s H f Rf) as [k1 G1]. destruct (iv_chain _ s H g Rg) as [k2 G2].
    assert (l1 = k1) by (destruct G1 as (C&_); eapply chain_of_det; eauto).
    assert (l2 = k2) by (destruct G2 as (C&_); eapply chain_of_det; eauto). subst.
    eapply (iv_disj _ s H f g); eauto.
Qed.

(* ---- the clauses of C57 separately ---- *)
Lemma readable_chain_acyclic_loaded : forall slotSize dbl img s f,
  rebuild slotSize dbl img = Ok s -> readable (ents s f) = true ->
  exists l, chain_of s (a_start (ents s f)) l /\ NoDup l /\
    forall x, In x l -> 0 <= x < Z.of_nat (length img) /\ s_mapped (sls s x) = true /\
                        s_final (sls s x) = true /\ 0 < s_size (sls s x).
Proof.
  intros ssz dbl img s f H R. destruct (readable_chains_sound ssz dbl img s H) as [A _].
  destruct (A f R) as [l (C&ND&M&_)]. exists l. auto.
Qed.

Lemma readable_chains_disjoint : forall slotSize dbl img s f g l1 l2 x,
  rebuild slotSize dbl img = Ok s -> f <> g ->
  readable (ents s f) = true -> readable (ents s g) = true ->
  chain_of s (a_start (ents s f)) l1 -> chain_of s (a_start (ents s g)) l2 -> In x l1 -> In x l2 -> False.
Proof.
  intros ssz dbl img s f g l1 l2 x H. destruct (readable_chains_sound ssz dbl img s H) as [_ B].
  intros; eapply B; eauto.
Qed.

Lemma readable_chain_sizes_partial : forall slotSize dbl img s f l,
  rebuild slotSize dbl img = Ok s -> readable (ents s f) = true ->
  chain_of s (a_start (ents s f)) l -> sumsz s l = e_size (ents s f).
Proof.
  intros ssz dbl img s f l H R C. destruct (readable_chains_sound ssz dbl img s H) as [A _].
  destruct (A f R) as [l0 (C0&_&_&S)]. assert (l = l0) by (eapply chain_of_det; eauto). subst. exact S.
Qed.

(* no entry is left locked for writing, whatever the image *)
Lemma nothing_left_locked : forall slotSize dbl img s f,
  rebuild slotSize dbl img = Ok s -> e_state (ents s f) <> LeLoading ->  a_writing (ents s f) = false.
Proof.
  intros ssz dbl img s f H NL. apply rebuild_inv in H. pose proof (iv_ent _ s H f) as E. unfold ent_ok in E.
  destruct (e_state (ents s f)); try tauto.
  rewrite E. reflexivity.
Qed.

(* an intact single-cell entry in an otherwise empty db of seven slots is indexed (hypotheses are satisfiable) *)
Lemma plain_entry_example :
  holds_after 131072 false
    [dE; dE; dE; DHdr (mkHdr 5 7 200 200 1 3 (-1)) (MOk true 5 7 0 false 75); dE; dE; dE] (fun s =>
    readable (ents s 5) = true /\ chain_of s (a_start (ents s 5)) [3] /\ sumsz s [3] = 200 /\
    a_swapsz (ents s 5) = 200).
Proof.
  unfold holds_after. set (r := rebuild _ _ _). vm_compute in r. subst r. cbv beta iota.
  repeat split; cbn; lia.
Qed.

(* two intact two-cell entries: both indexed, chains disjoint *)
Lemma two_entries_example :
  holds_after 131072 false
    [DHdr (mkHdr 1 0 300 100 1 0 2) (MOk true 1 0 0 false 75);
     DHdr (mkHdr 2 0 0 50 4 1 3) (MOk true 2 0 0 false 75);
     DHdr (mkHdr 1 0 0 200 1 0 (-1)) MBad;
     DHdr (mkHdr 2 0 0 60 4 1 (-1)) MBad; dE; dE; dE] (fun s =>
    readable (ents s 1) = true /\ chain_of s (a_start (ents s 1)) [0; 2] /\
    readable (ents s 2) = true /\ chain_of s (a_start (ents s 2)) [1; 3] /\ a_swapsz (ents s 2) = 110).
Proof.
  unfold holds_after. set (r := rebuild _ _ _). vm_compute in r. subst r. cbv beta iota.
  repeat split; cbn; lia.
Qed.

(* ================================================================ 4. after the repair of e9a49c7 *)

Lemma readable_anchored : forall slotSize dbl img s f,
  rebuild slotSize dbl img = Ok s -> readable (ents s f) = true -> e_anch (ents s f) = true.
Proof.
  intros ssz dbl img s f H R. apply rebuild_inv in H. pose proof (iv_ent _ s H f) as E.
  pose proof (readable_loaded _ E R) as L. unfold ent_ok in E. rewrite L in E. tauto.
Qed.

Lemma readable_chain_sizes : forall slotSize dbl img s f l,
  rebuild slotSize dbl img = Ok s -> readable (ents s f) = true ->
  chain_of s (a_start (ents s f)) l -> sumsz s l = a_swapsz (ents s f).
Proof.
  intros ssz dbl img s f l H R C. rewrite (readable_chain_sizes_partial ssz dbl img s f l H R C).
  apply rebuild_inv in H. pose proof (iv_ent _ s H f) as E.
  pose proof (readable_loaded _ E R) as L. unfold ent_ok in E. rewrite L in E. destruct E as (_&_&E). congruence.
Qed.

(* importEntry never lets an all-ones size into the index *)
Lemma import_never_allones : forall h m e e', import_entry h m e = ImpOk e' -> a_swapsz e' <> rr_entry_size_max.
Proof.
  intros h m e e' H. unfold import_entry in H. destruct m as [| |hk mk0 mk1 ssz pr hl]; try discriminate.
  destruct (negb hk); [discriminate|].
  match type of H with context [match ?o with Some _ => _ | None => _ end] => destruct o as [z|] end; [|discriminate].
  destruct pr; [discriminate|]. destruct (z =? rr_entry_size_max) eqn:Z; [discriminate|].
  inversion H; subst. cbn. lia.
Qed.

(* ================================================================ 5. which cells a chain is made of *)

Definition cell (img : list dslot) (x : Z) : option dslot :=
  if x <? 0 then None else nth_error img (Z.to_nat x).

(* slot x of the image holds a cell that the rebuild uses (not empty, sane) *)
Definition live (ssz : Z) (img : list dslot) (x : Z) (h : hdr) (m : meta) : Prop :=
  cell img x = Some (DHdr h m) /\ hdr_empty h = false /\ hdr_sane ssz (Z.of_nat (length img)) h = true.

Definition meta_keys_match (img : list dslot) : Prop :=
  forall x h mk0 mk1 sz pr hl, cell img x = Some (DHdr h (MOk true mk0 mk1 sz pr hl)) -> mk0 = h_k0 h /\ mk1 = h_k1 h.

Record Own (ssz : Z) (img : list dslot) (s : st) : Prop := mkOwn {
  own_slot : forall x, s_mapped (sls s x) = true ->
     exists h m, live ssz img x h m /\ (0 < s_size (sls s x) -> s_next (sls s x) = h_next h);
  own_start : forall f, e_anch (ents s f) = true -> a_empty (ents s f) = false ->
     exists h m, live ssz img (a_start (ents s f)) h m /\ a_k0 (ents s f) = h_k0 h /\ a_k1 (ents s f) = h_k1 h }.

Definition slot_ok (x y : sl) : Prop :=
  core_le x y \/ (s_mapped y = s_mapped x /\ s_size y = 0).

Definition keep (e e' : entry) : Prop :=
  e_anch e' = e_anch e /\ a_start e' = a_start e /\ a_k0 e' = a_k0 e /\ a_k1 e' = a_k1 e.

(* footprint: slots keep (mapped,size,next) or are cleared; entry f keeps (anchored,start,key) or loses its key *)
Definition fp (f : Z) (s s' : st) : Prop :=
  (forall x, slot_ok (sls s x) (sls s' x)) /\ (forall g, g <> f -> ents s' g = ents s g) /\
  (keep (ents s f) (ents s' f) \/ a_empty (ents s' f) = true).

Lemma slot_ok_trans : forall x y z, slot_ok x y -> slot_ok y z -> slot_ok x z.
Proof.
  unfold slot_ok, core_le. intros x y z [(A1&A2&A3&A4)|(A1&A2)] [(B1&B2&B3&B4)|(B1&B2)].
  - left. repeat split; try congruence. auto.
  - right. split; congruence.
  - right. split; congruence.
  - right. split; congruence.
Qed.

Lemma fp_refl : forall f s, fp f s s.
Proof. intros. split; [intros; left; apply core_le_refl|]. split; [reflexivity|]. left. unfold keep; auto. Qed.

Lemma fp_trans : forall f a b c, fp f a b -> fp f b c -> fp f a c.
Proof.
  intros f a b c (S1&E1&K1) (S2&E2&K2). split; [intros x; eapply slot_ok_trans; eauto|]. split.
  - intros g Hg. rewrite E2, E1 by assumption. reflexivity.
  - destruct K2 as [K2|K2]; [|right; exact K2]. destruct K1 as [K1|K1].
    + left. unfold keep in *. destruct K1 as (?&?&?&?). destruct K2 as (?&?&?&?). repeat split; congruence.
    + right. unfold a_empty in *. destruct K2 as (_&_&A&B). rewrite A, B. exact K1.
Qed.

Lemma Own_fp : forall ssz img f s s', Own ssz img s -> fp f s s' -> Own ssz img s'.
Proof.
  intros ssz img f s s' O (S&E&K). constructor.
  - intros x Mx. destruct (S x) as [(A1&A2&A3&_)|(A1&A2)].
    + rewrite A1 in Mx. destruct (own_slot _ _ _ O x Mx) as (h&m&L&Nx). exists h, m. split; [exact L|]. rewrite A2, A3. exact Nx.
    + rewrite A1 in Mx. destruct (own_slot _ _ _ O x Mx) as (h&m&L&_). exists h, m. split; [exact L|]. lia.
  - intros g An Em. destruct (Z.eq_dec g f) as [->|Hg].
    + destruct K as [(K1&K2&K3&K4)|K]; [|congruence].
      rewrite K1 in An. assert (Em' : a_empty (ents s f) = false) by (unfold a_empty in *; rewrite <- K3, <- K4; exact Em).
      destruct (own_start _ _ _ O f An Em') as (h&m&L&A&B). exists h, m. rewrite K2, K3, K4. auto.
    + rewrite E in * by assumption. apply (own_start _ _ _ O g An Em).
Qed.

Lemma quiet_fp : forall f s s', quiet s s' -> fp f s s'.
Proof.
  intros f s s' [E C]. split; [intros; left; apply C|]. split; [intros; rewrite E; reflexivity|].
  left. rewrite E. unfold keep; auto.
Qed.

Lemma free_bad_entry_fp : forall N pos f s s', free_bad_entry N pos f s = Ok s' -> fp f s s'.
Proof.
  intros N pos f s s' H. unfold free_bad_entry in H. st_simp. rewrite upd_same in H.
  cbn [a_writing e_set_state a_start e_size] in H.
  destruct (negb (a_writing (ents s f))); [discriminate|].
  match type of H with context [if negb ?c then Abort else _] => destruct (negb c) end; [discriminate|].
  apply bind_ok in H. destruct H as [s1 [H1 H2]].
  apply free_more_chain_quiet in H1. destruct H1 as [E1 C1]. st_simp.
  unfold forget_writing in H2. destruct (negb (a_writing (ents s1 f))); [discriminate|].
  inversion H2; subst s'; clear H2. split; st_simp; [intros; left; apply C1|]. split.
  - intros g Hg. rewrite upd_other by assumption. rewrite E1. rewrite upd_other by assumption. reflexivity.
  - right. rewrite upd_same. reflexivity.
Qed.

Lemma finalize_or_throw_fp : forall N pos f s,
  match finalize_or_throw N pos f s with
  | Ok s' => fp f s s'
  | Thrown s' => quiet s s'
  | _ => True
  end.
Proof.
  intros N pos f s. unfold finalize_or_throw.
  destruct (a_writing (ents s f)) eqn:W; cbn [negb]; [|exact I].
  destruct (negb (0 <? e_size (ents s f))); [apply quiet_refl|].
  destruct (e_anch (ents s f)) eqn:An; cbn [negb]; [|apply quiet_refl].
  pose proof (fin_walk_spec N pos f (e_size (ents s f)) (fuel_of N) (a_start (ents s f)) 0 s) as WS.
  destruct (fin_walk N pos f (e_size (ents s f)) (fuel_of N) (a_start (ents s f)) 0 s) as [s1 j m|s1| |]; auto.
  pose proof (walk_post_quiet _ _ _ _ _ _ _ WS) as Q.
  destruct (negb (j <? 0)); [exact Q|]. destruct (negb (m =? e_size (ents s f))); [exact Q|].
  match goal with |- context [negb (?a || ?b)] => destruct (negb (a || b)) end; [exact Q|].
  match goal with |- context [negb (a_writing ?e)] => destruct (negb (a_writing e)) end; [exact I|].
  destruct Q as [En C]. split; st_simp; [intros; left; apply C|]. split.
  - intros g Hg. rewrite upd_other by assumption. rewrite En. reflexivity.
  - left. rewrite upd_same. rewrite En. unfold keep. destruct (a_swapsz (ents s f) =? 0); cbn; auto.
Qed.

Lemma finalize_or_free_fp : forall N pos f s s', finalize_or_free N pos f s = Ok s' -> fp f s s'.
Proof.
  intros N pos f s s' H. unfold finalize_or_free in H. pose proof (finalize_or_throw_fp N pos f s) as F.
  destruct (finalize_or_throw N pos f s) as [s1|s1| |]; try discriminate.
  - inversion H; subst; exact F.
  - eapply fp_trans; [apply quiet_fp; exact F|eapply free_bad_entry_fp; eauto].
Qed.

Lemma map_slot_own : forall ssz img pos i h m s s',
  Own ssz img s -> live ssz img i h m -> map_slot (Z.of_nat (length img)) pos i h s = Ok s' -> Own ssz img s' /\ ents s' = ents s.
Proof.
  intros ssz img pos i h m s s' O L H. unfold map_slot in H.
  destruct (negb (ls_ok _ pos i)); [discriminate|]. destruct (s_mapped (sls s i)); [discriminate|].
  destruct (s_freed (sls s i)); [discriminate|]. inversion H; subst s'; clear H. split; [|reflexivity].
  constructor; st_simp.
  - intros x Mx. unfold upd in *. destruct (x =? i) eqn:E.
    + assert (x = i) by lia. subst x. exists h, m. split; [exact L|]. cbn. auto.
    + apply (own_slot _ _ _ O x Mx).
  - apply (own_start _ _ _ O).
Qed.

Lemma add_tail_own : forall ssz img pos f i h m s s',
  Own ssz img s -> live ssz img i h m -> add_tail (Z.of_nat (length img)) pos f i h s = Ok s' -> Own ssz img s'.
Proof.
  intros ssz img pos f i h m s s' O L H. unfold add_tail in H.
  match type of H with context [if ?c then free_bad_entry _ _ _ _ else _] => destruct c end.
  - eapply Own_fp; [exact O|eapply free_bad_entry_fp; eauto].
  - apply bind_ok in H. destruct H as [s1 [H1 H2]].
    eapply map_slot_own in H1; eauto. destruct H1 as [O1 E1].
    match type of H2 with context [if ?c then _ else _] => destruct c end.
    + eapply Own_fp; [exact O1|eapply finalize_or_free_fp; eauto].
    + inversion H2; subst; exact O1.
Qed.

(* an update of entry f that keeps (anchored, start, key) *)
Lemma Own_set_keep : forall ssz img f s e, Own ssz img s -> keep (ents s f) e -> Own ssz img (set_ent s f e).
Proof.
  intros ssz img f s e O K. apply (Own_fp ssz img f s); [exact O|]. split; st_simp; [intros; left; apply core_le_refl|]. split.
  - intros g Hg. apply upd_other; assumption.
  - left. rewrite upd_same. exact K.
Qed.

Lemma Own_set_more : forall ssz img s i v, Own ssz img s -> Own ssz img (set_sl s i (s_set_more (sls s i) v)).
Proof.
  intros ssz img s i v O. eapply (Own_fp ssz img 0); [exact O|]. apply quiet_fp. split; [reflexivity|].
  intros x. st_simp. unfold upd. destruct (x =? i) eqn:E; [|apply core_le_refl].
  assert (x = i) by lia. subst. unfold core_le; cbn; auto.
Qed.

Lemma import_keys : forall h m e e5, import_entry h m e = ImpOk e5 ->
  exists mk0 mk1 sz pr hl, m = MOk true mk0 mk1 sz pr hl /\ a_k0 e5 = mk0 /\ a_k1 e5 = mk1 /\
    e_anch e5 = e_anch e /\ a_start e5 = a_start e.
Proof.
  intros h m e e5 H. unfold import_entry in H. destruct m as [| |hk mk0 mk1 ssz pr hl]; try discriminate.
  destruct hk; cbn [negb] in H; [|discriminate].
  match type of H with context [match ?o with Some _ => _ | None => _ end] => destruct o end; [|discriminate].
  destruct pr; [discriminate|].
  match type of H with context [if ?c then ImpFail false else _] => destruct c end; [discriminate|].
  inversion H; subst. exists mk0, mk1, ssz, false, hl. cbn. auto.
Qed.

Lemma add_slot_to_entry_own : forall ssz img pos f i h m s s',
  Own ssz img s -> meta_keys_match img -> live ssz img i h m ->
  a_k0 (ents s f) = h_k0 h -> a_k1 (ents s f) = h_k1 h ->
  add_slot_to_entry (Z.of_nat (length img)) pos f i h m s = Ok s' -> Own ssz img s'.
Proof.
  intros ssz img pos f i h m s s' O HK L K0 K1 H. unfold add_slot_to_entry in H.
  destruct (negb (a_writing (ents s f))); [discriminate|].
  apply bind_ok in H. destruct H as [s2 [Hc H]].
  (* after chaining: Own, key unchanged, and if not yet anchored the start is i *)
  assert (T2 : Own ssz img s2 /\ a_k0 (ents s2 f) = h_k0 h /\ a_k1 (ents s2 f) = h_k1 h /\
               e_anch (ents s2 f) = e_anch (ents s f) /\ (e_anch (ents s f) = false -> a_start (ents s2 f) = i)).
  { destruct (e_anch (ents s f)) eqn:An.
    - destruct (negb (ls_ok _ pos (a_start (ents s f)))); [discriminate|].
      destruct (negb (ls_ok _ pos i)); [discriminate|].
      destruct (negb (s_more (sls s i) <? 0)); [discriminate|]. inversion Hc; subst s2; clear Hc.
      split; [apply Own_set_more; apply Own_set_more; exact O|]. st_simp. repeat split; auto. discriminate.
    - destruct (negb (ls_ok _ pos i)); [discriminate|].
      destruct (negb (s_more (sls s i) <? 0)); [discriminate|]. inversion Hc; subst s2; clear Hc.
      split.
      + pose proof (Own_set_more ssz img s i (a_start (ents s f)) O) as O1. constructor; st_simp.
        * apply (own_slot _ _ _ O1).
        * intros g Ag Eg. unfold upd in *. destruct (g =? f) eqn:E.
          -- cbn in Ag. congruence.
          -- apply (own_start _ _ _ O g Ag Eg).
      + st_simp. rewrite upd_same. cbn. auto. }
  clear Hc. destruct T2 as (O2&A0&A1&An2&St2). cbv zeta in H.
  set (s3 := set_ent s2 f (e_set_size (ents s2 f) (e_size (ents s2 f) + h_psz h))) in *.
  assert (O3 : Own ssz img s3) by (apply Own_set_keep; [exact O2|unfold keep; cbn; auto]).
  assert (E3 : ents s3 f = e_set_size (ents s2 f) (e_size (ents s2 f) + h_psz h)) by (subst s3; st_simp; apply upd_same).
  destruct (h_first h =? i).
  - destruct (e_anch (ents s3 f)) eqn:An3.
    + apply bind_ok in H. destruct H as [s4 [H4 H5]]. inversion H5; subst s'; clear H5.
      apply (Own_fp ssz img f s4); [|apply (quiet_fp f); apply quiet_inc; reflexivity].
      apply (Own_fp ssz img f s3); [exact O3|eapply free_bad_entry_fp; exact H4].
    + (* the inode: becomes the anchored start *)
      assert (NA : e_anch (ents s f) = false) by (rewrite E3 in An3; cbn in An3; congruence).
      specialize (St2 NA).
      set (s4 := set_ent s3 f (e_set_anch (ents s3 f) true)) in *.
      assert (O4 : Own ssz img s4).
      { constructor; subst s4; st_simp.
        - apply (own_slot _ _ _ O3).
        - intros g Ag Eg. unfold upd in *. destruct (g =? f) eqn:E.
          + exists h, m. rewrite E3. cbn. rewrite St2. auto.
          + apply (own_start _ _ _ O3 g Ag Eg). }
      assert (E4 : ents s4 f = e_set_anch (ents s3 f) true) by (subst s4; st_simp; apply upd_same).
      destruct (import_entry h m (ents s4 f)) as [bf|e5] eqn:Imp.
      * apply (Own_fp ssz img f (if bf then inc_badflags s4 else s4)); [|eapply free_bad_entry_fp; exact H].
        destruct bf; [|exact O4]. apply (Own_fp ssz img f s4); [exact O4|apply (quiet_fp f); apply quiet_inc; reflexivity].
      * apply import_keys in Imp. destruct Imp as (mk0&mk1&sz&pr&hl&Em&B0&B1&Ba&Bs).
        destruct L as (Lc&Le&Ls). subst m. destruct (HK i h mk0 mk1 sz pr hl Lc) as [M0 M1].
        assert (K5 : keep (ents s4 f) e5).
        { unfold keep. rewrite Ba, Bs, B0, B1, M0, M1, E4, E3. cbn. auto. }
        assert (O5 : Own ssz img (set_ent s4 f e5)) by (apply Own_set_keep; assumption).
        assert (O6 : Own ssz img (set_ent (set_ent s4 f e5) f (e_set_swapsz e5 (h_esz h)))).
        { apply Own_set_keep; [exact O5|]. st_simp. rewrite upd_same. unfold keep; cbn; auto. }
        assert (Lv : live ssz img i h (MOk true mk0 mk1 sz pr hl)) by (split; [exact Lc|split; assumption]).
        destruct (negb (h_esz h =? 0)).
        -- destruct (h_esz h =? rr_entry_size_max).
           { apply (Own_fp ssz img f (set_ent s4 f e5)); [exact O5|eapply free_bad_entry_fp; exact H]. }
           destruct (a_swapsz e5 =? 0).
           ++ eapply add_tail_own; [exact O6|exact Lv|exact H].
           ++ destruct (negb (h_esz h =? a_swapsz e5)).
              ** apply (Own_fp ssz img f (set_ent s4 f e5)); [exact O5|eapply free_bad_entry_fp; exact H].
              ** eapply add_tail_own; [exact O5|exact Lv|exact H].
        -- eapply add_tail_own; [exact O5|exact Lv|exact H].
  - eapply add_tail_own; [exact O3|exact L|exact H].
Qed.

Lemma free_chain_at_fp : forall N fuel i s s', free_chain_at N fuel i s = Ok s' ->
  ents s' = ents s /\ forall x, slot_ok (sls s x) (sls s' x).
Proof.
  induction fuel; intros i s s' H; cbn [free_chain_at] in H.
  - destruct (i <? 0); [|discriminate]. inversion H; subst. split; [reflexivity|intros; left; apply core_le_refl].
  - destruct (i <? 0); [inversion H; subst; split; [reflexivity|intros; left; apply core_le_refl]|].
    destruct (negb ((0 <=? i) && (i <? N))); [discriminate|].
    apply bind_ok in H. destruct H as [s1 [H1 H2]].
    apply push_free_sls in H1. destruct H1 as [S1 E1]. st_simp.
    destruct (IHfuel _ _ _ H2) as [E2 C2]. split; [congruence|].
    intros x. eapply slot_ok_trans; [|apply C2]. rewrite S1. unfold upd. destruct (x =? i) eqn:E; [|left; apply core_le_refl].
    assert (x = i) by lia. subst. right. cbn. auto.
Qed.

Lemma free_chain_fp : forall N f k s s', free_chain N f k s = Ok s' -> fp f s s'.
Proof.
  intros N f k s s' H. unfold free_chain in H. apply bind_ok in H. destruct H as [s1 [H1 H2]].
  inversion H2; subst s'; clear H2.
  assert (F : ents s1 = ents s /\ forall x, slot_ok (sls s x) (sls s1 x)).
  { destruct (a_empty (ents s f)); [inversion H1; subst; split; [reflexivity|intros; left; apply core_le_refl]|].
    eapply free_chain_at_fp; eauto. }
  destruct F as [E C]. split; st_simp; [exact C|]. split.
  - intros g Hg. rewrite upd_other by assumption. rewrite E. reflexivity.
  - right. rewrite upd_same. destruct k; reflexivity.
Qed.

Lemma free_entry_fp : forall N f s s', free_entry N f s = Ok s' -> fp f s s'.
Proof.
  intros N f s s' H. unfold free_entry in H. destruct (a_writing (ents s f)).
  - inversion H; subst. split; st_simp; [intros; left; apply core_le_refl|]. split.
    + intros g Hg. apply upd_other; assumption.
    + left. rewrite upd_same. unfold keep; cbn; auto.
  - eapply fp_trans; [|eapply free_chain_fp; exact H]. split; st_simp; [intros; left; apply core_le_refl|]. split.
    + intros g Hg. apply upd_other; assumption.
    + left. rewrite upd_same. unfold keep; cbn; auto.
Qed.

Lemma start_new_entry_own : forall ssz img pos f i h m s s',
  Own ssz img s -> meta_keys_match img -> live ssz img i h m -> ents s f = entry0 ->
  start_new_entry (Z.of_nat (length img)) pos f i h m s = Ok s' -> Own ssz img s'.
Proof.
  intros ssz img pos f i h m s s' O HK L Ef H.
  unfold start_new_entry in H. rewrite Ef in H. cbn [a_writing a_wtbf a_empty entry0 a_k0 a_k1 negb andb orb Z.eqb] in H.
  cbv zeta in H. apply bind_ok in H. destruct H as [s1 [H1 H]]. inversion H1; subst s1; clear H1.
  st_simp. rewrite upd_same in H. cbn [a_empty e_set_writing a_k0 a_k1 entry0 Z.eqb andb negb] in H.
  match type of H with context [if ?c then Abort else _] => destruct c end; [discriminate|].
  apply bind_ok in H. destruct H as [s3 [H3 H4]].
  match type of H4 with context [if ?c then Abort else _] => destruct c end; [discriminate|]. inversion H4; subst s'; clear H4.
  eapply add_slot_to_entry_own; [|exact HK|exact L| | |exact H3].
  - constructor; st_simp.
    + apply (own_slot _ _ _ O).
    + intros g Ag Eg. destruct (Z.eq_dec g f) as [->|Hg].
      * exfalso. rewrite upd_same in Ag. cbn [e_anch e_set_size e_set_ver e_set_state e_set_start e_set_wtbf e_set_key] in Ag.
        repeat rewrite upd_same in Ag. cbn in Ag. discriminate.
      * repeat rewrite upd_other in Ag, Eg |- * by assumption. apply (own_start _ _ _ O g Ag Eg).
  - st_simp. repeat rewrite upd_same. reflexivity.
  - st_simp. repeat rewrite upd_same. reflexivity.
Qed.

Lemma use_new_slot_own : forall ssz img pos h m s s',
  Inv (Z.of_nat (length img)) s -> Own ssz img s -> meta_keys_match img -> live ssz img pos h m ->
  use_new_slot (Z.of_nat (length img)) pos pos h m s = Ok s' -> Own ssz img s'.
Proof.
  intros ssz img pos h m s s' I O HK L H. unfold use_new_slot in H. cbv zeta in H.
  match type of H with context [if negb ?c then Abort else _] => destruct (negb c) end; [discriminate|].
  set (f := fileno_of (Z.of_nat (length img)) (h_k0 h) (h_k1 h)) in *.
  destruct (e_state (ents s f)) eqn:St.
  - eapply start_new_entry_own; eauto. pose proof (iv_ent _ s I f) as E. unfold ent_ok in E. rewrite St in E. exact E.
  - destruct (negb (a_writing (ents s f))); [discriminate|].
    destruct ((h_k0 h =? a_k0 (ents s f)) && (h_k1 h =? a_k1 (ents s f))) eqn:K.
    + eapply add_slot_to_entry_own; [exact O|exact HK|exact L| | |exact H]; lia.
    + apply bind_ok in H. destruct H as [s1 [H1 H]]. apply bind_ok in H. destruct H as [s2 [H2 H3]].
      inversion H3; subst s'; clear H3.
      apply (Own_fp ssz img f s2); [|apply quiet_fp; apply quiet_inc; reflexivity].
      apply (Own_fp ssz img f s1); [|apply quiet_fp; eapply free_unused_slot_quiet; eauto].
      apply (Own_fp ssz img f s); [exact O|eapply free_bad_entry_fp; eauto].
  - apply bind_ok in H. destruct H as [s1 [H1 H]]. apply bind_ok in H. destruct H as [s2 [H2 H3]].
    inversion H3; subst s'; clear H3.
    apply (Own_fp ssz img f s2); [|apply quiet_fp; apply quiet_inc; reflexivity].
    apply (Own_fp ssz img f s1); [|apply quiet_fp; eapply free_unused_slot_quiet; eauto].
    apply (Own_fp ssz img f (set_ent s f (e_set_state (ents s f) LeCorrupted))); [|eapply free_entry_fp; eauto].
    apply Own_set_keep; [exact O|unfold keep; cbn; auto].
  - apply (Own_fp ssz img f s); [exact O|apply quiet_fp; eapply free_unused_slot_quiet; eauto].
  - apply (Own_fp ssz img f s); [exact O|apply quiet_fp; eapply free_unused_slot_quiet; eauto].
Qed.

Lemma load_one_slot_own : forall ssz img pos d s s',
  Inv (Z.of_nat (length img)) s -> Own ssz img s -> meta_keys_match img -> cell img pos = Some d ->
  load_one_slot ssz (Z.of_nat (length img)) pos d s = Ok s' -> Own ssz img s'.
Proof.
  intros ssz img pos d s s' I O HK Cd H. unfold load_one_slot in H. cbv zeta in H.
  assert (I1 : Inv (Z.of_nat (length img)) (inc_scan s)) by (eapply Inv_quiet; [exact I|apply quiet_inc; reflexivity]).
  assert (O1 : Own ssz img (inc_scan s)) by (apply (Own_fp ssz img 0 s); [exact O|apply quiet_fp; apply quiet_inc; reflexivity]).
  destruct d as [|h m].
  - apply (Own_fp ssz img 0 (inc_scan s)); [exact O1|apply quiet_fp; eapply free_unused_slot_quiet; eauto].
  - destruct (hdr_empty h) eqn:Em; [apply (Own_fp ssz img 0 (inc_scan s)); [exact O1|apply quiet_fp; eapply free_unused_slot_quiet; eauto]|].
    destruct (hdr_sane ssz (Z.of_nat (length img)) h) eqn:Sa; cbn [negb] in H;
      [|apply (Own_fp ssz img 0 (inc_scan s)); [exact O1|apply quiet_fp; eapply free_unused_slot_quiet; eauto]].
    eapply use_new_slot_own; [exact I1|exact O1|exact HK| |exact H]. split; [exact Cd|split; assumption].
Qed.

Lemma cell_app : forall (pre : list dslot) d r, cell (pre ++ d :: r) (Z.of_nat (length pre)) = Some d.
Proof.
  intros. unfold cell. destruct (Z.of_nat (length pre) <? 0) eqn:E; [lia|].
  rewrite Nat2Z.id. rewrite nth_error_app2 by lia. rewrite Nat.sub_diag. reflexivity.
Qed.

Lemma load_all_both : forall ssz img rest pre s s',
  img = pre ++ rest -> meta_keys_match img ->
  Inv (Z.of_nat (length img)) s -> Own ssz img s ->
  load_all ssz (Z.of_nat (length img)) (Z.of_nat (length pre)) rest s = Ok s' ->
  Inv (Z.of_nat (length img)) s' /\ Own ssz img s'.
Proof.
  intros ssz img. induction rest as [|d r IH]; intros pre s s' E HK I O H; cbn [load_all] in H.
  - inversion H; subst; auto.
  - apply bind_ok in H. destruct H as [s1 [H1 H2]].
    assert (I1 : Inv (Z.of_nat (length img)) s1) by (eapply load_one_slot_inv; eauto).
    assert (O1 : Own ssz img s1).
    { eapply load_one_slot_own; [exact I|exact O|exact HK| |exact H1]. rewrite E. apply cell_app. }
    apply (IH (pre ++ [d]) s1 s'); auto.
    + rewrite <- app_assoc. exact E.
    + rewrite app_length. cbn [length]. replace (Z.of_nat (length pre + 1)) with (Z.of_nat (length pre) + 1) by lia. exact H2.
Qed.

Lemma for_range_pres : forall (P : st -> Prop) step, (forall k s s', P s -> step k s = Ok s' -> P s') ->
  forall n k s s', P s -> for_range n k step s = Ok s' -> P s'.
Proof.
  intros P step Hs. induction n; intros k s s' I H; cbn [for_range] in H.
  - inversion H; subst; exact I.
  - apply bind_ok in H. destruct H as [s1 [H1 H2]]. eapply IHn; [|exact H2]. eapply Hs; eauto.
Qed.

Lemma Own_st0 : forall ssz img, Own ssz img st0.
Proof. intros. constructor; cbn; intros; discriminate. Qed.

Lemma rebuild_own : forall ssz dbl img s, meta_keys_match img -> rebuild ssz dbl img = Ok s -> Own ssz img s.
Proof.
  intros ssz dbl img s HK H. unfold rebuild in H. cbv zeta in H.
  apply bind_ok in H. destruct H as [s1 [H1 H]]. apply bind_ok in H. destruct H as [s2 [H2 H3]].
  destruct (load_all_both ssz img img [] st0 s1 eq_refl HK (Inv_st0 _) (Own_st0 _ _) H1) as [I1 O1].
  assert (O2 : Own ssz img s2).
  { eapply (for_range_pres (Own ssz img)); [|exact O1|exact H2]. intros k a b Oa Hk.
    unfold validate_one_entry in Hk. cbv zeta in Hk.
    assert (Oi : Own ssz img (inc_valid a)) by (apply (Own_fp ssz img k a); [exact Oa|apply quiet_fp; apply quiet_inc; reflexivity]).
    destruct (e_state (ents (inc_valid a) k)); try (inversion Hk; subst; exact Oi).
    apply (Own_fp ssz img k (inc_valid a)); [exact Oi|eapply finalize_or_free_fp; eauto]. }
  destruct dbl; [|inversion H3; subst; exact O2].
  eapply (for_range_pres (Own ssz img)); [|exact O2|exact H3]. intros k a b Oa Hk.
  unfold validate_one_slot in Hk. cbv zeta in Hk. destruct (negb (ls_ok _ _ k)); [discriminate|].
  match type of Hk with context [if ?c then Ok _ else _] => destruct c end; [|discriminate]. inversion Hk; subst.
  apply (Own_fp ssz img k a); [exact Oa|apply quiet_fp; apply quiet_inc; reflexivity].
Qed.

(* no used cell links to a used cell of another key *)
Definition no_cross_key_links (ssz : Z) (img : list dslot) : Prop :=
  forall x y hx mx hy my, live ssz img x hx mx -> live ssz img y hy my -> h_next hx = y ->
    h_k0 hy = h_k0 hx /\ h_k1 hy = h_k1 hx.

Lemma live_det : forall ssz img x h m h' m', live ssz img x h m -> live ssz img x h' m' -> h = h'.
Proof. intros ssz img x h m h' m' (A&_) (B&_). congruence. Qed.

Lemma chain_one_key : forall ssz img s k0 k1, Own ssz img s -> no_cross_key_links ssz img ->
  forall l i, chain_of s i l ->
  (forall x, In x l -> s_mapped (sls s x) = true /\ 0 < s_size (sls s x)) ->
  (forall h m, live ssz img i h m -> h_k0 h = k0 /\ h_k1 h = k1) ->
  forall x, In x l -> exists h m, live ssz img x h m /\ h_k0 h = k0 /\ h_k1 h = k1.
Proof.
  intros ssz img s k0 k1 O NC. induction l as [|y r IH]; intros i C M K x Hx; [contradiction|].
  cbn in C. destruct C as (E&P&C). subst y.
  destruct (M i (or_introl eq_refl)) as [Mi Si].
  destruct (own_slot _ _ _ O i Mi) as (h&m&L&Nx). specialize (Nx Si). destruct (K h m L) as [K0 K1].
  destruct Hx as [<-|Hx]; [exists h, m; auto|].
  apply (IH (s_next (sls s i))); auto.
  - intros z Hz. apply M. right; exact Hz.
  - intros h2 m2 L2. rewrite Nx in L2. destruct (NC i (h_next h) h m h2 m2 L L2 eq_refl) as [A B]. split; congruence.
Qed.

(* PARTIAL (one key per chain): in an image without links across keys and whose swap metadata keys equal the
   cell keys, every slot of a readable entry's chain holds a cell stamped with the entry's key *)
Theorem readable_chain_one_key_partial : forall ssz dbl img s f l,
  rebuild ssz dbl img = Ok s -> no_cross_key_links ssz img -> meta_keys_match img ->
  readable (ents s f) = true -> chain_of s (a_start (ents s f)) l ->
  forall x, In x l -> exists h m, live ssz img x h m /\ h_k0 h = a_k0 (ents s f) /\ h_k1 h = a_k1 (ents s f).
Proof.
  intros ssz dbl img s f l H NC HK R C.
  pose proof (rebuild_own ssz dbl img s HK H) as O.
  pose proof (readable_anchored ssz dbl img s f H R) as An.
  destruct (readable_chain_acyclic_loaded ssz dbl img s f H R) as (l0&C0&_&M0).
  assert (l = l0) by (eapply chain_of_det; eauto). subst l0.
  assert (Em : a_empty (ents s f) = false).
  { unfold readable in R. destruct (a_empty (ents s f)); [rewrite andb_false_r in R; discriminate|reflexivity]. }
  destruct (own_start _ _ _ O f An Em) as (h0&m0&L0&A0&A1).
  eapply chain_one_key; [exact O|exact NC|exact C| |].
  - intros x Hx. destruct (M0 x Hx) as (_&Mx&_&Sx). auto.
  - intros h m L. rewrite (live_det _ _ _ _ _ _ _ L L0). auto.
Qed.

(* PARTIAL (one version per chain): if moreover cells of one key carry one version *)
Theorem readable_chain_one_version_partial : forall ssz dbl img s f l,
  rebuild ssz dbl img = Ok s -> no_cross_key_links ssz img -> meta_keys_match img ->
  (forall x y hx mx hy my, live ssz img x hx mx -> live ssz img y hy my ->
      h_k0 hx = h_k0 hy -> h_k1 hx = h_k1 hy -> h_ver hx = h_ver hy) ->
  readable (ents s f) = true -> chain_of s (a_start (ents s f)) l ->
  forall x y hx mx hy my, In x l -> In y l -> live ssz img x hx mx -> live ssz img y hy my -> h_ver hx = h_ver hy.
Proof.
  intros ssz dbl img s f l H NC HK SV R C x y hx mx hy my Hx Hy Lx Ly.
  destruct (readable_chain_one_key_partial ssz dbl img s f l H NC HK R C x Hx) as (h1&m1&L1&A1&B1).
  destruct (readable_chain_one_key_partial ssz dbl img s f l H NC HK R C y Hy) as (h2&m2&L2&A2&B2).
  rewrite (live_det _ _ _ _ _ _ _ Lx L1). rewrite (live_det _ _ _ _ _ _ _ Ly L2).
  eapply SV; eauto; congruence.
Qed.

(* the hypotheses of the partial theorems are met by a concrete image: two intact two-cell entries *)
Definition img_two : list dslot :=
  [DHdr (mkHdr 1 0 300 100 1 0 2) (MOk true 1 0 0 false 75);
   DHdr (mkHdr 2 0 0 50 4 1 3) (MOk true 2 0 0 false 75);
   DHdr (mkHdr 1 0 0 200 1 0 (-1)) MBad;
   DHdr (mkHdr 2 0 0 60 4 1 (-1)) MBad].

Lemma cell_img_two : forall x d, cell img_two x = Some d ->
  (x = 0 /\ d = DHdr (mkHdr 1 0 300 100 1 0 2) (MOk true 1 0 0 false 75)) \/
  (x = 1 /\ d = DHdr (mkHdr 2 0 0 50 4 1 3) (MOk true 2 0 0 false 75)) \/
  (x = 2 /\ d = DHdr (mkHdr 1 0 0 200 1 0 (-1)) MBad) \/
  (x = 3 /\ d = DHdr (mkHdr 2 0 0 60 4 1 (-1)) MBad).
Proof.
  intros x d H. unfold cell in H. destruct (x <? 0) eqn:E; [discriminate|].
  assert (X : x = 0 \/ x = 1 \/ x = 2 \/ x = 3 \/ 4 <= x) by lia.
  destruct X as [->|[->|[->|[->|X]]]]; cbn in H; try (inversion H; subst; tauto).
  exfalso. assert (N : (length img_two <= Z.to_nat x)%nat) by (cbn; lia).
  apply nth_error_None in N. congruence.
Qed.

Lemma img_two_hypotheses : no_cross_key_links 262144 img_two /\ meta_keys_match img_two /\
  holds_after 262144 false img_two (fun s =>
    readable (ents s 1) = true /\ chain_of s (a_start (ents s 1)) [0; 2] /\
    readable (ents s 2) = true /\ chain_of s (a_start (ents s 2)) [1; 3] /\ a_swapsz (ents s 2) = 110).
Proof.
  split; [|split].
  - intros x y hx mx hy my (Cx&_) (Cy&_) Nx.
    apply cell_img_two in Cx. apply cell_img_two in Cy.
    destruct Cx as [(->&Dx)|[(->&Dx)|[(->&Dx)|(->&Dx)]]]; inversion Dx; subst; cbn in *;
    destruct Cy as [(Ey&Dy)|[(Ey&Dy)|[(Ey&Dy)|(Ey&Dy)]]]; inversion Dy; subst; cbn; try lia; auto.
  - intros x h mk0 mk1 sz pr hl C. apply cell_img_two in C.
    destruct C as [(->&D)|[(->&D)|[(->&D)|(->&D)]]]; inversion D; subst; cbn; auto.
  - unfold holds_after. set (r := rebuild _ _ _). vm_compute in r. subst r. cbv beta iota.
    repeat split; cbn; lia.
Qed.
