(* Extract_vary.v — extraction of the Vary model (ExtrOcamlBasic only). *)
Require Import ExtrOcamlBasic.
Require Import SquidV.Bytes SquidV.HopModel SquidV.VaryModel.
Extraction "m_vary.ml" vary_run make_mark get_by_name parse_block trim_value vary_items.
