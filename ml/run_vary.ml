(* handlers for the vary area (C13).
   vary.run  <V> <R> <R> ...   V = Vary field values of every origin response: hex values joined by ',' ("none" = no
                               Vary field); R = one client request: "n:v,n:v,..." hex name:value pairs ("." = none).
                               Prints "src i0 i1 ..." = which transaction's origin body each client gets.
   vary.mark <V> <R>           hex of httpMakeVaryMark
   vary.get  <R> <name>        getByName: "undef" or "def <hex>" *)
let hdr_of (s : string) : hdr =
  match String.split_on_char ':' s with
  | [n; v] -> { h_name = bytes_of_hex n; h_value = bytes_of_hex v }
  | _ -> failwith "hdr"
let req_of (s : string) : hdr list =
  if s = "." then [] else List.map hdr_of (String.split_on_char ',' s)
let vary_of (s : string) : n list list =
  if s = "none" then [] else List.map bytes_of_hex (String.split_on_char ',' s)

let () =
  reg "vary.run" (fun (v :: rs) ->
      "src " ^ String.concat " " (List.map string_of_n (vary_run (vary_of v) (List.map req_of rs))));
  reg "vary.mark" (fun [v; r] ->
      hex_of_bytes (make_mark (List.map trim_value (vary_of v)) (parse_block (req_of r))));
  reg "vary.items" (fun [v] ->
      String.concat "|" (List.map hex_of_bytes (vary_items (List.map trim_value (vary_of v)))));
  reg "vary.get" (fun [r; nm] ->
      match get_by_name (parse_block (req_of r)) (bytes_of_hex nm) with
      | None -> "undef"
      | Some b -> "def " ^ hex_of_bytes b)
