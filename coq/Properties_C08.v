(* Properties_C08.v — C08: no descriptor leaks or crashes across abort histories (partial: protocol model).
   Statements only; proofs live in FdleakProofs.v. *)
Require Import SquidV.Bytes SquidV.FdleakModel SquidV.FdleakProofs.

(* src/fd.cc: after ANY sequence of fd_open/fd_close calls that respects the callers' obligations (descriptor inside
   the table; fd_close only on an open entry) -- including fd_open on an entry that is already open -- no assert of
   fd.cc fires, the open flags are those of the plain replay, Number_FD is the number of open flags and Biggest_FD is
   the largest open descriptor (-1 when none) *)
Theorem C08_fd_table_accounting : forall maxfd ops d,
  ops_valid maxfd (fun _ => false) ops -> run_fdops maxfd fds_empty ops = Some d ->
  (forall g, fopen d g = replay (fun _ => false) ops g) /\
  fnum d = Z.of_nat (count_open maxfd (fopen d)) /\
  (forall g, fopen d g = true -> (Z.of_nat g <= fbig d)%Z) /\
  ((0 <= fbig d)%Z -> fopen d (Z.to_nat (fbig d)) = true) /\
  (-1 <= fbig d < Z.of_nat maxfd)%Z.
Proof. exact fd_accounting. Qed.
Print Assumptions C08_fd_table_accounting.

Theorem C08_fd_valid_calls_never_assert : forall maxfd ops,
  ops_valid maxfd (fun _ => false) ops -> run_fdops maxfd fds_empty ops <> None.
Proof. exact fd_valid_never_asserts. Qed.
Print Assumptions C08_fd_valid_calls_never_assert.

Example C08_ops_valid_example : ops_valid 8 (fun _ => false) [FOpen 3; FOpen 5; FClose 5; FOpen 3; FOpen 7; FClose 7].
Proof. cbn. repeat split; lia. Qed.
