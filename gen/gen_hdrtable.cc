// Table generator: Http::HeaderLookupTable as the code defines it now.
#include "squid.h"
#include "base/EnumIterator.h"
#include "http/RegisteredHeaders.h"
#include <iostream>
#include <cstring>

int main() {
    std::cout << "@@FILE HdrTable_gen.v\n";
    std::cout << "(* generated from /repo by gen/gen_hdrtable.cc -- do not edit *)\n"
              "Require Import SquidV.Bytes.\nLocal Open Scope N_scope.\n"
              "(* (id, name bytes, (list, request, reply, hopbyhop, denied304)) *)\n"
              "Definition hdr_table : list (N * list N * (bool * bool * bool * bool * bool)) := [\n";
    bool first = true;
    for (auto id : WholeEnum<Http::HdrType>()) {
        if (!Http::any_registered_header(id)) continue;
        const auto &r = Http::HeaderLookupTable.lookup(id);
        if (!first) std::cout << ";\n";
        first = false;
        std::cout << "  (" << static_cast<int>(id) << ", [";
        for (size_t i = 0; i < strlen(r.name); ++i) std::cout << (i ? ";" : "") << static_cast<int>(static_cast<unsigned char>(r.name[i]));
        std::cout << "], (" << (r.list ? "true" : "false") << ", " << (r.request ? "true" : "false") << ", "
                  << (r.reply ? "true" : "false") << ", " << (r.hopbyhop ? "true" : "false") << ", "
                  << (r.denied304 ? "true" : "false") << "))";
    }
    std::cout << "].\n";
    std::cout << "Definition hdr_OTHER : N := " << static_cast<int>(Http::HdrType::OTHER) << ".\n";
    return 0;
}
