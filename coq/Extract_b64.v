(* Extract_b64.v — extraction of the base64 / Basic-credential model to OCaml (ExtrOcamlBasic only). *)
Require Import ExtrOcamlBasic.
Require Import SquidV.Bytes SquidV.B64Model.
Extraction "m_b64.ml"
  lenN takeN dropN
  encode_raw encode_chunks ectx_init b64_encode
  decode_chunks dctx_init b64_decode
  BASE64_DECODE_LENGTH BASE64_ENCODE_LENGTH
  decodeCleartext basic_split basic_decode.
