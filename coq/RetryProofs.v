(* RetryProofs.v — proofs about the FwdState attempt machine (C07). *)
Require Import List NArith Bool Lia.
Require Import SquidV.Bytes SquidV.RetryModel.
Require Import SquidV.gen.RetryMethods_gen.
Import ListNotations.
Local Open Scope N_scope.

(* ---------- the method table ---------- *)
(* POST and extension methods (PATCH included: it is not a registered method in this tree) are neither safe nor
   idempotent per the regenerated table; GET is both *)
Lemma post_and_other_nonidempotent :
  method_safe rm_METHOD_POST = false /\ method_idem rm_METHOD_POST = false /\
  method_safe rm_METHOD_OTHER = false /\ method_idem rm_METHOD_OTHER = false /\
  rm_ext_is_other = true /\ rm_ext_attrs = (false, false) /\
  method_of_image rm_methods [80;65;84;67;72] = rm_METHOD_OTHER /\
  method_of_image rm_methods [80;79;83;84] = rm_METHOD_POST.
Proof. vm_compute. repeat split; reflexivity. Qed.

Lemma nonidempotent_not_retriable r :
  method_safe (r_method r) = false -> method_idem (r_method r) = false -> check_retriable r = false.
Proof. intros A B. unfold check_retriable. rewrite A, B. destruct (r_body r); reflexivity. Qed.

Lemma body_not_retriable r : r_body r = true -> check_retriable r = false.
Proof. intros A. unfold check_retriable. rewrite A. reflexivity. Qed.

(* ---------- views of a state ---------- *)
Definition pending (p : phase) : bool := match p with PhIdle | PhConnecting => true | _ => false end.
Definition active (p : phase) : bool := match p with PhSent _ | PhGotHeaders _ => true | _ => false end.

Lemma active_not_pending p : active p = true -> pending p = false.
Proof. destruct p; simpl; congruence. Qed.
Lemma pending_not_active p : pending p = true -> active p = false.
Proof. destruct p; simpl; congruence. Qed.

Definition same3 (s s' : st) : Prop :=
  s_cok s' = s_cok s /\ s_nibbled s' = s_nibbled s /\ s_hdr_wait s' = s_hdr_wait s.

Lemma same3_refl s : same3 s s.
Proof. repeat split. Qed.
Lemma same3_trans a b c : same3 a b -> same3 b c -> same3 a c.
Proof. unfold same3. intros [A1 [A2 A3]] [B1 [B2 B3]]. repeat split; congruence. Qed.

Lemma fail_view s e : s_phase (fail s e) = s_phase s /\ same3 s (fail s e).
Proof.
  unfold fail, same3. destruct e; simpl; try (repeat split; reflexivity).
  destruct (s_race s); simpl; try (repeat split; reflexivity).
  destruct (s_receipt s); simpl; repeat split; reflexivity.
Qed.

Lemma check_retry_true c r s :
  check_retry c r s = true -> s_nibbled s = false /\ (s_cok s = false \/ check_retriable r = true).
Proof.
  unfold check_retry. intros H.
  destruct (s_shutting s); [discriminate|].
  destruct (negb (s_entry_empty s)); [discriminate|].
  destruct (exhausted c s); [discriminate|].
  destruct (s_pinned s); [discriminate|].
  destruct (s_timeup s); [discriminate|].
  destruct (s_dont_retry s); [discriminate|].
  destruct (s_nibbled s); [discriminate|].
  split; [reflexivity|].
  destruct (s_cok s); simpl in H; [right; exact H | left; reflexivity].
Qed.

Lemma reforward_true c r s :
  reforward c r s = true ->
  s_nibbled s = false /\ s_hdr_wait s = true /\ (check_retriable r = false -> s_err s = None).
Proof.
  unfold reforward. intros H.
  destruct (s_pinned s); [discriminate|].
  destruct (s_hdr_wait s); simpl in H; [|discriminate].
  destruct (exhausted c s); [discriminate|].
  destruct (s_nibbled s); [discriminate|].
  split; [reflexivity|]. split; [reflexivity|]. intros NR. rewrite NR in H.
  destruct (s_err s); [discriminate | reflexivity].
Qed.

Lemma fail_sets_err s e : s_err (fail s e) = Some e.
Proof.
  unfold fail. destruct e; simpl; try reflexivity.
  destruct (s_race s); simpl; try reflexivity. destruct (s_receipt s); reflexivity.
Qed.

Definition quiet_end (s s' : st) : Prop :=
  same3 s s' /\ (pending (s_phase s') = true \/ s_phase s' = PhDone).

Lemma hc_give_up_view c r s : quiet_end s (hc_give_up c r s).
Proof.
  unfold quiet_end, hc_give_up, finish.
  destruct (fail_view (set_dont_retry s) (match s_hc_lasterr s with Some e => e | None => ErrGateway end)) as [_ [A [B C]]].
  split; [|right; reflexivity].
  unfold same3 in *. simpl in *. repeat split; assumption.
Qed.

Lemma hc_check_view c r s : quiet_end s (hc_check c r s).
Proof.
  unfold hc_check.
  destruct (hc_ran_out c s); [apply hc_give_up_view|].
  destruct (andb (no_paths s) (negb (s_subscribed s))); [apply hc_give_up_view|].
  split; [repeat split | left; reflexivity].
Qed.

Lemma connect_start_view c r s : quiet_end s (connect_start c r s).
Proof.
  unfold connect_start.
  match goal with |- quiet_end s (hc_check c r ?x) => destruct (hc_check_view c r x) as [[A [B C]] D] end.
  split; [|exact D]. unfold same3 in *. simpl in *. repeat split; assumption.
Qed.

Lemma use_destinations_view c r s : quiet_end s (use_destinations c r s).
Proof.
  unfold use_destinations.
  destruct (negb (no_paths s)); [apply connect_start_view|].
  destruct (s_subscribed s).
  - split; [repeat split | left; reflexivity].
  - unfold finish. split; [|right; reflexivity].
    destruct (s_err s); [repeat split|].
    destruct (fail_view s ErrCannotForward) as [_ [A [B C]]]. unfold same3 in *; simpl; repeat split; assumption.
Qed.

Lemma retry_or_bail_view c r s :
  same3 s (retry_or_bail c r s) /\
  (s_phase (retry_or_bail c r s) = PhDone \/
   (pending (s_phase (retry_or_bail c r s)) = true /\ s_nibbled s = false /\ (s_cok s = false \/ check_retriable r = true))).
Proof.
  unfold retry_or_bail. destruct (check_retry c r s) eqn:E.
  - destruct (use_destinations_view c r s) as [A [B|B]].
    + split; [exact A|]. right. destruct (check_retry_true _ _ _ E) as [N C]. auto.
    + split; [exact A|]. left; exact B.
  - unfold finish. split; [repeat split | left; reflexivity].
Qed.

(* ---------- what one step can do ---------- *)
Record summary (c : cfg) (r : req) (e : event) (s s' : st) (o : list out) : Prop := {
  sm_sends : sends o = 0 \/
             (sends o = 1 /\ reforwards o = 0 /\ pending (s_phase s) = true /\ active (s_phase s') = true /\
              s_cok s' = true /\ s_nibbled s' = s_nibbled s /\ s_hdr_wait s' = s_hdr_wait s);
  sm_nosend : sends o = 0 -> s_cok s' = s_cok s;
  sm_refw : reforwards o = 0 \/
            (reforwards o = 1 /\ sends o = 0 /\ active (s_phase s) = true /\ s_hdr_wait s = true /\ s_nibbled s = false);
  sm_pending : sends o = 0 -> reforwards o = 0 -> pending (s_phase s') = true ->
               pending (s_phase s) = true \/
               (active (s_phase s) = true /\ s_nibbled s = false /\ (s_cok s = false \/ check_retriable r = true));
  sm_active : sends o = 0 -> active (s_phase s') = true -> active (s_phase s) = true;
  sm_nibbled : s_nibbled s = true -> s_nibbled s' = true;
  sm_nibble_set : s_nibbled s = false -> s_nibbled s' = true -> active (s_phase s') = true /\ o = [];
  sm_hdr : s_hdr_wait s' = true ->
           s_hdr_wait s = true \/ (exists status, e = EvHeaders status /\ reforwardable c status = true);
  (* reforward() says yes only in complete(), and for a non-retriable request only when the reply was received
     completely (no premature EOF) *)
  sm_refw_ev : reforwards o = 0 \/ (exists p, e = EvComplete p /\ (check_retriable r = false -> p = false))
}.

Lemma phase_cases s s' :
  (s_phase s' = s_phase s \/ s_phase s' = PhDone) ->
  (pending (s_phase s') = true -> pending (s_phase s) = true) /\ (active (s_phase s') = true -> active (s_phase s) = true).
Proof. intros [H|H]; rewrite H; simpl; split; intros; congruence. Qed.

(* nothing sent, flags unchanged, phase unchanged or ended *)
Lemma summary_quiet c r e s s' :
  same3 s s' -> (s_phase s' = s_phase s \/ s_phase s' = PhDone) -> summary c r e s s' [].
Proof.
  intros [A [B C]] P. destruct (phase_cases s s' P) as [P1 P2].
  constructor; simpl; intros; auto; try congruence; try (left; congruence).
Qed.

(* nothing sent from a pending phase *)
Lemma summary_pending c r e s s' :
  quiet_end s s' -> pending (s_phase s) = true -> summary c r e s s' [].
Proof.
  intros [[A [B C]] P] Q.
  constructor; simpl; intros; auto; try congruence; try (left; congruence).
  destruct P as [P|P].
  - apply active_not_pending in H0. congruence.
  - rewrite P in H0. discriminate.
Qed.

(* a failure exit of an active phase: ended, or back to a pending phase because checkRetry() said yes *)
Lemma summary_retry c r e s s' :
  same3 s s' -> active (s_phase s) = true ->
  (s_phase s' = PhDone \/
   (pending (s_phase s') = true /\ s_nibbled s = false /\ (s_cok s = false \/ check_retriable r = true))) ->
  summary c r e s s' [].
Proof.
  intros [A [B C]] Q P.
  constructor; simpl; intros; auto; try congruence; try (left; congruence).
  - destruct P as [P|[P1 [P2 P3]]]; [rewrite P in *; discriminate | right; auto].
Qed.

Lemma summary_send c r e s s' o :
  pending (s_phase s) = true -> active (s_phase s') = true -> s_cok s' = true ->
  s_nibbled s' = s_nibbled s -> s_hdr_wait s' = s_hdr_wait s ->
  sends o = 1 -> reforwards o = 0 -> summary c r e s s' o.
Proof.
  intros P A K N H S R.
  constructor; intros; auto; try congruence; try lia.
  - right. auto 10.
  - left. congruence.
Qed.

Lemma dispatch_view s d reused s' o :
  dispatch s d reused = (s', o) ->
  active (s_phase s') = true /\ s_cok s' = true /\ s_nibbled s' = s_nibbled s /\ s_hdr_wait s' = s_hdr_wait s /\
  o = [OSend d reused].
Proof. unfold dispatch. intros H. inversion H; subst; clear H. simpl. auto. Qed.

Lemma note_connection_summary c r e s0 s d reused closing s' o :
  pending (s_phase s0) = true -> s_phase s = s_phase s0 -> same3 s0 s ->
  note_connection c r s d reused closing = (s', o) ->
  (summary c r e s0 s' o /\ (o = [] \/ o = [OSend d reused])).
Proof.
  intros P PH S3 H. unfold note_connection in H. destruct closing.
  - inversion H; subst; clear H. split; [|left; reflexivity].
    apply summary_pending; [|exact P].
    match goal with |- quiet_end _ (retry_or_bail c r ?x) =>
      destruct (retry_or_bail_view c r x) as [A B]; assert (SX : same3 s0 x) end.
    { destruct reused.
      - match goal with |- same3 _ (fail ?y _) => destruct (fail_view y ErrCannotForward) as [_ F] end.
        eapply same3_trans; [|exact F]. destruct S3 as [S1 [S2 S4]]. repeat split; simpl; assumption.
      - destruct (fail_view s ErrCannotForward) as [_ F]. eapply same3_trans; [exact S3 | exact F]. }
    split; [eapply same3_trans; eassumption|].
    destruct B as [B|[B _]]; auto.
  - apply dispatch_view in H. destruct H as [A [K [N [Hh O]]]]. subst o. split; [|right; reflexivity].
    destruct S3 as [S1 [S2 S4]]. simpl in N, Hh.
    apply summary_send; auto; try congruence.
Qed.

Lemma add_close c r e s s' o d :
  summary c r e s s' o -> pending (s_phase s) = true -> (o = [] \/ exists d' re, o = [OSend d' re]) ->
  summary c r e s s' (OClosePconn d :: o).
Proof.
  intros SM P O.
  assert (E1 : sends (OClosePconn d :: o) = sends o) by reflexivity.
  assert (E2 : reforwards (OClosePconn d :: o) = reforwards o) by reflexivity.
  destruct SM. constructor; try rewrite E1; try rewrite E2; auto.
  intros N1 N2. exfalso. destruct (sm_nibble_set0 N1 N2) as [A B].
  destruct O as [O|[d' [re O]]]; subst o; [|discriminate].
  apply sm_active0 in A; [|reflexivity]. apply pending_not_active in P. congruence.
Qed.

Lemma hc_attempt_summary c r e s pi ok cl s' o :
  s_phase s = PhConnecting -> hc_attempt c r s pi ok cl = (s', o) -> summary c r e s s' o.
Proof.
  intros PH H. unfold hc_attempt in H.
  assert (P : pending (s_phase s) = true) by (rewrite PH; reflexivity).
  destruct (first_avail (s_paths s) 0) as [d|].
  2:{ inversion H; subst. apply summary_quiet; [apply same3_refl | left; reflexivity]. }
  cbv zeta in H.
  set (s0 := set_paths s (set_avail (s_paths s) d false)) in *.
  change (s_hc_allow_pconn s0) with (s_hc_allow_pconn s) in H.
  change (s_hc_retriable s0) with (s_hc_retriable s) in H.
  assert (QUIET : forall x, same3 s x ->
            summary c r e s (hc_check c r x) []).
  { intros x SX. destruct (hc_check_view c r x) as [A B].
    apply summary_pending; [|exact P]. split; [eapply same3_trans; eassumption | exact B]. }
  destruct (s_hc_allow_pconn s && pi) eqn:POP; simpl in H.
  - destruct (s_hc_retriable s).
    + eapply (note_connection_summary c r e s) in H; [destruct H as [H _]; exact H | exact P | reflexivity | repeat split].
    + destruct ok.
      * match type of H with context [note_connection ?a ?b ?x ?dd ?re ?c2] =>
          destruct (note_connection a b x dd re c2) as [s2 o2] eqn:NC end.
        inversion H; subst; clear H.
        eapply (note_connection_summary c r e s) in NC; [| exact P | reflexivity | repeat split].
        destruct NC as [SM O2]. apply add_close; auto.
        destruct O2 as [O2|O2]; [left; exact O2 | right; eauto].
      * inversion H; subst; clear H. apply add_close; auto. apply QUIET. repeat split.
  - destruct ok.
    + match type of H with context [note_connection ?a ?b ?x ?dd ?re ?c2] =>
          destruct (note_connection a b x dd re c2) as [s2 o2] eqn:NC end.
      inversion H; subst; clear H. simpl.
      eapply (note_connection_summary c r e s) in NC; [destruct NC as [SM _]; exact SM | exact P | reflexivity | repeat split].
    + inversion H; subst; clear H. apply QUIET. repeat split.
Qed.

Lemma step_summary c r s e s' o : step c r s e = (s', o) -> summary c r e s s' o.
Proof.
  intros H. unfold step in H.
  destruct (s_phase s) eqn:PH.
  (* ---- PhIdle ---- *)
  - assert (P : pending (s_phase s) = true) by (rewrite PH; reflexivity).
    destruct e; try (inversion H; subst; apply summary_quiet; [apply same3_refl | left; simpl; congruence]).
    + (* EvNewDest *)
      destruct (negb (s_subscribed s)); inversion H; subst; clear H;
        [apply summary_quiet; [apply same3_refl | left; simpl; congruence]|].
      apply summary_pending; [|exact P].
      match goal with |- quiet_end s (use_destinations c r ?x) => destruct (use_destinations_view c r x) as [A B] end.
      split; [|exact B]. eapply same3_trans; [|exact A]. repeat split.
    + (* EvDestsEnd *)
      destruct (negb (s_subscribed s)); [inversion H; subst; apply summary_quiet; [apply same3_refl | left; simpl; congruence]|].
      simpl in H.
      destruct (negb (s_found s)); inversion H; subst; clear H; apply summary_pending; try exact P; unfold finish.
      * match goal with |- quiet_end s (set_phase (fail ?x ?er) _) => destruct (fail_view x er) as [_ [A [B C]]] end.
        split; [|right; reflexivity]. unfold same3 in *; simpl in *; repeat split; assumption.
      * split; [|right; reflexivity].
        destruct (s_err s); simpl; [repeat split|].
        match goal with |- same3 s (set_phase (fail ?x ?er) _) => destruct (fail_view x er) as [_ [A [B C]]] end.
        unfold same3 in *; simpl in *; repeat split; assumption.
    + (* EvStartPinned *)
      destruct (orb (s_found s) (negb (s_subscribed s))); [inversion H; subst; apply summary_quiet; [apply same3_refl | left; simpl; congruence]|].
      destruct (negb ok).
      * inversion H; subst; clear H. apply summary_pending; [|exact P]. unfold finish.
        match goal with |- quiet_end s (set_phase (fail ?x ?er) _) => destruct (fail_view x er) as [_ [A [B C]]] end.
        split; [|right; reflexivity]. unfold same3 in *; simpl in *; repeat split; assumption.
      * apply dispatch_view in H. destruct H as [A [K [N [Hh O]]]]. subst o. simpl in N, Hh.
        apply summary_send; auto.
    + (* EvAbort *)
      inversion H; subst. apply summary_quiet; [repeat split | right; reflexivity].
    + inversion H; subst. apply summary_quiet; [repeat split | left; simpl; congruence].
    + inversion H; subst. apply summary_quiet; [repeat split | left; simpl; congruence].
  (* ---- PhConnecting ---- *)
  - assert (P : pending (s_phase s) = true) by (rewrite PH; reflexivity).
    destruct e; try (inversion H; subst; apply summary_quiet; [apply same3_refl | left; simpl; congruence]).
    + destruct (negb (s_subscribed s)); inversion H; subst; clear H;
        apply summary_quiet; try apply same3_refl; try (left; simpl; congruence). repeat split.
    + destruct (negb (s_subscribed s)); [inversion H; subst; apply summary_quiet; [apply same3_refl | left; simpl; congruence]|].
      simpl in H.
      destruct (negb (s_found s)); inversion H; subst; clear H; apply summary_pending; try exact P.
      * unfold finish.
        match goal with |- quiet_end s (set_phase (fail ?x ?er) _) => destruct (fail_view x er) as [_ [A [B C]]] end.
        split; [|right; reflexivity]. unfold same3 in *; simpl in *; repeat split; assumption.
      * match goal with |- quiet_end s (hc_check c r ?x) => destruct (hc_check_view c r x) as [A B] end.
        split; [|exact B]. eapply same3_trans; [|exact A]. repeat split.
    + (* EvConn *) eapply hc_attempt_summary; eassumption.
    + inversion H; subst. apply summary_quiet; [repeat split | right; reflexivity].
    + inversion H; subst. apply summary_quiet; [repeat split | left; simpl; congruence].
    + inversion H; subst. apply summary_quiet; [repeat split | left; simpl; congruence].
  (* ---- PhSent ---- *)
  - assert (P : active (s_phase s) = true) by (rewrite PH; reflexivity).
    destruct e; try (inversion H; subst; apply summary_quiet; [apply same3_refl | left; simpl; congruence]).
    + destruct (negb (s_subscribed s)); inversion H; subst; clear H;
        apply summary_quiet; try apply same3_refl; try (left; simpl; congruence). repeat split.
    + destruct (negb (s_subscribed s)); [inversion H; subst; apply summary_quiet; [apply same3_refl | left; simpl; congruence]|].
      simpl in H.
      destruct (negb (s_found s)); inversion H; subst; clear H.
      * apply summary_quiet; [|right; reflexivity]. unfold finish.
        match goal with |- same3 s (set_phase (fail ?x ?er) _) => destruct (fail_view x er) as [_ [A [B C]]] end.
        unfold same3 in *; simpl in *; repeat split; assumption.
      * apply summary_quiet; [repeat split | left; simpl; congruence].
    + (* EvBodyConsumed *)
      destruct (r_body r); inversion H; subst; clear H; [|apply summary_quiet; [apply same3_refl | left; simpl; congruence]].
      constructor; simpl; intros; auto; try congruence; try (left; congruence).
    + (* EvFail *)
      inversion H; subst; clear H.
      match goal with |- summary _ _ _ _ (retry_or_bail c r ?x) _ =>
        destruct (retry_or_bail_view c r x) as [A B]; assert (SX : same3 s x) end.
      { destruct k; simpl;
          try (match goal with |- same3 s (fail ?y ?er) => destruct (fail_view y er) as [_ F] end;
               eapply same3_trans; [|exact F]; repeat split);
          repeat split. }
      apply summary_retry; [eapply same3_trans; eassumption | exact P |].
      destruct SX as [X1 [X2 X3]].
      destruct B as [B|[B1 [B2 B3]]]; [left; exact B | right]. rewrite <- X1, <- X2. auto.
    + (* EvHeaders *)
      inversion H; subst; clear H.
      constructor; simpl; intros; auto; try congruence; try (left; congruence).
      destruct (s_hdr_wait s); [left; reflexivity|]. simpl in H. right. exists status. auto.
    + inversion H; subst. apply summary_quiet; [repeat split | right; reflexivity].
    + inversion H; subst. apply summary_quiet; [repeat split | left; simpl; congruence].
    + inversion H; subst. apply summary_quiet; [repeat split | left; simpl; congruence].
  (* ---- PhGotHeaders ---- *)
  - assert (P : active (s_phase s) = true) by (rewrite PH; reflexivity).
    destruct e; try (inversion H; subst; apply summary_quiet; [apply same3_refl | left; simpl; congruence]).
    + destruct (negb (s_subscribed s)); inversion H; subst; clear H;
        apply summary_quiet; try apply same3_refl; try (left; simpl; congruence). repeat split.
    + destruct (negb (s_subscribed s)); [inversion H; subst; apply summary_quiet; [apply same3_refl | left; simpl; congruence]|].
      simpl in H.
      destruct (negb (s_found s)); inversion H; subst; clear H.
      * apply summary_quiet; [|right; reflexivity]. unfold finish.
        match goal with |- same3 s (set_phase (fail ?x ?er) _) => destruct (fail_view x er) as [_ [A [B C]]] end.
        unfold same3 in *; simpl in *; repeat split; assumption.
      * apply summary_quiet; [repeat split | left; simpl; congruence].
    + destruct (r_body r); inversion H; subst; clear H; [|apply summary_quiet; [apply same3_refl | left; simpl; congruence]].
      constructor; simpl; intros; auto; try congruence; try (left; congruence).
    + inversion H; subst; clear H.
      match goal with |- summary _ _ _ _ (retry_or_bail c r ?x) _ =>
        destruct (retry_or_bail_view c r x) as [A B]; assert (SX : same3 s x) end.
      { destruct k; simpl;
          try (match goal with |- same3 s (fail ?y ?er) => destruct (fail_view y er) as [_ F] end;
               eapply same3_trans; [|exact F]; repeat split);
          repeat split. }
      apply summary_retry; [eapply same3_trans; eassumption | exact P |].
      destruct SX as [X1 [X2 X3]].
      destruct B as [B|[B1 [B2 B3]]]; [left; exact B | right]. rewrite <- X1, <- X2. auto.
    + (* EvHdrWaitCleared *)
      inversion H; subst; clear H.
      constructor; simpl; intros; auto; try congruence; try (left; congruence).
    + (* EvComplete *)
      set (s1 := if premature then fail s ErrRead else s) in *.
      assert (S1 : same3 s s1 /\ s_phase s1 = s_phase s).
      { unfold s1. destruct premature; [destruct (fail_view s ErrRead) as [A B]; auto | split; [apply same3_refl | reflexivity]]. }
      destruct S1 as [[X1 [X2 X3]] XP].
      destruct (reforward c r s1) eqn:RF; inversion H; subst; clear H.
      * destruct (reforward_true _ _ _ RF) as [N [W EN]].
        match goal with |- summary _ _ _ _ (use_destinations c r ?x) _ =>
          destruct (use_destinations_view c r x) as [[A1 [A2 A3]] B];
          set (sf := use_destinations c r x) in * end.
        simpl in A1, A2, A3.
        assert (E1 : sends [OReforward] = 0) by reflexivity.
        assert (E2 : reforwards [OReforward] = 1) by reflexivity.
        constructor.
        -- left; exact E1.
        -- intros _. congruence.
        -- right. repeat split; auto; congruence.
        -- intros _ E. rewrite E2 in E. discriminate.
        -- intros _ AC. destruct B as [B|B]; [apply active_not_pending in AC; congruence | rewrite B in AC; discriminate].
        -- intros NB. congruence.
        -- intros NB1 NB2. congruence.
        -- intros HW. left. congruence.
        -- right. exists premature. split; [reflexivity|]. intros NR. specialize (EN NR).
           destruct premature; [|reflexivity]. unfold s1 in EN. rewrite fail_sets_err in EN. discriminate.
      * apply summary_quiet; [repeat split; simpl; assumption | right; reflexivity].
    + inversion H; subst. apply summary_quiet; [repeat split | right; reflexivity].
    + inversion H; subst. apply summary_quiet; [repeat split | left; simpl; congruence].
    + inversion H; subst. apply summary_quiet; [repeat split | left; simpl; congruence].
  (* ---- PhDone ---- *)
  - inversion H; subst. apply summary_quiet; [apply same3_refl | left; simpl; congruence].
Qed.

(* ---------- counting along runs ---------- *)
Lemma sends_app a b : sends (a ++ b) = sends a + sends b.
Proof. unfold sends. rewrite filter_app, lenN_app. reflexivity. Qed.
Lemma reforwards_app a b : reforwards (a ++ b) = reforwards a + reforwards b.
Proof. unfold reforwards. rewrite filter_app, lenN_app. reflexivity. Qed.

Lemma run_app c r evs1 : forall s evs2,
  run c r s (evs1 ++ evs2) =
  (fst (run c r (fst (run c r s evs1)) evs2), snd (run c r s evs1) ++ snd (run c r (fst (run c r s evs1)) evs2)).
Proof.
  induction evs1 as [|e t IH]; intros s evs2; simpl.
  - destruct (run c r s evs2); reflexivity.
  - destruct (step c r s e) as [s1 o1]. rewrite IH.
    destruct (run c r s1 t) as [s2 o2]. simpl.
    destruct (run c r s2 evs2) as [s3 o3]. simpl. rewrite app_assoc. reflexivity.
Qed.

(* the invariant behind "at most one send (plus one per reforward() decision)" for a non-retriable request *)
Definition Inv (s : st) (ns nr : N) : Prop :=
  (s_cok s = false -> ns = 0) /\ (pending (s_phase s) = true -> ns <= nr) /\ ns <= nr + 1 /\
  (active (s_phase s) = true -> s_cok s = true).

Lemma inv_init : Inv init 0 0.
Proof. unfold Inv, init; simpl. repeat split; intros; try lia; try discriminate. Qed.

Lemma inv_step c r s e s' o ns nr :
  check_retriable r = false -> Inv s ns nr -> step c r s e = (s', o) ->
  Inv s' (ns + sends o) (nr + reforwards o).
Proof.
  intros NR [I1 [I2 [I3 I4]]] H. destruct (step_summary _ _ _ _ _ _ H) as [S1 S2 S3 S4 S5 _ _ _].
  destruct S1 as [Z|[Z1 [Z2 [Z3 [Z4 [Z5 _]]]]]].
  - (* nothing sent *)
    specialize (S2 Z). rewrite Z.
    destruct S3 as [R|[R1 [_ [R3 _]]]].
    + rewrite R. specialize (S4 Z R).
      unfold Inv. repeat split; intros.
      * rewrite S2 in H0. specialize (I1 H0). lia.
      * destruct (S4 H0) as [Q|[Q1 [_ [Q3|Q3]]]].
        -- specialize (I2 Q). lia.
        -- specialize (I1 Q3). lia.
        -- congruence.
      * lia.
      * rewrite S2. apply I4. apply S5; assumption.
    + rewrite R1. unfold Inv. repeat split; intros.
      * rewrite S2 in H0. specialize (I1 H0). lia.
      * lia.
      * lia.
      * rewrite S2. apply I4. exact R3.
  - (* one send, from a pending phase *)
    rewrite Z1, Z2. specialize (I2 Z3).
    unfold Inv. repeat split; intros.
    + congruence.
    + apply active_not_pending in Z4. congruence.
    + lia.
    + exact Z5.
Qed.

Lemma inv_run c r evs : forall s ns nr,
  check_retriable r = false -> Inv s ns nr ->
  Inv (fst (run c r s evs)) (ns + sends (snd (run c r s evs))) (nr + reforwards (snd (run c r s evs))).
Proof.
  induction evs as [|e t IH]; intros s ns nr NR I; simpl.
  - replace (ns + sends []) with ns by (unfold sends; simpl; lia).
    replace (nr + reforwards []) with nr by (unfold reforwards; simpl; lia). exact I.
  - destruct (step c r s e) as [s1 o1] eqn:ST.
    pose proof (inv_step _ _ _ _ _ _ _ _ NR I ST) as I1.
    specialize (IH s1 _ _ NR I1).
    destruct (run c r s1 t) as [s2 o2]. simpl in *.
    rewrite sends_app, reforwards_app. rewrite !N.add_assoc. exact IH.
Qed.

(* MAIN: a request that checkRetriable() rejects is written on a connection at most once, plus once per
   reforward() decision -- along every event sequence *)
Theorem no_resend_nonretriable c r evs :
  check_retriable r = false ->
  sends (snd (run c r init evs)) <= 1 + reforwards (snd (run c r init evs)).
Proof.
  intros NR. destruct (inv_run c r evs init 0 0 NR inv_init) as [_ [_ [I3 _]]]. lia.
Qed.

Theorem no_resend_nonidempotent_method c r evs :
  method_safe (r_method r) = false -> method_idem (r_method r) = false ->
  sends (snd (run c r init evs)) <= 1 + reforwards (snd (run c r init evs)).
Proof. intros A B. apply no_resend_nonretriable. apply nonidempotent_not_retriable; assumption. Qed.

Theorem no_resend_with_body c r evs :
  r_body r = true ->
  sends (snd (run c r init evs)) <= 1 + reforwards (snd (run c r init evs)).
Proof. intros A. apply no_resend_nonretriable. apply body_not_retriable; assumption. Qed.

(* ---------- no re-forwardable reply header => reforward() never says yes ---------- *)
Definition no_reforwardable_header (c : cfg) (e : event) : Prop :=
  match e with EvHeaders st => reforwardable c st = false | _ => True end.

Lemma no_reforward_run c r evs : forall s,
  Forall (no_reforwardable_header c) evs -> s_hdr_wait s = false ->
  s_hdr_wait (fst (run c r s evs)) = false /\ reforwards (snd (run c r s evs)) = 0.
Proof.
  induction evs as [|e t IH]; intros s F W; simpl.
  - split; [exact W | reflexivity].
  - inversion F as [|x l Fe Ft]; subst.
    destruct (step c r s e) as [s1 o1] eqn:ST.
    destruct (step_summary _ _ _ _ _ _ ST) as [_ _ S3 _ _ _ _ S8].
    assert (W1 : s_hdr_wait s1 = false).
    { destruct (s_hdr_wait s1) eqn:E; [|reflexivity].
      destruct (S8 eq_refl) as [Q|[st [Q1 Q2]]]; [congruence|].
      subst e. simpl in Fe. congruence. }
    assert (R1 : reforwards o1 = 0).
    { destruct S3 as [R|[_ [_ [_ [R _]]]]]; [exact R | congruence]. }
    destruct (IH s1 Ft W1) as [A B].
    destruct (run c r s1 t) as [s2 o2]. simpl in *.
    split; [exact A|]. rewrite reforwards_app. lia.
Qed.

(* the property for connection failures: whatever fails, however often and on whichever path or connection, as long
   as no reply header with a re-forwardable status is received the request is written at most once *)
Theorem at_most_one_send c r evs :
  check_retriable r = false -> Forall (no_reforwardable_header c) evs ->
  sends (snd (run c r init evs)) <= 1.
Proof.
  intros NR F. pose proof (no_resend_nonretriable c r evs NR) as A.
  destruct (no_reforward_run c r evs init F eq_refl) as [_ B]. lia.
Qed.

(* ---------- once body bytes were consumed the request is never sent again ---------- *)
Definition NP (s : st) : Prop := s_nibbled s = true -> pending (s_phase s) = false.

Lemma np_init : NP init.
Proof. unfold NP, init; simpl. discriminate. Qed.

Lemma nibbled_step c r s e s' o :
  NP s -> step c r s e = (s', o) ->
  NP s' /\ (s_nibbled s = true -> s_nibbled s' = true /\ sends o = 0 /\ reforwards o = 0).
Proof.
  intros I H. destruct (step_summary _ _ _ _ _ _ H) as [S1 S2 S3 S4 S5 S6 S7 _].
  assert (K : s_nibbled s = true -> s_nibbled s' = true /\ sends o = 0 /\ reforwards o = 0 /\ pending (s_phase s') = false).
  { intros N. specialize (I N). specialize (S6 N).
    assert (Z : sends o = 0) by (destruct S1 as [Z|[_ [_ [Z _]]]]; [exact Z | congruence]).
    assert (R : reforwards o = 0) by (destruct S3 as [R|[_ [_ [_ [_ R]]]]]; [exact R | congruence]).
    repeat split; auto.
    destruct (pending (s_phase s')) eqn:E; [|reflexivity].
    destruct (S4 Z R eq_refl) as [Q|[_ [Q _]]]; congruence. }
  split.
  - intros N'. destruct (s_nibbled s) eqn:N.
    + destruct (K eq_refl) as [_ [_ [_ Q]]]. exact Q.
    + destruct (S7 eq_refl N') as [A _]. apply active_not_pending. exact A.
  - intros N. destruct (K N) as [A [B [C _]]]. auto.
Qed.

Lemma nibbled_run c r evs : forall s,
  NP s -> NP (fst (run c r s evs)) /\
          (s_nibbled s = true -> sends (snd (run c r s evs)) = 0 /\ reforwards (snd (run c r s evs)) = 0).
Proof.
  induction evs as [|e t IH]; intros s I; simpl.
  - split; [exact I | intros _; split; reflexivity].
  - destruct (step c r s e) as [s1 o1] eqn:ST.
    destruct (nibbled_step _ _ _ _ _ _ I ST) as [I1 K].
    destruct (IH s1 I1) as [A B].
    destruct (run c r s1 t) as [s2 o2]. simpl in *.
    split; [exact A|]. intros N. destruct (K N) as [N1 [Z1 R1]]. destruct (B N1) as [Z2 R2].
    rewrite sends_app, reforwards_app. lia.
Qed.

Theorem no_send_after_body_consumed c r evs1 evs2 :
  s_nibbled (fst (run c r init evs1)) = true ->
  sends (snd (run c r init (evs1 ++ evs2))) = sends (snd (run c r init evs1)) /\
  reforwards (snd (run c r init (evs1 ++ evs2))) = reforwards (snd (run c r init evs1)).
Proof.
  intros N. rewrite run_app. simpl.
  destruct (nibbled_run c r evs1 init np_init) as [I _].
  destruct (nibbled_run c r evs2 _ I) as [_ B]. destruct (B N) as [Z R].
  rewrite sends_app, reforwards_app. lia.
Qed.

(* ---------- the closed loop used by the correspondence run is `run` on the event list it reports ---------- *)
Lemma drive_is_run fuel : forall c r en s s' tr evs okf,
  drive fuel c r en s = (s', tr, evs, okf) -> run c r s evs = (s', tr).
Proof.
  induction fuel as [|f IH]; intros c r en s s' tr evs okf H; simpl in H.
  - inversion H; subst. reflexivity.
  - destruct (next_event en s) as [[ev en1]|].
    + destruct (step c r s ev) as [s1 o1] eqn:ST.
      destruct (drive f c r (after_outputs r en1 o1) s1) as [[[s2 o2] evs2] ok2] eqn:D.
      inversion H; subst; clear H. simpl. rewrite ST. rewrite (IH _ _ _ _ _ _ _ _ D). reflexivity.
    + inversion H; subst. reflexivity.
Qed.

(* ---------- examples and the refutation of the full statement ---------- *)
Definition cfg_default : cfg := mkCfg 25 false false.
Definition req_post_nobody : req := mkReq rm_METHOD_POST false.
Definition req_post_body : req := mkReq rm_METHOD_POST true.
Definition req_get : req := mkReq rm_METHOD_GET false.

(* two paths; the first attempt's reply (502, re-forwardable) is cut in the body by a connection close: the body-less
   POST is NOT written again (reforward(): err && !checkRetriable()); the same events make a GET go to the second path *)
Definition truncated_5xx_evs : list event :=
  [EvNewDest; EvNewDest; EvDestsEnd; EvConn false true false; EvHeaders 502; EvComplete true;
   EvConn false true false; EvFail FZero].

Lemma truncated_reply_examples :
  check_retriable req_post_nobody = false /\
  Forall (fun e => e <> EvComplete false) truncated_5xx_evs /\
  snd (run cfg_default req_post_nobody init truncated_5xx_evs) = [OSend 0 false] /\
  snd (run cfg_default req_get init truncated_5xx_evs) = [OSend 0 false; OReforward; OSend 1 false].
Proof.
  split; [vm_compute; reflexivity|]. split.
  - unfold truncated_5xx_evs. repeat constructor; discriminate.
  - split; vm_compute; reflexivity.
Qed.

(* what stays outside "connection failure": a COMPLETE 502 reply makes squid re-forward even a body-less POST *)
Lemma complete_5xx_is_reforwarded :
  snd (run cfg_default req_post_nobody init
         [EvNewDest; EvNewDest; EvDestsEnd; EvConn false true false; EvHeaders 502; EvComplete false;
          EvConn false true false; EvHeaders 200; EvComplete false]) = [OSend 0 false; OReforward; OSend 1 false].
Proof. vm_compute; reflexivity. Qed.

(* a failed connect sends nothing: the request may still go out once, on the next path *)
Lemma post_after_refused_connect :
  check_retriable req_post_body = false /\
  snd (run cfg_default req_post_body init
         [EvNewDest; EvNewDest; EvDestsEnd; EvConn false false false; EvConn false true false;
          EvBodyConsumed; EvHeaders 200; EvComplete false]) = [OSend 1 false].
Proof. split; vm_compute; reflexivity. Qed.

(* safe methods are retried: on another path ... *)
Lemma get_retried_on_other_path :
  check_retriable req_get = true /\
  snd (run cfg_default req_get init
         [EvNewDest; EvNewDest; EvDestsEnd; EvConn false true false; EvFail FZero; EvConn false true false;
          EvHeaders 200; EvComplete false]) = [OSend 0 false; OSend 1 false].
Proof. split; vm_compute; reflexivity. Qed.

(* ... and after a persistent-connection race: same path, reinstated, fresh connection *)
Lemma get_retried_after_pconn_race :
  snd (run cfg_default req_get init
         [EvNewDest; EvDestsEnd; EvConn true true false; EvFail FZero; EvConn false true false;
          EvHeaders 200; EvComplete false]) = [OSend 0 true; OSend 0 false].
Proof. vm_compute; reflexivity. Qed.

(* the same race with a POST on a reused connection (server_pconn_for_nonretriable): not sent again *)
Lemma post_not_retried_after_pconn_race :
  snd (run (mkCfg 25 true false) req_post_nobody init
         [EvNewDest; EvDestsEnd; EvConn true true false; EvFail FZero; EvConn false true false;
          EvHeaders 200; EvComplete false]) = [OSend 0 true].
Proof. vm_compute; reflexivity. Qed.

Lemma pconn_race_examples :
  snd (run cfg_default req_get init
         [EvNewDest; EvDestsEnd; EvConn true true false; EvFail FZero; EvConn false true false;
          EvHeaders 200; EvComplete false]) = [OSend 0 true; OSend 0 false] /\
  snd (run (mkCfg 25 true false) req_post_nobody init
         [EvNewDest; EvDestsEnd; EvConn true true false; EvFail FZero; EvConn false true false;
          EvHeaders 200; EvComplete false]) = [OSend 0 true].
Proof. exact (conj get_retried_after_pconn_race post_not_retried_after_pconn_race). Qed.

(* ---------- the sharpened bound: reforward() decisions need completely received replies ---------- *)
Definition is_complete_reply (e : event) : bool := match e with EvComplete false => true | _ => false end.
Definition complete_replies (evs : list event) : N := lenN (filter is_complete_reply evs).

Lemma reforwards_bounded c r evs : forall s,
  check_retriable r = false -> reforwards (snd (run c r s evs)) <= complete_replies evs.
Proof.
  induction evs as [|e t IH]; intros s NR; simpl.
  - unfold reforwards, complete_replies; simpl. lia.
  - destruct (step c r s e) as [s1 o1] eqn:ST.
    destruct (step_summary _ _ _ _ _ _ ST) as [_ _ S3 _ _ _ _ _ S9].
    specialize (IH s1 NR). destruct (run c r s1 t) as [s2 o2]. simpl in *.
    rewrite reforwards_app.
    assert (A : reforwards o1 <= (if is_complete_reply e then 1 else 0)).
    { destruct S9 as [Z|[p [E P]]]; [destruct (is_complete_reply e); lia|].
      rewrite (P NR) in E. subst e. simpl.
      destruct S3 as [Z|[Z _]]; lia. }
    unfold complete_replies in *. simpl. destruct (is_complete_reply e); simpl; lia.
Qed.

(* a request that checkRetriable() rejects is written on a connection at most once, plus once per COMPLETELY
   received reply (complete() on a whole reply is the only place where squid decides to send it again) *)
Theorem sends_bounded_by_complete_replies c r evs :
  check_retriable r = false -> sends (snd (run c r init evs)) <= 1 + complete_replies evs.
Proof.
  intros NR. pose proof (no_resend_nonretriable c r evs NR). pose proof (reforwards_bounded c r evs init NR). lia.
Qed.

(* a completely received reply re-forwards only when its status is re-forwardable: together *)
Definition failure_sequence (c : cfg) (evs : list event) : Prop :=
  Forall (fun e => e <> EvComplete false) evs \/ Forall (no_reforwardable_header c) evs.

Lemma no_complete_replies evs : Forall (fun e => e <> EvComplete false) evs -> complete_replies evs = 0.
Proof.
  induction 1 as [|e t He Ht IH]; [reflexivity|].
  unfold complete_replies in *. simpl.
  destruct e; simpl; try exact IH. destruct premature; [exact IH | congruence].
Qed.

(* THE PROPERTY: along every event sequence in which no complete re-forwardable reply arrived -- every reply either
   lost its connection before its end or had a status squid does not re-forward -- a request that checkRetriable()
   rejects is written on a connection at most once *)
Theorem sent_at_most_once_under_failures c r evs :
  check_retriable r = false -> failure_sequence c evs -> sends (snd (run c r init evs)) <= 1.
Proof.
  intros NR [F|F].
  - pose proof (sends_bounded_by_complete_replies c r evs NR). rewrite (no_complete_replies _ F) in H. lia.
  - apply at_most_one_send; assumption.
Qed.
