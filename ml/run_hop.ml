(* handlers for the hop area (C04): headers are given as name=value hex pairs "6e616d65:76616c" *)
let hdr_of (s : string) : hdr =
  match String.split_on_char ':' s with
  | [n; v] -> { h_name = bytes_of_hex n; h_value = bytes_of_hex v }
  | _ -> failwith "hdr"
let idxs (l : n list) : string = if l = [] then "-" else String.concat "," (List.map string_of_n l)

let () =
  reg "hop.items" (fun [l] -> String.concat "|" (List.map hex_of_bytes (list_items (n_of_int 44) (bytes_of_hex l))));
  reg "hop.member" (fun [l; nm] -> b2s (is_member (bytes_of_hex l) (bytes_of_hex nm)));
  reg "hop.resp" (fun hs -> "kept " ^ idxs (resp_kept (List.map hdr_of hs)));
  reg "hop.req" (fun (m :: hs) -> "kept " ^ idxs (req_kept (m = "1") (List.map hdr_of hs)));
  reg "hop.reval" (fun hs ->
      let rec split acc = function
        | "/" :: rest -> (List.rev acc, rest)
        | x :: rest -> split (x :: acc) rest
        | [] -> (List.rev acc, []) in
      let (o, f) = split [] hs in
      "kept " ^ idxs (reval_kept (List.map hdr_of o) (List.map hdr_of f)))
