// sched_atomic.h — scheduler-controlled replacement for std::atomic<T> and
// std::atomic_flag, plus a tiny cooperative scheduler (ucontext coroutines).
//
// Use:   g++ ... -include sched_atomic.h  <unmodified squid source>.cc
//
// The header first includes <atomic> (and the other standard headers that
// mention std::atomic internally), so the real templates are parsed under their
// own names; then it defines std::verif_atomic / std::verif_atomic_flag and
// finally `#define atomic verif_atomic`, `#define atomic_flag verif_atomic_flag`.
// Every later mention of std::atomic<T> / std::atomic_flag in the translation
// unit (i.e. the squid headers and sources) therefore names the controlled
// type. No squid source is changed.
//
// Semantics: sequentially consistent interleaving of single atomic operations.
// Every atomic operation first calls verif_sched::point(); when a scheduler is
// running, the calling coroutine is suspended there and the operation is
// performed when the schedule next names that thread. The memory_order
// arguments are accepted and ignored (the models are SC; see DESIGN.md 4).
// sizeof(verif_atomic<T>) == sizeof(T) (PageStack static_asserts this).
//
// Scheduler: verif_sched::Scheduler::run(n, body, schedule). Thread i runs
// body(i) as a coroutine. Start-up: every thread runs (in index order) up to
// its first point(). Then each schedule entry t resumes thread t, which
// performs the one pending operation and continues to just before its next
// point() (or its end). Entries naming a finished or non-existent thread are
// skipped (they still consume the entry). Past the end of the schedule the
// scheduler continues round-robin (0,1,..,n-1,0,..) until all threads ended
// or maxSteps operations were executed (livelock guard for mutated code).
// A harness-level scheduling point that is not an atomic operation (e.g. "the
// holder uses the protected data") is an explicit verif_sched::point().
//
// Reusable by C53 (PageStack), C54 (ReadWriteLock), C55 (StoreMap), C56 (Queue).
#ifndef VERIF_SCHED_ATOMIC_H
#define VERIF_SCHED_ATOMIC_H
#ifdef __cplusplus

#include <atomic>
#include <memory>
#include <mutex>
#include <thread>
#include <condition_variable>
#include <future>
#include <functional>
#include <string>
#include <vector>
#include <iostream>
#include <sstream>
#include <cstdint>
#include <cstring>
#include <cstdlib>
#include <type_traits>
#include <ucontext.h>

namespace verif_sched {

// set while a Scheduler is running a thread; null = operations execute directly
inline void (*yield_hook)() = nullptr;
inline unsigned long long op_count = 0; // atomic operations executed (all modes)

inline void point() {
    if (yield_hook)
        yield_hook();
    ++op_count;
}

class Scheduler {
public:
    static const int MaxThreads = 16;
    static const size_t StackSize = 256 * 1024;

    long maxSteps = 200000;
    long steps = 0;          // scheduling slots in which a thread actually ran
    long switches = 0;       // slots where the thread differs from the previous one
    bool livelock = false;

    Scheduler() {
        for (int i = 0; i < MaxThreads; ++i)
            stacks_[i] = nullptr;
    }
    ~Scheduler() {
        for (int i = 0; i < MaxThreads; ++i)
            free(stacks_[i]);
    }

    // returns false if maxSteps was hit with unfinished threads
    bool run(int n, const std::function<void(int)> &body, const std::vector<int> &schedule) {
        n_ = n;
        body_ = &body;
        steps = 0;
        switches = 0;
        livelock = false;
        self() = this;
        for (int i = 0; i < n_; ++i) {
            done_[i] = false;
            if (!stacks_[i])
                stacks_[i] = static_cast<char *>(malloc(StackSize));
            getcontext(&ctx_[i]);
            ctx_[i].uc_stack.ss_sp = stacks_[i];
            ctx_[i].uc_stack.ss_size = StackSize;
            ctx_[i].uc_link = &main_;
            makecontext(&ctx_[i], reinterpret_cast<void (*)()>(&Scheduler::trampoline), 1, i);
        }
        // start-up: position every thread just before its first point()
        for (int i = 0; i < n_; ++i)
            resume(i);
        int last = -1;
        for (size_t k = 0; k < schedule.size() && !allDone(); ++k) {
            const int t = schedule[k];
            if (t < 0 || t >= n_ || done_[t])
                continue;
            if (!slot(t, last))
                return false;
        }
        int rr = 0;
        while (!allDone()) {
            const int t = rr;
            rr = (rr + 1) % n_;
            if (done_[t])
                continue;
            if (!slot(t, last))
                return false;
        }
        return true;
    }

    int current() const { return cur_; }

private:
    static Scheduler *&self() {
        static Scheduler *s = nullptr;
        return s;
    }
    bool slot(int t, int &last) {
        if (steps >= maxSteps) {
            livelock = true;
            return false;
        }
        ++steps;
        if (last != -1 && last != t)
            ++switches;
        last = t;
        resume(t);
        return true;
    }
    bool allDone() const {
        for (int i = 0; i < n_; ++i)
            if (!done_[i])
                return false;
        return true;
    }
    void resume(int t) {
        cur_ = t;
        void (*saved)() = yield_hook;
        yield_hook = &Scheduler::yieldToMain;
        swapcontext(&main_, &ctx_[t]);
        yield_hook = saved;
        cur_ = -1;
    }
    static void yieldToMain() {
        Scheduler *s = self();
        const int t = s->cur_;
        swapcontext(&s->ctx_[t], &s->main_);
    }
    static void trampoline(int i) {
        Scheduler *s = self();
        (*s->body_)(i); // body must not let exceptions escape
        s->done_[i] = true;
        // returning switches to uc_link (main_)
    }

    int n_ = 0;
    int cur_ = -1;
    const std::function<void(int)> *body_ = nullptr;
    ucontext_t main_;
    ucontext_t ctx_[MaxThreads];
    char *stacks_[MaxThreads];
    bool done_[MaxThreads];
};

} // namespace verif_sched

namespace std {

template <class T>
struct verif_atomic {
    static_assert(std::is_trivially_copyable<T>::value, "atomic<T> needs a trivially copyable T");
    T v;

    verif_atomic() noexcept = default;
    constexpr verif_atomic(T d) noexcept : v(d) {}
    verif_atomic(const verif_atomic &) = delete;
    verif_atomic &operator=(const verif_atomic &) = delete;
    verif_atomic &operator=(const verif_atomic &) volatile = delete;

    static constexpr bool is_always_lock_free = true;
    bool is_lock_free() const noexcept { return true; }

    T load(memory_order = memory_order_seq_cst) const noexcept {
        verif_sched::point();
        return v;
    }
    void store(T d, memory_order = memory_order_seq_cst) noexcept {
        verif_sched::point();
        v = d;
    }
    operator T() const noexcept { return load(); }
    T operator=(T d) noexcept {
        store(d);
        return d;
    }
    T exchange(T d, memory_order = memory_order_seq_cst) noexcept {
        verif_sched::point();
        T o = v;
        v = d;
        return o;
    }
    bool compare_exchange_strong(T &expected, T desired, memory_order = memory_order_seq_cst,
                                 memory_order = memory_order_seq_cst) noexcept {
        verif_sched::point();
        if (memcmp(&v, &expected, sizeof(T)) == 0) {
            v = desired;
            return true;
        }
        expected = v;
        return false;
    }
    // never fails spuriously (a spurious failure is indistinguishable from a
    // schedule in which the operation is retried)
    bool compare_exchange_weak(T &expected, T desired, memory_order a = memory_order_seq_cst,
                               memory_order b = memory_order_seq_cst) noexcept {
        return compare_exchange_strong(expected, desired, a, b);
    }

    // arithmetic / bitwise read-modify-write (participate only for integral or pointer-like T)
    template <class U = T>
    U fetch_add(U d, memory_order = memory_order_seq_cst) noexcept {
        verif_sched::point();
        U o = v;
        v = static_cast<T>(v + d);
        return o;
    }
    template <class U = T>
    U fetch_sub(U d, memory_order = memory_order_seq_cst) noexcept {
        verif_sched::point();
        U o = v;
        v = static_cast<T>(v - d);
        return o;
    }
    template <class U = T>
    U fetch_and(U d, memory_order = memory_order_seq_cst) noexcept {
        verif_sched::point();
        U o = v;
        v = static_cast<T>(v & d);
        return o;
    }
    template <class U = T>
    U fetch_or(U d, memory_order = memory_order_seq_cst) noexcept {
        verif_sched::point();
        U o = v;
        v = static_cast<T>(v | d);
        return o;
    }
    template <class U = T>
    U fetch_xor(U d, memory_order = memory_order_seq_cst) noexcept {
        verif_sched::point();
        U o = v;
        v = static_cast<T>(v ^ d);
        return o;
    }
    template <class U = T> U operator++(int) noexcept { return fetch_add<U>(1); }
    template <class U = T> U operator--(int) noexcept { return fetch_sub<U>(1); }
    template <class U = T> U operator++() noexcept { return static_cast<U>(fetch_add<U>(1) + 1); }
    template <class U = T> U operator--() noexcept { return static_cast<U>(fetch_sub<U>(1) - 1); }
    template <class U = T> U operator+=(U d) noexcept { return static_cast<U>(fetch_add<U>(d) + d); }
    template <class U = T> U operator-=(U d) noexcept { return static_cast<U>(fetch_sub<U>(d) - d); }
    template <class U = T> U operator&=(U d) noexcept { return static_cast<U>(fetch_and<U>(d) & d); }
    template <class U = T> U operator|=(U d) noexcept { return static_cast<U>(fetch_or<U>(d) | d); }
    template <class U = T> U operator^=(U d) noexcept { return static_cast<U>(fetch_xor<U>(d) ^ d); }
};

struct verif_atomic_flag {
    bool v; // like libstdc++ in C++17: default construction leaves it as the storage was

    verif_atomic_flag() noexcept = default;
    constexpr verif_atomic_flag(bool b) noexcept : v(b) {}
    verif_atomic_flag(const verif_atomic_flag &) = delete;
    verif_atomic_flag &operator=(const verif_atomic_flag &) = delete;

    bool test_and_set(memory_order = memory_order_seq_cst) noexcept {
        verif_sched::point();
        bool o = v;
        v = true;
        return o;
    }
    void clear(memory_order = memory_order_seq_cst) noexcept {
        verif_sched::point();
        v = false;
    }
    bool test(memory_order = memory_order_seq_cst) const noexcept {
        verif_sched::point();
        return v;
    }
};

} // namespace std

#define atomic verif_atomic
#define atomic_flag verif_atomic_flag
#undef ATOMIC_FLAG_INIT
#define ATOMIC_FLAG_INIT false

#endif /* __cplusplus */
#endif /* VERIF_SCHED_ATOMIC_H */
