(* Z conversions: appended only for areas whose extraction contains the Z datatype *)
let string_of_z = function Z0 -> "0" | Zpos p -> string_of_pos p | Zneg p -> "-" ^ string_of_pos p
let z_of_string s =
  if String.length s > 0 && s.[0] = '-' then
    (match pos_of_string (String.sub s 1 (String.length s - 1)) with None -> Z0 | Some p -> Zneg p)
  else (match pos_of_string s with None -> Z0 | Some p -> Zpos p)

