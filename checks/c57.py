"""C57: rock rebuild indexes only intact entries from any disk image."""
import random
from vlib import std, hbuild, coq, common

PID = "C57"
META = {
    "text": "Model (RockrebuildModel.v): the whole Rock::Rebuild job at /repo HEAD (incl. fix e9a49c7), line by line (loadOneSlot, DbCellHeader::empty/sane, useNewSlot's five loading states, startNewEntry/primeNewEntry, addSlotToEntry with chaining, inode conflict, metadata import (storeRebuildParseEntry size rules, all-ones rejection), size mismatch, overflow, mapSlot, finalizeOrThrow/finalizeOrFree, freeBadEntry, freeSlot, the validation passes) over the StoreMap anchors/slices and the free-slot index it drives; assert()s and escaping Must()s are explicit outcomes. Theorems (Properties_C57.v, 16, closed under the global context), for EVERY image (any number of slots, any field values, any truncation): the rebuild terminates (the fuel of the three link-following loops provably suffices); every entry left readable has a chain that ends, visits no slot twice, and consists of loaded (mapped+finalized) db slots with positive sizes; no slot is in the chains of two readable entries; the chain's payload sizes add up to swap_file_sz; the entry's inode was loaded; importEntry never admits an all-ones size (the two former assert images are rebuilt cleanly); nothing stays locked. Under explicit hypotheses (no used cell links to a used cell of another key; metadata keys equal cell keys; one version per key) every chain slot holds a cell of the entry's key / one version (_partial theorems, by a second invariant tying mapped slots and anchored starts to the image). Still REFUTED for the code as it is, each by a vm_compute witness replayed against the real code on every run (corpus/C57/known.txt, known findings): cross-linked chains make squid die (double push into the free-slot index; -S pass) or leave a readable entry's slot in the free-slot index or mix keys; chains mix versions of one key; the anchor key is taken from the swap metadata. The model is tied to the code by differential runs of the extracted model against the real Rock::Rebuild + StoreMap + PageStack + store_rebuild.cc compiled from the working tree (full final state compared: every LoadingEntry/LoadingSlot, anchor, slice, counter and the free-slot index).",
    "note": "PARTIAL: (1) crash-freedom and chain-slots-not-in-the-free-index are refuted for cross-linked images and NOT proved for images without cross links (no restricted theorem; the oracle checks them on every implementation answer). (2) one key / one version per chain are proved only under the stated image hypotheses (C57_chain_of_one_key_partial, C57_chain_of_one_version_partial) and refuted without them. (3) completeness (an intact, unique chain is indexed) is not proved in Coq; it is part of the Python oracle evaluated on every implementation answer (0 failures). Trusted: Coq kernel, extraction, gen/gen_rockrebuild.cc, harness/h_rockrebuild.cc (builds the db file from the case line, drives the job with start()/steps() exactly as the event loop would but without the 10 ms timers, dumps state through #define private public; replaces xassert by a throwing one); the swap-metadata parser (Store::UnpackIndexSwapMeta) is abstracted to its result (zeroed / unparsable / key, swap_file_sz, KEY_PRIVATE, header length) and read errors, concurrent from-network entries (leIgnored) and resumed rebuilds are not generated. The hand-written model is validated against the code only on the generated images.",
    "technique": "Coq proof (two inductive invariants over the slot-by-slot rebuild with frame/footprint lemmas; fuel sufficiency by counting measures; vm_compute witnesses for the refuted clauses) + extracted-model differential correspondence against the real Rock::Rebuild",
}

# link recipe of src/tests/testRock (make -n tests/testRock), minus tests/testRock.o and tests/stub_store_rebuild.o:
# the real src/store_rebuild.cc is compiled fresh instead of its stub
LINK = ("unlinkd.o AccessLogEntry.o tests/stub_CacheDigest.o tests/stub_CachePeer.o CollapsedForwarding.o ConfigOption.o "
        "ConfigParser.o ETag.o EventLoop.o FadingCounter.o tests/stub_HelperChildConfig.o HttpBody.o HttpHdrCc.o "
        "HttpHdrContRange.o HttpHdrRange.o HttpHdrSc.o HttpHdrScTarget.o HttpHeader.o HttpHeaderTools.o HttpReply.o "
        "tests/stub_HttpRequest.o tests/stub_Instance.o LogTags.o MasterXaction.o MemBuf.o MemObject.o MemStore.o Notes.o "
        "Parsing.o tests/stub_Port.o RemovalPolicy.o RequestFlags.o ResolvedPeers.o StatCounters.o tests/stub_StatHist.o "
        "StoreFileSystem.o StoreIOState.o tests/testStoreSupport.o StoreSwapLogData.o StrList.o String.o Transients.o "
        "tests/stub_access_log.o tests/stub_cache_cf.o tests/stub_cache_manager.o cbdata.o tests/stub_client_db.o "
        "tests/stub_client_side.o tests/stub_client_side_request.o tests/stub_debug.o tests/stub_errorpage.o event.o fatal.o "
        "fd.o fde.o filemap.o tests/stub_fqdncache.o fs_io.o tests/stub_http.o tests/stub_icp.o int.o tests/stub_ipc.o "
        "tests/stub_ipcache.o tests/stub_libanyp.o tests/stub_libauth.o tests/stub_liberror.o tests/stub_libeui.o "
        "tests/stub_libformat.o tests/stub_libicmp.o tests/stub_libip.o tests/stub_liblog.o tests/stub_libmgr.o "
        "tests/stub_libsecurity.o mem_node.o tests/stub_mime.o tests/stub_neighbors.o tests/stub_pconn.o tests/stub_stat.o "
        "stmem.o store.o tests/stub_store_client.o store_io.o store_key_md5.o tests/stub_store_stats.o store_swapout.o "
        "tests/stub_tools.o wordlist.o test_tools.o globals.o SquidMath.o hier_code.o swap_log_op.o http/libhttp.la "
        "parser/libparser.la libsquid.la comm/libcomm.la fs/libfs.la repl/liblru.a DiskIO/libdiskio.la acl/libacls.la "
        "acl/libapi.la acl/libstate.la anyp/libanyp.la eui/libeui.la ipc/libipc.la base/libbase.la mem/libmem.la "
        "store/libstore.la adaptation/libadaptation.la sbuf/libsbuf.la time/libtime.la ../lib/libmisccontainers.la "
        "../lib/libmiscencoding.la ../lib/libmiscutil.la ../compat/libcompatsquid.la "
        "-Wl,--allow-multiple-definition").split()
# src/fs/rock/RockRebuild.cc is #included by the harness unit itself (to reach its file-local classes), so it is
# recompiled from the working tree with the driver; RockDbCell.h is included by both.
FRESH = ["src/fs/rock/RockDbCell.cc", "src/store_rebuild.cc"]

U64 = (1 << 64) - 1
HDR = 40                      # sizeof(Rock::DbCellHeader); the harness uses the real struct
GEOM = {7: 131072, 15: 65536, 31: 32768, 63: 16384}   # N slots <-> slot-size for a 1 MB cache_dir


def impl():
    return hbuild.build("h_rockrebuild", "h_rockrebuild.cc", fresh=FRESH, link=LINK, sanitize=None)


def prebuild():
    impl()


# ---------------------------------------------------------------- case syntax
def meta_tok(m):
    if m in ("Z", "B"):
        return m
    hk, mk0, mk1, ssz, priv, pad = m
    hdrlen = 5 + (21 if hk else 0) + 49 + ((5 + pad) if pad else 0)
    return "K%d,%d,%d,%d,%d,%d,%d" % (hk, mk0 & U64, mk1 & U64, ssz & U64, priv, pad, hdrlen)


def slot_tok(s):
    if s is None:
        return "E"
    if isinstance(s, tuple):
        return "T%d" % s[1]
    i32 = lambda v: max(-(1 << 31), min((1 << 31) - 1, v))
    return "H:%d:%d:%d:%d:%d:%d:%d:%s" % (s["k0"] & U64, s["k1"] & U64, s["esz"] & U64, s["psz"] & 0xFFFFFFFF,
                                          s["ver"] & 0xFFFFFFFF, i32(s["first"]), i32(s["next"]), meta_tok(s["meta"]))


def case_line(N, dbl, slots):
    return "rr.run %d %d %d %s" % (N, GEOM[N], dbl, " ".join(slot_tok(s) for s in slots))


def parse_case(case):
    a = case.split()
    N, ssz, dbl = int(a[1]), int(a[2]), int(a[3])
    slots = []
    for t in a[4:]:
        if t == "E":
            slots.append({"kind": "E", "k0": 0, "k1": 0, "esz": 0, "psz": 0, "ver": 0, "first": 0, "next": 0, "meta": "Z"})
        elif t[0] == "T":
            slots.append({"kind": "T"})
        else:
            f = t.split(":")
            m = f[8]
            if m[0] == "K":
                g = m[1:].split(",")
                m = {"hk": g[0] == "1", "mk0": int(g[1]), "mk1": int(g[2]), "ssz": int(g[3]), "priv": g[4] == "1",
                     "pad": int(g[5]), "hdrlen": int(g[6])}
            slots.append({"kind": "H", "k0": int(f[1]), "k1": int(f[2]), "esz": int(f[3]), "psz": int(f[4]),
                          "ver": int(f[5]), "first": int(f[6]), "next": int(f[7]), "meta": m})
    return N, ssz, dbl, slots


def parse_out(out):
    """-> (counts, entries {f: dict}, slices {i: dict}, free [ids])"""
    head, e, s, f = [x.strip() for x in out.split("|")]
    ents, sls = {}, {}
    for w in e.split()[1:]:
        k, v = w.split("=")
        p = v.split(",")
        k0, k1 = p[7].split(".")
        ents[int(k)] = {"state": int(p[0]), "anch": int(p[1]), "lesize": int(p[2]), "ver": int(p[3]), "writing": int(p[4]),
                        "readers": int(p[5]), "wtbf": int(p[6]), "k0": int(k0), "k1": int(k1), "start": int(p[8]),
                        "swapsz": int(p[9]), "valid": int(p[10])}
    for w in s.split()[1:]:
        k, v = w.split("=")
        p = v.split(",")
        sls[int(k)] = {"more": int(p[0]), "mapped": p[1][0] == "1", "final": p[1][1] == "1", "freed": p[1][2] == "1",
                       "size": int(p[2]), "next": int(p[3])}
    free = [int(x) for x in f.split()[1:]]
    return head, ents, sls, free


# ---------------------------------------------------------------- generator
def fileno(N, k0, k1):
    return ((k0 + k1) & U64) % N


def rand_key(rng, N, want_fileno=None):
    style = rng.random()
    if style < 0.5:
        k0, k1 = rng.randrange(1, 4 * N), rng.randrange(0, 3)
    elif style < 0.8:
        k0, k1 = rng.getrandbits(64), rng.getrandbits(64)
    elif style < 0.9:
        k0, k1 = U64 - rng.randrange(0, 3), rng.randrange(0, 5)      # sum wraps
    else:
        k0, k1 = rng.randrange(0, 3), rng.randrange(0, 3)
    if want_fileno is not None:
        d = (want_fileno - fileno(N, k0, k1)) % N
        k1 = (k1 + d) & U64
        if fileno(N, k0, k1) != want_fileno:        # wrapped: fall back to a small key
            k0, k1 = want_fileno + N * rng.randrange(0, 4), 0
    return k0, k1


def good_meta(rng, k0, k1, total, known):
    pad = rng.choice([0, 0, 0, 1, 7, 60])
    hdrlen = 5 + 21 + 49 + ((5 + pad) if pad else 0)
    if known:
        ssz = rng.choice([0, 0, total, (total - hdrlen) & U64])
    else:
        ssz = rng.choice([0, 0, total])
    return (1, k0, k1, ssz, 0, pad)


def junk_meta(rng):
    return rng.choice(["Z", "B", "B", (1, rng.randrange(9), rng.randrange(9), rng.choice([0, 5, 100]), 0, 0)])


def make_chain(rng, N, ssz, slots, key, ver, L, known=None):
    """place an intact chain of L slots on free positions; returns the list of positions (chain order) or None"""
    freepos = [i for i in range(N) if slots[i] is None]
    if len(freepos) < L:
        return None
    pos = rng.sample(freepos, L)
    if rng.random() < 0.5:
        pos.sort()
    maxp = ssz - HDR
    sizes = [rng.choice([1, 2, 100, rng.randrange(1, 2000), maxp, maxp - 1]) for _ in range(L)]
    total = sum(sizes)
    if known is None:
        known = rng.random() < (0.85 if L == 1 else 0.5)
    for j, p in enumerate(pos):
        ino = (j == 0)
        slots[p] = {"k0": key[0], "k1": key[1], "esz": (total if (known and (ino or rng.random() < 0.3)) else 0),
                    "psz": sizes[j], "ver": ver, "first": pos[0], "next": (pos[j + 1] if j + 1 < L else -1),
                    "meta": (good_meta(rng, key[0], key[1], total, known) if ino else junk_meta(rng))}
    return pos


def mutate_image(rng, N, ssz, slots, chains):
    used = [i for i in range(N) if isinstance(slots[i], dict)]
    if not used:
        return "none"
    i = rng.choice(used)
    s = slots[i]
    k = rng.random()
    other = rng.choice(used)
    if k < 0.12:
        s["psz"] = rng.choice([0, s["psz"] + 1, max(s["psz"] - 1, 0), ssz - HDR, ssz - HDR + 1, (1 << 32) - 1]); return "psz"
    if k < 0.20:
        s["ver"] = rng.choice([0, s["ver"] + 1, 1, (1 << 32) - 1]); return "ver"
    if k < 0.32:
        s["first"] = rng.choice([i, other, -1, N, N - 1, 0, rng.randrange(N)]); return "first"
    if k < 0.50:
        s["next"] = rng.choice([-1, i, other, slots[other]["next"], s["first"], N, N - 1, -2, 0, rng.randrange(N)]); return "next"
    if k < 0.60:
        s["esz"] = rng.choice([0, s["esz"] + 1, max(s["esz"] - 1, 0), s["psz"], 2 * s["psz"], 1 << 40,
                               U64 if rng.random() < 0.25 else 0]); return "esz"
    if k < 0.68:
        o = slots[other]
        s["k0"], s["k1"] = rng.choice([(o["k0"], o["k1"]), rand_key(rng, N, fileno(N, s["k0"], s["k1"])), (0, 0), rand_key(rng, N)])
        return "key"
    if k < 0.80:
        m = s["meta"]
        base = m if isinstance(m, tuple) else (1, s["k0"], s["k1"], 0, 0, 0)
        hk, mk0, mk1, sz, priv, pad = base
        c = rng.random()
        if c < 0.15: s["meta"] = "Z"
        elif c < 0.3: s["meta"] = "B"
        elif c < 0.42: s["meta"] = (0, mk0, mk1, sz, priv, pad)
        elif c < 0.54: s["meta"] = (hk, mk0, mk1, sz, 1, pad)
        elif c < 0.8: s["meta"] = (hk, mk0, mk1, rng.choice([0, 1, s["esz"], s["esz"] + 1, s["psz"], 3 * s["psz"], 1 << 50,
                                                            U64 if rng.random() < 0.2 else 7]), priv, pad)
        else:
            nk = rng.choice([rand_key(rng, N, fileno(N, s["k0"], s["k1"])), rand_key(rng, N), (0, 0)])
            s["meta"] = (hk, nk[0], nk[1], sz, priv, pad)
        return "meta"
    if k < 0.86:
        slots[i] = None; return "zero"
    if k < 0.94:
        freepos = [j for j in range(N) if slots[j] is None]
        if freepos:
            j = rng.choice(freepos)
            slots[j] = dict(s)
            if rng.random() < 0.4: slots[j]["first"] = j
            if rng.random() < 0.3: slots[j]["ver"] = s["ver"] + 1
            return "dup"
        return "none"
    o = slots[other]
    s["next"], o["next"] = o["next"], s["next"]
    return "swapnext"


def gen_image(rng):
    N = rng.choice([7, 7, 7, 15, 15, 15, 15, 31, 31, 31, 63])
    ssz = GEOM[N]
    slots = [None] * N
    chains = []
    nent = rng.choice([0, 1, 1, 2, 2, 3, 4, 6]) if N > 7 else rng.choice([0, 1, 1, 2, 2, 3])
    keys = []
    for _ in range(nent):
        r = rng.random()
        if keys and r < 0.15:
            key = rng.choice(keys)                                            # same key again (another version)
        elif keys and r < 0.30:
            k = rng.choice(keys); key = rand_key(rng, N, fileno(N, k[0], k[1]))  # colliding fileno, other key
        else:
            key = rand_key(rng, N)
        keys.append(key)
        L = rng.choice([1, 1, 1, 2, 2, 3, 4])
        c = make_chain(rng, N, ssz, slots, key, rng.choice([1, 1, 2, 7, 1000]), L)
        if c:
            chains.append(c)
    muts = []
    r = rng.random()
    nm = 0 if r < 0.35 else (1 if r < 0.7 else (2 if r < 0.88 else rng.randrange(3, 7)))
    for _ in range(nm):
        muts.append(mutate_image(rng, N, ssz, slots, chains))
    if rng.random() < 0.1:
        cut = rng.randrange(0, N)
        k = rng.choice([0, 0, 1, 39, 20])
        for j in range(cut, N):
            slots[j] = ("T", k if j == cut else 0)
    dbl = 1 if rng.random() < 0.08 else 0
    return case_line(N, dbl, slots)


def gen_cases(rng, n):
    return [gen_image(rng) for _ in range(n)]


# ---------------------------------------------------------------- oracle: the property, stated on the image and the index
def sane(h, N, ssz):
    return (h["kind"] == "H" and 0 <= h["first"] < N and -1 <= h["next"] < N and h["ver"] > 0 and
            0 < h["psz"] <= ssz - HDR)


def is_empty(h):
    return h["kind"] != "T" and h["first"] == 0 and h["next"] == 0 and h["psz"] == 0


def intact_chains(N, ssz, slots):
    """Chains that are intact on disk and not interfered with by anything else in the image, as
    {inode: (key, [slot ids], total size)}: the inode names itself as first slot and carries well-formed swap
    metadata for the same key; following nextSlot visits distinct sane slots with the same key, version and
    firstSlot and ends with -1; the payload sizes add up to the declared size (inode entrySize, else the swap
    metadata size, else whatever the chain holds); no other used slot hashes to the same index position and no
    slot outside the chain links into it."""
    live = [i for i in range(N) if slots[i]["kind"] == "H" and not is_empty(slots[i]) and sane(slots[i], N, ssz)]
    res = {}
    for ino in live:
        h = slots[ino]
        m = h["meta"]
        if h["first"] != ino or not isinstance(m, dict) or not m["hk"] or m["priv"]:
            continue
        if (m["mk0"], m["mk1"]) != (h["k0"], h["k1"]) or (h["k0"], h["k1"]) == (0, 0):
            continue
        chain, cur, ok = [], ino, True
        while cur != -1:
            if cur in chain or cur not in live:
                ok = False; break
            c = slots[cur]
            if (c["k0"], c["k1"], c["ver"], c["first"]) != (h["k0"], h["k1"], h["ver"], ino):
                ok = False; break
            chain.append(cur)
            cur = c["next"]
        if not ok:
            continue
        total = sum(slots[c]["psz"] for c in chain)
        E = h["esz"]
        if E:
            if E != total or m["ssz"] not in (0, E, (E - m["hdrlen"]) & U64):
                continue
        elif m["ssz"] not in (0, total):
            continue
        f = fileno(N, h["k0"], h["k1"])
        if any(i not in chain and fileno(N, slots[i]["k0"], slots[i]["k1"]) == f for i in live):
            continue
        if any(i not in chain and slots[i]["next"] in chain for i in live):
            continue
        res[ino] = ((h["k0"], h["k1"]), chain, total)
    return res


# signatures of the defects the unchanged tree is known to have (known_findings.d/C57.json); a case that shows
# one of these and also some other violation is reported under the other one
KNOWN_CLASSES = ("oracle:crash-cross-linked", "oracle:crash-doublecheck-cross-linked", "oracle:key-mix", "oracle:chain-slot-free",
                 "oracle:version-mix", "oracle:first-slot-mix", "oracle:key-from-metadata", "oracle:key-misplaced")


def cross_linked(N, ssz, slots):
    live = [i for i in range(N) if slots[i]["kind"] == "H" and not is_empty(slots[i]) and sane(slots[i], N, ssz)]
    return any(slots[i]["next"] in live and (slots[slots[i]["next"]]["k0"], slots[slots[i]["next"]]["k1"]) != (slots[i]["k0"], slots[i]["k1"])
               for i in live)


def violations(case, out):
    """all the ways in which the implementation's index violates C57 on this image: [(signature, description)]"""
    N, ssz, dbl, slots = parse_case(case)
    if not out.startswith("ok "):
        # why did it die? (only used to give the known defects their own signatures)
        if out.startswith("CRASH assert") and cross_linked(N, ssz, slots):
            return [("oracle:crash-cross-linked", "rebuild aborted on an image whose chains are linked across keys: " + out[:80])]
        if out.startswith("CRASH exc") and dbl and cross_linked(N, ssz, slots):
            return [("oracle:crash-doublecheck-cross-linked", "rebuild died in the -S slot validation pass on an image whose chains are linked across keys: " + out[:80])]
        return [("oracle:crash", "rebuild did not terminate normally: " + out[:120])]
    try:
        head, ents, sls, free = parse_out(out)
    except Exception as ex:
        return [("oracle:unparsable", "unparsable implementation output (%s)" % ex)]
    v = []
    if len(set(free)) != len(free):
        v.append(("oracle:double-free", "a slot is in the free-slot index twice"))
    freeset = set(free)
    owner = {}
    indexed = {}
    for f in sorted(ents):
        e = ents[f]
        if e["writing"]:
            v.append(("oracle:left-locked", "entry %d is still locked for writing after the rebuild" % f))
            continue
        if e["readers"] or e["wtbf"] or (e["k0"], e["k1"]) == (0, 0):
            continue
        # e is readable: walk its chain
        chain, cur, broken = [], e["start"], False
        while cur != -1:
            if not (0 <= cur < N) or cur not in sls or sls[cur]["size"] <= 0:
                v.append(("oracle:chain-broken", "entry %d: chain %s leads to slot %d which holds nothing" % (f, chain, cur)))
                broken = True; break
            if cur in chain:
                v.append(("oracle:chain-cycle", "entry %d: chain %s returns to slot %d" % (f, chain, cur)))
                broken = True; break
            chain.append(cur)
            cur = sls[cur]["next"]
        if broken:
            continue
        if not chain:
            v.append(("oracle:chain-empty", "entry %d is readable but has no slots" % f))
            continue
        ondisk = True
        for c in chain:
            if c in owner:
                v.append(("oracle:shared-slot", "slot %d is used by entries %d and %d" % (c, owner[c], f)))
            owner[c] = f
            if c in freeset:
                v.append(("oracle:chain-slot-free", "entry %d uses slot %d which is also in the free-slot index" % (f, c)))
            d = slots[c]
            if d["kind"] != "H" or is_empty(d) or not sane(d, N, ssz):
                v.append(("oracle:slot-not-on-disk", "entry %d uses slot %d which holds no valid cell on disk" % (f, c)))
                ondisk = False
            elif d["psz"] != sls[c]["size"] or d["next"] != sls[c]["next"]:
                v.append(("oracle:slice-differs", "entry %d slot %d: index says size/next %d/%d, disk says %d/%d"
                          % (f, c, sls[c]["size"], sls[c]["next"], d["psz"], d["next"])))
        total = sum(sls[c]["size"] for c in chain)
        if total != e["swapsz"]:
            if total == e["lesize"] and total < e["swapsz"]:
                v.append(("oracle:size-sum-short-chain", "entry %d: chain %s ends after %d of the %d bytes the entry declares"
                          % (f, chain, total, e["swapsz"])))
            else:
                v.append(("oracle:size-sum", "entry %d: payload sizes of chain %s add up to %d, entry size is %d" % (f, chain, total, e["swapsz"])))
        if not ondisk:
            continue
        m0 = slots[chain[0]]["meta"]
        if slots[chain[0]]["first"] == chain[0] and not (isinstance(m0, dict) and m0["hk"] and not m0["priv"]):
            v.append(("oracle:bad-metadata-indexed", "entry %d is indexed although its inode carries no usable public swap metadata" % f))
        if slots[chain[0]]["first"] != chain[0]:
            v.append(("oracle:no-inode", "entry %d: chain %s does not start at an inode slot" % (f, chain)))
        keys = set((slots[c]["k0"], slots[c]["k1"]) for c in chain)
        if len(keys) > 1:
            v.append(("oracle:key-mix", "entry %d: chain %s mixes slots of different keys" % (f, chain)))
        elif (e["k0"], e["k1"]) not in keys:
            v.append(("oracle:key-from-metadata", "entry %d is indexed under a key none of its slots carries" % f))
        if fileno(N, e["k0"], e["k1"]) != f:
            v.append(("oracle:key-misplaced", "entry %d is indexed under a key that hashes elsewhere" % f))
        if len(set(slots[c]["ver"] for c in chain)) > 1:
            v.append(("oracle:version-mix", "entry %d: chain %s mixes slots of different versions" % (f, chain)))
        if any(slots[c]["first"] != chain[0] for c in chain) and slots[chain[0]]["first"] == chain[0]:
            v.append(("oracle:first-slot-mix", "entry %d: chain %s holds a slot that names another first slot" % (f, chain)))
        indexed[chain[0]] = ((e["k0"], e["k1"]), chain, total)
    for ino, want in sorted(intact_chains(N, ssz, slots).items()):
        if indexed.get(ino) != want:
            v.append(("oracle:intact-not-indexed", "intact, unique chain %s of key %s is not indexed as such (got %s)"
                      % (want[1], want[0], indexed.get(ino))))
    return v


def oracle(case, out):
    """None, or (signature, description) of a violation of C57 by the implementation's answer"""
    v = violations(case, out)
    if not v:
        return None
    fresh = [x for x in v if not x[0].startswith(KNOWN_CLASSES)]
    return (fresh or v)[0]


def oracle_sig(case, out):
    return oracle(case, out)


def mutate(rng, case):
    """a neighbouring image: one header field of one cell changed, a cell zeroed, or a cell copied"""
    a = case.split()
    N = int(a[1])
    idx = [k for k in range(4, len(a)) if a[k].startswith("H:")]
    if not idx:
        return case
    k = rng.choice(idx)
    f = a[k].split(":")
    c = rng.random()
    if c < 0.1:
        a[k] = "E"
    elif c < 0.2:
        e = [j for j in range(4, len(a)) if a[j] == "E"]
        if e:
            a[rng.choice(e)] = a[k]
    else:
        j = rng.choice([3, 4, 5, 6, 7, 7, 6])
        v = int(f[j])
        if j in (6, 7):
            v = rng.choice([-1, 0, k - 4, rng.randrange(N), N - 1, N])
        elif j == 5:
            v = rng.choice([0, 1, v + 1]) & 0xFFFFFFFF
        elif j == 4:
            v = rng.choice([0, 1, v + 1, max(v - 1, 0)]) & 0xFFFFFFFF
        else:
            v = rng.choice([0, v + 1, max(v - 1, 0), int(f[4])]) & U64
        f[j] = str(v)
        a[k] = ":".join(f)
    return " ".join(a)


def kind(c, o):
    if not o.startswith("ok"):
        return o.split()[0] + ":" + (o.split()[1] if len(o.split()) > 1 else "")
    try:
        _, ents, _, _ = parse_out(o)
        n = sum(1 for e in ents.values() if not e["writing"] and not e["wtbf"] and (e["k0"] or e["k1"]))
        bad = sum(1 for e in ents.values() if e["state"] == 3)
        return "readable=%s,rejected=%s" % (min(n, 2), min(bad, 1))
    except Exception:
        return "unparsable"


def run(res, tier):
    res.rule = ("db images of 7/15/31/63 slots: 0-6 intact chains of 1-4 cells (keys small, random 64-bit, wrapping, (0,0); colliding "
                "index positions; repeated keys/versions; known or unknown entry size; swap metadata with size 0 / total / total-header) "
                "then 0-6 mutations (payloadSize, version, firstSlot, nextSlot incl. self/cross/out-of-range links, entrySize incl. "
                "all-ones, key, metadata zeroed/garbage/keyless/private/wrong size/other key, zeroed cell, copied cell, swapped links), "
                "optional truncation of the file, optional -S; a case is non-trivial when the image holds at least one cell")
    std.run_standard(res, PID, tier, area="rockrebuild", build_impl=impl, gen_cases=gen_cases, oracle=oracle_sig,
                     corr_name="RockrebuildModel vs src/fs/rock/RockRebuild.cc, RockDbCell.h, src/store_rebuild.cc",
                     gens=["rockrebuild"], n_quick=1200, n_thorough=30000, seed_salt=57, mutate=mutate,
                     kind_fn=kind, nontrivial_fn=lambda c, o: " H:" in c)
