(* Properties_C20.v — C20: successful unsafe requests invalidate cached responses.
   Statements only; proofs live in PurgeProofs.v. The method attribute table, PathChars, the %XX text and the case
   folding come from gen/PurgeMethods_gen.v and gen/PurgeUri_gen.v, regenerated from src/http/RequestMethod.cc and
   src/anyp/Uri.cc on every run. *)
Require Import SquidV.Bytes SquidV.PurgeModel SquidV.PurgeProofs.
Require Import SquidV.gen.PurgeMethods_gen SquidV.gen.PurgeUri_gen.
Local Open Scope N_scope.

(* ---------------- which methods invalidate (table sweeps over the regenerated table) ---------------- *)
Theorem C20_invalidating_methods_purge : forall id, should_invalidate id = true -> purges_others id = true.
Proof. exact should_invalidate_purges. Qed.
Print Assumptions C20_invalidating_methods_purge.

Theorem C20_post_put_delete_and_unknown_methods_invalidate :
  should_invalidate pg_METHOD_POST = true /\ should_invalidate pg_METHOD_PUT = true /\
  should_invalidate pg_METHOD_DELETE = true /\ should_invalidate pg_METHOD_OTHER = true.
Proof. exact named_methods_invalidate. Qed.
Print Assumptions C20_post_put_delete_and_unknown_methods_invalidate.

(* a method token that matches no registered image is METHOD_OTHER, whatever relaxed_header_parser says *)
Theorem C20_unregistered_method_token_is_other : forall relaxed s,
  s <> [] -> forallb (fun e => negb (case_eqb (snd (fst e)) s)) pg_methods = true ->
  method_of_image relaxed s = pg_METHOD_OTHER.
Proof. exact unknown_method_is_other. Qed.
Print Assumptions C20_unregistered_method_token_is_other.

(* purgeEntriesByUrl evicts the keys of exactly the methods whose responses this Squid caches: GET and HEAD *)
Theorem C20_evicted_methods_are_get_and_head : cacheable_ids pg_methods = [pg_METHOD_GET; pg_METHOD_HEAD].
Proof. exact cacheable_are_get_head. Qed.
Print Assumptions C20_evicted_methods_are_get_and_head.

(* ---------------- first sentence: the target URL ---------------- *)
(* every forwarded exchange with a purging method and a reply status < 400 hands the GET and HEAD keys of the request's
   effective URI to evictIfFound — all requests (any URL form, any cache state of the Uri object), all replies *)
Theorem C20_target_evicted : forall rq rp m,
  purges_others (rq_method rq) = true -> rp_status rp < 400 -> In m (cacheable_ids pg_methods) ->
  In (m, request_uri rq) (evicted_keys rq rp).
Proof. exact target_evicted. Qed.
Print Assumptions C20_target_evicted.

(* ... and afterwards no lookup finds them, whatever the store held (POST, PUT, DELETE, unknown methods: shouldInvalidate) *)
Theorem C20_target_not_served_after_success : forall rq rp s,
  should_invalidate (rq_method rq) = true -> rp_status rp < 400 ->
  store_has (evict_all (evicted_keys rq rp) s) (pg_METHOD_GET, request_uri rq) = false /\
  store_has (evict_all (evicted_keys rq rp) s) (pg_METHOD_HEAD, request_uri rq) = false.
Proof. exact target_not_served_for_invalidating. Qed.
Print Assumptions C20_target_not_served_after_success.

(* an unknown extension method evicts the target before it is forwarded, so even when the reply is an error *)
Theorem C20_unknown_method_evicts_target_whatever_the_reply : forall rq rp m,
  rq_method rq = pg_METHOD_OTHER -> In m (cacheable_ids pg_methods) -> In (m, request_uri rq) (evicted_keys rq rp).
Proof. exact other_method_target_evicted. Qed.
Print Assumptions C20_unknown_method_evicts_target_whatever_the_reply.

Theorem C20_nothing_evicted_without_purging_method : forall rq rp,
  purges_others (rq_method rq) = false -> (rq_method rq =? pg_METHOD_OTHER) = false -> evicted_keys rq rp = [].
Proof. exact nothing_evicted_without_purging_method. Qed.
Print Assumptions C20_nothing_evicted_without_purging_method.

Theorem C20_nothing_evicted_on_error_reply : forall rq rp,
  400 <= rp_status rp -> (rq_method rq =? pg_METHOD_OTHER) = false -> evicted_keys rq rp = [].
Proof. exact nothing_evicted_on_error_reply. Qed.
Print Assumptions C20_nothing_evicted_on_error_reply.

(* the store abstraction: an evicted key is not found afterwards; a key that was not evicted is untouched *)
Theorem C20_evicted_key_not_found : forall ks s k, In k ks -> store_has (evict_all ks s) k = false.
Proof. exact evicted_not_in_store. Qed.
Print Assumptions C20_evicted_key_not_found.

Theorem C20_other_keys_untouched : forall ks s k,
  (forall k', In k' ks -> key_eqb k k' = false) -> store_has (evict_all ks s) k = store_has s k.
Proof. exact not_evicted_stays. Qed.
Print Assumptions C20_other_keys_untouched.

(* ---------------- second sentence: Location / Content-Location ---------------- *)
(* sameUrlHosts (pointer walk over two C strings) is byte equality of the authorities of scheme://authority/path URLs *)
Theorem C20_same_url_hosts_is_authority_equality : forall s1 s2 a1 a2 p1 p2,
  no_byte COLON s1 = true -> no_byte COLON s2 = true -> no_byte SLASH a1 = true -> no_byte SLASH a2 = true -> a1 <> [] ->
  same_url_hosts (s1 ++ SEP ++ a1 ++ SLASH :: p1) (s2 ++ SEP ++ a2 ++ SLASH :: p2) = list_eqb a1 a2.
Proof. exact same_url_hosts_spec. Qed.
Print Assumptions C20_same_url_hosts_is_authority_equality.

(* an absolute URL with the request's authority (byte-identical), any scheme, any path: its GET/HEAD keys are evicted *)
Theorem C20_location_same_authority_url_evicted_partial : forall rq rp s a s2 p2 m,
  wf_request rq s a -> purges_others (rq_method rq) = true -> rp_status rp < 400 ->
  forallb scheme_byte s2 = true -> no_nul (s2 ++ SEP ++ a ++ SLASH :: p2) = true ->
  rp_location rp = Some (s2 ++ SEP ++ a ++ SLASH :: p2) \/ rp_content_location rp = Some (s2 ++ SEP ++ a ++ SLASH :: p2) ->
  In m (cacheable_ids pg_methods) ->
  In (m, s2 ++ SEP ++ a ++ SLASH :: p2) (evicted_keys rq rp).
Proof. exact location_same_authority_evicted. Qed.
Print Assumptions C20_location_same_authority_url_evicted_partial.

(* an absolute-path reference: the key evicted is scheme://authority followed by Encode(reference, PathChars) *)
Theorem C20_location_absolute_path_evicted_partial : forall rq rp s a p m,
  wf_request rq s a -> purges_others (rq_method rq) = true -> rp_status rp < 400 ->
  no_nul (SLASH :: p) = true ->
  rp_location rp = Some (SLASH :: p) \/ rp_content_location rp = Some (SLASH :: p) ->
  In m (cacheable_ids pg_methods) ->
  In (m, s ++ SEP ++ a ++ uri_encode pg_AbsPathChars (SLASH :: p)) (evicted_keys rq rp).
Proof. exact location_absolute_path_evicted. Qed.
Print Assumptions C20_location_absolute_path_evicted_partial.

(* against the independent RFC 3986 section 5.2 resolver (PurgeProofs.rfc_resolve): references that are already in normal
   form (no fragment, no dot segments, lower-case scheme and host, path characters only) name exactly the URL evicted *)
Theorem C20_absolute_path_reference_in_normal_form_partial : forall rq rp s a p m,
  wf_request rq s a -> purges_others (rq_method rq) = true -> rp_status rp < 400 ->
  (hd0 p =? SLASH) = false -> strip_fragment (SLASH :: p) = SLASH :: p -> remove_dot_segments (SLASH :: p) = SLASH :: p ->
  forallb pg_AbsPathChars (SLASH :: p) = true ->
  rp_location rp = Some (SLASH :: p) \/ rp_content_location rp = Some (SLASH :: p) ->
  In m (cacheable_ids pg_methods) ->
  names_same_authority s a (uri_path (rq_url rq)) (SLASH :: p) (s ++ SEP ++ a ++ SLASH :: p) /\
  In (m, s ++ SEP ++ a ++ SLASH :: p) (evicted_keys rq rp).
Proof. exact absolute_path_reference_in_normal_form. Qed.
Print Assumptions C20_absolute_path_reference_in_normal_form_partial.

Theorem C20_absolute_url_in_normal_form_partial : forall rq rp s a p2 m,
  wf_request rq s a -> purges_others (rq_method rq) = true -> rp_status rp < 400 ->
  s <> [] -> map lower s = s -> map lower a = a ->
  strip_fragment (s ++ SEP ++ a ++ SLASH :: p2) = s ++ SEP ++ a ++ SLASH :: p2 ->
  remove_dot_segments (SLASH :: p2) = SLASH :: p2 -> no_nul (s ++ SEP ++ a ++ SLASH :: p2) = true ->
  rp_location rp = Some (s ++ SEP ++ a ++ SLASH :: p2) \/ rp_content_location rp = Some (s ++ SEP ++ a ++ SLASH :: p2) ->
  In m (cacheable_ids pg_methods) ->
  names_same_authority s a (uri_path (rq_url rq)) (s ++ SEP ++ a ++ SLASH :: p2) (s ++ SEP ++ a ++ SLASH :: p2) /\
  In (m, s ++ SEP ++ a ++ SLASH :: p2) (evicted_keys rq rp).
Proof. exact absolute_url_in_normal_form. Qed.
Print Assumptions C20_absolute_url_in_normal_form_partial.

(* a relative-path reference: the key evicted is scheme://authority + Encode(directory of the request path + reference) *)
Theorem C20_location_relative_path_evicted_partial : forall rq rp s a d seg h m,
  wf_request rq s a -> purges_others (rq_method rq) = true -> rp_status rp < 400 ->
  no_nul h = true -> url_is_relative h = true -> (hd0 h =? SLASH) = false ->
  u_path (rq_url rq) = d ++ SLASH :: seg -> no_byte SLASH seg = true ->
  rp_location rp = Some h \/ rp_content_location rp = Some h ->
  In m (cacheable_ids pg_methods) ->
  In (m, s ++ SEP ++ a ++ uri_encode pg_AbsPathChars (d ++ SLASH :: h)) (evicted_keys rq rp).
Proof. exact location_relative_path_evicted. Qed.
Print Assumptions C20_location_relative_path_evicted_partial.

(* ... and against the RFC 3986 resolver (5.2.3 merge): a relative-path reference in normal form names exactly that URL *)
Theorem C20_relative_path_reference_in_normal_form_partial : forall rq rp s a d seg h m,
  wf_request rq s a -> purges_others (rq_method rq) = true -> rp_status rp < 400 ->
  u_path (rq_url rq) = d ++ SLASH :: seg -> no_byte SLASH seg = true ->
  h <> [] -> (hd0 h =? SLASH) = false -> url_is_relative h = true ->
  strip_fragment h = h -> remove_dot_segments (d ++ SLASH :: h) = d ++ SLASH :: h ->
  forallb pg_AbsPathChars (d ++ SLASH :: h) = true ->
  rp_location rp = Some h \/ rp_content_location rp = Some h ->
  In m (cacheable_ids pg_methods) ->
  names_same_authority s a (uri_path (rq_url rq)) h (s ++ SEP ++ a ++ d ++ SLASH :: h) /\
  In (m, s ++ SEP ++ a ++ d ++ SLASH :: h) (evicted_keys rq rp).
Proof. exact relative_path_reference_in_normal_form. Qed.
Print Assumptions C20_relative_path_reference_in_normal_form_partial.

(* URLs of other authorities are left alone: when the headers name another authority, every cached URL other than the
   request URL is found exactly as before *)
Theorem C20_other_authority_untouched : forall rq rp s a s2 a2 p2 t m st,
  wf_request rq s a -> purges_others (rq_method rq) = true ->
  forallb scheme_byte s2 = true -> no_byte SLASH a2 = true -> a <> a2 -> no_nul (s2 ++ SEP ++ a2 ++ SLASH :: p2) = true ->
  (forall h, rp_location rp = Some h \/ rp_content_location rp = Some h -> h = s2 ++ SEP ++ a2 ++ SLASH :: p2) ->
  t <> request_uri rq ->
  store_has (evict_all (evicted_keys rq rp) st) (m, t) = store_has st (m, t).
Proof. exact other_authority_untouched. Qed.
Print Assumptions C20_other_authority_untouched.

(* ---------------- the second sentence at full strength is FALSE for the code as it is ---------------- *)
Theorem C20_named_url_always_evicted_refuted : ~ named_url_always_evicted.
Proof. exact named_url_always_evicted_is_false. Qed.
Print Assumptions C20_named_url_always_evicted_refuted.

(* POST http://h:8/d/u answered 200 with Location: <ref>, http://h:8/d/v cached: it is named by <ref> and stays cached *)
(* Location: /d/./v, /d/x/../v, ./v, ../d/v *)
Theorem C20_dot_segments_refuted :
  stays_cached (B [47;100;47;46;47;118]) /\ stays_cached (B [47;100;47;120;47;46;46;47;118]) /\
  stays_cached (B [46;47;118]) /\ stays_cached (B [46;46;47;100;47;118]).
Proof. exact dot_segments_stay. Qed.
Print Assumptions C20_dot_segments_refuted.

(* Location: //h:8/d/v *)
Theorem C20_network_path_reference_refuted : stays_cached (B [47;47;104;58;56;47;100;47;118]).
Proof. exact network_path_reference_stays. Qed.
Print Assumptions C20_network_path_reference_refuted.

(* Location: HTTP://h:8/d/v, http://H:8/d/v *)
Theorem C20_letter_case_refuted :
  stays_cached (B [72;84;84;80;58;47;47;104;58;56;47;100;47;118]) /\
  stays_cached (B [104;116;116;112;58;47;47;72;58;56;47;100;47;118]).
Proof. exact letter_case_stays. Qed.
Print Assumptions C20_letter_case_refuted.

(* Location: http://h:8/d/v#f, /d/v#f *)
Theorem C20_fragment_refuted :
  stays_cached (B [104;116;116;112;58;47;47;104;58;56;47;100;47;118;35;102]) /\ stays_cached (B [47;100;47;118;35;102]).
Proof. exact fragment_stays. Qed.
Print Assumptions C20_fragment_refuted.

(* ---------------- component facts ---------------- *)
(* addRelativePath computes the RFC 3986 5.2.3 merge (base path up to its last "/", then the reference) ... *)
Theorem C20_add_relative_path_merges : forall u d seg rel,
  u_urn u = false -> u_path u = d ++ SLASH :: seg -> no_byte SLASH seg = true ->
  u_path (uri_add_relative_path rel u) = d ++ SLASH :: rel.
Proof. exact add_relative_path_merges. Qed.
Print Assumptions C20_add_relative_path_merges.

(* ... and, like path(p), drops the result caches of absolute() / absolutePath() (touch()) *)
Theorem C20_add_relative_path_clears_caches : forall u rel,
  u_urn u = false ->
  u_abs_cache (uri_add_relative_path rel u) = [] /\ u_abspath_cache (uri_add_relative_path rel u) = [].
Proof. exact add_relative_path_clears_caches. Qed.
Print Assumptions C20_add_relative_path_clears_caches.

(* the bytes absolutePath() leaves verbatim: PathChars plus the query delimiter (path_ holds path and query) *)
Theorem C20_absolute_path_keeps_path_chars_and_query_delimiter : forall c,
  c < 256 -> pg_AbsPathChars c = pg_PathChars c || (c =? 63).
Proof. exact abs_path_chars_spec. Qed.
Print Assumptions C20_absolute_path_keeps_path_chars_and_query_delimiter.

(* absolute() returns the same text when asked again, whatever the caches held *)
Theorem C20_effective_request_uri_stable : forall rq,
  effective_request_uri (snd (effective_request_uri rq)) = effective_request_uri rq.
Proof. exact eru_idem. Qed.
Print Assumptions C20_effective_request_uri_stable.

(* the requests the correspondence run feeds to the model satisfy wf_request *)
Theorem C20_glue_requests_well_formed : forall relaxed meth s a path,
  forallb scheme_byte s = true -> no_byte SLASH a = true -> a <> [] -> no_nul (s ++ SEP ++ a) = true -> hd0 path = SLASH ->
  wf_request (request_of relaxed meth s a path) s a.
Proof. exact request_of_wf. Qed.
Print Assumptions C20_glue_requests_well_formed.

(* ---------------- hypotheses are satisfiable / the spec behaves ---------------- *)
Example C20_ex_wf : wf_request w_rq w_http w_auth /\ purges_others (rq_method w_rq) = true.
Proof. exact (conj w_rq_wf w_rq_purges). Qed.
Example C20_ex_spec_resolves_plain_references :
  names_same_authority w_http w_auth w_u (B [47;100;47;118]) w_target /\
  names_same_authority w_http w_auth w_u (B [104;116;116;112;58;47;47;104;58;56;47;100;47;118]) w_target /\
  names_same_authority w_http w_auth w_u [] (w_http ++ SEP ++ w_auth ++ w_u) /\
  rfc_resolve w_http w_auth w_u (B [104;116;116;112;58;47;47;111;58;56;47;100;47;118]) = Some (w_http, B [111;58;56], B [47;100;47;118]).
Proof. exact spec_examples. Qed.
Example C20_ex_normal_form_hypotheses :
  strip_fragment (B [47;100;47;118]) = B [47;100;47;118] /\ remove_dot_segments (B [47;100;47;118]) = B [47;100;47;118] /\
  forallb pg_AbsPathChars (B [47;100;47;118]) = true /\ map lower w_http = w_http /\ map lower w_auth = w_auth /\
  u_path (rq_url w_rq) = B [47;100] ++ SLASH :: B [117] /\ url_is_relative (B [118]) = true /\ strip_fragment (B [118]) = B [118].
Proof. exact normal_form_examples. Qed.
Example C20_ex_plain_forms_are_evicted :
  store_has (evict_all (evicted_keys w_rq (w_rp (B [47;100;47;118]))) [(pg_METHOD_GET, w_target)]) (pg_METHOD_GET, w_target) = false /\
  store_has (evict_all (evicted_keys w_rq (w_rp (B [104;116;116;112;58;47;47;104;58;56;47;100;47;118]))) [(pg_METHOD_GET, w_target)])
            (pg_METHOD_GET, w_target) = false /\
  store_has (evict_all (evicted_keys w_rq (w_rp (B [118]))) [(pg_METHOD_GET, w_target)]) (pg_METHOD_GET, w_target) = false.
Proof. exact plain_forms_evicted. Qed.
Example C20_ex_method_tokens :
  method_of_image true [80;79;83;84] = pg_METHOD_POST /\ method_of_image true [112;117;116] = pg_METHOD_PUT /\
  method_of_image false [112;117;116] = pg_METHOD_OTHER /\ method_of_image true [80;65;84;67;72] = pg_METHOD_OTHER /\
  purges_others (method_of_image true [79;80;84;73;79;78;83]) = false.
Proof. exact method_token_examples. Qed.
