"""C39: the ICP, HTCP and SNMP listeners tolerate arbitrary datagrams.

Unit part: bounds-checked Gallina models of the datagram decoders (AdversarialModel.v) against the real decoders compiled
from the working tree with AddressSanitizer (harness/h_adversarial.cc: lib/snmplib fresh, src/icp_v2.cc + icp_v3.cc fresh,
src/htcp.cc #included for its static unpackers, linked against the objects of the in-tree squid build).
End-to-end part: the real squid with icp_port/htcp_port/snmp_port enabled and permissive access lists receives a storm of
valid / truncated / mutated / random datagrams; reply-or-not is compared with the model's prediction, liveness is probed
over HTTP after every batch and cache.log is scanned.

This file also holds the helpers shared with C09 (checks/c09.py imports them)."""
import concurrent.futures, os, random, re, select, socket, struct, time
from vlib import std, hbuild, coq, corr, common, lab

PID = "C39"
META = {
    "text": "Bounds-checked models (AdversarialModel.v: every access of a receive buffer or fixed destination goes through a "
            "checked read/write with a distinct OOB outcome) of asn_parse_length/header/int/unsigned_int/string/objid, "
            "snmp_msg_Decode + snmp_pdu_decode + snmp_var_DecodeVarBind, the ICP header/length/URL checks of icpHandleUdp / "
            "icpHandleIcpV2 / icpHandleIcpV3 / icpGetUrl, and htcpHandleMsg / htcpUnpackSpecifier / htcpUnpackDetail with their "
            "in-place NUL termination. Theorems (Properties_C39.v, closed under the global context): for EVERY datagram and "
            "EVERY stale buffer content the ICP and HTCP decoders never leave their receive buffers (sizes and receive limits "
            "regenerated from the tree), every decoded field lies inside the received bytes, and no loop budget is exhausted; "
"the same is proved for SNMP (every datagram up to the receive limit; on any object one spare byte after the decoded "
            "bytes suffices) since /repo 71f8893 added asn_header_fits to the ASN.1 readers -- the former finding "
            "C39-snmp-tail-overread (a 4095-byte datagram read 1..3 bytes past snmpHandleUdp's buffer) is now a theorem and a "
            "regression case. Tie: constants, bit-field maps and receive limits regenerated from the tree; "
            "extracted model diffed against the ASan-built real decoders on generated datagrams; reply/no-reply of the "
            "running squid diffed against the model on a datagram storm with HTTP liveness probes.",
    "note": "partial: the proofs are about the modelled decoders only. What squid does with a decoded message (ACL checks, "
            "store lookups, SNMP agent tree walk, reply construction, cache-peer bookkeeping) and use-after-free in general "
            "rest on the correspondence runs: AddressSanitizer on the unit harness, crash/assert/liveness detection on the "
            "normally built binary (an ASan+UBSan build of the whole proxy is opt-in: thorough tier with VERIF_ASAN_SQUID=1, not "
            "exercised so far). htcpUnpackDetail is reached only by the unit harness (end to end it needs an outstanding query "
            "to a configured HTCP peer); snmp_core.cc / icpHandleUdp / htcpRecv themselves run only end to end, their buffer "
            "sizes and receive limits are tied by the regenerated tables. Signed left shifts in asn_parse_int (undefined behaviour, not a memory "
            "error) are excluded from the sanitizer set. Trusted: Coq kernel, extraction, gen/gen_adversarial.cc, "
            "gen/gen_udpbufs.py (text patterns), harness/h_adversarial.cc, vlib/lab.py.",
    "technique": "Coq proof (invariant 'cursor + remaining length <= received length' carried through every reader, induction on "
                 "loop fuel) + extracted-model differential correspondence against "
                 "AddressSanitizer-instrumented real decoders + end-to-end datagram storm on the running squid",
}

# ------------------------------------------------------------------ build recipe
# the objects and convenience libraries of the in-tree squid link (cd src && make -n squid | grep mode=link), minus
# main.o (replaced by tests/stub_main_cc.o + the harness's main) and htcp.o (htcp.cc is #included by the harness)
SQUID_OBJS = """AclRegs.o AuthReg.o dns_internal.o ipc.o snmp_core.o snmp_agent.o unlinkd.o AccessLogEntry.o AsyncEngine.o
BodyPipe.o CacheDigest.o CachePeer.o CachePeers.o CollapsedForwarding.o CommandLine.o ConfigOption.o ConfigParser.o
CpuAffinity.o CpuAffinityMap.o CpuAffinitySet.o Downloader.o ETag.o EventLoop.o ExternalACLEntry.o FadingCounter.o FwdState.o
HappyConnOpener.o HeaderMangling.o HttpBody.o HttpControlMsg.o HttpHdrCc.o HttpHdrContRange.o HttpHdrRange.o HttpHdrSc.o
HttpHdrScTarget.o HttpHeader.o HttpHeaderTools.o HttpReply.o HttpRequest.o HttpUpgradeProtocolAccess.o Instance.o LogTags.o
MasterXaction.o MemBuf.o MemObject.o MemStore.o Notes.o Parsing.o PeerPoolMgr.o Pipeline.o RemovalPolicy.o RequestFlags.o
ResolvedPeers.o SBufStatsAction.o SquidMath.o StatCounters.o StatHist.o StoreFileSystem.o StoreIOState.o StoreStats.o
StoreSwapLogData.o StrList.o String.o Transients.o XactionInitiator.o cache_cf.o cache_manager.o carp.o cbdata.o clientStream.o
client_db.o client_side.o client_side_reply.o client_side_request.o dlink.o errorpage.o event.o external_acl.o fatal.o fd.o fde.o
filemap.o fqdncache.o fs_io.o helper.o http.o icp_v2.o icp_v3.o int.o internal.o ipcache.o mem_node.o mime.o mime_header.o
multicast.o neighbors.o pconn.o peer_digest.o peer_proxy_negotiate_auth.o peer_select.o peer_sourcehash.o peer_userhash.o
redirect.o refresh.o stat.o stmem.o store.o store_client.o store_digest.o store_io.o store_key_md5.o store_log.o
store_rebuild.o store_swapin.o store_swapout.o tools.o tunnel.o urn.o wccp.o wccp2.o wordlist.o LoadableModule.o
LoadableModules.o globals.o hier_code.o icp_opcode.o lookup_t.o repl_modules.o swap_log_op.o tests/stub_main_cc.o
repl/liblru.a""".split()
SQUID_LIBS = """auth/libacls.la acl/libacls.la acl/libstate.la auth/libauth.la acl/libapi.la clients/libclients.la
servers/libservers.la ftp/libftp.la helper/libhelper.la http/libhttp.la dns/libdns.la base/libbase.la libsquid.la fs/libfs.la
DiskIO/libdiskio.la comm/libcomm.la ip/libip.la anyp/libanyp.la security/libsecurity.la error/liberror.la ipc/libipc.la
mgr/libmgr.la proxyp/libproxyp.la parser/libparser.la eui/libeui.la icmp/libicmp.la log/liblog.la format/libformat.la
sbuf/libsbuf.la debug/libdebug.la adaptation/libadaptation.la html/libhtml.la snmp/libsnmp.la ../lib/snmplib/libsnmplib.la
mem/libmem.la store/libstore.la time/libtime.la ../lib/libmisccontainers.la ../lib/libmiscencoding.la ../lib/libmiscutil.la
../compat/libcompatsquid.la""".split()
FRESH = ["lib/snmplib/asn1.c", "lib/snmplib/snmp_msg.c", "lib/snmplib/snmp_pdu.c", "lib/snmplib/snmp_vars.c",
         "lib/snmplib/snmp_api.c", "src/icp_v2.cc", "src/icp_v3.cc"]          # src/htcp.cc: #included by the driver
# ASan + UBSan without the shift checks: asn_parse_int shifts negative ints left (undefined, but not a memory error)
# recover mode for ASan: the harness reports the error for the case and continues (see h_adversarial.cc)
SANFLAGS = hbuild.SAN + ["-fno-sanitize=shift", "-fsanitize-recover=address"]
# quarantine 16 MB: one case frees little; the default 256 MB makes every case pay for fresh pages
IMPL_ENV = {"ASAN_OPTIONS": "detect_leaks=0:halt_on_error=0:abort_on_error=0:suppress_equal_pcs=0:quarantine_size_mb=16"}


def impl():
    # gcc driver: the lib/snmplib sources are C (g++ would compile them as C++)
    return hbuild.build("h_adversarial", "h_adversarial.cc", fresh=FRESH, link=SQUID_OBJS + SQUID_LIBS, sanitize=None,
                        flags=SANFLAGS, cxx="gcc",
                        syslibs=["-fsanitize=address,undefined"] + hbuild.SYSLIBS + ["-lstdc++", "-lsystemd"])


def prebuild():
    impl()


# ------------------------------------------------------------------ regenerated constants
def consts():
    """the constants of coq/gen/Adversarial_gen.v and Udpbufs_gen.v (regenerated by the proof stage of this run)"""
    out = {}
    for f in ("Adversarial_gen.v", "Udpbufs_gen.v"):
        try:
            txt = open(os.path.join(common.COQ, "gen", f)).read()
        except OSError:
            continue
        for m in re.finditer(r"Definition (\w+) : Z := (-?\d+)\.", txt):
            out[m.group(1)] = int(m.group(2))
    return out


def bufs():
    """(size, recvmax) per protocol as the tree defines them today"""
    c = consts()
    return {"snmp": (c.get("snmp_request_size", 4096), c.get("snmp_request_size", 4096) - c.get("snmp_recv_slack", 1)),
            "icp": (c.get("icp_bufsize", 16384), c.get("icp_bufsize", 16384) - c.get("icp_recv_slack", 1)),
            "htcp": (c.get("htcp_bufsize", 8192), c.get("htcp_bufsize", 8192) - c.get("htcp_recv_slack", 1))}


def hx(b):
    return bytes(b).hex() if len(b) else "-"


def unhx(h):
    return b"" if h == "-" else bytes.fromhex(h)


# ------------------------------------------------------------------ reference encoders
def asn_len(n, form=None):
    """BER length; form: None = shortest, k in 1..5 = long form with k bytes"""
    if form is None:
        if n < 0x80:
            return bytes([n])
        if n <= 0xff:
            return bytes([0x81, n])
        return bytes([0x82, n >> 8, n & 0xff])
    return bytes([0x80 | form]) + (n % (1 << (8 * form))).to_bytes(form, "big")


def tlv(t, content, form=None):
    return bytes([t]) + asn_len(len(content), form) + content


def enc_int(v, t=2):
    n = 1
    while not (-(1 << (8 * n - 1)) <= v < (1 << (8 * n - 1))):
        n += 1
    return tlv(t, v.to_bytes(n, "big", signed=True))


def enc_oid(subs):
    out = bytes([subs[0] * 40 + subs[1]]) if len(subs) >= 2 else b""
    for s in subs[2:]:
        chunk = [s & 0x7f]
        s >>= 7
        while s:
            chunk.append(0x80 | (s & 0x7f))
            s >>= 7
        out += bytes(reversed(chunk))
    return tlv(6, out)


SQUID_MIB = [1, 3, 6, 1, 4, 1, 3495, 1]
OIDS = [SQUID_MIB + [1, 1, 0], SQUID_MIB + [1, 2, 0], SQUID_MIB + [2, 1, 0], SQUID_MIB + [3, 1, 1, 0], SQUID_MIB + [3, 2, 1, 1, 0],
        SQUID_MIB + [5, 1], [1, 3, 6, 1, 2, 1, 1, 1, 0], [1, 3], [2, 100, 3], SQUID_MIB + [4, 1, 1, 0], SQUID_MIB + [9, 9, 9],
        [1, 3, 6, 1, 4, 1, 3495, 1, 3, 2, 2, 1, 2, 5], [1, 3] + [4294967295] * 3, list(range(1, 70))[:66]]


def snmp_value(rng):
    k = rng.randrange(12)
    if k == 0: return tlv(5, b"")
    if k == 1: return enc_int(rng.choice([0, 1, -1, 127, 128, -129, 2 ** 31 - 1, -2 ** 31, rng.randrange(-70000, 70000)]))
    if k == 2: return tlv(4, bytes(rng.randrange(256) for _ in range(rng.choice([0, 1, 4, 20, 200]))))
    if k == 3: return enc_oid(rng.choice(OIDS))
    if k == 4: return tlv(rng.choice([0x41, 0x42, 0x43]), rng.choice([b"\x00", b"\x7f", b"\x00\xff\xff\xff\xff", b"\x01\x00\x00\x00\x00",
                                                                        b"\xff\xff\xff\xff", b"\x00\x80\x00\x00\x00", b""]))
    if k == 5: return tlv(0x40, bytes(rng.randrange(256) for _ in range(4)))
    if k == 6: return tlv(rng.choice([0x80, 0x81, 0x82]), b"")
    if k == 7: return tlv(0x46, b"\x00" * 8)
    if k == 8: return tlv(5, b"xy")                     # NULL with content: the decoder continues inside it
    if k == 9: return tlv(0x44, b"opaque")
    if k == 10: return tlv(rng.choice([1, 3, 0x30, 0x1f, 0x5f]), b"\x01")
    return tlv(2, bytes(rng.randrange(256) for _ in range(rng.choice([0, 1, 2, 3, 4, 5]))))


def snmp_message(rng, community=None, varbinds=None, form=None):
    if varbinds is None:
        vbs = b""
        for _ in range(rng.choice([0, 1, 1, 1, 2, 3, 5])):
            vbs += tlv(0x30, enc_oid(rng.choice(OIDS)) + snmp_value(rng), form)
    else:
        vbs = varbinds
    cmd = rng.choice([0xA0, 0xA0, 0xA0, 0xA1, 0xA1, 0xA2, 0xA3, 0xA5, 0xA4, 0xA7, 0x30])
    pdu = tlv(cmd, enc_int(rng.choice([1, 77, 2 ** 31 - 1, -5])) + enc_int(rng.choice([0, 0, 1, 5])) +
              enc_int(rng.choice([0, 0, 1, 10])) + tlv(0x30, vbs, form), form)
    if community is None:
        community = rng.choice([b"public", b"public", b"public", b"", b"private", b"p" * 127, b"p" * 128, b"p" * 129, b"a\x00b"])
    ver = rng.choice([0, 0, 1, 1, 3, 2])
    return tlv(0x30, enc_int(ver) + tlv(4, community) + pdu, form)


def snmp_fill(total, tail, community=b"public"):
    """a well-formed message of exactly `total` bytes: one big OCTET STRING varbind followed by `tail` (raw bytes placed as
    the last element of the variable list)"""
    for s in range(max(total - 80, 0), total):
        vbs = tlv(0x30, tlv(6, b"\x2b") + tlv(4, b"A" * s)) + tail
        pdu = tlv(0xA0, enc_int(1) + enc_int(0) + enc_int(0) + tlv(0x30, vbs))
        m = tlv(0x30, enc_int(0) + tlv(4, community) + pdu)
        if len(m) == total:
            return m
    return None


SNMP_TAILS = [b"\x30\x00", b"\x30\x02\x06\x84", b"\x30\x01\x06", b"\x30\x02\x06\x81", b"\x30\x03\x06\x01\x2b", b"\x30\x02\x06\x00",
              b"\x30\x04\x06\x00\x05\x00", b"\x30\x03\x06\x00\x02", b"\x30\x04\x06\x00\x02\x84", b"\x30\x04\x06\x00\x04\x83"]


def mutate_bytes(rng, b, maxlen=None):
    b = bytearray(b)
    for _ in range(rng.choice([1, 1, 1, 2, 3])):
        k = rng.randrange(9)
        if k == 0 and b:
            del b[rng.randrange(len(b)):]                                     # truncate
        elif k == 1 and b:
            b[rng.randrange(len(b))] = rng.randrange(256)                     # replace a byte
        elif k == 2 and b:
            b[rng.randrange(len(b))] = rng.choice([0x80, 0x81, 0x82, 0x83, 0x84, 0x85, 0xff, 0x7f, 0x00, 0x30])   # length-ish byte
        elif k == 3:
            i = rng.randrange(len(b) + 1)
            b[i:i] = bytes(rng.randrange(256) for _ in range(rng.choice([1, 2, 4, 30])))   # insert
        elif k == 4 and b:
            i = rng.randrange(len(b)); j = min(len(b), i + rng.choice([1, 2, 4]))
            del b[i:j]                                                        # delete a slice
        elif k == 5:
            b += bytes(rng.randrange(256) for _ in range(rng.choice([1, 3, 10, 100])))     # trailing garbage
        elif k == 6 and len(b) >= 2:
            i = rng.randrange(len(b) - 1)
            v = int.from_bytes(b[i:i + 2], "big")
            v = (v + rng.choice([-2, -1, 1, 2, 255, 256])) % 65536            # 16-bit length field +-
            b[i:i + 2] = v.to_bytes(2, "big")
        elif k == 7 and b:
            i = rng.randrange(len(b))
            b[i] ^= 1 << rng.randrange(8)                                     # bit flip
        elif k == 8 and b:
            i = rng.randrange(len(b))
            b[i:i + 1] = bytes([0x84, 0xff, 0xff, 0xff, 0xff])                # huge long-form length
    if maxlen is not None:
        del b[maxlen:]
    return bytes(b)


URLS = [b"http://example.com/", b"http://example.com/a/b?c=d", b"http://127.0.0.1:8080/x", b"ftp://ftp.example.org/pub/",
        b"http://[::1]/", b"example.com:443", b"/relative", b"", b"http://exa mple.com/", b"http://example.com/" + b"a" * 300,
        b"urn:x:y", b"http://example.com/\t", b"http://u:p@example.com/", b"http://example.com:99999/"]


def icp_message(rng, valid=False):
    op = rng.choice([1, 1, 1, 2, 3, 4, 11, 21, 22, 0, 23, 24, 25, 5, 10]) if valid else rng.choice([1, 1, 2, 3, 22, 0, 4, 200, 255, 24, 25, rng.randrange(256)])
    ver = rng.choice([2, 2, 2, 3]) if valid else rng.choice([2, 2, 3, 1, 0, 4, 255, rng.randrange(256)])
    url = rng.choice(URLS)
    if not valid and rng.random() < 0.3:
        url = bytes(rng.randrange(256) for _ in range(rng.choice([0, 1, 5, 40])))
    pay = (struct.pack("!I", rng.randrange(2 ** 32)) if op == 1 else b"") + url + b"\0"
    n = 20 + len(pay)
    return struct.pack("!BBHIIII", op, ver, n % 65536, rng.randrange(2 ** 32), rng.choice([0, 0x80000000, 0x40000000, 0xffffffff]),
                       rng.randrange(2 ** 32), rng.randrange(2 ** 32)) + pay


def cstr16(b, delta=0):
    return struct.pack("!H", (len(b) + delta) % 65536) + b


METHODS = [b"GET", b"GET", b"HEAD", b"POST", b"PURGE", b"", b"X" * 300, b"get"]
VERSIONS = [b"HTTP/1.1", b"HTTP/1.0", b"", b"1.1"]
HDRS = [b"", b"Host: example.com\r\n", b"Accept: */*\r\nCache-Control: max-age=0\r\n", b"X: " + b"y" * 400 + b"\r\n", b"garbage"]


def htcp_spec(rng, valid=True):
    d = [0, 0, 0, 0] if valid else [rng.choice([0, 0, 0, 1, -1, 5, 300, 60000]) for _ in range(4)]
    return cstr16(rng.choice(METHODS), d[0]) + cstr16(rng.choice(URLS), d[1]) + cstr16(rng.choice(VERSIONS), d[2]) + cstr16(rng.choice(HDRS), d[3])


def htcp_detail(rng, valid=True):
    d = [0, 0, 0] if valid else [rng.choice([0, 0, 1, -1, 7, 300, 65535]) for _ in range(3)]
    return cstr16(rng.choice(HDRS), d[0]) + cstr16(rng.choice(HDRS), d[1]) + cstr16(rng.choice(HDRS), d[2])


def htcp_message(rng, valid=True):
    op = rng.choice([1, 1, 1, 4, 4, 0, 2, 3]) if valid else rng.choice([1, 4, 1, 4, 5, 7, 15, 0])
    rr = rng.choice([0, 0, 0, 1])
    f1 = rng.choice([1, 1, 0])
    minor = rng.choice([1, 1, 0])
    major = 0 if valid else rng.choice([0, 0, 0, 1])
    if op == 4:
        opdata = bytes([0, rng.randrange(16)]) + htcp_spec(rng, valid or rng.random() < 0.5)
    elif rr == 1:
        opdata = htcp_detail(rng, valid or rng.random() < 0.5)
    else:
        opdata = htcp_spec(rng, valid or rng.random() < 0.5)
    if not valid and rng.random() < 0.2:
        opdata = opdata[:rng.randrange(len(opdata) + 1)]
    resp = rng.choice([0, 0, 1, 5])
    if minor:
        b2 = ((op & 15) << 4) | resp; b3 = rr | (f1 << 1)
    else:
        b2 = (op & 15) | (resp << 4); b3 = (f1 << 6) | (rr << 7)
    dlen = 8 + len(opdata) + (0 if valid else rng.choice([0, 0, 0, 1, -1, -8, 100, -len(opdata)]))
    data = struct.pack("!HBBI", dlen % 65536, b2, b3, rng.choice([0, 0, 1, 8192, 2 ** 32 - 1, rng.randrange(2 ** 32)])) + opdata
    auth = rng.choice([b"\x00\x02", b"\x00\x02", b"", b"\x00\x10" + b"k" * 14])
    total = 4 + len(data) + len(auth) + (0 if valid else rng.choice([0, 0, 0, 1, -1, 2]))
    return struct.pack("!HBB", total % 65536, major, minor) + data + auth


# ------------------------------------------------------------------ unit cases
def gen_cases(rng, n):
    B = bufs()
    out = []

    def add(entry, proto, d):
        size, recvmax = B[proto]
        out.append("%s %d %d %s" % (entry, size, recvmax, hx(d)))

    # --- boundary stream: datagrams whose length is near the receive limit
    ssize, smax = B["snmp"]
    k = 0
    for total in [smax, smax - 1, smax - 2, smax - 3, smax - 4, smax - 5, smax - 6, smax + 1, smax + 40]:
        for tail in SNMP_TAILS[:4] if total >= smax - 3 else SNMP_TAILS[:2]:
            m = snmp_fill(total, tail)
            if m:
                add("snmp.udp", "snmp", m); k += 1
    for total in [smax, smax - 1, smax - 4, smax - 5, smax - 6]:
        add("snmp.udp", "snmp", bytes([0x30, 0x82]) + ((total - 4) % 65536).to_bytes(2, "big") + b"\x02\x01\x00" + b"\x04\x82" + b"\xff" * (total - 9))
    isize, imax = B["icp"]
    for total in [imax, imax - 1, imax + 1, imax + 5]:
        url = b"http://example.com/" + b"u" * (total - 20 - 4 - 19 - 1)
        add("icp.udp", "icp", struct.pack("!BBHIIII", 1, 2, total % 65536, 1, 0, 0, 0) + b"\0\0\0\0" + url + b"\0")
        add("icp.udp", "icp", struct.pack("!BBHIIII", 2, 2, total % 65536, 1, 0, 0, 0) + url + b"uuuu" + (b"\0" if total % 2 else b"x"))
    hsize, hmax = B["htcp"]
    for total in [hmax, hmax - 1, hmax + 1, hmax - 2]:
        fixed = cstr16(b"GET") + cstr16(b"http://example.com/") + cstr16(b"HTTP/1.1")
        for authlen in (0, 2):
            hd = b"H" * (total - 4 - 8 - len(fixed) - 2 - authlen)
            data = struct.pack("!HBBI", 8 + len(fixed) + 2 + len(hd), 0x10, 2, 9) + fixed + cstr16(hd)
            add("htcp.msg", "htcp", struct.pack("!HBB", total % 65536, 0, 1) + data + b"\x00\x02"[:authlen])
        add("htcp.spec", "htcp", fixed + cstr16(b"H" * (total - len(fixed) - 2)))
        add("htcp.detail", "htcp", cstr16(b"") + cstr16(b"") + cstr16(b"C" * (total - 6)))
    # --- exact-size buffers: every read past the received bytes is visible (the model must predict each of them)
    for k in range(min(240, max(60, n // 40))):
        r = rng.random()
        if r < 0.4:
            m = snmp_message(rng)
        elif r < 0.8:     # every enclosing length is consistent, the last element is cut short: the readers look past the end
            m = snmp_message(rng, community=b"public", varbinds=tlv(0x30, enc_oid(rng.choice(OIDS[:6])) + snmp_value(rng)) + rng.choice(SNMP_TAILS))
        elif r < 0.9:
            m = snmp_message(rng); m = m[:rng.randrange(1, len(m))]
        else:
            m = bytes(rng.choice([0x30, 0x02, 0x04, 0x84, 0x81, 0x00, 0xff, rng.randrange(256)]) for _ in range(rng.choice([1, 2, 3, 4, 6])))
        out.append("snmp.exact %s" % hx(m))
        if r >= 0.4 and r < 0.8:
            add("snmp.udp", "snmp", m)
    # --- structured + mutation streams
    while len(out) < n:
        r = rng.random()
        if r < 0.34:
            m = snmp_message(rng, form=rng.choice([None, None, None, 1, 2, 3, 4]))
            if rng.random() < 0.55:
                m = mutate_bytes(rng, m)
            add("snmp.udp", "snmp", m)
        elif r < 0.56:
            m = icp_message(rng, valid=rng.random() < 0.5)
            if rng.random() < 0.4:
                m = mutate_bytes(rng, m)
            add("icp.udp", "icp", m)
        elif r < 0.70:
            m = htcp_spec(rng, valid=rng.random() < 0.5)
            if rng.random() < 0.3:
                m = mutate_bytes(rng, m)
            add("htcp.spec", "htcp", m)
        elif r < 0.80:
            m = htcp_detail(rng, valid=rng.random() < 0.5)
            if rng.random() < 0.3:
                m = mutate_bytes(rng, m)
            add("htcp.detail", "htcp", m)
        elif r < 0.97:
            m = htcp_message(rng, valid=rng.random() < 0.55)
            if rng.random() < 0.3:
                m = mutate_bytes(rng, m)
            add("htcp.msg", "htcp", m)
        else:
            proto = rng.choice(["snmp", "icp", "htcp"])
            entry = {"snmp": "snmp.udp", "icp": "icp.udp", "htcp": rng.choice(["htcp.msg", "htcp.spec", "htcp.detail"])}[proto]
            add(entry, proto, bytes(rng.randrange(256) for _ in range(rng.choice([0, 1, 2, 3, 4, 8, 19, 20, 21, 40, 200]))))
    return out


def norm_impl(line):
    """an AddressSanitizer report of an out-of-bounds READ is the implementation-side spelling of the model's OOB; the
    harness's trailing req=<0/1> (did the URI parse) is not modelled"""
    if line.startswith("ASAN ") and line.endswith("-buffer-overflow READ"):
        return "OOB"
    return re.sub(r" req=[01]$", "", line)


def received(case):
    a = case.split()
    if a[0] == "snmp.exact":
        d = unhx(a[1]); return len(d), len(d), len(d)
    size, recvmax = int(a[1]), int(a[2])
    return size, recvmax, min(len(unhx(a[3])), recvmax)


def oracle(case, out):
    """The property on the implementation's answer: the decoder neither crashed nor touched memory outside the receive
    buffer, and every field it reports lies inside the received bytes."""
    a = case.split()
    entry = a[0]
    size, recvmax, ln = received(case)
    if entry == "snmp.exact":
        return None            # a buffer of exactly the datagram size is not squid's buffer; only the correspondence matters
    if out == "OOB":
        return ("oracle:oob-read:" + entry, "AddressSanitizer: out-of-bounds read in the decoder (received %d bytes, buffer %d)" % (ln, size))
    if out.startswith("ASAN"):
        return ("oracle:asan:" + entry + ":" + "-".join(out.split()[1:]), "AddressSanitizer report in the decoder: " + out)
    if out.startswith(("CRASH", "EXC", "ERR")):
        return ("oracle:crash:" + entry, "the decoder crashed / aborted / threw: " + out[:240])
    try:
        if entry == "snmp.udp" and out.startswith("ok "):
            f = dict(x.split("=", 1) for x in out.split()[1:8])
            if len(unhx(f["comm"])) >= 128:
                return ("oracle:snmp-community-too-long", "community of %d bytes accepted" % len(unhx(f["comm"])))
            for v in out.split()[8:]:
                t, nl, vl = (int(x) for x in v.split(":"))
                if not (0 <= nl <= 64) or not (0 <= vl <= max(ln, 256)):
                    return ("oracle:snmp-var-out-of-range", "variable %s has a name or value length outside the datagram" % v)
        if entry == "icp.udp":
            m = re.search(r"url=(\d+):(\d+)", out)
            if m and int(m.group(1)) + int(m.group(2)) + 1 > ln:
                return ("oracle:icp-url-outside-datagram", "URL field %s extends past the %d received bytes" % (m.group(0), ln))
        if entry in ("htcp.spec", "htcp.msg", "htcp.detail"):
            for m in re.finditer(r"\b([muvhrec])=(\d+):(\d+)(?:/(\d+))?", out):
                off, l = int(m.group(2)), int(m.group(3))
                if off + l > ln or (m.group(4) and off + int(m.group(4)) > ln):
                    return ("oracle:htcp-field-outside-datagram", "field %s extends past the %d received bytes" % (m.group(0), ln))
            m = re.search(r"diff=([\d,]+)", out)
            if m and max(int(x) for x in m.group(1).split(",")) > ln:
                return ("oracle:htcp-write-outside-datagram", "in-place termination wrote at %s, beyond the received bytes + 1" % m.group(1))
    except Exception as ex:
        return ("oracle:unparsable:" + entry, "unparsable implementation output %r (%s)" % (out[:120], ex))
    return None


def mutate(rng, case):
    a = case.split()
    a[-1] = hx(mutate_bytes(rng, unhx(a[-1])))
    return " ".join(a)


def kind(case, out):
    e = case.split()[0]
    if out == "OOB" or out.startswith(("CRASH", "ASAN")):
        return e + ":oob"
    w = out.split()[0] if out else ""
    if e == "icp.udp":
        m = re.search(r"url=(\w+)", out)
        return e + ":" + ("url" if m and m.group(1).isdigit() else (m.group(1) if m else "?"))
    if e == "htcp.msg":
        return e + ":" + ("spec" if "spec=m=" in out else "nospec")
    return e + ":" + (w.split("=")[0] if w else "?")


def nontrivial(case, out):
    return out.startswith(("ok", "unpacked")) or "spec=m=" in out or re.search(r"url=\d", out) is not None or out == "OOB"


# ------------------------------------------------------------------ end-to-end: datagram storm on the running squid
_state = {}


def free_udp_port():
    s = socket.socket(socket.AF_INET, socket.SOCK_DGRAM)
    s.bind(("127.0.0.1", 0))
    p = s.getsockname()[1]
    s.close()
    return p


def maybe_asan_tree(L, res, tier):
    """thorough tier with VERIF_ASAN_SQUID=1: rebuild the lab's private copy of the tree with ASan+UBSan and run squid from
    it (about half an hour; reports land in squid's stderr file, which log_findings() scans). Returns extra env."""
    if tier != "thorough" or not os.environ.get("VERIF_ASAN_SQUID"):
        return None
    import shutil
    from vlib.common import sh
    tree = os.path.join(L.dir, "asan-tree")
    rc, o, e = sh(["rsync", "-a", "--exclude", ".git", L.tree + "/", tree + "/"], timeout=1800)
    if rc != 0:
        raise lab.LabError("rsync for the ASan tree failed: " + e[-400:])
    sh(["make", "clean"], cwd=tree, timeout=3600)
    flags = "-O1 -g -fsanitize=address,undefined -fno-sanitize=shift -fno-omit-frame-pointer -Wno-error"
    rc, o, e = sh(["make", "-j16", "CXXFLAGS=" + flags, "CFLAGS=" + flags, "LDFLAGS=-fsanitize=address,undefined"], cwd=tree, timeout=4 * 3600)
    if rc != 0 or not os.path.exists(os.path.join(tree, "src", "squid")):
        raise lab.LabError("ASan build of squid failed: " + (o + e)[-1500:])
    L.tree = tree
    res.extra["asan_squid"] = True
    return {"ASAN_OPTIONS": "detect_leaks=0:abort_on_error=1:log_path=stderr", "UBSAN_OPTIONS": "print_stacktrace=1:halt_on_error=1"}


def start_squid(L, extra="", env=None):
    ports = {"icp": free_udp_port(), "htcp": free_udp_port(), "snmp": free_udp_port()}
    conf = """
icp_port %(icp)d
htcp_port %(htcp)d
snmp_port %(snmp)d
icp_access allow all
htcp_access allow all
htcp_clr_access allow all
acl snmppublic snmp_community public
snmp_access allow all
""" % ports + extra
    sq = L.squid(extra_conf=conf, env=env)
    return sq, ports


def storm(ports, items, wait=0.35):
    """items: list of (proto, datagram); each datagram is sent from its own socket; returns 'reply'/'noreply' per item"""
    socks = []
    out = []
    for proto, d in items:
        s = socket.socket(socket.AF_INET, socket.SOCK_DGRAM)
        s.bind(("127.0.0.1", 0))
        s.setblocking(False)
        try:
            s.sendto(d, ("127.0.0.1", ports[proto]))
        except OSError:
            pass
        socks.append(s)
    deadline = time.time() + wait
    got = set()
    while time.time() < deadline and len(got) < len(socks):
        r, _, _ = select.select([s for s in socks if s not in got], [], [], max(0.0, deadline - time.time()))
        for s in r:
            try:
                s.recvfrom(65536)
                got.add(s)
            except OSError:
                pass
    for s in socks:
        out.append("reply" if s in got else "noreply")
        s.close()
    return out


BAD_LOG = ("assertion failed", "FATAL", "Segmentation", "dying with", "AddressSanitizer", "runtime error:", "received signal",
           "Squid Cache (Version", )


def log_findings(sq, starts_allowed=1):
    """messages in cache.log that mean squid aborted / restarted"""
    try:
        txt = open(sq.cache_log, "rb").read().decode("utf-8", "replace")
    except OSError:
        txt = ""
    try:
        txt += open(os.path.join(sq.dir, "stderr"), "rb").read().decode("utf-8", "replace")
    except OSError:
        pass
    bad = []
    for n in BAD_LOG:
        c = txt.count(n)
        if n == "Squid Cache (Version":
            if c > starts_allowed:
                bad.append("squid started %d times" % c)
        elif c:
            line = [l for l in txt.splitlines() if n in l][0]
            bad.append(line.strip()[:200])
    return bad


def probe(sq, org, k):
    """HTTP liveness probe: a cache miss through the proxy must come back 200 with the origin's body"""
    body = "live-%d" % k
    try:
        r, raw = lab.get(sq.port, org.url({"body": body, "headers": [["Cache-Control", "no-store"]]}, "probe%d" % k), total=8.0)
    except OSError as ex:
        return "probe-connect-failed " + str(ex)[:80]
    if r is None or r.status != 200 or r.body != body.encode():
        return "probe-failed status=%s" % (r.status if r else "none")
    return None


def e2e_items(rng, n):
    """(proto, datagram) mix: valid, truncated, mutated, random, boundary sizes"""
    B = bufs()
    items = []
    ssize, smax = B["snmp"]
    for total in (smax, smax - 1, smax + 1):
        for tail in SNMP_TAILS[:2]:
            m = snmp_fill(total, tail)
            if m:
                items.append(("snmp", m))
    hsize, hmax = B["htcp"]
    isize, imax = B["icp"]
    items.append(("icp", struct.pack("!BBHIIII", 1, 2, imax, 1, 0, 0, 0) + b"\0\0\0\0" + b"http://example.com/" + b"u" * (imax - 44) + b"\0"))
    items.append(("htcp", struct.pack("!HBB", hmax, 0, 1) + struct.pack("!HBBI", hmax - 4, 0x10, 2, 9) + cstr16(b"GET") +
                  cstr16(b"http://example.com/") + cstr16(b"HTTP/1.1") + cstr16(b"H" * (hmax - 4 - 8 - 5 - 21 - 10 - 2))))
    while len(items) < n:
        r = rng.random()
        if r < 0.36:
            get = tlv(0x30, enc_oid(rng.choice(OIDS[:6])) + tlv(5, b""))
            m = snmp_message(rng, community=b"public", varbinds=get) if rng.random() < 0.3 else snmp_message(rng)
            if rng.random() < 0.6:
                m = mutate_bytes(rng, m)
            items.append(("snmp", m))
        elif r < 0.66:
            m = icp_message(rng, valid=rng.random() < 0.5)
            if rng.random() < 0.45:
                m = mutate_bytes(rng, m)
            items.append(("icp", m))
        elif r < 0.96:
            m = htcp_message(rng, valid=rng.random() < 0.5)
            if rng.random() < 0.4:
                m = mutate_bytes(rng, m)
            items.append(("htcp", m))
        else:
            items.append((rng.choice(["snmp", "icp", "htcp"]), bytes(rng.randrange(256) for _ in range(rng.choice([0, 1, 3, 20, 64, 1500])))))
    return items


def e2e_stage(res, L, tier, runner, n, seed_salt=39):
    """Datagram storm against the running squid. Records cases, flags violations; returns number of violations."""
    rng = random.Random(common.seed() * 1000003 + seed_salt + 7)
    B = bufs()
    items = e2e_items(rng, n)
    cases = ["e2e.%s %d %d %s" % (p, B[p][0], B[p][1], hx(d)) for p, d in items]
    model = corr.run_lines(runner, cases)
    org = L.origin()
    sq, ports = start_squid(L, env=maybe_asan_tree(L, res, tier))
    _state["sq"] = sq
    found = 0
    obs = [None] * len(items)
    BATCH = 60
    dead = None
    for i in range(0, len(items), BATCH):
        obs[i:i + BATCH] = storm(ports, items[i:i + BATCH])
        why = None
        if not sq.alive():
            why = "squid exited (rc=%s)" % (sq.proc.returncode if sq.proc else "?")
        else:
            why = probe(sq, org, i)
        if why:
            dead = (i, why)
            break
    bad = log_findings(sq)
    for c, o in zip(cases, obs):
        if o is not None:
            res.count_case(c, nontrivial=(o == "reply"), kind="e2e." + c.split()[0][4:] + ":" + o)
    if dead or bad:
        i, why = dead if dead else (0, "")
        lo = i if dead else 0
        hi = min(len(items), lo + BATCH) if dead else len(items)
        desc = "%s: after datagrams %d..%d squid no longer serves / logged a fatal condition: %s %s" % (
            PID, lo, hi - 1, why, "; ".join(bad[:3]))
        if res.fail("oracle:e2e-squid-died", desc, {"datagrams": [[p, d.hex()] for p, d in items[lo:hi]], "why": why, "log": bad[:5],
                                                      "log_tail": sq.log_tail(1500)}):
            found += 1
        return found
    # reply / no-reply correspondence (suspects re-sent once, alone, with a longer wait). Where the model says OOB the
    # decoder over-reads and then refuses the message; a normally built squid cannot show the over-read (that is what the
    # ASan-built unit harness is for), so nothing is compared there.
    res.extra["e2e_model_oob"] = sum(1 for m in model if m == "OOB")
    sus = [k for k in range(len(items)) if model[k] not in ("blind", "OOB", obs[k])]
    if sus:
        again = []
        for k in sus[:80]:
            again.append(storm(ports, [items[k]], wait=0.8)[0])
        still = [k for k, o in zip(sus[:80], again) if model[k] != o]
        res.extra["e2e_suspects_first_pass"] = len(sus)
        if still:
            k = still[0]
            res.fail("corr:e2e-" + items[k][0],
                     "model and squid disagree on %d datagrams (first: %s %s squid=`%s` model=`%s`)" % (
                         len(still), items[k][0], items[k][1].hex()[:300], obs[k], model[k]),
                     {"no_failing_input_found": True, "broken": "end-to-end correspondence (reply / no reply)",
                      "proto": items[k][0], "datagram": items[k][1].hex(), "squid": obs[k], "model": model[k]})
            found += 1
    res.extra["e2e_datagrams"] = len(items)
    res.extra["e2e_replies"] = sum(1 for o in obs if o == "reply")
    return found


def run(res, tier):
    res.rule = ("unit: reference-encoded SNMP v1/v2c messages (all value types, long-form lengths), ICP v2/v3 messages (all opcodes), "
                "HTCP TST/CLR/other messages, specifiers and details; each valid, truncated, byte/bit/length-field mutated, with "
                "trailing garbage, random, and padded to the receive limit -6..+40 with crafted last elements; SNMP also on "
                "exact-size buffers. Every case runs in the ASan-built real decoders and the extracted model. end-to-end: the same "
                "generators sent as UDP datagrams to the running squid (one socket per datagram), reply/no-reply compared with the "
                "model, HTTP probe after every 60 datagrams, cache.log scan. non-trivial = the decoder accepted the datagram "
                "(or, end to end, squid replied)")
    std.run_standard(res, PID, tier, area="adversarial", build_impl=impl, gen_cases=gen_cases, oracle=oracle,
                     corr_name="AdversarialModel (snmp_udp/icp_unit/htcp_*) vs lib/snmplib, src/icp_v2.cc, src/htcp.cc under ASan",
                     gens=["adversarial", "udpbufs"], n_quick=8000, n_thorough=150000, seed_salt=39, mutate=mutate,
                     norm_impl=norm_impl, kind_fn=kind, nontrivial_fn=nontrivial, impl_env=IMPL_ENV)
    if any(v[0] == "build" for v in res.violations):
        return
    try:
        runner = coq.build_runner("adversarial")
        with lab.Lab(PID) as L:
            try:
                L.build()
            except lab.LabError as ex:
                res.fail("build", "%s: squid no longer builds from /repo's working tree: %s" % (PID, str(ex)[-1500:]),
                         {"no_failing_input_found": True, "broken": "lab build", "detail": str(ex)[-3000:]})
                return
            res.extra["lab_build_s"] = round(getattr(L, "build_s", 0), 1)
            e2e_stage(res, L, tier, runner, 600 if tier == "quick" else 12000)
    finally:
        _state.clear()
