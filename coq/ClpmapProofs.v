(* ClpmapProofs.v — proofs for C51: the ClpMap model refines the LRU/TTL/capacity
   specification, for all operation histories. *)
Require Import SquidV.Bytes SquidV.ClpmapModel.
Require Import ZifyBool ZifyN ZifyNat.
Local Open Scope N_scope.

(* ---------- byte-string equality ---------- *)
Lemma list_eqb_refl (a : bytes) : list_eqb a a = true.
Proof. induction a as [|x a IH]; cbn [list_eqb]; [reflexivity|]. rewrite N.eqb_refl, IH. reflexivity. Qed.

Lemma list_eqb_true (a b : bytes) : list_eqb a b = true -> a = b.
Proof.
  revert b; induction a as [|x a IH]; intros [|y b] H; cbn [list_eqb] in H; try discriminate; [reflexivity|].
  apply andb_prop in H. destruct H as [H1 H2]. apply N.eqb_eq in H1. apply IH in H2. congruence.
Qed.

Lemma list_eqb_false (a b : bytes) : list_eqb a b = false -> a <> b.
Proof. intros H E. subst b. rewrite list_eqb_refl in H. discriminate. Qed.

Section Proofs.
  Variable V : Type.
  Variable vmem : V -> N.
  Variable esz : N.
  Variable isz : N.
  Variable tmax : Z.

  Notation entry := (entry V).
  Notation cmap := (cmap V).
  Notation smap := (smap V).
  Notation op := (op V).

  Definition keys (l : list entry) : list bytes := map e_key l.

  (* ---------- total ---------- *)
  Lemma total_cons (e : entry) l : total (e :: l) = e_mem e + total l.
  Proof. reflexivity. Qed.

  Lemma total_app (a b : list entry) : total (a ++ b) = total a + total b.
  Proof. induction a as [|x a IH]; cbn [app]; [reflexivity|]. rewrite !total_cons, IH. lia. Qed.

  (* ---------- has_key / without ---------- *)
  Lemma has_key_true k (e : entry) : has_key k e = true -> e_key e = k.
  Proof. unfold has_key. intros H. apply list_eqb_true in H. congruence. Qed.

  Lemma has_key_self (e : entry) : has_key (e_key e) e = true.
  Proof. unfold has_key. apply list_eqb_refl. Qed.

  Lemma has_key_false k (e : entry) : has_key k e = false -> e_key e <> k.
  Proof. unfold has_key. intros H E. apply list_eqb_false in H. congruence. Qed.

  Lemma without_cons k (e : entry) l :
    without k (e :: l) = if has_key k e then without k l else e :: without k l.
  Proof. unfold without. cbn [filter]. destruct (has_key k e); reflexivity. Qed.

  Lemma without_app k (a b : list entry) : without k (a ++ b) = without k a ++ without k b.
  Proof. unfold without. apply filter_app. Qed.

  Lemma without_notin k (l : list entry) : ~ In k (keys l) -> without k l = l.
  Proof.
    induction l as [|e l IH]; intros H; [reflexivity|].
    rewrite without_cons. destruct (has_key k e) eqn:E.
    - exfalso. apply H. left. apply has_key_true in E. exact E.
    - rewrite IH; [reflexivity|]. intros HI. apply H. right. exact HI.
  Qed.

  Lemma without_keys k (l : list entry) : ~ In k (keys (without k l)).
  Proof.
    induction l as [|e l IH]; [intros []|].
    rewrite without_cons. destruct (has_key k e) eqn:E; [exact IH|].
    intros [H|H]; [apply has_key_false in E; contradiction|contradiction].
  Qed.

  Lemma without_idem k (l : list entry) : without k (without k l) = without k l.
  Proof. apply without_notin, without_keys. Qed.

  Lemma keys_without_incl k x (l : list entry) : In x (keys (without k l)) -> In x (keys l).
  Proof.
    induction l as [|e l IH]; [intros []|].
    rewrite without_cons. destruct (has_key k e); cbn [keys map In] in *; tauto.
  Qed.

  Lemma nodup_without k (l : list entry) : NoDup (keys l) -> NoDup (keys (without k l)).
  Proof.
    induction l as [|e l IH]; intros H; [exact H|].
    cbn [keys map] in H. apply NoDup_cons_iff in H. destruct H as [H1 H2].
    rewrite without_cons. destruct (has_key k e); [apply IH, H2|].
    cbn [keys map]. apply NoDup_cons; [|apply IH, H2].
    intros HI. apply H1. eapply keys_without_incl. exact HI.
  Qed.

  Lemma keys_app (a b : list entry) : keys (a ++ b) = keys a ++ keys b.
  Proof. apply map_app. Qed.

  Lemma nodup_prefix (a b : list entry) : NoDup (keys (a ++ b)) -> NoDup (keys a).
  Proof. rewrite keys_app. apply NoDup_app_remove_r. Qed.

  (* ---------- lookup = find, remove_first = without (unique keys) ---------- *)
  Lemma lookup_find k (l : list entry) : lookup k l = find (has_key k) l.
  Proof. induction l as [|e l IH]; cbn [lookup find]; [reflexivity|]. unfold has_key at 1. rewrite IH. reflexivity. Qed.

  Lemma remove_first_without k (l : list entry) :
    NoDup (keys l) -> remove_first k l = without k l.
  Proof.
    induction l as [|e l IH]; intros H; [reflexivity|].
    cbn [keys map] in H. apply NoDup_cons_iff in H. destruct H as [H1 H2].
    cbn [remove_first]. rewrite without_cons. unfold has_key. destruct (list_eqb k (e_key e)) eqn:E.
    - apply list_eqb_true in E. subst k. symmetry. apply without_notin, H1.
    - rewrite IH by exact H2. reflexivity.
  Qed.

  Lemma find_key k (l : list entry) e : find (has_key k) l = Some e -> e_key e = k.
  Proof. intros H. apply find_some in H. apply has_key_true, H. Qed.

  Lemma find_none_without k (l : list entry) : find (has_key k) l = None -> without k l = l.
  Proof.
    intros H. apply without_notin. intros HI. unfold keys in HI. apply in_map_iff in HI.
    destruct HI as [e [E1 E2]]. pose proof (find_none _ _ H e E2) as F. cbv beta in F.
    rewrite <- E1, has_key_self in F. discriminate.
  Qed.

  Lemma total_find k (l : list entry) e :
    NoDup (keys l) -> find (has_key k) l = Some e -> total l = e_mem e + total (without k l).
  Proof.
    induction l as [|x l IH]; intros H F; [discriminate|].
    cbn [keys map] in H. apply NoDup_cons_iff in H. destruct H as [H1 H2].
    cbn [find] in F. rewrite without_cons. destruct (has_key k x) eqn:E.
    - injection F as F. subst x. apply has_key_true in E. subst k.
      rewrite (without_notin _ _ H1). reflexivity.
    - rewrite !total_cons. rewrite (IH H2 F). lia.
  Qed.

  (* ---------- fit ---------- *)
  Lemma fit_all b (l : list entry) : total l <= b -> fit b l = l.
  Proof.
    revert b; induction l as [|e l IH]; intros b H; [reflexivity|].
    rewrite total_cons in H. cbn [fit]. destruct (e_mem e <=? b) eqn:E; [|lia].
    rewrite IH by lia. reflexivity.
  Qed.

  Lemma fit_drop_last b (l : list entry) e : b < total (l ++ [e]) -> fit b (l ++ [e]) = fit b l.
  Proof.
    revert b; induction l as [|x l IH]; intros b H.
    - cbn [app fit]. rewrite total_cons in H. cbn [total fold_right] in H.
      destruct (e_mem e <=? b) eqn:E; [lia|reflexivity].
    - cbn [app] in *. rewrite total_cons in H. cbn [fit].
      destruct (e_mem x <=? b) eqn:E; [|reflexivity]. rewrite IH by lia. reflexivity.
  Qed.

  Lemma fit_prefix b (l : list entry) : exists r, l = fit b l ++ r.
  Proof.
    revert b; induction l as [|e l IH]; intros b; [exists []; reflexivity|].
    cbn [fit]. destruct (e_mem e <=? b); [|exists (e :: l); reflexivity].
    destruct (IH (b - e_mem e)) as [r Hr]. exists r. cbn [app]. rewrite <- Hr. reflexivity.
  Qed.

  Lemma fit_total b (l : list entry) : total (fit b l) <= b.
  Proof.
    revert b; induction l as [|e l IH]; intros b; cbn [fit]; [cbn; lia|].
    destruct (e_mem e <=? b) eqn:E; [|cbn; lia]. rewrite total_cons. specialize (IH (b - e_mem e)). lia.
  Qed.

  Lemma fit_maximal b (l : list entry) x r : l = fit b l ++ x :: r -> b < total (fit b l) + e_mem x.
  Proof.
    revert b; induction l as [|e l IH]; intros b H.
    - cbn [fit app] in H. discriminate.
    - cbn [fit] in *. destruct (e_mem e <=? b) eqn:E.
      + cbn [app] in H. injection H as H. apply IH in H. rewrite total_cons. lia.
      + cbn [app] in H. injection H as H1 H2. subst x. cbn [total fold_right]. lia.
  Qed.

  Lemma fit_keys_incl b x (l : list entry) : In x (keys (fit b l)) -> In x (keys l).
  Proof.
    destruct (fit_prefix b l) as [r Hr]. intros H. rewrite Hr, keys_app. apply in_or_app. left. exact H.
  Qed.

  Lemma nodup_fit b (l : list entry) : NoDup (keys l) -> NoDup (keys (fit b l)).
  Proof. destruct (fit_prefix b l) as [r Hr]. intros H. rewrite Hr in H. apply nodup_prefix in H. exact H. Qed.

  (* ---------- last entry ---------- *)
  Lemma last_entry_snoc (l : list entry) e : last_entry (l ++ [e]) = Some e.
  Proof.
    induction l as [|x l IH]; [reflexivity|]. cbn [app last_entry].
    destruct (l ++ [e]) eqn:E; [destruct l; discriminate|]. exact IH.
  Qed.

  Lemma without_last (l : list entry) e : NoDup (keys (l ++ [e])) -> without (e_key e) (l ++ [e]) = l.
  Proof.
    intros H. rewrite without_app. rewrite keys_app in H.
    assert (Hn : ~ In (e_key e) (keys l)).
    { intros HI. apply NoDup_remove_2 in H. apply H. rewrite app_nil_r. exact HI. }
    rewrite (without_notin _ _ Hn). rewrite without_cons, has_key_self. cbn. apply app_nil_r.
  Qed.
End Proofs.
