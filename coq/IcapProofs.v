(* IcapProofs.v — proofs about the ICAP transaction model (C60). *)
Require Import SquidV.Bytes SquidV.IcapModel SquidV.gen.IcapConst_gen.
Require Import ZifyBool ZifyN ZifyNat.
Local Open Scope N_scope.

Lemma dispatch_table :
  icap_dispatch 100 = 1 /\ icap_dispatch 200 = 2 /\ icap_dispatch 201 = 2 /\ icap_dispatch 204 = 3 /\ icap_dispatch 206 = 4 /\
  forall s, s <> 100 -> s <> 200 -> s <> 201 -> s <> 204 -> s <> 206 -> icap_dispatch s = 0.
Proof.
  repeat split; try reflexivity. intros s H1 H2 H3 H4 H5. unfold icap_dispatch.
  repeat match goal with |- context[?a =? ?b] => destruct (N.eqb_spec a b); [congruence|] end. reflexivity.
Qed.

Lemma writing_ranks :
  map w_rank [WInit; WConnect; WHeaders; WPreview; WPaused; WPrime; WAlmostDone; WReallyDone] = [0;1;2;3;4;5;6;7] /\
  writing_enum_size = 8.
Proof. split; reflexivity. Qed.

(* ------------------------------------------------------------------ frames
   [fr x y]: y differs from x only in bookkeeping that the delivered message does not depend on *)
Definition fr (x y : xs) : Prop :=
  ad y = ad x /\ out y = out x /\ job y = job x /\ cfg y = cfg x /\
  parsing (st y) = parsing (st x) /\ sending (st y) = sending (st x) /\
  s_off (vs y) = s_off (vs x) /\ vp_data (vs y) = vp_data (vs x) /\ readbuf (io y) = readbuf (io x) /\
  icap_h (io y) = icap_h (io x) /\ icap_b (io y) = icap_b (io x) /\ icap_tr (io y) = icap_tr (io x) /\
  comm_eof (io y) = comm_eof (io x).
Lemma fr_refl x : fr x x.
Proof. unfold fr; repeat split. Qed.
Lemma fr_trans x y z : fr x y -> fr y z -> fr x z.
Proof. unfold fr; intros; intuition congruence. Qed.
Definition frames (f : xs -> res) : Prop := forall x, fr x (st_of (f x)).

Lemma frames_bind f g : frames f -> frames g -> frames (fun x => f x >>= g).
Proof.
  intros Hf Hg x. specialize (Hf x). unfold bind. destruct (f x) as [y|y]; cbn [st_of] in *.
  - eapply fr_trans; [exact Hf| apply Hg].
  - exact Hf.
Qed.
Lemma fr_bind x r g : fr x (st_of r) -> frames g -> fr x (st_of (r >>= g)).
Proof.
  intros H Hg. unfold bind. destruct r as [y|y]; cbn [st_of] in *; [eapply fr_trans; [exact H|apply Hg]|exact H].
Qed.
Lemma frames_must c : frames (fun x => must (c x) x).
Proof. intros x. unfold must. destruct (c x); apply fr_refl. Qed.
Lemma fr_must x (c : bool) : fr x (st_of (must c x)).
Proof. unfold must; destruct c; apply fr_refl. Qed.

Ltac frsolve := unfold fr; cbn; repeat split; reflexivity.
Ltac brk :=
  repeat match goal with
  | |- context[if ?c then _ else _] => destruct c
  | |- context[match ?c with _ => _ end] => destruct c
  end.

Lemma virginConsume_fr : frames virginConsume.
Proof.
  intros x. unfold virginConsume.
  destruct (negb (vp_attached (vs x))); [apply fr_refl|].
  destruct (retriable (fl x)); [apply fr_refl|].
  match goal with |- context[if ?c then Ok x else _] => destruct c; [apply fr_refl|] end.
  unfold must, bind. match goal with |- context[if ?c then Ok x else Throw x] => destruct c; [|apply fr_refl] end.
  match goal with |- context[if ?c then _ else _] => destruct c end; cbn [st_of]; [|apply fr_refl].
  unfold disableBypass, disableRepeats. frsolve.
Qed.

Lemma checkConsuming_fr x : fr x (checkConsuming x).
Proof. unfold checkConsuming. match goal with |- context[if ?c then _ else _] => destruct c end; [apply fr_refl|frsolve]. Qed.

Lemma stopWriting_fr n : frames (stopWriting n).
Proof.
  intros x. unfold stopWriting. destruct (writing (st x)); try apply fr_refl;
  (destruct (writer (io x) && n); cbn [st_of];
   [eapply fr_trans; [|apply checkConsuming_fr]; frsolve|];
   apply fr_bind;
   [ destruct (writer (io x)); destruct (active _);
     first [ eapply fr_trans; [|apply virginConsume_fr]; frsolve | cbn [st_of]; frsolve ]
   | intros y; cbn [st_of]; eapply fr_trans; [|apply checkConsuming_fr]; frsolve ]).
Qed.

Lemma stopBackup_fr : frames stopBackup.
Proof.
  intros x. unfold stopBackup. destruct (active _); [|apply fr_refl].
  eapply fr_trans; [|apply virginConsume_fr]. frsolve.
Qed.

Ltac fr1 :=
  match goal with
  | |- fr ?x ?x => apply fr_refl
  | |- fr ?x (st_of (must _ ?x)) => apply fr_must
  | |- fr _ (st_of (must _ _)) => eapply fr_trans; [| apply fr_must]
  | |- fr _ (st_of (_ >>= _)) => apply fr_bind; [| unfold frames; intros ?]
  | |- fr _ (st_of (if ?c then _ else _)) => destruct c
  | |- fr _ (st_of (match ?c with _ => _ end)) => destruct c
  | |- fr _ (st_of (Ok _)) => cbn [st_of]
  | |- fr _ (st_of (Throw _)) => cbn [st_of]
  | |- fr _ (st_of (virginConsume _)) => eapply fr_trans; [| apply virginConsume_fr]
  | |- fr _ (st_of (stopWriting _ _)) => eapply fr_trans; [| apply stopWriting_fr]
  | |- fr _ (st_of (stopBackup _)) => eapply fr_trans; [| apply stopBackup_fr]
  | |- fr _ (checkConsuming _) => eapply fr_trans; [| apply checkConsuming_fr]
  | |- fr _ (if ?c then _ else _) => destruct c
  | |- fr _ _ => frsolve
  end.
Ltac frauto := cbv zeta; repeat fr1.

Lemma writeSomeBody_fr n : frames (writeSomeBody n).
Proof. intros x. unfold writeSomeBody. frauto. Qed.

Lemma decideWritingAfterPreview_fr : frames decideWritingAfterPreview.
Proof. intros x. unfold decideWritingAfterPreview. frauto. Qed.

Lemma writePreviewBody_fr : frames writePreviewBody.
Proof.
  intros x. unfold writePreviewBody. apply fr_bind; [apply fr_must|]. intros y.
  apply fr_bind; [apply writeSomeBody_fr|]. intros z. destruct (pv_done z); [apply decideWritingAfterPreview_fr|apply fr_refl].
Qed.

Lemma writePrimeBody_fr : frames writePrimeBody.
Proof.
  intros x. unfold writePrimeBody. apply fr_bind; [apply fr_must|]. intros y.
  apply fr_bind; [apply writeSomeBody_fr|]. intros z. destruct (end_reached_w z); [apply stopWriting_fr|apply fr_refl].
Qed.

Lemma writeMore_fr : frames writeMore.
Proof.
  intros x. unfold writeMore. destruct (writer (io x)); [apply fr_refl|].
  destruct (writing (st x)); try apply fr_refl.
  - apply writePreviewBody_fr. - apply writePrimeBody_fr. - apply stopWriting_fr.
Qed.

Lemma handleCommWroteHeaders_fr : frames handleCommWroteHeaders.
Proof.
  intros x. unfold handleCommWroteHeaders. destruct (pv_enabled x).
  - apply fr_bind; [|apply writeMore_fr]. destruct (pv_done x); [apply decideWritingAfterPreview_fr|cbn [st_of]; frsolve].
  - destruct (vb_expected (cfg x)); [|apply stopWriting_fr].
    eapply fr_trans; [|apply writeMore_fr]. frsolve.
Qed.

Lemma noteCommWrote_fr : frames noteCommWrote.
Proof.
  intros x. unfold noteCommWrote. cbv zeta.
  destruct (ignore_lw (io (with_writer false x))); [cbn [st_of]; frsolve|].
  assert (H : fr x (with_writer false x)) by frsolve.
  destruct (writing (st (with_writer false x)));
    (eapply fr_trans; [exact H|]); first [apply writeMore_fr | apply handleCommWroteHeaders_fr].
Qed.

(* ------------------------------------------------------------------ list facts *)
Lemma takeN_0 {A} (l : list A) : takeN 0 l = [].
Proof. destruct l; reflexivity. Qed.
Lemma dropN_0 {A} (l : list A) : dropN 0 l = l.
Proof. destruct l; reflexivity. Qed.
Lemma takeN_add {A} a b (l : list A) : takeN (a + b) l = takeN a l ++ takeN b (dropN a l).
Proof.
  revert a; induction l as [|h l IH]; intros a; [reflexivity|].
  destruct (N.eqb_spec a 0) as [->|Ha].
  - rewrite N.add_0_l, takeN_0, dropN_0. reflexivity.
  - cbn [takeN dropN]. destruct (N.eqb_spec (a + b) 0) as [E|E]; [lia|].
    destruct (N.eqb_spec a 0) as [E2|_]; [lia|].
    cbn [app]. f_equal. replace (N.pred (a + b)) with (N.pred a + b) by lia. apply IH.
Qed.
Lemma takeN_app_le {A} a (l m : list A) : a <= lenN l -> takeN a (l ++ m) = takeN a l.
Proof.
  revert a; induction l as [|h l IH]; intros a Ha; cbn [lenN] in Ha.
  - assert (a = 0) by lia; subst. destruct m; reflexivity.
  - cbn [app takeN]. destruct (N.eqb_spec a 0); [reflexivity|]. f_equal. apply IH. lia.
Qed.

(* ------------------------------------------------------------------ the invariant *)
(* what is on the adapted body pipe agrees with the head it belongs to *)
Definition body_ok (x : xs) : Prop :=
  match ad_header (ad x) with
  | None => o_body (out x) = [] /\ ad_in (ad x) = [] /\ s_off (vs x) = 0
  | Some SrcVirgin => o_body (out x) = takeN (s_off (vs x)) (vp_data (vs x)) /\ ad_in (ad x) = [] /\
                      s_off (vs x) <= lenN (vp_data (vs x))
  | Some SrcAdapted => o_body (out x) = ad_in (ad x) /\ s_off (vs x) = 0
  end.
Definition answer_ok (x : xs) : Prop := forall s, o_answer (out x) = Some (Fwd s) -> ad_header (ad x) = Some s.
Definition p1 (x : xs) : Prop := sending (st x) = SVirgin -> ad_header (ad x) = Some SrcVirgin.
Definition p2 (x : xs) : Prop := parsing (st x) = PsBody -> ad_header (ad x) = Some SrcAdapted.
Definition p4 (x : xs) : Prop := parsing (st x) = PsHttpHeader -> icap_h (io x) <> HNone.
Definition p5 (x : xs) : Prop := ad_header (ad x) = Some SrcVirgin -> parsing (st x) = PsDone.
(* holds at every point, also in the state an exception leaves behind *)
Definition InvW (x : xs) : Prop := body_ok x /\ answer_ok x /\ p1 x /\ p2 x.
(* holds between asynchronous calls *)
Definition Inv (x : xs) : Prop := InvW x /\ p4 x /\ p5 x.

Lemma fr_InvW x y : fr x y -> InvW x -> InvW y.
Proof.
  unfold fr, InvW, body_ok, answer_ok, p1, p2. intros (Ha & Ho & Hj & Hc & Hp & Hs & Hso & Hv & _) H.
  rewrite Ha, Ho, Hp, Hs, Hso, Hv. exact H.
Qed.
Lemma fr_Inv x y : fr x y -> Inv x -> Inv y.
Proof.
  intros F (HW & H4 & H5). split; [eapply fr_InvW; eauto|].
  unfold fr in F. destruct F as (Ha & Ho & Hj & Hc & Hp & Hs & Hso & Hv & Hr & Hh & _).
  unfold p4, p5. rewrite Ha, Hp, Hh. auto.
Qed.

(* Hoare-style specification of a model function: P before; Q after a normal return, QT after a throw *)
Definition spec (P : xs -> Prop) (f : xs -> res) (Q QT : xs -> Prop) : Prop :=
  forall x, P x -> match f x with Ok y => Q y | Throw y => QT y end.

Lemma spec_bind (P : xs -> Prop) f (Q QT : xs -> Prop) g (R : xs -> Prop) :
  spec P f Q QT -> spec Q g R QT -> spec P (fun x => f x >>= g) R QT.
Proof.
  intros Hf Hg x Hx. specialize (Hf x Hx). unfold bind. destruct (f x) as [y|y]; [apply Hg, Hf|exact Hf].
Qed.
Lemma spec_frames (P : xs -> Prop) f : frames f -> (forall x y, fr x y -> P x -> P y) -> spec P f P P.
Proof. intros Hf HP x Hx. specialize (Hf x). destruct (f x); cbn [st_of] in Hf; eapply HP; eauto. Qed.
Lemma spec_weaken (P P' : xs -> Prop) f (Q Q' QT QT' : xs -> Prop) :
  spec P f Q QT -> (forall x, P' x -> P x) -> (forall x, Q x -> Q' x) -> (forall x, QT x -> QT' x) -> spec P' f Q' QT'.
Proof. intros H HP HQ HT x Hx. specialize (H x (HP x Hx)). destruct (f x); auto. Qed.

Lemma Inv_InvW x : Inv x -> InvW x.
Proof. intros [H _]; exact H. Qed.

(* stopSending only ends the body: no byte, no head changes *)
Lemma stopSending_InvW n x : InvW x -> InvW (st_of (stopSending n x)).
Proof.
  intros H. unfold stopSending. destruct (sending (st x)) eqn:Es; cbn [st_of]; try exact H.
  - unfold must, bind. destruct (negb (ad_pipe (ad x))); cbn [st_of]; [|exact H].
    eapply fr_InvW; [apply checkConsuming_fr|].
    destruct H as (Hb & Ha & H1 & H2). repeat split; auto. unfold p1; cbn; discriminate.
  - eapply fr_InvW; [apply checkConsuming_fr|].
    destruct H as (Hb & Ha & H1 & H2).
    destruct (ad_pipe (ad x)); (repeat split; [exact Hb|exact Ha|unfold p1; cbn; discriminate|exact H2]).
  - eapply fr_InvW; [apply checkConsuming_fr|].
    destruct H as (Hb & Ha & H1 & H2).
    destruct (ad_pipe (ad x)); (repeat split; [exact Hb|exact Ha|unfold p1; cbn; discriminate|exact H2]).
Qed.
Lemma stopSending_facts n x :
  let y := st_of (stopSending n x) in
  ad_header (ad y) = ad_header (ad x) /\ parsing (st y) = parsing (st x) /\ icap_h (io y) = icap_h (io x) /\
  (sending (st y) = SDone \/ y = x).
Proof.
  cbv zeta. unfold stopSending. destruct (sending (st x)) eqn:Es; cbn [st_of]; auto.
  - unfold must, bind. destruct (negb (ad_pipe (ad x))); cbn [st_of]; auto.
    pose proof (checkConsuming_fr (with_sending SDone x)) as F. unfold fr in F. cbn in F.
    destruct F as (Fa & _ & _ & _ & Fp & Fs & _ & _ & _ & Fh & _). rewrite Fa, Fp, Fh, Fs. auto.
  - match goal with |- context[checkConsuming ?z] => pose proof (checkConsuming_fr z) as F end.
    unfold fr in F. destruct F as (Fa & _ & _ & _ & Fp & Fs & _ & _ & _ & Fh & _). rewrite Fa, Fp, Fh, Fs.
    destruct (ad_pipe (ad x)); cbn; auto.
  - match goal with |- context[checkConsuming ?z] => pose proof (checkConsuming_fr z) as F end.
    unfold fr in F. destruct F as (Fa & _ & _ & _ & Fp & Fs & _ & _ & _ & Fh & _). rewrite Fa, Fp, Fh, Fs.
    destruct (ad_pipe (ad x)); cbn; auto.
Qed.
