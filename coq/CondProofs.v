(* CondProofs.v — proofs for C14 (conditional requests) *)
Require Import SquidV.Bytes SquidV.HopModel SquidV.HopProofs SquidV.CondModel.
Require Import SquidV.gen.HdrTable_gen.
Require Import ZifyBool.
Local Open Scope N_scope.

(* ================= generic helpers ================= *)
Lemma leqb_refl (a : bytes) : list_eqb a a = true.
Proof. induction a as [|x a IH]; cbn [list_eqb]; [reflexivity|]. now rewrite N.eqb_refl, IH. Qed.
Lemma leqb_eq (a : bytes) : forall b, list_eqb a b = true -> a = b.
Proof.
  induction a as [|x a IH]; intros [|y b] H; cbn [list_eqb] in H; try discriminate; [reflexivity|].
  apply andb_prop in H. destruct H as [H1 H2]. apply N.eqb_eq in H1. subst y. f_equal. now apply IH.
Qed.
Lemma leqb_iff (a b : bytes) : list_eqb a b = true <-> a = b.
Proof. split; [apply leqb_eq| intros ->; apply leqb_refl]. Qed.

Definition no_nul (l : bytes) : bool := forallb (fun c => negb (c =? 0)) l.
Lemma span_forall {A} (p : A -> bool) l : forallb p l = true -> span p l = (l, []).
Proof.
  induction l as [|x l IH]; intros H; cbn [span]; [reflexivity|].
  cbn [forallb] in H. apply andb_prop in H. destruct H as [Hx Hl]. rewrite Hx, (IH Hl). reflexivity.
Qed.
Lemma c_str_no_nul l : no_nul l = true -> c_str l = l.
Proof. intros H. unfold c_str. now rewrite (span_forall _ l H). Qed.

(* ================= 1. etagParseInit ================= *)
(* the text of an entity-tag: optional W/ then DQUOTE mid DQUOTE *)
Definition render_tag (w : bool) (mid : bytes) : bytes := (if w then [87; 47] else []) ++ 34 :: mid ++ [34].

Lemma is_quoted_iff t : is_quoted t = true <-> exists mid, t = 34 :: mid ++ [34].
Proof.
  split.
  - destruct t as [|c r]; cbn [is_quoted]; [discriminate|].
    destruct (c =? 34) eqn:Ec; cbn [andb]; [|discriminate]. apply N.eqb_eq in Ec. subst c.
    destruct (rev r) as [|d x] eqn:E; [discriminate|].
    intros Hd. apply N.eqb_eq in Hd. subst d.
    exists (rev x). f_equal. rewrite <- (rev_involutive r), E. reflexivity.
  - intros [mid ->]. cbn [is_quoted]. rewrite rev_app_distr. reflexivity.
Qed.

Lemma etag_parse_render w mid :
  no_nul mid = true ->
  etag_parse (render_tag w mid) = Some {| et_weak := w; et_str := 34 :: mid ++ [34] |}.
Proof.
  intros Hn. unfold etag_parse.
  assert (Hq : is_quoted (34 :: mid ++ [34]) = true) by (apply is_quoted_iff; now exists mid).
  assert (Hnn : no_nul (render_tag w mid) = true).
  { unfold render_tag, no_nul in *. rewrite forallb_app. cbn [forallb]. rewrite forallb_app, Hn.
    destruct w; reflexivity. }
  rewrite (c_str_no_nul _ Hnn). unfold render_tag. destruct w.
  - change ([87; 47] ++ 34 :: mid ++ [34]) with (87 :: 47 :: 34 :: mid ++ [34]).
    replace (starts_with (87 :: 47 :: 34 :: mid ++ [34]) [87; 47]) with true by reflexivity.
    replace (dropN 2 (87 :: 47 :: 34 :: mid ++ [34])) with (34 :: mid ++ [34]) by reflexivity.
    now rewrite Hq.
  - change ([] ++ 34 :: mid ++ [34]) with (34 :: mid ++ [34]).
    replace (starts_with (34 :: mid ++ [34]) [87; 47]) with false by reflexivity.
    now rewrite Hq.
Qed.

(* accepted exactly: [W/] DQUOTE ... DQUOTE (for NUL-free strings, which is all a header value can be) *)
Theorem etag_parse_spec s t :
  no_nul s = true ->
  (etag_parse s = Some t <-> exists mid, s = render_tag (et_weak t) mid /\ et_str t = 34 :: mid ++ [34]).
Proof.
  intros Hn. split.
  - unfold etag_parse. rewrite (c_str_no_nul s Hn).
    destruct (starts_with s [87; 47]) eqn:Ew.
    + destruct s as [|a [|b s2]]; cbn [starts_with] in Ew; try discriminate.
      apply andb_prop in Ew. destruct Ew as [Ea Eb]. apply andb_prop in Eb. destruct Eb as [Eb _].
      apply N.eqb_eq in Ea, Eb. subst a b.
      assert (Hd : dropN 2 (87 :: 47 :: s2) = s2) by (destruct s2; reflexivity). rewrite Hd.
      destruct (is_quoted s2) eqn:Eq; [|discriminate].
      intros H. injection H as <-. cbn [et_weak et_str]. apply is_quoted_iff in Eq. destruct Eq as [mid ->].
      exists mid. split; reflexivity.
    + destruct (is_quoted s) eqn:Eq; [|discriminate].
      intros H. injection H as <-. cbn [et_weak et_str]. apply is_quoted_iff in Eq. destruct Eq as [mid Em].
      exists mid. split; [|exact Em]. unfold render_tag. cbn [app]. exact Em.
  - intros [mid [Hs Ht]]. subst s.
    assert (Hm : no_nul mid = true).
    { unfold render_tag, no_nul in Hn. rewrite forallb_app in Hn. apply andb_prop in Hn. destruct Hn as [_ Hn].
      cbn [forallb] in Hn. apply andb_prop in Hn. destruct Hn as [_ Hn]. rewrite forallb_app in Hn.
      now apply andb_prop in Hn. }
    rewrite (etag_parse_render _ _ Hm). destruct t as [w st]. cbn [et_weak et_str] in *. now subst st.
Qed.

(* ================= 2. comparison functions (RFC 7232 2.3.2) ================= *)
Theorem weak_eq_spec a b : etag_weak_eq a b = true <-> et_str a = et_str b.
Proof. unfold etag_weak_eq, etag_strings_match. apply leqb_iff. Qed.
Theorem strong_eq_spec a b :
  etag_strong_eq a b = true <-> et_weak a = false /\ et_weak b = false /\ et_str a = et_str b.
Proof.
  unfold etag_strong_eq, etag_strings_match. rewrite !andb_true_iff, !negb_true_iff, leqb_iff. tauto.
Qed.
Theorem weak_eq_equivalence :
  (forall a, etag_weak_eq a a = true) /\
  (forall a b, etag_weak_eq a b = etag_weak_eq b a) /\
  (forall a b c, etag_weak_eq a b = true -> etag_weak_eq b c = true -> etag_weak_eq a c = true).
Proof.
  repeat split.
  - intros a. apply weak_eq_spec. reflexivity.
  - intros a b. destruct (etag_weak_eq a b) eqn:E1; destruct (etag_weak_eq b a) eqn:E2; try reflexivity.
    + apply weak_eq_spec in E1. symmetry in E1. apply weak_eq_spec in E1. congruence.
    + apply weak_eq_spec in E2. symmetry in E2. apply weak_eq_spec in E2. congruence.
  - intros a b c H1 H2. apply weak_eq_spec in H1, H2. apply weak_eq_spec. congruence.
Qed.
Theorem strong_implies_weak a b : etag_strong_eq a b = true -> etag_weak_eq a b = true.
Proof. intros H. apply strong_eq_spec in H. apply weak_eq_spec. tauto. Qed.

(* ================= 4. processConditional ================= *)
Section Decision.
Variable pd : bytes -> Z.

Definition im_present (r : creq) := has_id ID_IF_MATCH (rq_hdrs r).
Definition inm_present (r : creq) := has_id ID_IF_NONE_MATCH (rq_hdrs r).
(* effective modification time is known and not later than the client's date *)
Definition not_modified_since (e : centry) (ims : Z) : Prop :=
  (0 <= last_modified pd e <= ims)%Z.

Lemma modified_since_false e ims : modified_since pd e ims = false <-> not_modified_since e ims.
Proof.
  unfold modified_since, not_modified_since.
  destruct (last_modified pd e <? 0)%Z eqn:E1; [split; [discriminate|lia]|].
  destruct (ims <? last_modified pd e)%Z eqn:E2; [split; [discriminate|lia]|].
  destruct (last_modified pd e <? ims)%Z eqn:E3; split; intros; try reflexivity; lia.
Qed.

(* 304 exactly when: stored 200, If-Match (if any) holds, and either If-None-Match is present, matches and the method
   is GET/HEAD, or If-None-Match is absent and a parsed If-Modified-Since (> 0) covers the modification time *)
Theorem verdict_304_iff r e :
  process_conditional pd r e = V304 <->
  en_status e = 200 /\
  (im_present r = true -> has_if_match_etag e r = true) /\
  ((inm_present r = true /\ has_if_none_match_etag e r = true /\ rq_get_or_head r = true) \/
   (inm_present r = false /\ (0 < rq_ims pd r)%Z /\ not_modified_since e (rq_ims pd r))).
Proof.
  unfold process_conditional, im_present, inm_present, ims_flag.
  pose proof (modified_since_false e (rq_ims pd r)) as Hms. unfold not_modified_since in *.
  destruct (en_status e =? 200) eqn:Es; [apply N.eqb_eq in Es | apply N.eqb_neq in Es]; cbn [negb];
  destruct (has_id ID_IF_MATCH (rq_hdrs r)); destruct (has_if_match_etag e r);
  destruct (has_id ID_IF_NONE_MATCH (rq_hdrs r)); destruct (has_if_none_match_etag e r); destruct (rq_get_or_head r);
  destruct (0 <? rq_ims pd r)%Z eqn:Ei; destruct (modified_since pd e (rq_ims pd r)); cbn [andb negb];
  intuition (try discriminate; try congruence; try lia).
Qed.

(* 412 exactly when: stored 200 and If-Match fails, or (If-Match holds and) If-None-Match matches on a non-GET/HEAD *)
Theorem verdict_412_iff r e :
  process_conditional pd r e = V412 <->
  en_status e = 200 /\
  ((im_present r = true /\ has_if_match_etag e r = false) \/
   ((im_present r = true -> has_if_match_etag e r = true) /\
    inm_present r = true /\ has_if_none_match_etag e r = true /\ rq_get_or_head r = false)).
Proof.
  unfold process_conditional, im_present, inm_present, ims_flag.
  pose proof (modified_since_false e (rq_ims pd r)) as Hms. unfold not_modified_since in *.
  destruct (en_status e =? 200) eqn:Es; [apply N.eqb_eq in Es | apply N.eqb_neq in Es]; cbn [negb];
  destruct (has_id ID_IF_MATCH (rq_hdrs r)); destruct (has_if_match_etag e r);
  destruct (has_id ID_IF_NONE_MATCH (rq_hdrs r)); destruct (has_if_none_match_etag e r); destruct (rq_get_or_head r);
  destruct (0 <? rq_ims pd r)%Z eqn:Ei; destruct (modified_since pd e (rq_ims pd r)); cbn [andb negb];
  intuition (try discriminate; try congruence; try lia).
Qed.

(* everything else is a full response: a plain hit, or (stored status other than 200) a forwarded miss *)
Theorem verdict_otherwise_full r e :
  process_conditional pd r e <> V304 -> process_conditional pd r e <> V412 ->
  (process_conditional pd r e = VHit /\ en_status e = 200) \/ (process_conditional pd r e = VMiss /\ en_status e <> 200).
Proof.
  unfold process_conditional.
  destruct (en_status e =? 200) eqn:Es; cbn [negb].
  2:{ intros _ _. right. split; [reflexivity|]. now apply N.eqb_neq. }
  apply N.eqb_eq in Es. intros H1 H2. left. split; [|exact Es].
  destruct (has_id ID_IF_MATCH (rq_hdrs r) && negb (has_if_match_etag e r)); [contradiction|].
  destruct (has_id ID_IF_NONE_MATCH (rq_hdrs r)).
  - destruct (has_if_none_match_etag e r); [destruct (rq_get_or_head r); contradiction|reflexivity].
  - destruct (ims_flag pd r); [|reflexivity]. destruct (modified_since pd e (rq_ims pd r)); [reflexivity|contradiction].
Qed.

(* a request that is not conditional is never answered 304/412 from the hit path *)
Theorem unconditional_is_hit r e : is_conditional pd r = false -> hit_verdict pd r e = VHit.
Proof. unfold hit_verdict. now intros ->. Qed.
End Decision.

(* If-None-Match makes If-Modified-Since irrelevant: with If-None-Match present the verdict is the same for every
   date parser, i.e. whatever the If-Modified-Since / Last-Modified values are *)
Theorem inm_overrides_ims pd1 pd2 r e :
  has_id ID_IF_NONE_MATCH (rq_hdrs r) = true -> hit_verdict pd1 r e = hit_verdict pd2 r e.
Proof.
  intros H. unfold hit_verdict, is_conditional, process_conditional. rewrite H, !orb_true_r. reflexivity.
Qed.

(* weak comparison is used only for GET/HEAD without Range *)
Theorem weak_only_get_head_unranged e r :
  (rq_ranged r = true \/ rq_get_or_head r = false) ->
  has_if_none_match_etag e r = has_one_of_etags (get_etag (en_hdrs e)) (get_list ID_IF_NONE_MATCH (rq_hdrs r)) false.
Proof.
  intros H. unfold has_if_none_match_etag, allow_weak_match.
  destruct H as [-> | ->]; [reflexivity|]. now rewrite andb_false_r.
Qed.
(* If-Match always uses the strong comparison *)
Theorem if_match_is_strong e r :
  has_if_match_etag e r = has_one_of_etags (get_etag (en_hdrs e)) (get_list ID_IF_MATCH (rq_hdrs r)) false.
Proof. reflexivity. Qed.

(* ================= 3. the list walk of hasOneOfEtags ================= *)
(* An element of an If-Match / If-None-Match list: `*` or an entity-tag, followed by optional whitespace (el_ws)
   and, when another element follows, a comma and any mix of whitespace and further commas (el_dl). *)
Record elem := { el_star : bool; el_weak : bool; el_mid : bytes; el_ws : bytes; el_dl : bytes }.
Definition elem_text (e : elem) : bytes := if el_star e then asterisk else render_tag (el_weak e) (el_mid e).
Definition is_dl (c : N) : bool := is_ows c || (c =? 44).
(* etagc of RFC 7232 minus the backslash: any byte except DQUOTE, backslash, NUL *)
Definition etagc_nb (c : N) : bool := negb (c =? 34) && negb (c =? 92) && negb (c =? 0).
Definition elem_ok (e : elem) : bool :=
  forallb etagc_nb (el_mid e) && forallb is_ows (el_ws e) && forallb is_dl (el_dl e).
Fixpoint render (es : list elem) : bytes :=
  match es with
  | [] => []
  | e :: r => elem_text e ++ el_ws e ++ match r with [] => [] | _ => 44 :: el_dl e ++ render r end
  end.
(* what may follow the last element: nothing, or a comma and more delimiters *)
Definition post_ok (p : bytes) : bool := match p with [] => true | c :: q => (c =? 44) && forallb is_dl q end.

(* --- the scanner on the pieces of an element --- *)
Lemma scan_plain p : forall l acc,
  forallb (fun c => negb (c =? 34) && negb (c =? 44)) p = true ->
  scan_item 44 false (p ++ l) acc = scan_item 44 false l (rev p ++ acc).
Proof.
  induction p as [|c p IH]; intros l acc H; [reflexivity|].
  cbn [forallb] in H. apply andb_prop in H. destruct H as [Hc Hp].
  apply andb_prop in Hc. destruct Hc as [H34 H44]. apply negb_true_iff in H34, H44.
  cbn [app scan_item]. rewrite H34, H44. cbn [orb]. rewrite (IH l (c :: acc) Hp). cbn [rev]. now rewrite <- app_assoc.
Qed.
Lemma scan_quoted mid : forall l acc,
  forallb etagc_nb mid = true ->
  scan_item 44 true (mid ++ 34 :: l) acc = scan_item 44 false l (34 :: rev mid ++ acc).
Proof.
  induction mid as [|c m IH]; intros l acc H.
  - cbn [app scan_item rev]. reflexivity.
  - cbn [forallb] in H. apply andb_prop in H. destruct H as [Hc Hm]. unfold etagc_nb in Hc.
    apply andb_prop in Hc. destruct Hc as [Hc H0]. apply andb_prop in Hc. destruct Hc as [H34 H92].
    apply negb_true_iff in H34, H92.
    cbn [app scan_item]. rewrite H34, H92. rewrite (IH l (c :: acc) Hm). cbn [rev]. now rewrite <- !app_assoc.
Qed.
Lemma scan_stop rest acc :
  match rest with [] => True | c :: _ => c = 44 end -> scan_item 44 false rest acc = (rev acc, rest).
Proof. destruct rest as [|c q]; intros H; [reflexivity|]. subst c. reflexivity. Qed.

Lemma ows_plain ws : forallb is_ows ws = true -> forallb (fun c => negb (c =? 34) && negb (c =? 44)) ws = true.
Proof.
  intros H. rewrite forallb_forall in *. intros c Hc. specialize (H c Hc). unfold is_ows in H. lia.
Qed.

Lemma scan_elem e rest :
  elem_ok e = true -> match rest with [] => True | c :: _ => c = 44 end ->
  scan_item 44 false (elem_text e ++ el_ws e ++ rest) [] = (elem_text e ++ el_ws e, rest).
Proof.
  intros Hok Hrest. unfold elem_ok in Hok. apply andb_prop in Hok. destruct Hok as [Hok Hdl].
  apply andb_prop in Hok. destruct Hok as [Hmid Hws].
  assert (Hfin : forall acc, scan_item 44 false (el_ws e ++ rest) acc = (rev acc ++ el_ws e, rest)).
  { intros acc. rewrite (scan_plain _ _ _ (ows_plain _ Hws)), (scan_stop _ _ Hrest).
    now rewrite rev_app_distr, rev_involutive. }
  unfold elem_text. destruct (el_star e).
  - unfold asterisk. cbn [app scan_item]. replace (42 =? 34) with false by reflexivity.
    replace ((42 =? 44) || (42 =? 44)) with false by reflexivity. rewrite Hfin. reflexivity.
  - unfold render_tag. destruct (el_weak e).
    + change (([87; 47] ++ 34 :: el_mid e ++ [34]) ++ el_ws e ++ rest)
        with (87 :: 47 :: 34 :: (el_mid e ++ [34]) ++ el_ws e ++ rest).
      rewrite <- app_assoc. cbn [app].
      cbn [scan_item]. replace (87 =? 34) with false by reflexivity. replace ((87 =? 44) || (87 =? 44)) with false by reflexivity.
      replace (47 =? 34) with false by reflexivity. replace ((47 =? 44) || (47 =? 44)) with false by reflexivity.
      rewrite N.eqb_refl. rewrite (scan_quoted _ _ _ Hmid), Hfin. cbn [rev app]. rewrite rev_app_distr, rev_involutive.
      cbn [rev app]. now rewrite <- !app_assoc.
    + change (([] ++ 34 :: el_mid e ++ [34]) ++ el_ws e ++ rest) with (34 :: (el_mid e ++ [34]) ++ el_ws e ++ rest).
      rewrite <- app_assoc. cbn [app].
      cbn [scan_item]. rewrite N.eqb_refl. rewrite (scan_quoted _ _ _ Hmid), Hfin. cbn [rev app].
      rewrite rev_app_distr, rev_involutive. cbn [rev app]. now rewrite <- !app_assoc.
Qed.

(* --- trimming and delimiter skipping --- *)
Lemma drop_xspace_rev_ows ws a c :
  forallb is_ows ws = true -> is_xspace c = false ->
  drop_while is_xspace (rev ws ++ c :: a) = c :: a.
Proof.
  intros Hws Hc. rewrite <- (rev_involutive ws) in Hws. revert Hws. generalize (rev ws) as w. clear ws.
  induction w as [|x w IH]; intros Hws; cbn [app drop_while]; [now rewrite Hc|].
  cbn [rev] in Hws. rewrite forallb_app in Hws. apply andb_prop in Hws. destruct Hws as [Hw Hx].
  cbn [forallb] in Hx. assert (Hxs : is_xspace x = true) by (unfold is_ows, is_xspace in *; lia).
  rewrite Hxs. apply IH. exact Hw.
Qed.
Lemma elem_text_last e : exists a c, elem_text e = a ++ [c] /\ is_xspace c = false.
Proof.
  unfold elem_text. destruct (el_star e).
  - exists [], 42. split; reflexivity.
  - exists ((if el_weak e then [87; 47] else []) ++ 34 :: el_mid e), 34. split; [|reflexivity].
    unfold render_tag. rewrite <- app_assoc. reflexivity.
Qed.
Lemma rtrim_elem e : forallb is_ows (el_ws e) = true -> rtrim (elem_text e ++ el_ws e) = elem_text e.
Proof.
  intros Hws. destruct (elem_text_last e) as [a [c [Ht Hc]]]. rewrite Ht. unfold rtrim.
  rewrite rev_app_distr, rev_app_distr. cbn [rev app].
  rewrite (drop_xspace_rev_ows _ _ _ Hws Hc). cbn [rev]. now rewrite rev_involutive.
Qed.
Lemma elem_text_first e : exists c t, elem_text e = c :: t /\ is_delim2 44 c = false.
Proof.
  unfold elem_text. destruct (el_star e); [exists 42, []; split; reflexivity|].
  unfold render_tag. destruct (el_weak e); [exists 87, (47 :: 34 :: el_mid e ++ [34])| exists 34, (el_mid e ++ [34])]; split; reflexivity.
Qed.
Lemma drop_delims pre c l :
  forallb is_dl pre = true -> is_delim2 44 c = false -> drop_while (is_delim2 44) (pre ++ c :: l) = c :: l.
Proof.
  intros Hp Hc. induction pre as [|x p IH]; cbn [app drop_while]; [now rewrite Hc|].
  cbn [forallb] in Hp. apply andb_prop in Hp. destruct Hp as [Hx Hp].
  assert (Hd : is_delim2 44 x = true) by (unfold is_dl, is_ows, is_delim2 in *; lia).
  rewrite Hd. apply IH, Hp.
Qed.
Lemma drop_all_delims pre : forallb is_dl pre = true -> drop_while (is_delim2 44) pre = [].
Proof.
  induction pre as [|x p IH]; intros Hp; [reflexivity|]. cbn [forallb] in Hp. apply andb_prop in Hp. destruct Hp as [Hx Hp].
  cbn [drop_while]. assert (Hd : is_delim2 44 x = true) by (unfold is_dl, is_ows, is_delim2 in *; lia).
  rewrite Hd. apply IH, Hp.
Qed.
Lemma elem_text_nonempty e : elem_text e <> [].
Proof. destruct (elem_text_first e) as [c [t [H _]]]. rewrite H. discriminate. Qed.

Lemma post_ok_dl p : post_ok p = true -> forallb is_dl p = true.
Proof.
  destruct p as [|c q]; [reflexivity|]. cbn [post_ok forallb]. intros H. apply andb_prop in H. destruct H as [Hc Hq].
  rewrite Hq, andb_true_r. unfold is_dl. now rewrite Hc, orb_true_r.
Qed.
Lemma post_ok_head p : post_ok p = true -> match p with [] => True | c :: _ => c = 44 end.
Proof. destruct p as [|c q]; [trivial|]. cbn [post_ok]. intros H. apply andb_prop in H. destruct H as [Hc _]. now apply N.eqb_eq. Qed.

(* --- the whole loop: the items Squid iterates over are exactly the rendered elements' texts --- *)
Lemma items_render es : forall f pre post,
  forallb elem_ok es = true -> forallb is_dl pre = true -> post_ok post = true ->
  (length (pre ++ render es ++ post) <= f)%nat ->
  items_fuel (S f) 44 (pre ++ render es ++ post) = map elem_text es.
Proof.
  induction es as [|e r IH]; intros f pre post Hes Hpre Hpost Hlen.
  - cbn [render app map]. rewrite items_fuel_S. cbn zeta.
    rewrite (drop_all_delims (pre ++ post)).
    + reflexivity.
    + rewrite forallb_app, Hpre. now apply post_ok_dl.
  - cbn [forallb] in Hes. apply andb_prop in Hes. destruct Hes as [He Hr].
    rewrite items_fuel_S. cbn zeta.
    destruct (elem_text_first e) as [c [t [Ht Hc]]].
    set (rest := match r with [] => post | _ => 44 :: el_dl e ++ render r ++ post end).
    assert (Hshape : pre ++ render (e :: r) ++ post = pre ++ elem_text e ++ el_ws e ++ rest).
    { cbn [render]. subst rest. destruct r as [|e2 r2].
      - now rewrite app_nil_r, <- !app_assoc.
      - rewrite <- !app_assoc. cbn [app]. now rewrite <- !app_assoc. }
    rewrite Hshape in *. rewrite Ht at 1. cbn [app]. rewrite (drop_delims pre c _ Hpre Hc).
    change (c :: t ++ el_ws e ++ rest) with ((c :: t) ++ el_ws e ++ rest). rewrite <- Ht.
    assert (Hrest : match rest with [] => True | c0 :: _ => c0 = 44 end).
    { subst rest. destruct r; [now apply post_ok_head|reflexivity]. }
    rewrite (scan_elem e rest He Hrest).
    assert (Hws : forallb is_ows (el_ws e) = true).
    { unfold elem_ok in He. apply andb_prop in He. destruct He as [He _]. now apply andb_prop in He. }
    rewrite (rtrim_elem e Hws).
    destruct (elem_text e) as [|c0 t0] eqn:Et; [now destruct (elem_text_nonempty e)|].
    f_equal.
    assert (Hlen2 : (S (length rest) <= f)%nat).
    { rewrite !app_length in Hlen. cbn [length] in Hlen. lia. }
    destruct f as [|f']; [lia|].
    subst rest. destruct r as [|e2 r2].
    + pose proof (IH f' post [] eq_refl (post_ok_dl _ Hpost) eq_refl) as H.
      cbn [render app] in H. rewrite app_nil_r in H. cbn [map] in *. apply H. lia.
    + assert (Hdl : forallb is_dl (44 :: el_dl e) = true).
      { cbn [forallb]. unfold elem_ok in He. apply andb_prop in He. destruct He as [_ Hd]. rewrite Hd. reflexivity. }
      change (44 :: el_dl e ++ render (e2 :: r2) ++ post) with ((44 :: el_dl e) ++ render (e2 :: r2) ++ post).
      rewrite (IH f' (44 :: el_dl e) post Hr Hdl Hpost); [reflexivity|].
      cbn [app length] in *. lia.
Qed.
