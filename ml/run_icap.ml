(* handlers for the icap area (C60).
   icap.sim <reqmod> <bypass> <preview|-> <vlen> <vknown> <first> <then> <early> <acl> <alen>
   actions: 204 | 100 | st:<code> | close | garbage | reset | 200:<req|res>:<none|icaphead|httphead|body=N|nolast>:<chunk sizes a,b,c | ->
   prints the predicted observation class *)
let zeros (n : int) : n list = List.init n (fun i -> n_of_int ((i * 7 + 3) mod 251))
let action_of (s : string) : action =
  match String.split_on_char ':' s with
  | ["204"] -> A204
  | ["100"] -> A100
  | ["st"; c] -> AStatus (n_of_string c)
  | ["close"] -> AClose
  | ["garbage"] -> AGarbage
  | ["reset"] -> AReset
  | ["200"; h; cut; cs] ->
    let hk = (match h with "req" -> HReq | "res" -> HRes | _ -> failwith "hkind") in
    let c = (match cut with
      | "none" -> CNone | "icaphead" -> CIcapHead | "httphead" -> CHttpHead | "nolast" -> CNoLast
      | _ -> (match String.split_on_char '=' cut with ["body"; n] -> CBody (n_of_string n) | _ -> failwith "cut")) in
    let chunks = if cs = "-" then [] else List.map (fun z -> zeros (int_of_string z)) (String.split_on_char ',' cs) in
    A200 (hk, chunks, c)
  | _ -> failwith "action"
let rec nat_of_int (i : int) : nat = if i <= 0 then O else S (nat_of_int (i - 1))
let obs_s = function
  | OVirgin -> "virgin" | OAdapted -> "adapted" | OError -> "error"
  | OTruncAdapted -> "trunc-adapted" | OTruncVirgin -> "trunc-virgin" | OStuck -> "stuck"

let () =
  reg "icap.sim" (fun [rq; bp; pvw; vlen; vknown; first; thn; early; acl; alen] ->
    let vl = int_of_string vlen in
    let c = { c_bypass = (bp = "1"); c_reqmod = (rq = "1");
              c_preview = (if pvw = "-" then None else Some (n_of_string pvw));
              vb_expected = (vl > 0); vb_known = (vknown = "1"); vb_size = n_of_string vlen } in
    let x = drive (nat_of_int 6000) (action_of first) (action_of thn) (early = "1") (init c) (zeros vl) SWaitFirst in
    let pvs = if pv_enabled x then string_of_n x.pv.pv_ad else "-" in
    let ie = saw_ieof x.io.wire || (pv_enabled x && not c.vb_expected) in
    obs_s (view x) ^ " pv=" ^ pvs ^ " ieof=" ^ b2s ie ^ " a204=" ^ b2s x.fl.allow204post)
