(* PagelogProofs.v — lemmas and proofs for C33 (error-page macro expansion) and C34 (access-log quoting). *)
Require Import SquidV.Bytes SquidV.TokModel SquidV.QuoteModel SquidV.QuoteProofs SquidV.PagelogModel.
Require Import SquidV.gen.ByteMaps_gen SquidV.gen.ErrMacros_gen SquidV.gen.LogQuote_gen.
Require Import ZifyBool ZifyN ZifyNat.
Ltac Zify.zify_post_hook ::= Z.div_mod_to_equations.
Local Open Scope N_scope.

(* ====================================================================== *)
(* generic: per-byte table maps without the "every element is a byte" hypothesis *)

Lemma tbl_get_oob {A} (d : A) t : forall c, lenN t <= c -> tbl_get d t c = d.
Proof.
  induction t as [|x r IH]; intros c Hc; cbn [tbl_get]; [reflexivity|].
  cbn [lenN] in Hc. destruct (c =? 0) eqn:E; [lia|]. apply IH. lia.
Qed.

Definition lt256 (c : N) : bool := c <? 256.

Lemma filter_lt256_ok s : bytes_ok (filter lt256 s).
Proof.
  induction s as [|c s IH]; cbn [filter]; [constructor|].
  destruct (lt256 c) eqn:E; [|exact IH]. constructor; [unfold lt256 in E; apply N.ltb_lt in E; exact E|exact IH].
Qed.

Lemma filter_nul_free p s : nul_free s -> nul_free (filter p s).
Proof.
  induction 1 as [|c s Hc Hs IH]; cbn [filter]; [constructor|].
  destruct (p c); [constructor; assumption|assumption].
Qed.

Lemma map_bytes_filter t s : lenN t = 256 -> map_bytes t s = map_bytes t (filter lt256 s).
Proof.
  intros Ht. induction s as [|c s IH]; [reflexivity|].
  cbn [filter]. destruct (lt256 c) eqn:E.
  - rewrite !map_bytes_cons, IH. reflexivity.
  - rewrite map_bytes_cons, IH. unfold tbl_entry. rewrite tbl_get_oob; [reflexivity|]. unfold lt256 in E. apply N.ltb_ge in E. rewrite Ht. exact E.
Qed.

(* a property of all table entries below 256 holds of the whole image, for arbitrary lists of N *)
Lemma forallb_map_bytes_any (p : N -> bool) t s : lenN t = 256 ->
  (forall c, c < 256 -> forallb p (tbl_entry t c) = true) -> forallb p (map_bytes t s) = true.
Proof.
  intros Ht H. rewrite (map_bytes_filter t s Ht). apply forallb_map_bytes; [apply filter_lt256_ok|exact H].
Qed.

Lemma forallb_concat {A} (p : A -> bool) ls : Forall (fun l => forallb p l = true) ls -> forallb p (concat ls) = true.
Proof. induction 1 as [|l ls Hl Hs IH]; [reflexivity|]. cbn [concat]. rewrite forallb_app, Hl, IH. reflexivity. Qed.

(* ====================================================================== *)
(* C33                                                                      *)

(* ---------- what "neutralised" means ---------- *)
Definition no_qmeta (b : bytes) : Prop := forallb (fun c => negb (is_quote_meta c)) b = true.
(* no < > " ' and every & starts a well-formed entity reference (QuoteProofs.html_item) *)
Definition markup_free (b : bytes) : Prop :=
  no_qmeta b /\ exists items, b = concat items /\ Forall html_item items.

Lemma html_len : lenN bm_html_quote = 256. Proof. vm_compute. reflexivity. Qed.
Lemma part_len : lenN bm_rfc1738_7 = 256. Proof. vm_compute. reflexivity. Qed.
Lemma unres_len : lenN bm_uri_unreserved = 256. Proof. vm_compute. reflexivity. Qed.

(* html_quote of an arbitrary list equals html_quote of its byte-valued part *)
Lemma html_q_filter p : html_q p = html_quote (filter lt256 (cstr p)).
Proof.
  unfold html_q, html_quote.
  rewrite (cstr_nul_free (filter lt256 (cstr p))); [|apply filter_nul_free, cstr_is_nul_free].
  apply map_bytes_filter, html_len.
Qed.

Lemma html_q_markup_free p : markup_free (html_q p).
Proof.
  rewrite html_q_filter. split.
  - apply html_quote_no_angle_or_quote, filter_lt256_ok.
  - apply html_quote_items, filter_lt256_ok.
Qed.

(* rfc1738_escape_part leaves none of < > " ' & *)
Definition plain (c : N) : bool := negb (is_html_meta c).
Lemma escape_part_plain p : forallb plain (escape_part p) = true.
Proof.
  unfold escape_part, rfc1738_escape_tbl. apply forallb_map_bytes_any; [apply part_len|].
  apply (forallb_bytes (fun c => forallb plain (tbl_entry bm_rfc1738_7 c))). vm_compute. reflexivity.
Qed.

Lemma plain_markup_free b : forallb plain b = true -> markup_free b.
Proof.
  intros H. split.
  - unfold no_qmeta. rewrite forallb_forall in *. intros c Hc. specialize (H c Hc).
    unfold plain, is_html_meta in H. unfold is_quote_meta.
    destruct (c =? 60), (c =? 62), (c =? 34), (c =? 39); cbn in *; try discriminate; reflexivity.
  - exists (map (fun c => [c]) b). split.
    + induction b as [|c b IH]; [reflexivity|]. cbn [map concat app]. f_equal. apply IH.
      cbn [forallb] in H. apply andb_prop in H. apply H.
    + induction b as [|c b IH]; cbn [map]; [constructor|].
      cbn [forallb] in H. apply andb_prop in H. destruct H as [Hc Hb].
      constructor; [|apply IH, Hb]. left. exists c. split; [reflexivity|].
      unfold plain in Hc. now destruct (is_html_meta c).
Qed.

Lemma markup_free_nil : markup_free [].
Proof. apply plain_markup_free. reflexivity. Qed.

(* Dump(): only unreserved characters, percent triplets and the two literal separators *)
Lemma unreserved_no_qmeta s : no_qmeta (uri_encode_unreserved s).
Proof.
  unfold no_qmeta, uri_encode_unreserved. apply forallb_map_bytes_any; [apply unres_len|].
  apply (forallb_bytes (fun c => forallb (fun x => negb (is_quote_meta x)) (tbl_entry bm_uri_unreserved c))).
  vm_compute. reflexivity.
Qed.

Lemma dump_no_qmeta st : no_qmeta (dump st).
Proof.
  unfold no_qmeta, dump. rewrite !forallb_app.
  rewrite (unreserved_no_qmeta s_cache_error_info), (unreserved_no_qmeta (e_page_name st)),
          (unreserved_no_qmeta (e_dump_body st)). reflexivity.
Qed.
