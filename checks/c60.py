"""C60: ICAP adaptation delivers exactly the virgin or the adapted message (end to end through the real squid)."""
import base64, concurrent.futures, importlib.util, json, os, random, time
from vlib import std, lab, common

PID = "C60"
META = {
    "text": "Theorems (Properties_C60.v, all closed under the global context) about IcapModel.v, a branch-for-branch transcription of ModXact (state.writing/parsing/sending, Preview, the two VirginBodyAct offsets, virginConsume, canStartBypass/protectGroupBypass, handle100Continue/200Ok/204NoContent/UnknownScode, prepEchoing, echoMore, parseBody, stopBackup, bypassFailure, callException, swanSong), Xaction I/O events, Launcher/Iterator::handleAdaptationError and the two consumers (ClientHttpRequest::handleAdaptationFailure, Client::handleAdaptationAborted). For ALL configurations and ALL sequences of asynchronous calls (connect, write done/failed, virgin data/end/abort, ICAP reply tokens in any segmentation, EOF, I/O stop, timeout, consumer space/abort, initiator abort), by an inductive invariant over the job: C60_icap_output_trichotomy - the bytes on the adapted body pipe are nothing while no adapted head exists, exactly the first s_off bytes of the virgin body (and no adapted payload was ever accepted) when the head is the virgin clone, exactly the adapted payload parsed from the ICAP reply when the head came from the reply, and the forwarded head is that head object (never a mixture); C60_virgin_answer_excludes_adapted_content / C60_adapted_answer_excludes_virgin_content (bypass/204 only while no adapted byte was used, and conversely); C60_delivery_trichotomy - what the HTTP side gets is a purely virgin message, a purely adapted message, the untouched virgin request (REQMOD, bypass=1, body pipe unconsumed) or an error; C60_bypass_on_thrown_failure_partial - for every state with bypass enabled, no adapted head, answer still owed and the backup usable, any exception forwards the virgin head; C60_bypass_on_failure_refuted - the bypass clause at full strength is FALSE (witness: `ICAP 200` then close inside the encapsulated HTTP head with bypass=1 ends in ERR_ICAP_FAILURE; an ICAP error status is bypassed since /repo 0ccad7c) - known findings; C60_status_dispatch / C60_writing_enum_order re-check the regenerated switch of parseIcapHead and the order of State::Writing. Tie: pipe capacity/backup limit, enum order and status switch regenerated from the source each run; the extracted model is diffed against the real squid (built from the working tree) between a scripted origin, a scripted ICAP server (lab/icap_stub.py) and a raw client on generated REQMOD/RESPMOD transactions (preview sizes around the body size, known/unknown/large bodies, 200/204/100-Continue/error status/garbage/close/reset/truncation at every stage, request satisfaction), including the advertised Preview size, ieof and Allow: 204 seen on the wire.",
    "note": "partial: the theorems are about the transcribed state machine (IcapModel.v) with reply parsing abstracted to tokens; that the event-driven proxy behaves like it, that Store/client-side/server-side relay the adapted pipe unchanged, and that a message ended nicely carries the WHOLE virgin/adapted body (body intact, 204 => complete virgin message) rest on the end-to-end correspondence and the oracle, not on a theorem; that the answer is sent at most once holds by construction of sendAnswer (initiator flag) and is not stated as a theorem. Assumed configuration: icap_persistent_connections off, icap_retry_limit 0, no 206, single service per rule. Trusted: Coq kernel, extraction, gen/icap_consts.py, vlib/lab.py, lab/icap_stub.py.",
    "technique": "Coq proof (inductive invariant over all event sequences of a transcribed job state machine; vm_compute witness for the refuted clause; regenerated dispatch table) + end-to-end differential correspondence of the extracted model against the running squid + independent oracle",
}

_spec = importlib.util.spec_from_file_location("icap_stub", os.path.join(common.VERIF, "lab", "icap_stub.py"))
icap_stub = importlib.util.module_from_spec(_spec)
_spec.loader.exec_module(icap_stub)

PREVIEWS = [None, 0, 4, 16, 64]
CAP = 65536


def svc_name(d, b, p):
    return "s%s%d%s" % ("res" if d == "resp" else "req", b, "n" if p is None else str(p))


def squid_conf(stub):
    out = ["icap_enable on", "icap_preview_enable on", "icap_preview_size 0", "icap_service_failure_limit -1",
           "icap_persistent_connections off", "icap_io_timeout 20 seconds", "icap_connect_timeout 5 seconds",
           "request_body_max_size 0"]
    for d, m, point in (("resp", "RESPMOD", "respmod_precache"), ("req", "REQMOD", "reqmod_precache")):
        for b in (0, 1):
            for p in PREVIEWS:
                name = svc_name(d, b, p)
                out.append("icap_service %s %s bypass=%d %s" % (name, point, b, stub.uri(m, p)))
                out.append("acl a_%s urlpath_regex ^/%sx" % (name, name))
                out.append("adaptation_access %s allow a_%s" % (name, name))
    return "\n".join(out)


# ------------------------------------------------------------------ bodies
def vbody_of(s):
    n = s["vlen"]
    if n > 2000:
        return lab.body_bytes(n, s["vseed"])
    r = random.Random(s["vseed"])
    return bytes(r.choice(b"abcdefghijklmnopqrstuvwxyz") for _ in range(n))


def abody_of(a):
    r = random.Random(a["aseed"])
    return bytes(r.choice(b"ABCDEFGHIJKLMNOPQRSTUVWXYZ") for _ in range(a["alen"]))


def chunk_lens(a):
    """the chunk sizes the stub will use for this 200 action"""
    sizes = a.get("chunks") or [max(a["alen"], 1)]
    out, i, k = [], 0, 0
    while i < a["alen"]:
        n = min(max(1, sizes[k % len(sizes)]), a["alen"] - i)
        k += 1
        out.append(n)
        i += n
    return out


# ------------------------------------------------------------------ generator
def gen_200(rng, direction):
    alen = rng.choice([0, 1, 2, 7, 25, 64, 65, 300]) if rng.random() < 0.6 else rng.randrange(1, 3000)
    a = {"kind": "200", "alen": alen, "aseed": rng.randrange(1 << 30), "cl": rng.random() < 0.7,
         "chunks": [rng.randrange(1, 80) for _ in range(rng.randrange(1, 5))]}
    if direction == "req" and rng.random() < 0.12:
        a["satisfy"] = True
    k = rng.random()
    if k < 0.58:
        pass
    elif k < 0.66:
        a["cut"] = ["icaphead", rng.randrange(0, 30)]
    elif k < 0.74:
        a["cut"] = ["httphead", rng.randrange(0, 25)]
    elif alen > 0 and k < 0.90:
        a["cut"] = ["body", rng.randrange(0, alen)]
    elif alen > 0:
        a["cut"] = ["nolast", 0]
    if "cut" not in a and rng.random() < 0.3:
        a["seg"] = [rng.randrange(1, 90) for _ in range(rng.randrange(1, 8))]
        a["seg_delay"] = 0.004
    return a


def gen_action(rng, direction, allow100):
    k = rng.random()
    if k < 0.22:
        return {"kind": "204"}
    if k < 0.52:
        return gen_200(rng, direction)
    if k < 0.72:
        return {"kind": "100"} if allow100 or rng.random() < 0.15 else {"kind": "204"}
    if k < 0.80:
        return {"kind": "status", "status": rng.choice([400, 404, 418, 500, 503])}
    if k < 0.89:
        return {"kind": "close"}
    if k < 0.95:
        return {"kind": "garbage"}
    return {"kind": "reset"}


def gen_one(rng, k):
    d = "resp" if rng.random() < 0.5 else "req"
    p = rng.choice(PREVIEWS)
    r = rng.random()
    if r < 0.08:
        vlen = 0
    elif r < 0.40 and p is not None:
        vlen = max(0, p + rng.choice([-1, 0, 1, 2]))
    elif r < 0.80:
        vlen = rng.randrange(1, 200)
    elif r < 0.93:
        vlen = rng.randrange(1000, 6000)
    else:
        vlen = rng.choice([CAP - 1, CAP, CAP + 1, 70000, 100000, 150000])
    s = {"dir": d, "bypass": rng.randrange(2), "preview": p, "vlen": vlen, "vseed": rng.randrange(1 << 30),
         "vknown": True if vlen == 0 else rng.random() < 0.8}
    s["first"] = gen_action(rng, d, p is not None)
    if s["first"]["kind"] == "100":
        t = gen_action(rng, d, False)
        s["then"] = t
    s["early"] = bool(p is None and 0 < vlen < 1500 and rng.random() < 0.2)
    return s


def gen_scenarios(rng, n):
    return [gen_one(rng, k) for k in range(n)]


# ------------------------------------------------------------------ model case line
def act_s(a, d):
    if a is None:
        return "204"
    k = a["kind"]
    if k in ("204", "100", "close", "garbage", "reset"):
        return k
    if k == "status":
        return "st:%d" % a["status"]
    cut = a.get("cut")
    cs = "none" if not cut else ("body=%d" % cut[1] if cut[0] == "body" else cut[0])
    return "200:%s:%s:%s" % ("res" if a.get("satisfy") or d == "resp" else "req", cs,
                             ",".join(map(str, chunk_lens(a))) or "-")


def decisive200(s):
    """the 200 action whose Content-Length matters for the client view (if any)"""
    for a in (s["first"], s.get("then")):
        if a and a["kind"] == "200":
            return a
    return None


def to_case(s):
    a = decisive200(s)
    return "icap.sim %d %d %s %d %d %s %s %d %d %d" % (
        1 if s["dir"] == "req" else 0, s["bypass"], "-" if s["preview"] is None else str(s["preview"]), s["vlen"],
        1 if s["vknown"] else 0, act_s(s["first"], s["dir"]), act_s(s.get("then"), s["dir"]), 1 if s.get("early") else 0,
        1 if (a and a["cl"]) else 0, a["alen"] if a else 0)


# ------------------------------------------------------------------ implementation side
_state = {}


def stub_action(a):
    if a is None:
        return {"kind": "204"}
    if a["kind"] != "200":
        return dict(a)
    out = {"kind": "200", "body_b64": base64.b64encode(abody_of(a)).decode(), "cl": a["cl"], "hdrs": [["X-Src", "adapted"]],
           "chunks": a.get("chunks")}
    for k in ("cut", "seg", "seg_delay", "satisfy"):
        if k in a:
            out[k] = a[k]
    return out


def chunked(b, rng):
    out = b""
    i = 0
    while i < len(b):
        n = rng.randrange(1, 4000)
        out += b"%x\r\n" % len(b[i:i + n]) + b[i:i + n] + b"\r\n"
        i += n
    return out + b"0\r\n\r\n"


def classify_msg(src, body, complete, vbody, abody):
    if src == "virgin":
        if complete and body == vbody:
            return "virgin"
        if not complete and vbody.startswith(body):
            return "trunc-virgin"
        return "mixed"
    if src == "adapted" and abody is not None:
        if complete and body == abody:
            return "adapted"
        if not complete and abody.startswith(body):
            return "trunc-adapted"
        return "mixed"
    return "mixed"


def _one(args):
    sq, org, stub, s, rid = args
    vbody = vbody_of(s)
    a = decisive200(s)
    abody = abody_of(a) if a else None
    stub.set_script(rid, {"first": stub_action(s["first"]), "then": stub_action(s.get("then")), "early": s.get("early", False)})
    total = 25 if s["vlen"] > 20000 else 12
    if s["dir"] == "resp":
        spec = {"headers": [["X-Src", "virgin"], ["Cache-Control", "no-store"]]}
        if s["vlen"] > 2000:
            spec["body_gen"] = [s["vlen"], s["vseed"]]
        else:
            spec["body_b64"] = base64.b64encode(vbody).decode()
        if not s["vknown"]:
            spec["framing"] = "chunked"
            spec["chunks"] = [1 + s["vseed"] % 3000]
        r, raw = lab.get(sq.port, org.url(spec, rid), total=total)
        if r is None:
            cls = "noreply"
        elif r.status == 500 and r.get("X-Squid-Error", "").startswith("ERR_ICAP_FAILURE"):
            cls = "error"
        elif r.status == 200:
            cls = classify_msg(r.get("X-Src"), r.body, r.complete, vbody, abody)
        else:
            cls = "other:%s" % r.status
    else:
        hs = [("X-Src", "virgin")]
        body = vbody
        if not s["vknown"]:
            hs.append(("Transfer-Encoding", "chunked"))
            body = chunked(vbody, random.Random(s["vseed"]))
        r, raw = lab.get(sq.port, org.url({"body": "origin-ok", "headers": [["X-Src", "origin"]]}, rid), method="POST", body=body,
                         headers=hs, total=total)
        arr = org.arrivals(rid)
        iserr = r is not None and r.status == 500 and r.get("X-Squid-Error", "").startswith("ERR_ICAP_FAILURE")
        if r is not None and r.status == 200 and r.get("X-Src") == "adapted" and not arr:
            cls = classify_msg("adapted", r.body, r.complete, vbody, abody)          # request satisfaction
        elif len(arr) > 1:
            cls = "mixed"
        elif len(arr) == 1:
            ah = dict((n.lower(), v) for n, v in arr[0]["headers"])
            ab = arr[0]["body"]
            complete = True
            if ab.startswith(b"<truncated-chunked>"):
                complete = False
                try:
                    ab = lab.partial_dechunk(ab[len(b"<truncated-chunked>"):])
                except Exception:
                    ab = b""
            elif "content-length" in ah and len(ab) < int(ah["content-length"]):
                complete = False
            c2 = classify_msg(ah.get("x-src"), ab, complete, vbody, abody)
            if c2 in ("virgin", "adapted"):
                if r is not None and r.status == 200 and r.body == b"origin-ok":
                    cls = c2
                elif (c2 == "adapted" and a and a.get("cut") and a["cut"][0] == "nolast" and a["cl"]
                      and (r is None or r.status >= 500 or not r.complete)):
                    # the ICAP reply lacked only the last-chunk: all Content-Length bytes of the adapted request may have
                    # reached the origin before squid aborted the transaction and answered ERR_ICAP_FAILURE (a race);
                    # purely adapted bytes, reported as a failure: the aborted class
                    cls = "error"
                else:
                    cls = "mixed"
            elif c2 in ("trunc-adapted", "trunc-virgin"):
                cls = "error" if (r is None or r.status >= 500 or not r.complete) else "mixed"
            else:
                cls = "mixed"
        elif iserr:
            cls = "error"
        elif r is None:
            cls = "noreply"
        else:
            cls = "other:%s" % r.status
    # an adapted message whose ICAP reply lacks only the last-chunk: whether the receiver sees all Content-Length bytes
    # before the abort is a race; canonicalised to the aborted class (the oracle accepts both)
    if a and a.get("cut") and a["cut"][0] == "nolast" and a["cl"] and cls == "adapted":
        cls = "error" if (s["dir"] == "req" and not a.get("satisfy")) else "trunc-adapted"
    recs = stub.records(rid)
    if len(recs) != 1:
        return "%s icap-transactions=%d" % (cls, len(recs))
    rc = recs[0]
    allow = icap_stub.hget(rc["icap_headers"], "Allow", "") or ""
    a204 = "204" in [x.strip() for x in allow.split(",")]
    return "%s pv=%s ieof=%d a204=%d" % (cls, "-" if rc["preview"] is None else rc["preview"], 1 if rc["ieof"] else 0, 1 if a204 else 0)


def run_impl(L, scenarios):
    if "sq" not in _state or not _state["sq"].alive():
        _state["stub"] = icap_stub.IcapStub()
        _state["org"] = L.origin()
        _state["sq"] = L.squid(extra_conf=squid_conf(_state["stub"]))
        _state["n"] = 0
        time.sleep(0.8)          # let the OPTIONS transactions finish
    sq, org, stub = _state["sq"], _state["org"], _state["stub"]
    jobs = []
    for s in scenarios:
        _state["n"] += 1
        jobs.append((sq, org, stub, s, "%sx%d" % (svc_name(s["dir"], s["bypass"], s["preview"]), _state["n"])))
    with concurrent.futures.ThreadPoolExecutor(max_workers=8) as ex:
        return list(ex.map(_one, jobs))


# ------------------------------------------------------------------ oracle
FAIL_KINDS = ("close", "garbage", "reset", "status")


def oracle(s, obs):
    """The property on what squid did. obs = '<class> pv=<n|-> ieof=<0|1> a204=<0|1>'.
    (1) the delivered message is the virgin one, the adapted one, an error, or a visibly incomplete prefix of one of
        them - never a mixture; (2) a 204 the service was entitled to send yields exactly the virgin message; (3) a
        complete 200 yields exactly the adapted message; (4) with bypass=1 an ICAP failure before any adapted
        content was used yields the virgin message, with bypass=0 it yields an error (never a silent fail-open);
        (5) after adapted content was used the virgin message is never delivered."""
    w = obs.split()
    cls = w[0]
    if cls == "mixed":
        return ("oracle:mixture", "the delivered message is neither the virgin nor the adapted message nor a prefix of one of them")
    if cls in ("noreply",) or cls.startswith("other") or len(w) != 4:
        return ("oracle:no-transaction", "no classifiable outcome: " + obs)
    f = dict(x.split("=") for x in w[1:])
    ieof, a204, haspv = f["ieof"] == "1", f["a204"] == "1", f["pv"] != "-"
    first, then = s["first"], s.get("then")
    dec, after100 = first, False
    if first["kind"] == "100":
        if haspv and not ieof:
            dec, after100 = then or {"kind": "204"}, True
        else:
            dec = {"kind": "unexpected-100"}          # 100 Continue without a pending preview: a protocol failure
    k = dec["kind"]
    if k == "100":
        k = "unexpected-100"
    if k == "204":
        legal = (haspv and not after100) or a204
        if legal and cls != "virgin":
            return ("oracle:204-not-virgin", "the service answered 204 (%s) but the client did not get the virgin message: %s"
                    % ("after 100 Continue" if after100 else "inside preview" if haspv else "Allow: 204", cls))
        if legal:
            return None
        k = "illegal-204"                              # a 204 the service was not entitled to send: a protocol failure
        if cls == "trunc-virgin":
            return None                                # answered with a visibly incomplete virgin message
    if cls == "trunc-virgin":
        return ("oracle:virgin-truncated", "the virgin message was delivered incomplete although the origin sent it whole")
    if k == "200" and not dec.get("cut"):
        if cls != "adapted":
            return ("oracle:200-not-adapted", "the service returned a complete adapted message but the client got: " + cls)
        return None
    if k == "200" and dec["cut"][0] in ("body", "nolast"):
        if cls == "virgin":
            return ("oracle:bypass-after-adapted-used", "the adapted head was already used, yet the virgin message was delivered")
        if cls == "adapted" and not (dec["cl"] and (dec["cut"][0] == "nolast" or dec["cut"][1] >= dec["alen"])):
            return ("oracle:truncated-adapted-looks-complete", "a truncated adapted body was delivered as a complete message")
        return None
    # an ICAP failure before any adapted content was used
    if cls in ("adapted", "trunc-adapted"):
        return ("oracle:adapted-after-failure", "no adapted message was completed by the service, yet adapted content was delivered")
    if s["bypass"]:
        if cls != "virgin":
            if k == "200":
                why = "after-200-head"
            elif after100 and not a204:
                why = "after-100-unbuffered"
            elif not haspv and not a204:
                why = "body-not-retained"
            elif k == "reset" and s["dir"] == "resp":
                why = "io-stop"
            else:
                why = k
            return ("oracle:bypass-not-honoured:" + why,
                    "bypass=1 and the ICAP failure (%s%s) happened before any adapted content was used, but the client got: %s"
                    % (k, " after 100 Continue" if after100 else "", cls))
    else:
        if cls == "virgin" and k != "illegal-204":
            return ("oracle:bypass-without-permission", "bypass=0 and the ICAP transaction failed (%s) but the virgin message was delivered" % k)
    return None


def run(res, tier):
    res.rule = ("random REQMOD (POST through squid to the origin) / RESPMOD (GET) transactions: service bypass 0/1, OPTIONS Preview "
                "none/0/4/16/64, virgin body empty / around the preview size / 1-200 / 1-6 KB / around and above the 64 KB pipe, known or "
                "unknown (chunked) length; ICAP server script: 204, 200 with a random adapted body (Content-Length or not, random "
                "chunking and TCP segmentation, optional request satisfaction) possibly truncated in the ICAP head / HTTP head / body / "
                "before the last-chunk, 100 Continue followed by any of these, error status, garbage, close, reset; non-trivial = the "
                "service did something other than a plain 204/200")
    std.run_lab(res, PID, tier, area="icap", gens=["icapconst"], gen_scenarios=gen_scenarios, run_impl=run_impl,
                to_case=to_case, oracle=oracle, corr_name="IcapModel (simulate) vs the running squid",
                n_quick=260, n_thorough=4000, seed_salt=60,
                kind_fn=lambda s, o: s["dir"] + ":" + o.split()[0],
                nontrivial_fn=lambda s, o: not (s["first"]["kind"] in ("204", "200") and not s["first"].get("cut")))
    for k in ("stub", "org"):
        try:
            _state[k].close()
        except Exception:
            pass
    _state.clear()
