"""C44: access lists decide by first match, even when checks go asynchronous."""
import random
from vlib import std, hbuild

PID = "C44"
META = {
    "text": "Theorems (Properties_C44.v) state for ALL ACL expression trees (any nesting of not / and / or / all-of / any-of nodes under an "
            "Acl::Tree with or without actions, any banned-action list) and ALL scripts of the leaf ACLs (truth value, any number of "
            "asynchronous lookups before answering, lookups that 'did not really go async', retries) that the modelled ACLChecklist "
            "state machine (matchChild breadcrumbs, goAsync/asyncStage_/asyncLoopDepth_, resumeNonBlockingCheck, matchAndFinish, "
            "calcImplicitAnswer, fastCheck) never trips an assertion, terminates, and answers exactly the recursive first-match "
            "evaluation: action of the first non-banned rule whose ACLs all match, otherwise the reversed last action (DUNNO for an "
            "empty list, DENIED for fastCheck(list)); a refused or failed lookup counts as a mismatch of that leaf. The proof shows that "
            "resuming from the breadcrumb path preserves the value of the interrupted recursion. The model is tied to the code by "
            "differential runs of the extracted model against the real src/acl/{Checklist,Tree,BoolOps,InnerNode,AllOf,AnyOf,Acl}.cc "
            "compiled from the working tree (UBSan) and driven with synthetic Acl::Node leaves following the same scripts.",
    "note": "Trusted: Coq kernel, extraction, harness/h_acltree.cc (scripted leaves and the loop that completes pending lookups), the "
            "hand-written AcltreeModel.v validated against the code on the generated cases only. The theorems allow a leaf ACL object "
            "to be shared between rules/groups only when it is synchronous (shared_leaves_sync; leaves that can start lookups must "
            "occur once); shared leaves with real lookups and shared inner groups are exercised by the correspondence. Not modelled: "
            "callerGone(), a null accessList, occupied_, ACLs that call markFinished() themselves (e.g. AUTH_REQUIRED challenges), "
            "concurrent use of one tree's mutable lastMatch_ by two checklists. Observation (not part of C44): matchChild() resets "
            "asyncLoopDepth_ on every call, so the 'async loop' limit only bounds goAsync() calls made from one match() invocation; "
            "a leaf that goes asynchronous again after each resume is never stopped.",
    "technique": "Coq proof (structural induction over the expression tree with an explicit breadcrumb-path invariant; fuel induction for "
                 "the suspend/resume loop) + extracted-model differential correspondence",
}

LINK = ("tests/stub_CachePeer.o ConfigParser.o tests/stub_HelperChildConfig.o tests/stub_HttpHeader.o "
        "tests/stub_HttpRequest.o tests/stub_MemBuf.o Parsing.o tests/stub_StatHist.o String.o tests/stub_access_log.o "
        "tests/stub_cache_cf.o tests/stub_cache_manager.o cbdata.o tests/stub_client_side.o tests/stub_debug.o dlink.o "
        "tests/stub_errorpage.o tests/stub_fatal.o globals.o tests/stub_libauth.o tests/stub_libcomm.o tests/stub_libhttp.o "
        "mem/libmem.la tests/stub_libsecurity.o tests/stub_neighbors.o auth/libacls.la acl/libapi.la acl/libstate.la "
        "acl/libacls.la anyp/libanyp.la SquidConfig.o ip/libip.la parser/libparser.la sbuf/libsbuf.la base/libbase.la "
        "tests/stub_libtime.o tests/stub_event.o ../lib/libmiscutil.la ../compat/libcompatsquid.la").split()
FRESH = ["src/acl/Checklist.cc", "src/acl/Tree.cc", "src/acl/BoolOps.cc", "src/acl/InnerNode.cc",
         "src/acl/AllOf.cc", "src/acl/AnyOf.cc", "src/acl/Acl.cc"]


def impl(sanitize="ubsan"):
    return hbuild.build("h_acltree", "h_acltree.cc", fresh=FRESH, link=LINK, sanitize=sanitize)


def prebuild():
    impl()


# ---------------------------------------------------------------- case syntax
def ser(n):
    """node = ('L', id) | (kindchar, id, [children])"""
    if n[0] == "L":
        return "L%d" % n[1]
    return "%s%d(%s)" % (n[0], n[1], ",".join(ser(c) for c in n[2]))


def parse_tree(s):
    pos = [0]

    def num():
        b = pos[0]
        while pos[0] < len(s) and s[pos[0]].isdigit():
            pos[0] += 1
        return int(s[b:pos[0]])

    def kids():
        assert s[pos[0]] == "("
        pos[0] += 1
        out = []
        if s[pos[0]] == ")":
            pos[0] += 1
            return out
        while True:
            out.append(node())
            c = s[pos[0]]
            pos[0] += 1
            if c == ")":
                return out
            assert c == ","

    def node():
        k = s[pos[0]]
        pos[0] += 1
        i = num()
        if k == "L":
            return ("L", i)
        return (k, i, kids())

    assert s[0] == "T"
    pos[0] = 1
    i = num()
    rules = kids()
    assert pos[0] == len(s)
    return i, rules


def parse_action(t):
    return ({"a": "ALLOWED", "d": "DENIED", "u": "DUNNO", "r": "AUTH_REQUIRED"}[t[0]], int(t[1:] or "0"))


def parse_case(case):
    a = case.split()
    mode = a[1]
    _, rules = parse_tree(a[2])
    acts = None if a[3] == "-" else [parse_action(t) for t in a[3].split(",")]
    bans = [] if a[4] == "-" else [parse_action(t) for t in a[4].split(",")]
    leaves = {}
    if a[5] != "-":
        for t in a[5].split(","):
            i, tr, re, at = t.split(":")
            leaves[int(i)] = (tr == "1", re == "1", "" if at == "." else at)
    return mode, rules, acts, bans, leaves


# ---------------------------------------------------------------- the property, stated independently
ALLOWANCE = 6   # goAsync() tolerates 6 consecutive calls from one match() invocation (asyncLoopDepth_ > 5 refuses)


def leaf_value(mode, truth, retry, attempts):
    """What a scripted leaf ACL is worth: its truth value once all its lookups completed; a lookup that is
    refused (fast check, loop allowance) or that fails to go asynchronous makes the leaf a mismatch, unless
    the leaf retries and the retry goes through."""
    k = 0
    for a in attempts:
        if mode != "nb" or k >= ALLOWANCE:
            return False
        if a == "R":
            k = 0
        elif retry:
            k += 1
        else:
            return False
    return truth


def holds(n, val):
    k = n[0]
    if k == "L":
        return val[n[1]]
    cs = n[2]
    if k == "!":
        return not holds(cs[0], val)
    if k == "&":
        return all(holds(c, val) for c in cs)
    if k in "|Y":
        return any(holds(c, val) for c in cs)
    if k == "A":
        return holds(cs[0], val) if cs else True
    raise ValueError(k)


def expected(case):
    mode, rules, acts, bans, leaves = parse_case(case)
    val = dict((i, leaf_value(mode, *s)) for i, s in leaves.items())
    for k, r in enumerate(rules):
        if acts is not None and acts[k] in bans:
            continue
        if holds(r, val):
            code, kind = acts[k] if acts is not None else ("ALLOWED", 0)
            return "%s %d 0" % (code, kind)
    if mode == "fastlist":
        return "DENIED 0 0"
    last = acts[-1][0] if acts else "DUNNO"
    return "%s 0 1" % {"ALLOWED": "DENIED", "DENIED": "ALLOWED"}.get(last, "DUNNO")


def oracle(case, out):
    if not case.startswith("acl.check "):
        return None
    if out.startswith(("CRASH", "EXC", "ERR")):
        return ("oracle:crash", "implementation crashed / asserted / threw: " + out[:200])
    try:
        exp = expected(case)
    except Exception as ex:
        return ("oracle:badcase", "unparsable case (%s)" % ex)
    got = " ".join(out.split()[:3])
    if got != exp:
        return ("oracle:first-match:" + case.split()[1], "first-match evaluation gives `%s`" % exp)
    return None


# ---------------------------------------------------------------- generators
class Gen:
    def __init__(self, rng, mode):
        self.rng = rng
        self.mode = mode
        self.next_inner = 2
        self.next_leaf = 100
        self.leaves = {}
        self.shareable = []   # stable leaves: value does not change when evaluated again
        self.groups = []      # inner groups built only from stable leaves

    def inner_id(self):
        self.next_inner += 1
        return self.next_inner - 1

    def script(self):
        r = self.rng
        truth = r.random() < 0.6
        k = r.random()
        if k < 0.45:
            return (truth, r.random() < 0.1, "")
        if k < 0.80:
            return (truth, r.random() < 0.1, "R" * r.choice([1, 1, 1, 2, 2, 3, 5, 9]))
        if k < 0.90:
            return (truth, False, "".join(r.choice("RRF") for _ in range(r.choice([1, 2, 3, 4]))))
        # retrying leaves, aimed at the async-loop allowance (6 consecutive calls)
        n = r.choice([1, 2, 5, 6, 6, 7, 7, 8, 13])
        s = "F" * n
        if r.random() < 0.5:
            s = s + r.choice(["R", "RF", "R" + "F" * 6, "R" + "F" * 7])
        if r.random() < 0.3:
            cut = r.randrange(len(s) + 1)
            s = s[:cut] + "R" + s[cut:]
        return (truth, True, s)

    def leaf(self):
        r = self.rng
        if self.shareable and r.random() < 0.12:
            return ("L", r.choice(self.shareable)), True
        i = self.next_leaf
        self.next_leaf += 1
        s = self.script()
        self.leaves[i] = s
        stable = all(a == "R" for a in s[2])
        if stable:
            self.shareable.append(i)
        return ("L", i), stable

    def acl(self, depth):
        """one ACL reference of a rule: a leaf or a named group, possibly negated. -> (node, stable)"""
        r = self.rng
        k = r.random()
        if depth >= 2 or k < 0.62:
            n, st = self.leaf()
        elif self.groups and k < 0.66:
            n, st = r.choice(self.groups), True
        elif k < 0.80:   # acl NAME any-of ...
            ks = [self.acl(depth + 1) for _ in range(r.choice([0, 1, 2, 2, 3, 4]))]
            n, st = ("Y", self.inner_id(), [x for x, _ in ks]), all(s for _, s in ks)
        elif k < 0.93:   # acl NAME all-of ... (one line: AllOf{AndNode}; several lines: AllOf{OrNode{AndNode...}})
            lines = []
            st = True
            for _ in range(r.choice([1, 1, 1, 2, 3])):
                ks = [self.acl(depth + 1) for _ in range(r.choice([0, 1, 2, 2, 3]))]
                st = st and all(s for _, s in ks)
                lines.append(("&", self.inner_id(), [x for x, _ in ks]))
            if r.random() < 0.04:
                n = ("A", self.inner_id(), [])
            elif len(lines) == 1:
                n = ("A", self.inner_id(), lines)
            else:
                n = ("A", self.inner_id(), [("|", self.inner_id(), lines)])
        else:            # raw operator nodes
            ks = [self.acl(depth + 1) for _ in range(r.choice([0, 1, 2, 3]))]
            n, st = (r.choice("&|"), self.inner_id(), [x for x, _ in ks]), all(s for _, s in ks)
        if n[0] != "L" and st and n not in self.groups:
            self.groups.append(n)
        if r.random() < 0.25:
            n = ("!", self.inner_id(), [n])
        return n, st

    def case(self):
        r = self.rng
        nrules = r.choice([0, 1, 1, 2, 2, 3, 3, 4, 5, 6])
        if self.mode == "fastlist":
            nrules = r.choice([0, 1, 1, 1, 1, 2])
        rules = []
        for _ in range(nrules):
            ks = [self.acl(0)[0] for _ in range(r.choice([0, 1, 1, 2, 2, 3, 4]))]
            rules.append(("&", self.inner_id(), ks) if r.random() < 0.95 else (ks[0] if ks else ("&", self.inner_id(), [])))
        k = r.random()
        if self.mode == "fastlist" and k < 0.85 or k < 0.06:
            acts = None
        elif k < 0.85:
            acts = [r.choice("ad") for _ in rules]
        else:
            acts = [r.choice(["a", "d", "a1", "a2", "d1", "a7", "u", "r", "u3"]) for _ in rules]
        bans = []
        if r.random() < 0.2:
            pool = (acts or []) + ["a", "d", "a1"]
            bans = [r.choice(pool) for _ in range(r.choice([1, 1, 2]))]
        return "acl.check %s T1(%s) %s %s %s" % (
            self.mode, ",".join(ser(x) for x in rules),
            ",".join(acts) if acts else "-",
            ",".join(bans) or "-",
            ",".join("%d:%d:%d:%s" % (i, s[0], s[1], s[2] or ".") for i, s in sorted(self.leaves.items())) or "-")


def gen_cases(rng, n):
    out = []
    for _ in range(n):
        mode = rng.choice(["nb"] * 11 + ["fast"] * 6 + ["fastlist"] * 3)
        out.append(Gen(rng, mode).case())
    return out


def mutate(rng, case):
    """a neighbouring case: change one leaf script or the mode"""
    a = case.split()
    if a[5] != "-" and rng.random() < 0.8:
        ls = a[5].split(",")
        k = rng.randrange(len(ls))
        i, tr, re, at = ls[k].split(":")
        w = rng.random()
        if w < 0.4:
            tr = "1" if tr == "0" else "0"
        elif w < 0.8:
            at = rng.choice([".", "R", "RR", "F", "RF", "FFFFFFR", "FFFFFFFR"])
        else:
            re = "1" if re == "0" else "0"
        ls[k] = ":".join([i, tr, re, at])
        a[5] = ",".join(ls)
    else:
        a[1] = rng.choice(["nb", "fast"])
    return " ".join(a)


def kind_fn(c, o):
    w = o.split()
    if len(w) < 3 or w[0] not in ("ALLOWED", "DENIED", "DUNNO", "AUTH_REQUIRED"):
        return c.split()[1] + ":other"
    susp = [x for x in w if x.startswith("susp=")]
    return "%s:%s%s%s" % (c.split()[1], w[0], ":implicit" if w[2] == "1" else "",
                          ":suspended" if susp and susp[0] != "susp=0" else "")


def norm_impl(line):
    return "CRASH" if line.startswith("CRASH") else line


def run(res, tier):
    res.rule = ("random access lists: 0..6 rules of 0..4 ACL references each (leaf, negated, any-of / all-of groups with one or "
                "several lines, raw and/or nodes, nesting <= 3, shared named ACLs/groups), allow/deny or custom actions or none, "
                "optional banned actions, x leaf scripts (truth, 0..9 real asynchronous lookups, lookups that do not really go "
                "async, retrying leaves around the 6-call async-loop allowance) x {nonBlockingCheck, fastCheck(), fastCheck(list)}; "
                "a case is non-trivial when at least one leaf ACL was evaluated")
    std.run_standard(res, PID, tier, area="acltree", build_impl=impl, gen_cases=gen_cases, oracle=oracle,
                     corr_name="AcltreeModel vs src/acl/Checklist.cc, Tree.cc, BoolOps.cc, InnerNode.cc, AllOf.cc, AnyOf.cc, Acl.cc",
                     n_quick=30000, n_thorough=400000, seed_salt=44, mutate=mutate, kind_fn=kind_fn, norm_impl=norm_impl,
                     nontrivial_fn=lambda c, o: "trace=-" not in o)
